(* Model side of the correspondence (B2): same line protocol as harness/impl_driver.cpp.
   All chess/engine logic comes from the extracted module Model; this file only converts
   between text and the extracted data types. *)
module M = Model

(* ---------- conversions ---------- *)
let rec pos_of_int (i : int) : M.positive =
  if i = 1 then M.XH else if i land 1 = 0 then M.XO (pos_of_int (i lsr 1)) else M.XI (pos_of_int (i lsr 1))
let n_of_int (i : int) : M.n = if i = 0 then M.N0 else M.Npos (pos_of_int i)
let z_of_int (i : int) : M.z = if i = 0 then M.Z0 else if i > 0 then M.Zpos (pos_of_int i) else M.Zneg (pos_of_int (-i))
let rec int_of_pos (p : M.positive) : int =
  match p with M.XH -> 1 | M.XO q -> 2 * int_of_pos q | M.XI q -> 2 * int_of_pos q + 1
let int_of_n (x : M.n) : int = match x with M.N0 -> 0 | M.Npos p -> int_of_pos p
let int_of_z (x : M.z) : int = match x with M.Z0 -> 0 | M.Zpos p -> int_of_pos p | M.Zneg p -> - (int_of_pos p)
let rec nat_of_int (i : int) : M.nat = if i <= 0 then M.O else M.S (nat_of_int (i - 1))
let rec int_of_nat (n : M.nat) : int = match n with M.O -> 0 | M.S k -> 1 + int_of_nat k

(* 64-bit values as Int64 bit patterns *)
let n_of_int64 (v : int64) : M.n =
  (* build from the most significant bit down *)
  let rec go (i : int) (acc : M.positive option) : M.positive option =
    if i < 0 then acc
    else
      let b = Int64.logand (Int64.shift_right_logical v i) 1L = 1L in
      let acc' = match acc with
        | None -> if b then Some M.XH else None
        | Some p -> Some (if b then M.XI p else M.XO p) in
      go (i - 1) acc'
  in
  match go 63 None with None -> M.N0 | Some p -> M.Npos p
let int64_of_n (x : M.n) : int64 =
  let rec go (p : M.positive) (i : int) (acc : int64) : int64 =
    if i > 63 then acc else
    match p with
    | M.XH -> Int64.logor acc (Int64.shift_left 1L i)
    | M.XO q -> go q (i + 1) acc
    | M.XI q -> go q (i + 1) (Int64.logor acc (Int64.shift_left 1L i))
  in
  match x with M.N0 -> 0L | M.Npos p -> go p 0 0L
let n_of_hex (s : string) : M.n = n_of_int64 (Int64.of_string ("0x" ^ s))
let hex_of_n (x : M.n) : string = Printf.sprintf "%Lx" (int64_of_n x)

let ascii_of_char (c : char) : M.ascii =
  let i = Char.code c in
  let b k = (i lsr k) land 1 = 1 in
  M.Ascii (b 0, b 1, b 2, b 3, b 4, b 5, b 6, b 7)
let char_of_ascii (a : M.ascii) : char =
  match a with M.Ascii (b0, b1, b2, b3, b4, b5, b6, b7) ->
    let v b k = if b then 1 lsl k else 0 in
    Char.chr (v b0 0 + v b1 1 + v b2 2 + v b3 3 + v b4 4 + v b5 5 + v b6 6 + v b7 7)
let cstr (s : string) : M.string =
  let r = ref M.EmptyString in
  for i = String.length s - 1 downto 0 do r := M.String (ascii_of_char s.[i], !r) done;
  !r
let ostr (s : M.string) : string =
  let b = Buffer.create 32 in
  let rec go = function M.EmptyString -> () | M.String (a, t) -> Buffer.add_char b (char_of_ascii a); go t in
  go s; Buffer.contents b

let kind_code = function M.Pawn -> 1 | M.Knight -> 2 | M.Bishop -> 3 | M.Rook -> 4 | M.Queen -> 5 | M.King -> 6
let kind_of_code = function 1 -> M.Pawn | 2 -> M.Knight | 3 -> M.Bishop | 4 -> M.Rook | 5 -> M.Queen | _ -> M.King

let words (s : string) : string list = List.filter (fun w -> w <> "") (String.split_on_char ' ' s)
let rest_after (line : string) (n : int) : string =
  (* the text after the first n space-separated words *)
  let len = String.length line in
  let i = ref 0 in
  for _ = 1 to n do
    while !i < len && line.[!i] = ' ' do incr i done;
    while !i < len && line.[!i] <> ' ' do incr i done
  done;
  while !i < len && line.[!i] = ' ' do incr i done;
  String.sub line !i (len - !i)

let parse_fen (fen : string) : M.position option = M.fen_parse (cstr fen)

let lcg = ref 0
let rnd (n : int) : int =
  lcg := (!lcg * 2862933555777941757 + 3037000493) land max_int;
  ((!lcg lsr 20) land 0x3fffffff) mod (max n 1)

(* ---------- ops ---------- *)
let op_slider = function
  | [k; sq; occ] ->
    let sq = n_of_int (int_of_string sq) and occ = n_of_hex occ in
    hex_of_n (match k with "B" -> M.bishop_spec occ sq | "R" -> M.rook_spec occ sq | _ -> M.queen_spec occ sq)
  | _ -> "BAD-ARGS"

let op_leaper = function
  | [k; sq] ->
    let sq = n_of_int (int_of_string sq) in
    hex_of_n (match k with "N" -> M.knight_spec sq | "K" -> M.king_spec sq
                         | "PW" -> M.pawn_attack_spec true sq | _ -> M.pawn_attack_spec false sq)
  | _ -> "BAD-ARGS"

let op_lines = function
  | [a; b] ->
    let a = n_of_int (int_of_string a) and b = n_of_int (int_of_string b) in
    hex_of_n (M.line_spec a b) ^ " " ^ hex_of_n (M.full_line_spec a b)
  | _ -> "BAD-ARGS"

let op_ray = function
  | [r; s] -> hex_of_n (M.ray_spec (List.nth M.ray_dirs (int_of_string r)) (n_of_int (int_of_string s)))
  | _ -> "BAD-ARGS"

let pi x = string_of_int (int_of_n x)

let op_enc = function
  | [f; t; p] ->
    let f = n_of_int (int_of_string f) and t = n_of_int (int_of_string t) and p = n_of_int (int_of_string p) in
    let m = if p = M.N0 then M.create_move f t else M.create_promotion f t p in
    let m2 = M.create_promotion f t p in
    String.concat " " [pi m; pi m2; pi (M.mv_from m); pi (M.mv_to m); pi (M.mv_promotion m); pi (M.mv_castling m)]
  | _ -> "BAD-ARGS"

let op_encc = function
  | [k] ->
    let m = M.create_castling (if k = "K" then M.kING_CASTLING else M.qUEEN_CASTLING) in
    String.concat " " [pi m; pi (M.mv_from m); pi (M.mv_to m); pi (M.mv_promotion m); pi (M.mv_castling m)]
  | _ -> "BAD-ARGS"

let op_dec = function
  | [m] ->
    let m = n_of_int (int_of_string m) in
    String.concat " " [pi (M.mv_from m); pi (M.mv_to m); pi (M.mv_promotion m); pi (M.mv_castling m)]
  | _ -> "BAD-ARGS"

let op_minfo = function
  | [c; cr; ep; ef; hm] ->
    let epi = int_of_string ep in
    let mi = M.create_moveinfo (n_of_int (int_of_string c)) (n_of_int (int_of_string cr))
        (if epi = 64 then None else Some (n_of_int epi)) (ef = "1") (n_of_int (int_of_string hm)) in
    String.concat " " [pi mi; pi (M.mi_captured mi); pi (M.mi_castling mi);
                       (match M.mi_last_ep mi with None -> "64" | Some s -> pi s);
                       (if M.mi_ep mi then "1" else "0"); pi (M.mi_hmc mi)]
  | _ -> "BAD-ARGS"

let uci_of (p : M.position) (m : M.move) : string = ostr (M.uci_print p m)

let with_fen (fen : string) (f : M.position -> string) : string =
  match parse_fen fen with None -> "BAD-FEN" | Some p -> f p

(* legal <fen> : count and sorted UCI strings of all legal moves *)
let op_legal (fen : string) : string =
  with_fen fen (fun p ->
      let ms = List.sort compare (List.map (uci_of p) (M.legal_moves p)) in
      string_of_int (List.length ms) ^ " " ^ String.concat " " ms)

(* valid <fen> : is the position inside the quantifier of C01 *)
let op_valid (fen : string) : string =
  with_fen fen (fun p -> if M.valid_position p then "1" else "0")


(* mate <n> <fen> : "<forced_mate_within n> <forced_loss_within n> <mating moves (mate in one)>" by the extracted rules *)
let op_mate (args : string list) (line : string) : string =
  match args with
  | n :: _ ->
    with_fen (rest_after line 2) (fun p ->
        let k = nat_of_int (int_of_string n) in
        let m1 = List.filter (fun m -> M.checkmate (M.make_move p m)) (M.legal_moves p) in
        Printf.sprintf "%d %d %s" (if M.forced_mate_within k p then 1 else 0) (if M.forced_loss_within k p then 1 else 0)
          (String.concat "," (List.sort compare (List.map (uci_of p) m1))))
  | _ -> "BAD-ARGS"


(* matem <n> <fen> : the same two answers as "mate" (forced_mate_within n / forced_loss_within n of the extracted rules),
   computed with a memo table keyed by (placement, side, rights, ep, remaining moves).  Only legal_moves, make_move and
   checkmate of the extracted rules are used; the recursion is literally that of Rules.forced_mate_within. *)
let memo_win : (string * int, bool) Hashtbl.t = Hashtbl.create 100003
let pos_key (p : M.position) : string =
  let f = ostr (M.fen_print p) in
  (* drop the two clocks *)
  match String.split_on_char ' ' f with
  | a :: b :: c :: d :: _ -> String.concat " " [a; b; c; d]
  | _ -> f
let rec win_within (n : int) (p : M.position) : bool =
  if n <= 0 then false else
    let k = (pos_key p, n) in
    match Hashtbl.find_opt memo_win k with
    | Some r -> r
    | None ->
      let r = List.exists (fun m ->
          let q = M.make_move p m in
          let lq = M.legal_moves q in
          M.checkmate q || (lq <> [] && List.for_all (fun m' -> win_within (n - 1) (M.make_move q m')) lq))
          (M.legal_moves p) in
      Hashtbl.replace memo_win k r; r
let loss_within (n : int) (p : M.position) : bool =
  let l = M.legal_moves p in
  M.checkmate p || (l <> [] && List.for_all (fun m -> win_within n (M.make_move p m)) l)
let op_matem (args : string list) (line : string) : string =
  match args with
  | n :: _ ->
    with_fen (rest_after line 2) (fun p ->
        let k = int_of_string n in
        if Hashtbl.length memo_win > 3000000 then Hashtbl.reset memo_win;
        Printf.sprintf "%d %d" (if win_within k p then 1 else 0) (if loss_within k p then 1 else 0))
  | _ -> "BAD-ARGS"


(* goparse <tokens...> : the model of Uci::go_command on the tokens of a go command *)
let op_goparse (args : string list) : string =
  let l = M.parse_go (List.map cstr args) in
  let z v = string_of_int (int_of_z v) in
  Printf.sprintf "ponder=%d wtime=%s btime=%s winc=%s binc=%s movestogo=%s depth=%s nodes=%s mate=%s movetime=%s infinite=%d searchmoves=%s clock=%d"
    (if l.M.l_ponder then 1 else 0) (z l.M.l_wtime) (z l.M.l_btime) (z l.M.l_winc) (z l.M.l_binc) (z l.M.l_movestogo) (z l.M.l_depth) (z l.M.l_nodes)
    (match l.M.l_mate with Some v -> z v | None -> "-") (z l.M.l_movetime) (if l.M.l_infinite then 1 else 0)
    (match l.M.l_searchmoves with [] -> "-" | ms -> String.concat "," (List.map ostr ms))
    (if l.M.l_clock then 1 else 0)


(* session <cmd> ; <cmd> ; ... : the extracted UCI-session state machine (Engine/UciSession.v); prints the FEN after every command.
   cmd = position startpos [moves ...] | position fen <6 fields> [moves ...] | moves ... | ucinewgame *)
let op_session (rest : string) : string =
  let parts = List.map String.trim (String.split_on_char ';' rest) in
  let parse_cmd (c : string) : M.ucmd option =
    match words c with
    | "ucinewgame" :: _ -> Some M.CNewGame
    | "moves" :: ms -> Some (M.CMoves (List.map cstr ms))
    | "position" :: "startpos" :: tl ->
      let ms = (match tl with "moves" :: ms -> ms | _ -> []) in Some (M.CPosition (None, List.map cstr ms))
    | "position" :: "fen" :: a :: b :: c2 :: d :: e :: f :: tl ->
      (match parse_fen (String.concat " " [a; b; c2; d; e; f]) with
       | None -> None
       | Some p -> let ms = (match tl with "moves" :: ms -> ms | _ -> []) in Some (M.CPosition (Some p, List.map cstr ms)))
    | _ -> None in
  let cmds = List.map parse_cmd parts in
  if List.exists (fun c -> c = None) cmds then "BAD-CMD"
  else
    let cs = List.map (function Some c -> c | None -> M.CNewGame) cmds in
    String.concat " ; " (List.map (fun p -> ostr (M.fen_print p)) (M.usession cs))


(* s2s <v> : the model of score2str *)
let op_s2s (args : string list) : string =
  match args with
  | [v] -> (match M.score2str (z_of_int (int_of_string v)) with
      | M.Cp n -> "cp " ^ string_of_int (int_of_z n)
      | M.Mate n -> "mate " ^ string_of_int (int_of_z n)
      | M.MateNeg n -> "mate -" ^ string_of_int (int_of_z n))
  | _ -> "BAD-ARGS"


let bb_words : M.n array Lazy.t = lazy (Array.of_list M.bitbase_dump)
let bb_word (i : M.n) : M.n = let a = Lazy.force bb_words in let k = int_of_n i in if k < Array.length a then a.(k) else M.N0

(* egeval <fen> : "<registry index or -1> <endgame score or NONE>" by the model of endgame.cpp *)
let op_egeval (fen : string) : string =
  with_fen fen (fun q ->
      let p = M.egp_of_position q in
      let flat = List.concat_map (fun t -> [(t, M.White); (t, M.Black)]) M.registry in
      let idx = match M.eg_find p with
        | None -> -1
        | Some (t, c) -> let rec go i = function [] -> -1 | (t', c') :: r -> if t' = t && c' = c then i else go (i + 1) r in go 0 flat in
      match M.eg_score bb_word p with
      | None -> Printf.sprintf "%d NONE" idx
      | Some v -> Printf.sprintf "%d %d" idx (int_of_z v))


(* hm <tok> ... : the model of HashMap<uint64_t, Score, 512*512> (Engine/EvalCache.v); same protocol as the harness *)
let op_hm (args : string list) : string =
  let t = ref (M.t_init (0, 0)) in
  let out = ref [] in
  List.iter (fun tok ->
      if tok = "c" then t := M.t_clear (0, 0) !t
      else match String.split_on_char ':' tok with
        | ["i"; k; mg; eg] -> t := M.t_insert !t (n_of_hex k) (int_of_string mg, int_of_string eg)
        | ["p"; k] -> let (found, (mg, eg)) = M.t_probe !t (n_of_hex k) in
          out := Printf.sprintf "%d:%d:%d" (if found then 1 else 0) mg eg :: !out
        | _ -> ()) args;
  String.concat " " (List.rev !out)


(* threats <fen> : number of quiet, non-checking moves m of the side to move after which the opponent (not in check, with
   at least 13 legal moves) faces a mate-in-one threat (found by giving the move back to the mover) *)
let op_threats (fen : string) : string =
  with_fen fen (fun p ->
      let n = ref 0 in
      List.iter (fun m ->
          if not (M.is_capture p m) then begin
            let q = M.make_move p m in
            if not (M.in_check q.M.brd q.M.stm) && List.length (M.legal_moves q) >= 13 then begin
              let q' = { q with M.stm = (match q.M.stm with M.White -> M.Black | M.Black -> M.White); M.ep = None } in
              if List.exists (fun m1 -> M.checkmate (M.make_move q' m1)) (M.legal_moves q') then incr n
            end
          end) (M.legal_moves p);
      string_of_int !n)

(* ---------- game ops: "<op> <fen> | m1 m2 ..." ; one observation per position, joined by " ; " ---------- *)
let split_game (rest : string) : string * string list =
  match String.index_opt rest '|' with
  | None -> (String.trim rest, [])
  | Some i -> (String.trim (String.sub rest 0 i), words (String.sub rest (i + 1) (String.length rest - i - 1)))

let obs_legal (p : M.position) : string =
  let ms = List.sort compare (List.map (uci_of p) (M.legal_moves p)) in
  string_of_int (List.length ms) ^ " " ^ String.concat " " ms

let obs_fen (p : M.position) : string = ostr (M.fen_print p)

let obs_uci (p : M.position) : string =
  let one m =
    let s = M.uci_print p m in
    ostr s ^ (match M.uci_parse p s with Some m2 when m2 = m -> ":1" | _ -> ":0") in
  String.concat " " (List.sort compare (List.map one (M.legal_moves p)))

let run_game (rest : string) (obs : M.position -> string) : string =
  let (fen, moves) = split_game rest in
  match parse_fen fen with
  | None -> "BAD-FEN"
  | Some p0 ->
    let b = Buffer.create 256 in
    Buffer.add_string b (obs p0);
    let p = ref p0 in
    (try
       List.iter (fun ms ->
           match M.uci_parse !p (cstr ms) with
           | None -> Buffer.add_string b " ; BAD-MOVE"; raise Exit
           | Some m -> p := M.make_move !p m; Buffer.add_string b " ; "; Buffer.add_string b (obs !p)) moves
     with Exit -> ());
    Buffer.contents b

let op_fen_rt (rest : string) : string =
  let (fen, _) = split_game rest in
  match parse_fen fen with
  | None -> "BAD-FEN"
  | Some p ->
    let f1 = M.fen_print p in
    (match M.fen_parse f1 with
     | None -> ostr f1 ^ " | BAD | 0"
     | Some q -> ostr f1 ^ " | " ^ ostr (M.fen_print q) ^ " | " ^ (if p = q then "1" else "0"))

(* ---------- engine representation (PositionRep) ---------- *)
let splitmix64 (x : int64) : int64 =
  let open Int64 in
  let x = add x 0x9e3779b97f4a7c15L in
  let x = mul (logxor x (shift_right_logical x 30)) 0xbf58476d1ce4e5b9L in
  let x = mul (logxor x (shift_right_logical x 27)) 0x94d049bb133111ebL in
  logxor x (shift_right_logical x 31)

let zt_memo : (int, M.n) Hashtbl.t = Hashtbl.create 1024
let zval (i : int) : M.n =
  match Hashtbl.find_opt zt_memo i with
  | Some v -> v
  | None -> let v = n_of_int64 (splitmix64 (Int64.of_int i)) in Hashtbl.add zt_memo i v; v
let zt : M.zobrist = {
  M.z_piece = (fun p s -> zval (int_of_n p * 64 + int_of_n s + 1));
  M.z_castling = (fun c -> zval (1000 + int_of_n c));
  M.z_side = zval 2000;
  M.z_ep = (fun f -> zval (3000 + int_of_n f)) }

let b01 b = if b then "1" else "0"
let obs_rep (s : M.rep) : string =
  let b = Buffer.create 512 in
  let add = Buffer.add_string b in
  add (pi s.M.r_side); add " "; add (pi s.M.r_hmc); add " "; add (string_of_int (int_of_z s.M.r_ply)); add " B";
  List.iter (fun pc -> add " "; add (pi pc)) s.M.r_board;
  add " L";
  List.iteri (fun i l -> if i >= 1 then begin add " ["; add (String.concat "," (List.map pi l)); add "]" end) s.M.r_lists;
  add " K";
  List.iteri (fun i v -> if i >= 1 then begin add " "; add (hex_of_n v) end) s.M.r_kind_bb;
  add " C"; List.iter (fun v -> add " "; add (hex_of_n v)) s.M.r_color_bb;
  add " R "; add (pi s.M.r_castling);
  add " E "; add (match s.M.r_ep with None -> "64" | Some e -> pi e);
  let k = s.M.r_key in
  add " Z "; add (String.concat " " (List.map hex_of_n [k.M.k_piece; k.M.k_pawn; k.M.k_ep; k.M.k_castling; k.M.k_color]));
  let h = s.M.r_hist in
  add " H "; add (string_of_int (List.length h));
  let rec take n l = if n = 0 then [] else match l with [] -> [] | x :: t -> x :: take (n - 1) t in
  List.iter (fun v -> add " "; add (hex_of_n v)) (List.rev (take 3 h));
  add " O "; add (hex_of_n (M.get_key k)); add " "; add (hex_of_n k.M.k_pawn); add " ";
  add (b01 (M.is_repeated s)); add (b01 (M.threefold s)); add (b01 (M.rule50 s)); add (b01 (M.enough_material s));
  Buffer.contents b

let run_rep_game (rest : string) : string =
  let (fen, moves) = split_game rest in
  match parse_fen fen with
  | None -> "BAD-FEN"
  | Some p0 ->
    let s = ref (M.rep_of_position zt p0) in
    let b = Buffer.create 1024 in
    Buffer.add_string b (obs_rep !s);
    (try List.iter (fun ms ->
         match M.rep_parse_uci !s (cstr ms) with
         | None -> Buffer.add_string b " ; BAD-MOVE"; raise Exit
         | Some m -> s := fst (M.do_move zt !s m); Buffer.add_string b " ; "; Buffer.add_string b (obs_rep !s)) moves
     with Exit -> ());
    Buffer.contents b

let op_walk (rest : string) : string =
  let (fen, toks) = split_game rest in
  match parse_fen fen with
  | None -> "BAD-FEN"
  | Some p0 ->
    let s = ref (M.rep_of_position zt p0) in
    let st = ref [] in
    let b = Buffer.create 1024 in
    Buffer.add_string b (obs_rep !s);
    (try List.iter (fun t ->
         (match t with
          | "u" | "un" ->
            (match !st with
             | [] -> Buffer.add_string b " ; EMPTY"; raise Exit
             | (m, mi) :: r -> st := r;
               s := if t = "u" then M.undo_move zt !s m mi else M.undo_null_move zt !s mi)
          | "n" -> let (s', mi) = M.do_null_move zt !s in s := s'; st := (M.N0, mi) :: !st
          | _ ->
            (match M.rep_parse_uci !s (cstr t) with
             | None -> Buffer.add_string b " ; BAD-MOVE"; raise Exit
             | Some m -> let (s', mi) = M.do_move zt !s m in s := s'; st := (m, mi) :: !st));
         Buffer.add_string b " ; "; Buffer.add_string b (obs_rep !s)) toks
     with Exit -> ());
    Buffer.contents b

(* walk_all <fen> | toks : the observers legal / san / classify / fen on the position represented after EVERY step of a make /
   unmake / null-move script (the rep model walks, rep_abs reads the position off it) *)
let rec op_walk_obs ?(only_after_do = false) (rest : string) (obs : M.position -> string) : string = op_walk_rep ~only_after_do rest (fun s -> obs (M.rep_abs s))
and op_walk_rep ?(only_after_do = false) (rest : string) (obs : M.rep -> string) : string =
  let (fen, toks) = split_game rest in
  match parse_fen fen with
  | None -> "BAD-FEN"
  | Some p0 ->
    let s = ref (M.rep_of_position zt p0) in
    let st = ref [] in
    let b = Buffer.create 1024 in
    Buffer.add_string b (obs !s);
    (try List.iter (fun t ->
         (match t with
          | "u" | "un" ->
            (match !st with
             | [] -> Buffer.add_string b " ; EMPTY"; raise Exit
             | (m, mi) :: r -> st := r;
               s := if t = "u" then M.undo_move zt !s m mi else M.undo_null_move zt !s mi)
          | "n" -> let (s', mi) = M.do_null_move zt !s in s := s'; st := (M.N0, mi) :: !st
          | _ ->
            (match M.rep_parse_uci !s (cstr t) with
             | None -> Buffer.add_string b " ; BAD-MOVE"; raise Exit
             | Some m -> let (s', mi) = M.do_move zt !s m in s := s'; st := (m, mi) :: !st));
         Buffer.add_string b " ; "; Buffer.add_string b (if only_after_do && (t = "u" || t = "un") then "-" else obs !s)) toks
     with Exit -> ());
    Buffer.contents b

(* ---------- C04 keys (model: incremental key of the rep, key from scratch) ---------- *)
let fen4 (p : M.position) : string =
  let f = ostr (M.fen_print p) in
  let ws = String.split_on_char ' ' f in
  match ws with a :: b :: c :: d :: _ -> String.concat " " [a; b; c; d] | _ -> f

let run_key_game (rest : string) : string =
  let (fen, moves) = split_game rest in
  match parse_fen fen with
  | None -> "BAD-FEN"
  | Some p0 ->
    let s = ref (M.rep_of_position zt p0) in
    let b = Buffer.create 1024 in
    let obs () =
      let sk = M.scratch_key zt !s in
      fen4 (M.rep_abs !s) ^ " | " ^ hex_of_n (M.get_key !s.M.r_key) ^ " " ^ hex_of_n !s.M.r_key.M.k_pawn ^ " "
      ^ hex_of_n (M.get_key sk) ^ " " ^ hex_of_n sk.M.k_pawn in
    Buffer.add_string b (obs ());
    (try List.iter (fun ms ->
         match M.rep_parse_uci !s (cstr ms) with
         | None -> Buffer.add_string b " ; BAD-MOVE"; raise Exit
         | Some m -> s := fst (M.do_move zt !s m); Buffer.add_string b " ; "; Buffer.add_string b (obs ())) moves
     with Exit -> ());
    Buffer.contents b

(* ---------- C07 predicates from the rules-level history ---------- *)
let run_preds_game (rest : string) : string =
  let (fen, moves) = split_game rest in
  match parse_fen fen with
  | None -> "BAD-FEN"
  | Some p0 ->
    let h = ref [p0] in
    let b = Buffer.create 256 in
    let obs () =
      let p = List.hd !h in
      b01 (M.in_check p.M.brd p.M.stm) ^ b01 (M.checkmate p) ^ b01 (M.stalemate p) ^ b01 (M.occurred_before !h)
      ^ b01 (M.occurred_three_times !h) ^ b01 (M.fifty_moves p) ^ b01 (M.insufficient_material p.M.brd) in
    Buffer.add_string b (obs ());
    (try List.iter (fun ms ->
         let p = List.hd !h in
         match M.uci_parse p (cstr ms) with
         | None -> Buffer.add_string b " ; BAD-MOVE"; raise Exit
         | Some m -> h := M.make_move p m :: !h; Buffer.add_string b " ; "; Buffer.add_string b (obs ())) moves
     with Exit -> ());
    Buffer.contents b

(* walkgen <seed> <steps> <maxdepth> <fen> : a random nested make/unmake script (tokens for op walk) *)
let op_walkgen (args : string list) (line : string) : string =
  match args with
  | seed :: steps :: maxd :: _ ->
    lcg := int_of_string seed * 104729 + 3;
    let maxd = int_of_string maxd in
    (match parse_fen (rest_after line 4) with
     | None -> "BAD-FEN"
     | Some p0 ->
       (* stack of (position, was_null) *)
       let st = ref [] and p = ref p0 and out = ref [] in
       let last_null = ref false in
       for _ = 1 to int_of_string steps do
         let depth = List.length !st in
         let r = rnd 100 in
         let ms = M.legal_moves !p in
         if (r < 40 || ms = [] || depth >= maxd) && depth > 0 then begin
           (match !st with
            | (q, was_null) :: rest -> out := (if was_null then "un" else "u") :: !out; p := q; st := rest
            | [] -> ());
           last_null := false
         end else if r < 52 && not !last_null && not (M.in_check !p.M.brd !p.M.stm) && depth < maxd then begin
           (* null move: side flips, ep cleared, clock+1 *)
           st := (!p, true) :: !st;
           out := "n" :: !out;
           p := { !p with M.stm = (match !p.M.stm with M.White -> M.Black | M.Black -> M.White); M.ep = None };
           last_null := true
         end else if ms <> [] && depth < maxd then begin
           let special m =
             (match m with M.Castle _ -> true | M.Normal (_, _, Some _) -> true | _ -> false) || M.is_capture !p m in
           let pool = if rnd 10 < 5 then (match List.filter special ms with [] -> ms | l -> l) else ms in
           let m = List.nth pool (rnd (List.length pool)) in
           st := (!p, false) :: !st;
           out := uci_of !p m :: !out;
           p := M.make_move !p m;
           last_null := false
         end
       done;
       (* unwind *)
       List.iter (fun (_, was_null) -> out := (if was_null then "un" else "u") :: !out) !st;
       String.concat " " (List.rev !out))
  | _ -> "BAD-ARGS"

(* ---------- C15 classification ---------- *)
let obs_classify (p : M.position) : string =
  let one m = uci_of p m ^ ":" ^ b01 (M.quiet_spec p m) ^ b01 (M.captures_spec p m) ^ b01 (M.gives_check_spec p m) in
  String.concat " " (List.sort compare (List.map one (M.legal_moves p)))

(* the algorithmic model of the three predicates over the engine representation *)
let obs_classify_alg (p : M.position) : string =
  let s = M.rep_of_position zt p in
  let one m =
    let c = M.enc m in
    uci_of p m ^ ":" ^ b01 (M.move_is_quiet_alg s c) ^ b01 (M.move_is_capture_alg s c) ^ b01 (M.move_gives_check_alg s c) in
  String.concat " " (List.sort compare (List.map one (M.legal_moves p)))

(* ---------- C17 SAN ---------- *)
let obs_san (p : M.position) : string =
  let one m =
    let s = M.san_print p m in
    uci_of p m ^ ":" ^ ostr s ^ ":" ^ (match M.san_parse p s with Some m2 when m2 = m -> "1" | _ -> "0") in
  String.concat " " (List.sort compare (List.map one (M.legal_moves p)))

let op_san_parse (rest : string) : string =
  let (fen, strs) = split_game rest in
  match parse_fen fen with
  | None -> "BAD-FEN"
  | Some p ->
    String.concat " " (List.map (fun s -> match M.san_parse p (cstr s) with None -> "-" | Some m -> uci_of p m) strs)

(* san_line s1 s2 ... : replay SAN tokens from the start position; prints the FEN before each token *)
let op_san_line (toks : string list) : string =
  let p = ref M.initial_position in
  let out = ref [] in
  (try List.iter (fun t ->
       out := ostr (M.fen_print !p) :: !out;
       match M.san_parse !p (cstr t) with
       | None -> raise Exit
       | Some m -> p := M.make_move !p m) toks
   with Exit -> ());
  String.concat " ; " (List.rev !out)

(* ---------- C18 / C19 Polyglot ---------- *)
let op_pghash (rest : string) : string =
  let (fen, _) = split_game rest in
  with_fen fen (fun p -> hex_of_n (M.pg_spec_hash p))
let op_pghash_alg (rest : string) : string =
  let (fen, _) = split_game rest in
  with_fen fen (fun p -> hex_of_n (M.pg_engine_hash (M.rep_of_position zt p)))

let bytes_of_hex (hb : string) : M.n list =
  let n = String.length hb / 2 in
  List.init n (fun i -> n_of_int (int_of_string ("0x" ^ String.sub hb (2 * i) 2)))

let op_book (args : string list) : string =
  match args with
  | hb :: _ ->
    let es = M.read_book (bytes_of_hex (if hb = "-" then "" else hb)) in
    let keys = List.sort_uniq (fun a b -> compare (Int64.sub (int64_of_n a) Int64.min_int) (Int64.sub (int64_of_n b) Int64.min_int))
        (List.map (fun e -> e.M.e_key) es) in
    string_of_int (List.length keys) ^
    String.concat "" (List.map (fun k ->
        " " ^ hex_of_n k ^ ":" ^ String.concat "," (List.map (fun (m, w) -> pi m ^ "/" ^ pi w) (M.lookup es k))) keys)
  | _ -> "BAD-ARGS"

(* pickm <draws,hex,...> | w1 w2 ... : the model's choice for each draw, and the best index *)
let op_pickm (rest : string) : string =
  let (ds, ws) = split_game rest in
  let l = List.mapi (fun i w ->
      let from = i mod 64 and too = 63 - (i mod 64) in
      (M.create_promotion (n_of_int from) (n_of_int too) M.N0, n_of_int (int_of_string w))) ws in
  let mv i = match List.nth_opt l (int_of_nat i) with Some (m, _) -> pi m | None -> "OOB" in
  let one d = match M.random_index l (n_of_hex d) with None -> d ^ ":0" | Some i -> d ^ ":" ^ mv i in
  String.concat " " (List.map one (words ds)) ^ (if ds = "" then "" else " ") ^ "best:" ^ mv (M.best_index l)

let op_pgdecode (rest : string) : string =
  let (fen, codes) = split_game rest in
  with_fen fen (fun p ->
      let s = M.rep_of_position zt p in
      String.concat " " (List.map (fun c -> pi (M.decode_move (n_of_int (int_of_string c)) (fun sq -> M.piece_at s sq))) codes))

(* ---------- C12 KPK: the model of normalize/getIndex/check over the dumped table ---------- *)
let op_kpkraw (args : string list) : string =
  match args with
  | [strong; stm; pawn] ->
    let pawn = n_of_int (int_of_string pawn) in
    let b = Buffer.create 4096 in
    for sk = 0 to 63 do
      for wk = 0 to 63 do
        let r =
          if strong = "0" then
            M.engine_W bb_word { M.k_btm = (stm = "1"); M.k_wk = n_of_int sk; M.k_wp = pawn; M.k_bk = n_of_int wk }
          else
            (* strong side Black: white to move <-> stm = 0 *)
            M.engine_W_black bb_word (stm = "0") (n_of_int sk) pawn (n_of_int wk) in
        Buffer.add_char b (if r then '1' else '0')
      done
    done;
    Buffer.contents b
  | _ -> "BAD-ARGS"


(* kpkeval <strong> <stm> <pawn> : 'W'/'D' for legal placements (per the spec's kpk_legal after the engine's
   normalisation), '-' otherwise *)
let op_kpkeval (args : string list) : string =
  match args with
  | [strong; stm; pawn] ->
    let pawn = int_of_string pawn in
    let b = Buffer.create 4096 in
    let fv s = s lxor 56 in
    for sk = 0 to 63 do
      for wk = 0 to 63 do
        let p =
          if strong = "0" then
            { M.k_btm = (stm = "1"); M.k_wk = n_of_int sk; M.k_wp = n_of_int pawn; M.k_bk = n_of_int wk }
          else
            { M.k_btm = (stm = "0"); M.k_wk = n_of_int (fv sk); M.k_wp = n_of_int (fv pawn); M.k_bk = n_of_int (fv wk) } in
        Buffer.add_char b (if not (M.kpk_legal p) then '-' else if M.engine_W bb_word p then 'W' else 'D')
      done
    done;
    Buffer.contents b
  | _ -> "BAD-ARGS"

(* kpksolve : solve the KPK game from the SPEC (least fixed point by iteration) and list the placements
   where the engine's table disagrees with the truth.  Used as the counterexample search of C12. *)
let kpk_index (p : M.kpk) : int =
  int_of_n p.M.k_wk + 64 * int_of_n p.M.k_bk + (if p.M.k_btm then 4096 else 0)
  + 8192 * (int_of_n p.M.k_wp land 7) + 65536 * ((int_of_n p.M.k_wp lsr 3) - 1)
let kpk_of_idx (i : int) : M.kpk =
  { M.k_wk = n_of_int (i land 63); M.k_bk = n_of_int ((i lsr 6) land 63); M.k_btm = ((i lsr 12) land 1 = 1);
    M.k_wp = n_of_int (((i lsr 13) land 7) + 8 * ((i lsr 16) + 1)) }
let sqname (s : int) : string = Printf.sprintf "%c%c" (Char.chr (97 + s land 7)) (Char.chr (49 + s lsr 3))
let op_kpksolve () : string =
  let n = 393216 in
  let legal = Array.make n false and kids = Array.make n [||] and winnow = Array.make n false
  and save = Array.make n false and btm = Array.make n false in
  for i = 0 to n - 1 do
    let p = kpk_of_idx i in
    if M.kpk_legal p then begin
      legal.(i) <- true;
      btm.(i) <- p.M.k_btm;
      kids.(i) <- Array.of_list (List.map kpk_index (M.kpk_moves p));
      winnow.(i) <- M.kpk_win_now p;
      save.(i) <- M.kpk_save_now p
    end
  done;
  let win = Array.make n false in
  let changed = ref true in
  while !changed do
    changed := false;
    for i = 0 to n - 1 do
      if legal.(i) && not win.(i) then begin
        let w =
          if not btm.(i) then winnow.(i) || Array.exists (fun q -> win.(q)) kids.(i)
          else (not save.(i)) && Array.length kids.(i) > 0 && Array.for_all (fun q -> win.(q)) kids.(i) in
        if w then begin win.(i) <- true; changed := true end
      end
    done
  done;
  let diffs = ref [] and nd = ref 0 and nlegal = ref 0 and nwin = ref 0 in
  for i = 0 to n - 1 do
    if legal.(i) then begin
      incr nlegal; if win.(i) then incr nwin;
      let e = M.engine_W bb_word (kpk_of_idx i) in
      if e <> win.(i) then begin
        incr nd;
        if !nd <= 12 then begin
          let p = kpk_of_idx i in
          diffs := Printf.sprintf "wK=%s,P=%s,bK=%s,%s:engine=%b,truth=%b" (sqname (int_of_n p.M.k_wk)) (sqname (int_of_n p.M.k_wp))
              (sqname (int_of_n p.M.k_bk)) (if p.M.k_btm then "b" else "w") e win.(i) :: !diffs
        end
      end
    end
  done;
  Printf.sprintf "legal=%d won=%d wrong=%d %s" !nlegal !nwin !nd (String.concat " " (List.rev !diffs))


(* ---------- C20: time allocation; the extracted generic model instantiated with native binary64 ---------- *)
let imp_table : float array ref = ref [||]
let imp_native (x : float) : float = Float.max ((1. +. exp ((x -. 64.5) /. 6.85)) ** (-0.171)) 0.01
let op_impset (args : string list) : string =
  imp_table := Array.of_list (List.map float_of_string args); "ok " ^ string_of_int (Array.length !imp_table)
let op_imptable (args : string list) : string =
  match args with
  | [n] -> String.concat " " (List.init (int_of_string n) (fun x -> Printf.sprintf "%h" (imp_native (float_of_int x))))
  | _ -> "BAD-ARGS"
let op_time (args : string list) : string =
  match List.map int_of_string args with
  | t :: inc :: mtg :: ply :: _ ->
    let imp (x : M.z) : float =
      let i = int_of_z x in
      if i >= 0 && i < Array.length !imp_table then (!imp_table).(i) else imp_native (float_of_int i) in
    let r = M.calculate (fun z -> float_of_int (int_of_z z)) ( *. ) ( +. ) ( /. ) (fun f -> z_of_int (int_of_float f)) imp 0.0 0.7
        (z_of_int t) (z_of_int inc) (z_of_int mtg) (z_of_int ply) in
    string_of_int (int_of_z r)
  | _ -> "BAD-ARGS"


(* ---------- C05/C09: replay of the iteration driver ----------
   drive <search_depth> <stop0 0/1> <root0 code or -1> | v,pv0,stop;... | brk bits | tbrk bits
   prints: C d a b ; I d v pv0 ; ... ; B best   (pv0 / best = -1 for none) *)
let op_drive (line : string) : string =
  let secs = List.map String.trim (String.split_on_char '|' line) in
  match secs with
  | [hd; roots; brk; tbrk] ->
    let hd = List.filter (fun s -> s <> "") (String.split_on_char ' ' hd) in
    (match hd with
     | [_; sd; stop0; root0] ->
       let omove i = if i < 0 then None else Some (z_of_int i) in
       let roots = if roots = "-" || roots = "" then [] else
           List.map (fun s -> match String.split_on_char ',' s with
               | [v; pv0; st] -> { M.r_val = z_of_int (int_of_string v); M.r_pv0 = omove (int_of_string pv0); M.r_stop = (st = "1") }
               | _ -> failwith "bad root") (String.split_on_char ';' roots) in
       let bits s = if s = "-" then [] else List.init (String.length s) (fun i -> s.[i] = '1') in
       let root0 = int_of_string root0 in
       let rm = if root0 < 0 then [] else [z_of_int root0] in
       (match M.go (z_of_int (int_of_string sd)) (nat_of_int 100000) (nat_of_int 200) rm (stop0 = "1") roots (bits brk) (bits tbrk) with
        | None -> "STUCK"
        | Some (best, ev) ->
          let om = function None -> "-1" | Some z -> string_of_int (int_of_z z) in
          String.concat " ; " (List.map (function
              | M.ECall (d, a, b) -> Printf.sprintf "C %d %d %d" (int_of_z d) (int_of_z a) (int_of_z b)
              | M.EInfo (d, v, pv0) -> Printf.sprintf "I %d %d %s" (int_of_z d) (int_of_z v) (om pv0)) ev
              @ ["B " ^ om best]))
     | _ -> "BAD-ARGS")
  | _ -> "BAD-ARGS"

(* ---------- model-driven random games ---------- *)

(* playout <seed> <plies> <bias> <fen> : random legal game; bias (0..9) favours special moves *)
let op_playout (args : string list) (line : string) : string =
  match args with
  | seed :: plies :: bias :: _ ->
    lcg := int_of_string seed * 7919 + 17;
    let bias = int_of_string bias in
    (match parse_fen (rest_after line 4) with
     | None -> "BAD-FEN"
     | Some p0 ->
       let p = ref p0 and out = ref [] in
       (try
          for _ = 1 to int_of_string plies do
            let ms = M.legal_moves !p in
            if ms = [] then raise Exit;
            (* FIDE 9.6.2: after 75 moves without capture or pawn move the game is over *)
            if int_of_z !p.M.clock >= 150 then raise Exit;
            let special m =
              (match m with M.Castle _ -> true | M.Normal (_, _, Some _) -> true | _ -> false)
              || M.is_capture !p m
              || (let q = M.make_move !p m in q.M.ep <> None || M.in_check q.M.brd q.M.stm) in
            let pool = if rnd 10 < bias then (match List.filter special ms with [] -> ms | l -> l) else ms in
            let m = List.nth pool (rnd (List.length pool)) in
            out := uci_of !p m :: !out;
            p := M.make_move !p m
          done
        with Exit -> ());
       String.concat " " (List.rev !out))
  | _ -> "BAD-ARGS"

let dispatch (line : string) : string =
  match words line with
  | [] -> ""
  | op :: args ->
    (match op with
     | "slider" -> op_slider args
     | "leaper" -> op_leaper args
     | "lines" -> op_lines args
     | "ray" -> op_ray args
     | "enc" -> op_enc args
     | "encc" -> op_encc args
     | "dec" -> op_dec args
     | "minfo" -> op_minfo args
     | "legal" -> op_legal (rest_after line 1)
     | "valid" -> op_valid (rest_after line 1)
     | "mate" -> op_mate args line
     | "matem" -> op_matem args line
     | "goparse" -> op_goparse args
     | "session" -> op_session (rest_after line 1)
     | "threats" -> op_threats (rest_after line 1)
     | "hm" -> op_hm args
     | "egeval" -> op_egeval (rest_after line 1)
     | "s2s" -> op_s2s args
     | "g_legal" -> run_game (rest_after line 1) obs_legal
     | "g_fen" -> run_game (rest_after line 1) obs_fen
     | "g_uci" -> run_game (rest_after line 1) obs_uci
     | "fen_rt" -> op_fen_rt (rest_after line 1)
     | "playout" -> op_playout args line
     | "g_rep" -> run_rep_game (rest_after line 1)
     | "walk" -> op_walk (rest_after line 1)
     | "g_key" -> run_key_game (rest_after line 1)
     | "pghash" -> op_pghash (rest_after line 1)
     | "kpkraw" -> op_kpkraw args
     | "drive" -> op_drive line
     | "impset" -> op_impset args
     | "imptable" -> op_imptable args
     | "time" -> op_time args
     | "kpkeval" -> op_kpkeval args
     | "kpksolve" -> op_kpksolve ()
     | "pghash_alg" -> op_pghash_alg (rest_after line 1)
     | "book" -> op_book args
     | "pickm" -> op_pickm (rest_after line 1)
     | "pgdecode" -> op_pgdecode (rest_after line 1)
     | "g_san" -> run_game (rest_after line 1) obs_san
     | "san_parse" -> op_san_parse (rest_after line 1)
     | "san_line" -> op_san_line args
     | "g_classify" -> run_game (rest_after line 1) obs_classify
     | "g_classify_alg" -> run_game (rest_after line 1) obs_classify_alg
     | "g_preds" -> run_preds_game (rest_after line 1)
     | "walkgen" -> op_walkgen args line
     | "walk_preds" | "walk_preds_do" -> op_walk_rep ~only_after_do:(op = "walk_preds_do") (rest_after line 1) (fun s ->
         let p = M.rep_abs s in
         b01 (M.in_check p.M.brd p.M.stm) ^ b01 (M.checkmate p) ^ b01 (M.stalemate p) ^ b01 (M.is_repeated s)
         ^ b01 (M.threefold s) ^ b01 (M.rule50 s) ^ b01 (not (M.enough_material s)))
     | "walk_san" | "walk_san_do" -> op_walk_obs ~only_after_do:(op = "walk_san_do") (rest_after line 1) obs_san
     | "walk_legal" | "walk_legal_do" -> op_walk_obs ~only_after_do:(op = "walk_legal_do") (rest_after line 1) obs_legal
     | "walk_classify" | "walk_classify_do" -> op_walk_obs ~only_after_do:(op = "walk_classify_do") (rest_after line 1) obs_classify
     | "walk_all" -> op_walk_obs (rest_after line 1) (fun p -> obs_legal p ^ " S " ^ obs_san p ^ " C " ^ obs_classify p ^ " F " ^ obs_fen p)
     | _ -> "UNKNOWN-OP " ^ op)

let () =
  try
    while true do
      let line = input_line stdin in
      let out = try dispatch line with e -> "EXC " ^ Printexc.to_string e in
      print_string out; print_char '\n'
    done
  with End_of_file -> flush stdout
