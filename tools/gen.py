"""B1 translator driver: regenerate coq/Gen/*.v from /repo's working tree."""
import os
from vlib import *

GEN_KINDS = {
    "magic": "MagicData.v",
    "polyglot": "PolyglotData.v",
    "bitbase": "BitbaseDump.v",
    "consts": "Consts.v",
    "layout": "Layout.v",
    "evalconsts": "EvalConsts.v",
}


def gen(kinds):
    exe = harness("dumper", exclude=("polyglot.o", "endgame.o"))
    changed = []
    for k in kinds:
        rc, o, e = sh([exe, k], timeout=120)
        if rc != 0:
            raise BuildError("dumper %s failed rc=%d: %s" % (k, rc, e[-2000:]))
        if write_if_changed(os.path.join(GEN, GEN_KINDS[k]), o):
            changed.append(k)
    return changed
