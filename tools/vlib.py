"""Shared machinery for the chessplusplus Coq verification checks.

Everything is rebuilt from /repo's *working tree*: engine objects are cached under
/verif/.build/<tree-hash>/<flavor>/, generated Coq files under /verif/coq/Gen are rewritten
only when their content changes (so `make` re-checks exactly what depends on them).
"""
import fcntl
import hashlib
import json
import os
import random
import re
import shutil
import subprocess
import sys
import time

VERIF = os.path.dirname(os.path.dirname(os.path.abspath(__file__)))
REPO = os.environ.get("VERIF_REPO", "/repo")
BUILD = os.path.join(VERIF, ".build")
COQ = os.path.join(VERIF, "coq")
GEN = os.path.join(COQ, "Gen")
EVID = os.path.join(VERIF, "evidence")
REPLAYS = os.path.join(VERIF, "replays")
NPROC = os.cpu_count() or 4
GUARD = "CHESSPP_VERIF"

FLAVORS = {
    # name: (compiler, flags)
    "plain": ("g++", ["-O1", "-g", "-DNDEBUG", "-DLOG_LEVEL=0", "-D" + GUARD]),
    "asan": ("g++", ["-O1", "-g", "-DNDEBUG", "-DLOG_LEVEL=0", "-D" + GUARD,
                     "-fsanitize=address,undefined", "-fno-sanitize-recover=all",
                     "-fno-omit-frame-pointer"]),
    "tsan": ("g++", ["-O1", "-g", "-DNDEBUG", "-DLOG_LEVEL=0", "-D" + GUARD,
                     "-fsanitize=thread"]),
    # the repository's own optimisation flags (fast-math matters for C20)
    "ofast": ("g++", ["-Ofast", "-march=native", "-mtune=native", "-DNDEBUG", "-DLOG_LEVEL=0",
                      "-D" + GUARD]),
    # strict IEEE for the C20 exact correspondence
    "ieee": ("g++", ["-O1", "-ffp-contract=off", "-DNDEBUG", "-DLOG_LEVEL=0", "-D" + GUARD]),
}


def log(*a):
    print(*a, file=sys.stderr, flush=True)


def sh(cmd, timeout=None, cwd=None, env=None, input=None, check=False):
    """Run a command, return (rc, stdout, stderr)."""
    try:
        p = subprocess.run(cmd, cwd=cwd, env=env, input=input, timeout=timeout,
                           stdout=subprocess.PIPE, stderr=subprocess.PIPE, text=True,
                           shell=isinstance(cmd, str))
    except subprocess.TimeoutExpired as e:
        return 124, (e.stdout or b"").decode("utf8", "replace") if isinstance(e.stdout, bytes) else (e.stdout or ""), "TIMEOUT"
    if check and p.returncode != 0:
        raise RuntimeError("command failed: %s\n%s\n%s" % (cmd, p.stdout[-4000:], p.stderr[-4000:]))
    return p.returncode, p.stdout, p.stderr


class Lock:
    def __init__(self, name):
        os.makedirs(BUILD, exist_ok=True)
        self.path = os.path.join(BUILD, name + ".lock")

    def __enter__(self):
        self.f = open(self.path, "w")
        fcntl.flock(self.f, fcntl.LOCK_EX)
        return self

    def __exit__(self, *a):
        fcntl.flock(self.f, fcntl.LOCK_UN)
        self.f.close()


# ----------------------------------------------------------------------------- tree hash

def _files_for_hash():
    out = []
    for d in ("engine", "tools/regression"):
        p = os.path.join(REPO, d)
        if os.path.isdir(p):
            for f in sorted(os.listdir(p)):
                fp = os.path.join(p, f)
                if os.path.isfile(fp) and not f.endswith(".eco"):
                    out.append(fp)
    for f in ("CMakeLists.txt", "chessplusplusConfig.h.in"):
        fp = os.path.join(REPO, f)
        if os.path.isfile(fp):
            out.append(fp)
    return out


_tree_hash = None


def tree_hash():
    global _tree_hash
    if _tree_hash is None:
        h = hashlib.sha256()
        for fp in _files_for_hash():
            h.update(fp.encode())
            with open(fp, "rb") as f:
                h.update(f.read())
        _tree_hash = h.hexdigest()[:16]
    return _tree_hash


def file_hash(paths):
    h = hashlib.sha256()
    for fp in paths:
        h.update(os.path.basename(fp).encode())
        with open(fp, "rb") as f:
            h.update(f.read())
    return h.hexdigest()[:16]


def _prune_build():
    """Keep at most two tree hashes under .build (disk is limited)."""
    try:
        ds = [d for d in os.listdir(BUILD) if re.fullmatch(r"[0-9a-f]{16}", d)]
    except FileNotFoundError:
        return
    ds.sort(key=lambda d: os.path.getmtime(os.path.join(BUILD, d)))
    cur = tree_hash()
    ds = [d for d in ds if d != cur]
    while len(ds) > 1:
        shutil.rmtree(os.path.join(BUILD, ds.pop(0)), ignore_errors=True)


# ----------------------------------------------------------------------------- C++ builds

def config_header(dirpath):
    """chessplusplusConfig.h as CMake's configure_file would write it."""
    src = os.path.join(REPO, "chessplusplusConfig.h.in")
    txt = open(src).read()
    ver = "0.0.0"
    m = re.search(r"project\(\s*(\w+)\s+VERSION\s+([0-9.]+)", open(os.path.join(REPO, "CMakeLists.txt")).read())
    name = "chessplusplus"
    if m:
        name, ver = m.group(1), m.group(2)
    parts = (ver.split(".") + ["", "", "", ""])[:4]
    txt = txt.replace("@PROJECT_NAME@", name).replace("@chessplusplus_VERSION@", ver)
    for k, v in zip(("MAJOR", "MINOR", "PATCH", "TWEAK"), parts):
        txt = txt.replace("@chessplusplus_%s@" % k, v)
    with open(os.path.join(dirpath, "chessplusplusConfig.h"), "w") as f:
        f.write(txt)


def engine_objects(flavor="plain"):
    """Compile /repo/engine/*.cpp (working tree) with the flavor's flags; returns (objdir, objs sans main)."""
    comp, flags = FLAVORS[flavor]
    d = os.path.join(BUILD, tree_hash(), flavor)
    stamp = os.path.join(d, ".ok")
    with Lock("engine-" + flavor):
        if not os.path.exists(stamp):
            _prune_build()
            os.makedirs(d, exist_ok=True)
            config_header(d)
            srcs = sorted(f for f in os.listdir(os.path.join(REPO, "engine")) if f.endswith(".cpp"))
            procs = []
            t0 = time.time()
            for s in srcs:
                cmd = [comp, "-std=c++20", "-c", os.path.join(REPO, "engine", s), "-I", d,
                       "-I", os.path.join(REPO, "engine"), "-o", os.path.join(d, s[:-4] + ".o")] + flags
                procs.append((s, subprocess.Popen(cmd, stdout=subprocess.PIPE, stderr=subprocess.PIPE, text=True)))
            errs = []
            for s, p in procs:
                o, e = p.communicate()
                if p.returncode != 0:
                    errs.append("%s:\n%s" % (s, e[-3000:]))
            if errs:
                raise BuildError("engine build failed (%s):\n%s" % (flavor, "\n".join(errs)))
            open(stamp, "w").write("ok")
            log("[build] engine objects (%s) in %.1fs" % (flavor, time.time() - t0))
    objs = [os.path.join(d, f) for f in sorted(os.listdir(d)) if f.endswith(".o") and f != "main.o"
            and not f.startswith("h_")]
    return d, objs


class BuildError(Exception):
    pass


def harness(name, flavor="plain", extra_flags=(), with_main=False, link_engine=True, exclude=()):
    """Compile /verif/harness/<name>.cpp against the working tree and link with the engine objects."""
    comp, flags = FLAVORS[flavor]
    d, objs = engine_objects(flavor)
    src = os.path.join(VERIF, "harness", name + ".cpp")
    hh = file_hash([src] + [os.path.join(VERIF, "harness", f) for f in sorted(os.listdir(os.path.join(VERIF, "harness"))) if f.endswith(".h")])
    exe = os.path.join(d, "h_%s_%s" % (name, hh))
    with Lock("harness-%s-%s" % (name, flavor)):
        if not os.path.exists(exe):
            cmd = [comp, "-std=c++20", src, "-I", d, "-I", os.path.join(REPO, "engine"),
                   "-I", os.path.join(REPO, "tools/regression"), "-I", os.path.join(VERIF, "harness"),
                   "-o", exe + ".tmp"] + flags + list(extra_flags)
            if link_engine:
                cmd += [o for o in objs if os.path.basename(o) not in exclude]
            if with_main:
                cmd += [os.path.join(d, "main.o")]
            cmd += ["-lpthread"]
            rc, o, e = sh(cmd, timeout=600)
            if rc != 0:
                raise BuildError("harness %s (%s) failed to build:\n%s" % (name, flavor, e[-4000:]))
            os.rename(exe + ".tmp", exe)
    return exe


def engine_binary(flavor="plain"):
    """The real UCI binary (engine objects + main.o) for process-level sessions."""
    comp, flags = FLAVORS[flavor]
    d, objs = engine_objects(flavor)
    exe = os.path.join(d, "chessplusplus")
    with Lock("bin-" + flavor):
        if not os.path.exists(exe):
            cmd = [comp, "-o", exe + ".tmp"] + flags + objs + [os.path.join(d, "main.o"), "-lpthread"]
            rc, o, e = sh(cmd, timeout=600)
            if rc != 0:
                raise BuildError("engine link failed:\n" + e[-4000:])
            os.rename(exe + ".tmp", exe)
    return exe


# ----------------------------------------------------------------------------- Coq

def write_if_changed(path, content):
    os.makedirs(os.path.dirname(path), exist_ok=True)
    try:
        if open(path).read() == content:
            return False
    except FileNotFoundError:
        pass
    with open(path + ".tmp", "w") as f:
        f.write(content)
    os.rename(path + ".tmp", path)
    return True


def coq_makefile():
    with Lock("coq"):
        vs = []
        for root, _, files in os.walk(COQ):
            for f in files:
                if f.endswith(".v") and os.path.basename(root) != "Extract":
                    vs.append(os.path.relpath(os.path.join(root, f), COQ))
        vs.sort()
        proj = "-Q . CV\n" + "\n".join(vs) + "\n"
        changed = write_if_changed(os.path.join(COQ, "_CoqProject"), proj)
        if changed or not os.path.exists(os.path.join(COQ, "Makefile")):
            sh(["coq_makefile", "-f", "_CoqProject", "-o", "Makefile"], cwd=COQ, check=True)


def coq_make(targets, timeout=1500):
    """make -k the given .vo targets; returns (ok, output)."""
    coq_makefile()
    with Lock("coq"):
        t0 = time.time()
        rc, o, e = sh(["make", "-k", "-j%d" % NPROC] + list(targets), cwd=COQ, timeout=timeout)
        log("[coq] make %s rc=%d in %.1fs" % (" ".join(targets), rc, time.time() - t0))
        return rc == 0, o + "\n" + e


def coq_deps(vfile):
    """Transitive .v dependencies (inside the development) of a .v file, including itself."""
    coq_makefile()
    seen = {}
    todo = [vfile]
    while todo:
        f = todo.pop()
        if f in seen:
            continue
        p = os.path.join(COQ, f)
        if not os.path.exists(p):
            continue
        seen[f] = True
        txt = open(p).read()
        for m in re.finditer(r"(?:From\s+(\S+)\s+)?Require\s+(?:Import\s+|Export\s+)?((?:[\w']+(?:\.[\w']+)*\s+)*[\w']+(?:\.[\w']+)*)\s*\.(?=\s)", txt):
            frm = m.group(1)
            for name in m.group(2).split():
                parts = name.split(".")
                if frm is not None:
                    fp = frm.split(".")
                    if fp[0] != "CV":
                        continue
                    parts = fp[1:] + parts
                elif parts[0] == "CV":
                    parts = parts[1:]
                else:
                    continue
                if not parts:
                    continue
                cand = os.path.join(*parts) + ".v"
                if os.path.exists(os.path.join(COQ, cand)):
                    todo.append(cand)
    return sorted(seen)


STMT_RE = re.compile(r"^\s*(?:Local\s+|Global\s+|#\[[^\]]*\]\s*)*(Theorem|Lemma|Corollary|Fact|Example|Proposition|Remark)\s+([A-Za-z_][\w']*)", re.M)
FORBID_RE = re.compile(r"\b(Admitted|admit|Axiom|Axioms|Parameter|Parameters|Conjecture|Conjectures|Admit\s+Obligations|Unset\s+Guard\s+Checking|bypass_check|Unset\s+Positivity\s+Checking|Unset\s+Universe\s+Checking)\b")


def strip_coq_comments(txt):
    out = []
    depth = 0
    i = 0
    n = len(txt)
    while i < n:
        if txt.startswith("(*", i):
            depth += 1
            i += 2
        elif txt.startswith("*)", i) and depth > 0:
            depth -= 1
            i += 2
        else:
            if depth == 0:
                out.append(txt[i])
            i += 1
    return "".join(out)


def coq_audit(files):
    """Count statements and look for forbidden constructs in the given .v files."""
    stmts = {}
    bad = []
    for f in files:
        txt = strip_coq_comments(open(os.path.join(COQ, f)).read())
        stmts[f] = [m.group(2) for m in STMT_RE.finditer(txt)]
        for m in FORBID_RE.finditer(txt):
            bad.append("%s: %s" % (f, m.group(0)))
    return stmts, bad


def parse_assumptions(output):
    """Extract 'Print Assumptions' results from coqc output: returns list of (axiom lines)."""
    res = []
    cur = None
    for line in output.splitlines():
        if line.startswith("Closed under the global context"):
            res.append("Closed under the global context")
            cur = None
        elif line.startswith("Axioms:"):
            cur = []
            res.append(cur)
        elif cur is not None:
            if line.startswith(" ") or line.startswith("\t") or re.match(r"^[A-Za-z_][\w.']*\s*:", line):
                if re.match(r"^[A-Za-z_][\w.']*\s*:", line):
                    cur.append(line.split(":")[0].strip())
            else:
                cur = None
    return res


# ----------------------------------------------------------------------------- known findings

def known_findings():
    """Parse /verif/known_findings.txt: lines 'finding: property=<id> key=<key> <text>' and 'fixed: ...'."""
    out = []
    p = os.path.join(VERIF, "known_findings.txt")
    if os.path.exists(p):
        for line in open(p):
            line = line.strip()
            m = re.match(r"finding:\s+property=(\S+)\s+key=(\S+)\s+(.*)", line)
            if m:
                out.append({"property": m.group(1), "key": m.group(2), "text": m.group(3)})
    return out


# ----------------------------------------------------------------------------- check context

class Ctx:
    def __init__(self, pid, tier, seed):
        self.pid = pid
        self.tier = tier
        self.seed = seed
        self.rng = random.Random(seed)
        self.t0 = time.time()
        self.violations = []
        self.known = []
        self.cov = {
            "evaluations": 0,
            "distinct_nontrivial": 0,
            "rule": "",
            "samples": [],
            "obligations": 0,
            "discharged": 0,
            "checker_cmd": "",
            "trusted_base": [],
        }
        self.assumptions = []
        self.notes = {}
        self._kf = [k for k in known_findings() if k["property"] == pid]
        os.makedirs(EVID, exist_ok=True)
        os.makedirs(REPLAYS, exist_ok=True)

    # --- proofs
    def prove(self, propfile, extra_targets=(), timeout=1500):
        """Build Props/<propfile>.vo and everything it depends on; fill obligations/discharged.

        Returns (ok, failed_files, output)."""
        vfile = propfile if propfile.endswith(".v") else propfile + ".v"
        deps = coq_deps(vfile)
        stmts, bad = coq_audit(deps)
        targets = [vfile + "o"] + [t for t in extra_targets]
        ok, out = coq_make(targets, timeout=timeout)
        direct = set(m.group(1)[:-1] for m in re.finditer(r"\*\*\* \[[^\]]*?:\s*([\w/.]+\.vo)\] Error", out))
        direct |= set(m.group(1) for m in re.finditer(r'File "\./([\w/.]+\.v)", line \d+, characters [\d-]+:\s*\n\s*Error', out))
        failed = []
        for f in deps:
            vo = os.path.join(COQ, f + "o")
            if f in direct or not os.path.exists(vo) or any(d in direct for d in coq_deps(f)):
                failed.append(f)
        if not ok and not failed:
            failed.append("make failed: " + out[-300:])
        total = sum(len(v) for v in stmts.values())
        done = sum(len(v) for f, v in stmts.items() if f not in failed)
        self.cov["obligations"] += total
        self.cov["discharged"] += done
        self.cov["checker_cmd"] = "cd /verif/coq && coq_makefile -f _CoqProject -o Makefile && make -k -j%d %s  (coqc 8.16.1, full .vo build)" % (NPROC, " ".join(targets))
        # Print Assumptions: re-run coqc on the property file alone to capture its output
        pa = []
        if vfile not in failed:
            rc, o, e = sh(["coqc", "-Q", ".", "CV", vfile], cwd=COQ, timeout=timeout)
            pa = parse_assumptions(o)
            axioms = sorted({a for x in pa if isinstance(x, list) for a in x})
            closed = sum(1 for x in pa if x == "Closed under the global context")
            self.notes["print_assumptions"] = {"closed_under_global_context": closed,
                                               "theorems_with_axioms": sum(1 for x in pa if isinstance(x, list)),
                                               "axioms": axioms}
            self.cov["trusted_base"].append("Print Assumptions under %d property theorems: %d closed under the global context; axioms used: %s"
                                            % (len(pa), closed, ", ".join(axioms) if axioms else "none"))
        self.notes["coq_files"] = deps
        self.notes["statements"] = {f: len(v) for f, v in stmts.items()}
        if bad:
            failed.append("forbidden constructs: " + "; ".join(bad))
        return (ok and not failed), failed, out

    # --- violations
    def violation(self, what, replay, key=None, no_input=False):
        """Record a violation unless it matches a known finding (by key)."""
        for k in self._kf:
            if key is not None and k["key"] == key:
                if k not in self.known:
                    self.known.append(k)
                return
        self.violations.append({"what": what, "replay": replay, "no_input": no_input, "key": key})

    def sample(self, s):
        if len(self.cov["samples"]) < 8:
            self.cov["samples"].append(s)

    def finish(self, level="proof"):
        wall = time.time() - self.t0
        rc = 0
        cov = dict(self.cov)
        cov.update(self.notes)
        ev = {
            "property_id": self.pid,
            "tier": self.tier,
            "seed": self.seed,
            "level": level,
            "coverage": cov,
            "assumptions": self.assumptions,
            "wall_s": round(wall, 2),
            "violations": len(self.violations),
        }
        with open(os.path.join(EVID, self.pid + ".json"), "w") as f:
            json.dump(ev, f, indent=1)
        for k in self.known:
            print("KNOWN-FINDING: property=%s %s" % (self.pid, k["text"]))
        for i, v in enumerate(self.violations[:5]):
            path = os.path.join(REPLAYS, "%s_%s_%d_%d.json" % (self.pid, self.tier, self.seed, i))
            with open(path, "w") as f:
                json.dump({"property": self.pid, "what": v["what"], "replay": v["replay"],
                           "reproduce": "cd /verif && VERIF_SEED=%d ./check %s %s" % (self.seed, self.pid, self.tier)}, f, indent=1)
            print("VIOLATION property=%s replay=%s%s" % (self.pid, path, " no-failing-input-found" if v["no_input"] else ""))
            print("  " + v["what"][:600])
            rc = 1
        log("[%s] %s seed=%d: %d evaluations, %d/%d obligations, %d violations, %.1fs"
            % (self.pid, self.tier, self.seed, cov["evaluations"], cov["discharged"], cov["obligations"],
               len(self.violations), wall))
        return rc


# ----------------------------------------------------------------------------- drivers

def run_lines(exe, lines, timeout=900, shards=1, env=None):
    """Feed case lines to a driver (one result line per case); optionally sharded over processes."""
    if shards <= 1 or len(lines) < 64:
        rc, o, e = sh([exe], input="\n".join(lines) + "\n", timeout=timeout, env=env)
        return rc, o.splitlines(), e
    chunks = [lines[i::shards] for i in range(shards)]
    procs = []
    for c in chunks:
        p = subprocess.Popen([exe], stdin=subprocess.PIPE, stdout=subprocess.PIPE, stderr=subprocess.PIPE, text=True, env=env)
        procs.append(p)
    import threading
    outs = [None] * shards
    errs = [""] * shards
    rcs = [0] * shards

    def work(i):
        try:
            o, e = procs[i].communicate("\n".join(chunks[i]) + "\n", timeout=timeout)
            outs[i] = o.splitlines()
            errs[i] = e
            rcs[i] = procs[i].returncode
        except subprocess.TimeoutExpired:
            procs[i].kill()
            outs[i] = []
            errs[i] = "TIMEOUT"
            rcs[i] = 124
    ths = [threading.Thread(target=work, args=(i,)) for i in range(shards)]
    for t in ths:
        t.start()
    for t in ths:
        t.join()
    res = [None] * len(lines)
    rc = 0
    for i in range(shards):
        if rcs[i] != 0:
            rc = rcs[i]
        for j, l in enumerate(outs[i]):
            idx = i + j * shards
            if idx < len(lines):
                res[idx] = l
    return rc, res, "\n".join(x for x in errs if x)


# ----------------------------------------------------------------------------- extraction / OCaml model driver

def model_driver():
    """Extract the Coq models to OCaml and build ocaml/driver.ml against them.  Cached on source hashes."""
    coq_makefile()
    ext = os.path.join(COQ, "Extract", "Extract.v")
    deps = coq_deps(os.path.join("Extract", "Extract.v"))
    srcs = [os.path.join(COQ, d) for d in deps] + [os.path.join(VERIF, "ocaml", f) for f in sorted(os.listdir(os.path.join(VERIF, "ocaml"))) if f.endswith(".ml")]
    hh = file_hash(srcs)
    d = os.path.join(BUILD, "ocaml", hh)
    exe = os.path.join(d, "driver")
    with Lock("ocaml"):
        if not os.path.exists(exe):
            # keep only this build
            base = os.path.join(BUILD, "ocaml")
            if os.path.isdir(base):
                for x in os.listdir(base):
                    if x != hh:
                        shutil.rmtree(os.path.join(base, x), ignore_errors=True)
            os.makedirs(d, exist_ok=True)
            vos = [dep + "o" for dep in deps if not dep.startswith("Extract")]
            ok, out = coq_make(vos)
            if not ok:
                raise BuildError("Coq models failed to compile:\n" + out[-3000:])
            rc, o, e = sh(["coqc", "-Q", COQ, "CV", "-o", os.path.join(d, "Extract.vo"), ext], cwd=d, timeout=600)
            if rc != 0:
                raise BuildError("extraction failed:\n" + (o + e)[-3000:])
            mls = ["model.mli", "model.ml"]
            for f in sorted(os.listdir(os.path.join(VERIF, "ocaml"))):
                if f.endswith(".ml") and f != "driver.ml":
                    shutil.copy(os.path.join(VERIF, "ocaml", f), d)
                    mls.append(f)
            shutil.copy(os.path.join(VERIF, "ocaml", "driver.ml"), d)
            mls.append("driver.ml")
            rc, o, e = sh(["ocamlfind", "ocamlopt", "-O3", "-w", "-a", "-package", "str", "-linkpkg"] + mls + ["-o", "driver.tmp"], cwd=d, timeout=600)
            if rc != 0:
                rc, o, e = sh(["ocamlfind", "ocamlopt", "-w", "-a"] + mls + ["-o", "driver.tmp"], cwd=d, timeout=600)
            if rc != 0:
                raise BuildError("OCaml build failed:\n" + (o + e)[-3000:])
            os.rename(os.path.join(d, "driver.tmp"), exe)
    return exe


def run_lines_robust(exe, lines, timeout=900, shards=1, env=None, max_retry=40):
    """Like run_lines, but when a process dies the lines without a result are re-run one process per
    line (so the crashing input is identified and the others still get their results).
    Returns (crashed: list of (index, rc, stderr)), results)."""
    rc, res, err = run_lines(exe, lines, timeout=timeout, shards=shards, env=env)
    res = list(res) + [None] * (len(lines) - len(res))
    crashed = []
    if rc != 0 or any(r is None for r in res):
        missing = [i for i, r in enumerate(res) if r is None]
        # the first missing line of each shard is the likely culprit: try those first, then the rest
        budget = max_retry
        for i in missing:
            if budget <= 0:
                break
            r1, o1, e1 = sh([exe], input=lines[i] + "\n", timeout=120, env=env)
            if r1 == 0 and o1.splitlines():
                res[i] = o1.splitlines()[0]
            else:
                crashed.append((i, r1, e1[-1500:]))
                budget -= 1
        # whatever is still missing and was not retried stays None
    return crashed, res
