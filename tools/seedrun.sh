#!/bin/bash
# seedrun.sh <seedname> <check> [<check>...] : apply /verif/seeded/<seedname>/patch.diff to /repo, run the quick checks, undo.
S=/verif/seeded/$1; shift
trap "" PIPE   # never die half-way (the tree must be restored) when the reader of our output goes away
cd /repo && git status --short | grep -v '^??' && { echo "/repo dirty"; exit 2; }
git -C /repo apply "$S/patch.diff" || { echo "patch does not apply"; exit 2; }
cd /verif
rm -rf /verif/.build/evidence_backup; cp -r /verif/evidence /verif/.build/evidence_backup   # evidence written under a seeded change is never kept
for c in "$@"; do
  echo "== $c"; timeout 1500 ./check $c quick 2>/dev/null | grep -E "VIOLATION|KNOWN" -A1 | head -6; echo "rc=${PIPESTATUS[0]}"
done
git -C /repo checkout -- .
rsync -a --delete /verif/.build/evidence_backup/ /verif/evidence/; rm -rf /verif/.build/evidence_backup   # the directory itself never disappears
