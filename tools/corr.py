"""Correspondence helpers: run the same cases through the implementation and the extracted model."""
from vlib import *


def both(cases, impl=None, model=None, shards=NPROC, timeout=1800):
    impl = impl or harness("impl_driver")
    model = model or model_driver()
    crashed, o1 = run_lines_robust(impl, cases, shards=shards, timeout=timeout)
    rc1 = crashed[0][1] if crashed else 0
    e1 = crashed[0][2] if crashed else ""
    rc2, o2, e2 = run_lines(model, cases, shards=shards, timeout=timeout)
    if rc2 != 0:
        raise BuildError("model driver failed rc=%d: %s" % (rc2, e2[-800:]))
    return rc1, o1, e1, o2


def diff_games(ctx, op, games, what, impl=None, model=None, max_report=3, nontrivial=None, tally=None):
    """games: list of (fen, [uci moves]).  Compares per-ply observations.  Returns #observations."""
    cases = ["%s %s | %s" % (op, fen, " ".join(ms)) for fen, ms in games]
    rc1, o1, e1, o2 = both(cases, impl, model)
    nobs = 0
    nviol = 0
    distinct = set()
    for (fen, ms), a, b in zip(games, o1, o2):
        if a is None:
            # the implementation crashed or timed out on this shard: find the case
            ctx.violation("%s: implementation produced no output (crash/timeout, rc=%d) for a game from %s" % (what, rc1, fen),
                          {"op": op, "fen": fen, "moves": ms, "stderr": e1[-1500:]}, key="%s:crash:%s" % (op, fen))
            nviol += 1
            continue
        if b is None:
            raise BuildError("model driver produced no output for %s" % fen)
        pa = a.split(" ; ")
        pb = b.split(" ; ")
        nobs += len(pb)
        for x in pb:
            if tally is not None:
                tally(x)
            if nontrivial is None or nontrivial(x):
                distinct.add(x)
        if a != b and nviol < max_report:
            for i in range(max(len(pa), len(pb))):
                xa = pa[i] if i < len(pa) else "<missing>"
                xb = pb[i] if i < len(pb) else "<missing>"
                if xa != xb:
                    ctx.violation("%s: after %d plies from '%s' (%s): engine says [%s], rules say [%s]"
                                  % (what, i, fen, " ".join(ms[:i]), xa[:300], xb[:300]),
                                  {"op": op, "start_fen": fen, "moves": ms[:i], "engine": xa, "spec": xb},
                                  key="%s:%s:%s" % (op, fen, " ".join(ms[:i])))
                    nviol += 1
                    break
        elif a != b:
            nviol += 1
    if rc1 != 0 and nviol == 0:
        ctx.violation("%s: implementation driver exited with rc=%d: %s" % (what, rc1, e1[-600:]),
                      {"op": op, "stderr": e1[-3000:]}, key=op + ":rc")
    ctx.cov["evaluations"] += nobs
    ctx.cov["distinct_nontrivial"] += len(distinct)
    for (fen, ms), a in list(zip(games, o1))[:2]:
        ctx.sample({"op": op, "fen": fen, "moves": " ".join(ms[:6]), "engine": (a or "")[:160]})
    return nobs, nviol
