"""What the UCI text level shows for a position: `position ...` followed by the engine's own debug commands
(printboard / hash / perft 1 / staticeval), parsed.  Used by the checks whose property is observable through those
commands, so that the code between the UCI text and the core (uci.cpp) is exercised through the real entry point.

observe(exe, cases, want=("fen","hash","perft","eval")) -> list of dicts, one per case, in order:
   case = ("fen", "<fen>", [moves...])   or   ("startpos", None, [moves...])
   result keys: fen, hash (hex string), perft ({move: count}), nodes (int), score (text after 'Score: '), raw (log tail)
Several cases share one process (the order inside a process is part of what is exercised); `isready` delimits them.
"""
import concurrent.futures
import re

from ucisession import Uci

_ANSI = re.compile(r"\x1b\[[0-9;]*m")


def _one_process(exe, cases, want, env=None, timeout=120):
    u = Uci(exe, env)
    out = []
    for kind, fen, moves in cases:
        cmd = "position startpos" if kind == "startpos" else "position fen " + fen
        if moves:
            cmd += " moves " + " ".join(moves)
        u.send(cmd)
        start = len(u.lines)
        if "fen" in want or "hash" in want:
            u.send("printboard")
        if "perft" in want:
            u.send("perft 1")
        if "eval" in want:
            u.send("staticeval")
        u.send("isready")
        s, t = u.wait_for(lambda x: x.strip() == "readyok", timeout)
        seg = [_ANSI.sub("", x) for _, x in u.lines[start:]]
        r = {"fen": None, "hash": None, "perft": {}, "nodes": None, "score": None, "alive": s is not None, "cmd": cmd}
        for ln in seg:
            m = re.match(r'\s*Fen: "(.*)"', ln)
            if m and r["fen"] is None:
                r["fen"] = m.group(1)
            m = re.match(r"\s*Hash: ([0-9a-fA-F]+)", ln)
            if m and r["hash"] is None:
                r["hash"] = m.group(1).lower()
            m = re.match(r"\s*([a-h][1-8][a-h][1-8][qrbn]?): (\d+)\s*$", ln)
            if m:
                r["perft"][m.group(1)] = int(m.group(2))
            m = re.match(r"\s*Number of nodes: (\d+)", ln)
            if m:
                r["nodes"] = int(m.group(1))
            m = re.match(r"\s*Score: (.*\S)", ln)
            if m:
                r["score"] = m.group(1)
        r["raw"] = seg[-6:]
        out.append(r)
        if s is None:
            break
    rc, err = u.close()
    while len(out) < len(cases):
        out.append({"fen": None, "hash": None, "perft": {}, "nodes": None, "score": None, "alive": False, "cmd": "(process ended: rc=%s %s)" % (rc, err[-200:]), "raw": []})
    return out


def observe(exe, cases, want=("fen", "hash", "perft", "eval"), per_process=25, workers=16, env=None):
    chunks = [cases[i:i + per_process] for i in range(0, len(cases), per_process)]
    with concurrent.futures.ThreadPoolExecutor(max_workers=workers) as ex:
        res = list(ex.map(lambda c: _one_process(exe, c, want, env), chunks))
    return [r for chunk in res for r in chunk]


# ---------------------------------------------------------------------------------------------------------------------
# Stateful sessions: the Uci object as a state machine.  The model is three lines (the statement the glue must satisfy):
#     position <root> [moves L]  ->  state := play(root, L)        whatever came before
#     moves L                    ->  state := play(state, L)        (the engine's incremental command)
#     ucinewgame                 ->  state := start position
# gen_sessions builds command sequences whose CONSECUTIVE commands are related (same root with a longer / shorter / equal /
# diverging move list, take-backs over castling - en passant - promotions, `moves` and `ucinewgame` in between, FENs that
# differ only in trailing digits), run_sessions observes printboard (+ optional extras) after every command.
START = "rnbqkbnr/pppppppp/8/8/8/8/PPPPPPPP/RNBQKBNR w KQkq - 0 1"


# games in which a ROOK or QUEEN makes the move e1c1 / e1g1 / e8c8 / e8g8 (the text of a castling move) while castling rights are
# still around, and games with real castling, en passant and promotions to take back over
SPECIAL_GAMES = [
    ("r3k2r/8/8/8/8/8/8/4R1K1 w kq - 0 1", "e1c1 e8g8 c1e1 f8e8 e1e8".split()),
    ("r3k2r/8/8/8/8/8/8/4Q1K1 w kq - 0 1", "e1c1 e8c8 c1g5 d8e8".split()),
    ("4r1k1/8/8/8/8/8/8/R3K2R b KQ - 0 1", "e8c8 e1g1 c8e8 f1e1 e8e1".split()),
    ("4q1k1/8/8/8/8/8/8/R3K2R b KQ - 0 1", "e8g6 e1c1 g6c2 c1c2".split()),
    (START, "e2e4 e7e5 g1f3 b8c6 f1c4 f8c5 e1g1 g8f6 f1e1 e8g8 e1e3 f8e8 e3e1 e8e6 e1f1".split()),
    (START, "g1f3 d7d5 g2g3 g8f6 f1g2 c7c5 e1g1 b8c6 d2d4 e7e6 f1e1 f8e7 e1f1".split()),
    ("r3k2r/pppq1ppp/2n2n2/3pp3/3PP3/2N2N2/PPPQ1PPP/R3K2R w KQkq - 0 8", "e1c1 e8c8 d1e1 d8e8 e1e3 e8e6".split()),
    ("4k3/1P6/8/8/5pP1/8/8/4K3 b - g3 0 1", "f4g3 b7b8q e8e7 b8b7 e7e6".split()),
]


def gen_sessions(rng, games, n, max_ops=7, special=True):
    """games: list of (root_fen, [moves]) with legal moves.  Returns sessions: list of lists of (command, (root, moves))."""
    out = []
    games = [g for g in games if len(g[1]) >= 2]
    if not games:
        return out
    for i_ in range(n):
        root, ms = SPECIAL_GAMES[i_ % len(SPECIAL_GAMES)] if (special and i_ < 3 * len(SPECIAL_GAMES)) else rng.choice(games)
        rootcmd = "startpos" if root == START else "fen " + root
        cur_root, cur_moves = START, []
        sess = []
        k = rng.randrange(0, len(ms) + 1)
        sent = []          # earlier position commands of this session: (cmd, state)
        for _op in range(rng.randrange(3, max_ops + 1)):
            r = rng.random()
            if sent and r < 0.12:
                # an earlier position line again, verbatim or extended by the next move (also right after ucinewgame / moves)
                cmd, (cur_root, cur_moves) = rng.choice(sent)
                cur_moves = list(cur_moves)
                if cur_root == root and cur_moves == ms[:len(cur_moves)] and len(cur_moves) < len(ms) and rng.random() < 0.5:
                    cmd = cmd + (" moves " if not cur_moves else " ") + ms[len(cur_moves)]
                    cur_moves = ms[:len(cur_moves) + 1]
                k = len(cur_moves)
            elif r < 0.55:
                # position with the same root: grow, shrink (take-back), equal, or jump
                k = max(0, min(len(ms), k + rng.choice([-3, -2, -1, -1, 0, 1, 1, 2, 3, rng.randrange(-len(ms), len(ms) + 1)])))
                cmd = "position " + rootcmd + ((" moves " + " ".join(ms[:k])) if k else "")
                cur_root, cur_moves = root, ms[:k]
            elif r < 0.75 and cur_root == root and len(cur_moves) < len(ms) and cur_moves == ms[:len(cur_moves)]:
                j = rng.randrange(1, min(3, len(ms) - len(cur_moves)) + 1)
                cmd = "moves " + " ".join(ms[len(cur_moves):len(cur_moves) + j])
                cur_moves = ms[:len(cur_moves) + j]
                k = len(cur_moves)
            elif r < 0.85:
                cmd = "ucinewgame"
                cur_root, cur_moves = START, []
            else:
                # the root with another full-move number whose digits extend / are extended by the original's
                parts = root.split()
                fm = parts[5]
                fm2 = rng.choice([fm + str(rng.randrange(10)), fm[:-1] if len(fm) > 1 else fm + "0"])
                alt = " ".join(parts[:5] + [fm2])
                first, second = (root, alt) if rng.random() < 0.5 else (alt, root)
                sess.append(("position fen " + first, (first, [])))
                cmd = "position fen " + second
                cur_root, cur_moves = second, []
            sess.append((cmd, (cur_root, list(cur_moves))))
            if cmd.startswith("position"):
                sent.append((cmd, (cur_root, list(cur_moves))))
        out.append(sess)
    return out


def run_sessions(exe, sessions, extras=(), env=None, workers=16, timeout=60, final_go=None):
    """After every command: printboard (+ extras, e.g. 'perft 1', 'staticeval').  Returns per session a list of observation dicts."""
    def one(sess):
        u = Uci(exe, env)
        res = []
        for cmd, _exp in sess:
            u.send(cmd)
            start = len(u.lines)
            u.send("printboard")
            for x in extras:
                u.send(x)
            u.send("isready")
            s, t = u.wait_for(lambda x: x.strip() == "readyok", timeout)
            seg = [_ANSI.sub("", x) for _, x in u.lines[start:]]
            r = {"fen": None, "hash": None, "perft": {}, "nodes": None, "score": None, "alive": s is not None}
            for ln in seg:
                m = re.match(r'\s*Fen: "(.*)"', ln)
                if m and r["fen"] is None:
                    r["fen"] = m.group(1)
                m = re.match(r"\s*Hash: ([0-9a-fA-F]+)", ln)
                if m and r["hash"] is None:
                    r["hash"] = m.group(1).lower()
                m = re.match(r"\s*([a-h][1-8][a-h][1-8][qrbn]?): (\d+)\s*$", ln)
                if m:
                    r["perft"][m.group(1)] = int(m.group(2))
                m = re.match(r"\s*Number of nodes: (\d+)", ln)
                if m:
                    r["nodes"] = int(m.group(1))
                m = re.match(r"\s*Score: (.*\S)", ln)
                if m:
                    r["score"] = m.group(1)
            res.append(r)
            if s is None:
                break
        if final_go and res and res[-1]["alive"]:
            u.send(final_go)
            start = len(u.lines)
            s, t = u.wait_for(lambda x: x.startswith("bestmove"), timeout)
            res[-1]["bestmove"] = s.split()[1] if s and len(s.split()) > 1 else None
            res[-1]["pvs"] = [x.split(" pv ", 1)[1].split() for _, x in u.lines[start:] if " pv " in x]
        rc, err = u.close()
        while len(res) < len(sess):
            res.append({"fen": None, "hash": None, "perft": {}, "nodes": None, "score": None, "alive": False})
        return res
    with concurrent.futures.ThreadPoolExecutor(max_workers=workers) as ex:
        return list(ex.map(one, sessions))


def expected_fens(model, run_lines, sessions, shards=16):
    """FEN after every command according to the extracted state machine Engine/UciSession.v (model op `session`)."""
    rc, res, err = run_lines(model, ["session " + " ; ".join(c for c, _ in sess) for sess in sessions], shards=shards)
    out = []
    for sess, o in zip(sessions, res):
        fs = [x.strip() for x in (o or "").split(" ; ")]
        if len(fs) != len(sess) or (o or "").startswith("BAD"):
            out.append([None] * len(sess))
        else:
            out.append(fs)
    return out
