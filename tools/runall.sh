#!/bin/bash
# run every registered check (quick) on the current tree, sequentially; summary line per check
cd /verif
for c in $(python3 -c "import json;print(' '.join(x['property_id'] for x in json.load(open('MANIFEST.json'))['checks']))"); do
  s=$(date +%s); out=$(timeout 2400 ./check $c ${1:-quick} 2>&1); rc=$?; e=$(date +%s)
  echo "$c rc=$rc $((e-s))s $(echo "$out" | grep -c VIOLATION) violations $(echo "$out" | tail -1 | cut -c1-120)"
done
