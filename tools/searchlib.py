"""Shared helpers for the search checks (C05 C08 C09 C10): sessions on harness/search_driver, parsing of its result
lines, replay of the recorded root calls through the extracted iteration-driver model, legality of pv / bestmove by
the extracted rules."""
import subprocess
import threading
from vlib import *

INF = 640001


def run_sessions(exe, sessions, nproc=NPROC, timeout=1500, env=None):
    """sessions: list of lists of command lines (each session starts from a fresh table).  Returns list of lists of
    output lines (None for lines lost to a crash) and a list of (session index, rc, stderr tail) for crashed processes."""
    n = len(sessions)
    buckets = [[] for _ in range(min(nproc, max(1, n)))]
    for i in range(n):
        buckets[i % len(buckets)].append(i)
    results = [None] * n
    crashes = []

    def work(b):
        lines = []
        for i in buckets[b]:
            lines.append("fresh")
            lines.extend(sessions[i])
        try:
            p = subprocess.run([exe], input="\n".join(lines) + "\n", stdout=subprocess.PIPE, stderr=subprocess.PIPE, text=True,
                               timeout=timeout, env=env)
            out, rc, err = p.stdout.splitlines(), p.returncode, p.stderr
        except subprocess.TimeoutExpired as e:
            out = (e.stdout or b"").decode("utf8", "replace").splitlines() if isinstance(e.stdout, bytes) else (e.stdout or "").splitlines()
            rc, err = 124, "TIMEOUT"
        k = 0
        for i in buckets[b]:
            k += 1      # "fresh" -> ok
            res = []
            for _ in sessions[i]:
                res.append(out[k] if k < len(out) else None)
                k += 1
            results[i] = res
            if any(r is None for r in res) and (not crashes or crashes[-1][0] != i):
                crashes.append((i, rc, err[-3000:]))
                # everything after the crash in this bucket is lost
        return

    ths = [threading.Thread(target=work, args=(b,)) for b in range(len(buckets))]
    for t in ths:
        t.start()
    for t in ths:
        t.join()
    return results, crashes


def parse_go(line):
    """Result line of the driver's `go` op -> dict."""
    if line is None or " | " not in line:
        return None
    parts = line.split(" | ")
    if len(parts) < 4:
        return None
    head = parts[0].split()
    d = {"nbest": int(head[0][3:]), "best": head[1], "iters": [], "roots": []}
    if parts[1] != "-":
        for it in parts[1].split():
            dep, score, pv = it.split(":")
            d["iters"].append((int(dep) if dep.lstrip("-").isdigit() else None, score.replace("_", " "), [] if pv == "-" else pv.split(",")))
    if parts[2] != "-":
        for r in parts[2].split(";"):
            f = r.split(",")
            d["roots"].append((int(f[0]), int(f[1]), int(f[2]), int(f[3]), int(f[4]), f[5], int(f[6])))
    for kv in parts[3].split():
        k, v = kv.split("=")
        d[k] = int(v) if v.lstrip("-").isdigit() else v
    return d


def drive_line(g):
    """The `drive` op line for the extracted iteration-driver model and the event string the engine's record implies."""
    codes = {}

    def code(m):
        if m in ("-", None):
            return -1
        return codes.setdefault(m, len(codes))
    roots = g["roots"]
    sd = g["depthcap"]
    rs, brk, tbrk, exp = [], [], [], []
    info_by_depth = {}
    for dep, score, pv in g["iters"]:
        info_by_depth.setdefault(dep, []).append(pv)
    n = len(roots)
    for i, (d, a, b, ret, pvlen, pv0, st) in enumerate(roots):
        rs.append("%d,%d,%d" % (ret, code(pv0) if pvlen > 0 else -1, st))
        exp.append("C %d %d %d" % (d, a, b))
        last_of_iter = (i + 1 == n) or roots[i + 1][0] != d
        outside = ret <= a or ret >= b
        if outside and not st:
            brk.append("1" if last_of_iter else "0")
        if last_of_iter:
            stopped = st or (outside and brk and brk[-1] == "1")
            if not stopped:
                exp.append("I %d %d %d" % (d, ret, code(pv0) if pvlen > 0 else -1))
                mate = ret <= -(640000 - 40) or ret >= 640000 - 40
                if not mate and not (sd <= d):
                    tbrk.append("1" if i + 1 == n else "0")
    stop0 = 1 if n == 0 else 0
    root0 = code(g.get("root0", "-")) if g.get("root0", "-") != "-" else -1
    best = g["best"]
    exp.append("B %d" % (code(best) if best in codes else (root0 if best == g.get("root0") else -2)))
    line = "drive %d %d %d | %s | %s | %s" % (sd, stop0, root0, ";".join(rs) or "-", "".join(brk) or "-", "".join(tbrk) or "-")
    return line, " ; ".join(exp)


def score_value(s):
    """'cp 12' / 'mate -3' -> (kind, n)."""
    k, v = s.split()
    return k, int(v)
