#!/bin/bash
# seedconfirm.sh <Cxx> <seedname>: confirm a sub-agent's seeded change in its scratch worktree /tmp/seed_<Cxx>:
# patched: builds with the repo's warning flags, 47 tests pass, demo fails; unpatched: tests pass, demo passes.
# Writes /verif/seeded/<seedname>/confirm.txt and removes the worktree afterwards.
P=$1; N=$2; W=/tmp/seed_$P; S=/verif/seeded/$N
{
cd $W || exit 2
git -C $W checkout -q -- engine 2>/dev/null; git -C $W apply $S/patch.diff || { echo "CONFIRM-FAIL patch does not apply"; exit 1; }
echo "### patched: build + unit tests"; /tmp/wt_test.sh $W 2>&1 | tail -2
echo "### patched: demo"; (cd $W/seed && timeout 1200 bash ./demo.sh) > $S/.demo_patched.txt 2>&1; echo "demo rc=$?"; tail -5 $S/.demo_patched.txt
git -C $W apply -R $S/patch.diff
echo "### unpatched: build + unit tests"; /tmp/wt_test.sh $W 2>&1 | tail -2
echo "### unpatched: demo"; (cd $W/seed && timeout 1200 bash ./demo.sh) > $S/.demo_unpatched.txt 2>&1; echo "demo rc=$?"; tail -5 $S/.demo_unpatched.txt
} > $S/confirm.txt 2>&1
rm -f $S/.demo_patched.txt $S/.demo_unpatched.txt
git -C /repo worktree remove --force $W
grep -E "PASSED|demo rc|CONFIRM" $S/confirm.txt | tr '\n' ' '; echo
