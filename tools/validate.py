#!/opt/veriftools/pyvenv/bin/python
import json, sys, glob
import jsonschema
m = json.load(open('/verif/MANIFEST.json'))
jsonschema.validate(m, json.load(open('/root/.vp/MANIFEST.schema.json')))
es = json.load(open('/root/.vp/EVIDENCE.schema.json'))
for f in sorted(glob.glob('/verif/evidence/*.json')):
    jsonschema.validate(json.load(open(f)), es)
    print("ok", f)
ids = {c['property_id'] for c in m['checks']} | {c['property_id'] for c in m.get('not_applicable', [])}
print("manifest ok; covered ids:", len(ids))
