"""Seeded generators of positions (FEN strings) and games.

Positions are *constructed* (random placements shaped by templates) and then filtered by the
extracted `valid_position` (the quantifier of C01), so neither side is blamed for positions
outside the property's domain.  Games are played by the extracted rules (op `playout`).
"""
from vlib import run_lines, NPROC

START = "rnbqkbnr/pppppppp/8/8/8/8/PPPPPPPP/RNBQKBNR w KQkq - 0 1"

CLASSIC = [
    START,
    "r3k2r/p1ppqpb1/bn2pnp1/3PN3/1p2P3/2N2Q1p/PPPBBPPP/R3K2R w KQkq - 0 1",
    "8/2p5/3p4/KP5r/1R3p1k/8/4P1P1/8 w - - 0 1",
    "r3k2r/Pppp1ppp/1b3nbN/nP6/BBP1P3/q4N2/Pp1P2PP/R2Q1RK1 w kq - 0 1",
    "rnbq1k1r/pp1Pbppp/2p5/8/2B5/8/PPP1NnPP/RNBQK2R w KQ - 1 8",
    "r4rk1/1pp1qppp/p1np1n2/2b1p1B1/2B1P1b1/P1NP1N2/1PP1QPPP/R4RK1 w - - 0 10",
    # defects / boundary positions found while reading the code (DESIGN.md 1.2)
    "8/6b1/8/4Pp2/8/2K5/8/7k w - f6 0 1",
    "r3k2r/8/8/8/8/8/8/R3K2R w KQkq - 5 10",
    "8/8/1n4Pk/3p4/3P1P1p/1NK3P1/p1P4p/4B3 b - - 0 1",
    "r3k2r/8/8/8/8/8/8/R3K3 b kq - 0 1",
    "r3kbnr/2p3p1/bp2P3/p3pp2/7p/2P4Q/PP1KPPPP/R4BNR b q - 0 1",
    "R6R/3Q4/1Q4Q1/4Q3/2Q4Q/Q4Q2/pp1Q4/kBNN1KB1 w - - 0 1",
    "8/8/8/K7/8/k7/P7/8 w - - 0 1",
    "4k3/8/8/8/8/8/8/4K2R w K - 0 1",
    "8/8/8/8/k2Pp2Q/8/8/3K4 b - d3 0 1",
    "8/8/8/2k5/3Pp3/8/8/3K4 b - d3 0 1",
    "4k3/8/8/8/1b1Pp3/8/8/4K3 b - d3 0 1",
    "k7/8/8/8/3pP3/8/8/K6q w - - 0 1",
]

PIECES = "PNBRQK"


def sq(f, r):
    return r * 8 + f


def board_to_fen(board, stm, rights, ep, clock, fullmove):
    rows = []
    for r in range(7, -1, -1):
        row = ""
        run = 0
        for f in range(8):
            pc = board.get(sq(f, r))
            if pc is None:
                run += 1
            else:
                if run:
                    row += str(run)
                    run = 0
                row += pc
        if run:
            row += str(run)
        rows.append(row)
    eps = "-" if ep is None else "abcdefgh"[ep % 8] + "12345678"[ep // 8]
    return "%s %s %s %s %d %d" % ("/".join(rows), stm, rights or "-", eps, clock, fullmove)


def random_position(rng, style=None):
    """A random placement; about half survive the validity filter."""
    style = style or rng.choice(["sparse", "sparse", "mid", "dense", "ep", "castle", "promo", "pins", "queens"])
    board = {}
    free = list(range(64))
    rng.shuffle(free)

    def put(pc, where=None):
        if where is None:
            while free:
                s = free.pop()
                if pc in "Pp" and s // 8 in (0, 7):
                    continue
                board[s] = pc
                return s
            return None
        if where in board:
            return None
        board[where] = pc
        if where in free:
            free.remove(where)
        return where

    stm = rng.choice("wb")
    rights = ""
    ep = None
    if style == "castle":
        for pc, ks, r in (("K", 4, 0), ("k", 60, 0)):
            put(pc, ks)
        cand = [("K", "R", 7), ("Q", "R", 0), ("k", "r", 63), ("q", "r", 56)]
        for flag, pc, s in cand:
            if rng.random() < 0.8:
                put(pc, s)
                if rng.random() < 0.85:
                    rights += flag
        n = rng.randrange(0, 10)
        for _ in range(n):
            put(rng.choice("PNBRQpnbrq"))
    else:
        put("K")
        put("k")
    if style == "sparse":
        for _ in range(rng.randrange(1, 7)):
            put(rng.choice("QRBNPqrbnpQRBqrb"))
    elif style == "mid":
        for _ in range(rng.randrange(6, 16)):
            put(rng.choice("PPPNBRQpppnbrq"))
    elif style == "dense":
        for _ in range(rng.randrange(16, 30)):
            put(rng.choice("PPPPNBRQppppnbrq"))
    elif style == "queens":
        side = rng.choice(["Q", "q", "N", "n", "R", "r", "B", "b"])
        for _ in range(rng.randrange(5, 10)):
            put(side)
        for _ in range(rng.randrange(0, 5)):
            put(rng.choice("PNBRQpnbrq"))
    elif style == "promo":
        for _ in range(rng.randrange(1, 5)):
            f = rng.randrange(8)
            if rng.random() < 0.5:
                put("P", sq(f, 6))
            else:
                put("p", sq(f, 1))
        for _ in range(rng.randrange(0, 8)):
            put(rng.choice("NBRQnbrqPp"))
    elif style == "pins":
        # sliders aimed at kings with one blocker in between
        ks = [s for s, p in board.items() if p in "Kk"]
        for k in ks:
            own = board[k] == "K"
            for _ in range(rng.randrange(1, 4)):
                df, dr = rng.choice([(0, 1), (1, 0), (0, -1), (-1, 0), (1, 1), (1, -1), (-1, 1), (-1, -1)])
                d1 = rng.randrange(1, 4)
                d2 = d1 + rng.randrange(1, 4)
                f1, r1 = k % 8 + df * d1, k // 8 + dr * d1
                f2, r2 = k % 8 + df * d2, k // 8 + dr * d2
                if 0 <= f2 < 8 and 0 <= r2 < 8:
                    slider = rng.choice("QR" if 0 in (df, dr) else "QB")
                    blocker = rng.choice("PNBRQ" if rng.random() < 0.8 else "pnbrq")
                    if blocker in "Pp" and r1 in (0, 7):
                        blocker = "N"
                    put(blocker if own else blocker.swapcase(), sq(f1, r1))
                    put(slider.lower() if own else slider, sq(f2, r2))
        for _ in range(rng.randrange(0, 6)):
            put(rng.choice("PNBRQpnbrq"))
    if style == "ep" or (style in ("pins", "sparse", "mid") and rng.random() < 0.35):
        # a double push just happened: pusher is the side NOT to move
        f = rng.randrange(8)
        if stm == "w":
            pawn, r_p, r_e, r_o, cap = "p", 4, 5, 6, "P"
        else:
            pawn, r_p, r_e, r_o, cap = "P", 3, 2, 1, "p"
        if sq(f, r_p) not in board and sq(f, r_e) not in board and sq(f, r_o) not in board:
            put(pawn, sq(f, r_p))
            for s in (sq(f, r_e), sq(f, r_o)):
                if s in free:
                    free.remove(s)
            ep = sq(f, r_e)
            for df in (-1, 1):
                if 0 <= f + df < 8 and rng.random() < 0.7:
                    put(cap, sq(f + df, r_p))
            if style == "ep":
                # heavy pieces on the rank / diagonals to provoke the discovered-check cases
                for _ in range(rng.randrange(0, 5)):
                    put(rng.choice("QRBqrbNn"))
                if rng.random() < 0.5:
                    kk = "K" if stm == "w" else "k"
                    ksq = [s for s, p in board.items() if p == kk][0]
                    del board[ksq]
                    ff = rng.randrange(8)
                    if sq(ff, r_p) not in board:
                        board[sq(ff, r_p)] = kk
                        if sq(ff, r_p) in free:
                            free.remove(sq(ff, r_p))
                    else:
                        board[ksq] = kk
    clock = rng.choice([0, 0, 0, 1, 5, 49, 98, 99, 100, 120])
    if ep is not None:
        clock = 0
    full = rng.choice([1, 1, 2, 10, 37, 120])
    return board_to_fen(board, stm, rights, ep, clock, full)


def valid_positions(model, rng, n, styles=None, extra=()):
    """n valid FENs (by the extracted valid_position), plus the classic/corpus ones first."""
    out = []
    seen = set()
    cands = list(extra)
    tries = 0
    while len(out) < n and tries < 60:
        tries += 1
        batch = cands + [random_position(rng, rng.choice(styles) if styles else None) for _ in range(max(64, 2 * (n - len(out))))]
        cands = []
        rc, res, err = run_lines(model, ["valid " + f for f in batch], shards=NPROC)
        for f, r in zip(batch, res):
            if r == "1" and f not in seen:
                seen.add(f)
                out.append(f)
                if len(out) >= n:
                    break
    return out


def filter_valid(model, fens):
    """The subset of the given FENs inside the property quantifier (extracted valid_position), duplicates removed."""
    fens = list(dict.fromkeys(fens))
    rc, res, err = run_lines(model, ["valid " + f for f in fens], shards=NPROC)
    return [f for f, r in zip(fens, res) if r == "1"]


def playouts(model, rng, starts, plies, bias=None):
    """Random legal games from the given start FENs, played by the extracted rules."""
    lines = ["playout %d %d %d %s" % (rng.randrange(1 << 30), plies, rng.randrange(0, 10) if bias is None else bias, f) for f in starts]
    rc, res, err = run_lines(model, lines, shards=NPROC)
    return [(f, (r or "").split()) for f, r in zip(starts, res)]


# ------------------------------------------------------------------------------------------------
# "two things at once" templates: moves that combine several special effects in ONE move (promotion
# that captures a home-corner rook whose castling right is still live, en passant that uncovers a
# slider, castling with a rook check, king/rook captures that revoke rights, double pushes next to
# pawns ...).  Every legal move of each template position is then played as its own game, so the rare
# branch is exercised deterministically instead of being hoped for in random play.

def combo_positions(rng, n):
    out = []
    corner = {"a8": (56, "r", "q", 49, "P"), "h8": (63, "r", "k", 54, "P"), "a1": (0, "R", "Q", 9, "p"), "h1": (7, "R", "K", 14, "p")}
    for _ in range(n):
        board = {4: "K", 60: "k"}
        rights = ""
        for name, (rs, rook, flag, ps, pawn) in corner.items():
            if rng.random() < 0.85:
                board[rs] = rook
                if rng.random() < 0.9:
                    rights += flag
        # promoting pawns next to the corners (capture onto the rook) - one colour to move
        stm = rng.choice("wb")
        for name, (rs, rook, flag, ps, pawn) in corner.items():
            if (pawn == "P") == (stm == "w") and rng.random() < 0.8 and ps not in board:
                board[ps] = pawn
        # sometimes a minor piece or queen that can also take the corner rook
        for _ in range(rng.randrange(0, 4)):
            s = rng.randrange(64)
            if s not in board and s // 8 not in (0, 7):
                board[s] = rng.choice("NBQnbq")
        rights = "".join(c for c in "KQkq" if c in rights)
        out.append(board_to_fen(board, stm, rights, None, rng.choice([0, 3, 49, 99]), rng.choice([1, 20])))
    # family B: castling available AND an en-passant square set (castling must clear / undo must restore the ep state)
    for _ in range(max(4, n // 2)):
        stm = rng.choice("wb")
        board = {4: "K", 60: "k"}
        rights = ""
        for sq_, pc, flag in ((7, "R", "K"), (0, "R", "Q"), (63, "r", "k"), (56, "r", "q")):
            if rng.random() < 0.85:
                board[sq_] = pc
                rights += flag
        f = rng.randrange(8)
        if stm == "w":      # black just pushed f7-f5
            board[32 + f] = "p"
            ep = 40 + f
            capr, cap = 32, "P"
        else:               # white just pushed f2-f4
            board[24 + f] = "P"
            ep = 16 + f
            capr, cap = 24, "p"
        for df in (-1, 1):
            if 0 <= f + df < 8 and rng.random() < 0.7:
                board[capr + f + df] = cap
        for _ in range(rng.randrange(0, 4)):
            x = rng.randrange(8, 56)
            if x not in board and x not in (ep, ep + 8, ep - 8):
                board[x] = rng.choice("NBnbPp" if 8 <= x < 48 else "NBnb")
        rights = "".join(c for c in "KQkq" if c in rights)
        out.append(board_to_fen(board, stm, rights, ep, 0, rng.choice([3, 20])))
    out += ["r3k2r/8/8/3pP3/8/8/8/R3K2R w KQkq d6 0 6", "r3k2r/8/8/8/3Pp3/8/8/R3K2R b KQkq d3 0 6",
            "rnbqk2r/ppp2ppp/1n2p3/3pP3/8/1B3N2/PPPP1PPP/RNBQK2R w KQkq d6 0 6"]
    # fixed seeds of the same family (every corner, both colours, rights live)
    out += ["r3k2r/1P4P1/8/8/8/8/8/4K3 w kq - 0 1", "4k3/8/8/8/8/8/1p4p1/R3K2R b KQ - 0 1",
            "r3k2r/1P4P1/8/8/8/8/1p4p1/R3K2R w KQkq - 3 9", "r3k2r/1P4P1/8/8/8/8/1p4p1/R3K2R b KQkq - 3 9",
            "r3k2r/6P1/8/8/8/8/8/4K3 w kq - 0 1", "r3k2r/p1ppqpb1/bn2pnp1/3PN3/1p2P3/2N2Q2/PPPBBPpP/R3K2R b KQkq - 0 2"]
    return out


def all_moves_games(model, fens, tail=()):
    """For every legal move m of every fen: the game [m] (+ optional fixed tail tokens, e.g. 'u' for walk scripts)."""
    rc, res, err = run_lines(model, ["legal " + f for f in fens], shards=NPROC)
    games = []
    for f, r in zip(fens, res):
        toks = (r or "").split()
        for m in toks[1:]:
            games.append((f, [m] + list(tail)))
    return games


# ------------------------------------------------------------------------------------------------
# systematic king-ray templates: (colour, king square, direction, own blocker kind at distance d1, enemy
# piece at distance d2 > d1).  Covers every pinned-piece branch of the generator, in particular pinned
# pawns on every rank (including the promotion rank with the pinner adjacent = capturable).

DIRS8 = [(0, 1), (1, 1), (1, 0), (1, -1), (0, -1), (-1, -1), (-1, 0), (-1, 1)]


def pin_positions(rng, n):
    must, rest = [], []
    for white in (True, False):
        for k in range(64):
            kf, kr = k % 8, k // 8
            for (df, dr) in DIRS8:
                for d1 in (1, 2, 3):
                    for gap in (1, 2, 3):
                        d2 = d1 + gap
                        f1, r1, f2, r2 = kf + df * d1, kr + dr * d1, kf + df * d2, kr + dr * d2
                        if not (0 <= f2 < 8 and 0 <= r2 < 8):
                            continue
                        for blocker in "PNBRQ":
                            if blocker == "P" and r1 in (0, 7):
                                continue
                            for slider in ("QRB" if rng.random() < 0.3 else ("QR" if 0 in (df, dr) else "QB")):
                                t = (white, k, sq(f1, r1), blocker, sq(f2, r2), slider, df, dr)
                                promo_rank = blocker == "P" and r1 == (6 if white else 1)
                                (must if promo_rank else rest).append(t)
    rng.shuffle(rest)
    out = []
    for (white, k, b, blocker, s, slider, df, dr) in must + rest[: max(0, n - len(must))]:
        board = {k: "K" if white else "k", b: blocker if white else blocker.lower(), s: slider.lower() if white else slider}
        # the other king far away
        cands = [x for x in range(64) if x not in board and max(abs(x % 8 - k % 8), abs(x // 8 - k // 8)) > 1]
        board[rng.choice(cands)] = "k" if white else "K"
        # bait: enemy pieces on the pawn's capture squares / own pieces elsewhere
        if blocker == "P":
            fwd = 1 if white else -1
            for dfc in (-1, 1):
                t = (b % 8 + dfc, b // 8 + fwd)
                if 0 <= t[0] < 8 and 0 <= t[1] < 8 and sq(*t) not in board and rng.random() < 0.5:
                    board[sq(*t)] = rng.choice("nbrq" if white else "NBRQ")
        for _ in range(rng.randrange(0, 3)):
            x = rng.randrange(64)
            if x not in board:
                pc = rng.choice("NBRQPnbrqp")
                if not (pc in "Pp" and x // 8 in (0, 7)):
                    board[x] = pc
        out.append(board_to_fen(board, "w" if white else "b", "", None, 0, 1))
    return out


def long_shuffle_games(rng, count, max_segments=16):
    """Scripted legal games from the start position, several hundred plies long: pawn steps (clock resets) interleaved with
    knight / rook shuffle cycles (2- and 3-fold repetitions at every game length, rights lost in between)."""
    games = []
    for _ in range(count):
        wp = ["a2a3", "b2b3", "c2c3", "d2d3", "e2e3", "g2g3", "h2h3"]
        bp = ["a7a6", "b7b6", "c7c6", "d7d6", "e7e6", "g7g6", "h7h6"]
        w2 = {"a2a3": "a3a4", "b2b3": "b3b4", "c2c3": "c3c4", "d2d3": "d3d4", "e2e3": "e3e4", "g2g3": "g3g4", "h2h3": "h3h4"}
        b2 = {"a7a6": "a6a5", "b7b6": "b6b5", "c7c6": "c6c5", "d7d6": "d6d5", "e7e6": "e6e5", "g7g6": "g6g5", "h7h6": "h6h5"}
        rng.shuffle(wp)
        rng.shuffle(bp)
        wq, bq = list(wp), list(bp)
        ms = []
        a_moved_w = a_moved_b = False
        for seg in range(rng.randrange(6, max_segments + 1)):
            if not wq or not bq:
                break
            w, b = wq.pop(0), bq.pop(0)
            if w in w2 and rng.random() < 0.8:
                wq.append(w2[w])
            if b in b2 and rng.random() < 0.8:
                bq.append(b2[b])
            ms += [w, b]
            a_moved_w |= w == "a2a3"
            a_moved_b |= b == "a7a6"
            cyc = rng.choice([1, 2, 2, 3, 5, 8, 12])
            kind = rng.random()
            for _c in range(cyc):
                if kind < 0.25 and a_moved_w and a_moved_b:
                    ms += ["a1a2", "a8a7", "a2a1", "a7a8"]
                elif kind < 0.5:
                    ms += ["b1c3", "b8c6", "c3b1", "c6b8"] if "c2c3" not in ms and "c7c6" not in ms else ["g1f3", "g8f6", "f3g1", "f6g8"]
                else:
                    ms += ["g1f3", "g8f6", "f3g1", "f6g8"]
        games.append((START, ms))
    return games


# ------------------------------------------------------------------------------------------------
# material classes: random placements for each specialised endgame class (both colours), with the
# blockade / fortress / wrong-bishop templates the evaluators special-case

ENDGAME_CLASSES = {
    "KPK": ("P", ""), "KPsK": ("PP", ""), "KPsK3": ("PPP", ""), "KRKB": ("R", "b"), "KRKN": ("R", "n"), "KNNK": ("NN", ""),
    "KNNKP": ("NN", "p"), "KQKR": ("Q", "r"), "KNBK": ("NB", ""), "KRNKR": ("RN", "r"), "KRBKR": ("RB", "r"), "KBPsK": ("BP", ""),
    "KBPsK2": ("BPP", ""), "KBPsKB": ("BP", "b"), "KBPsKB2": ("BPP", "b"), "KBPsKB3": ("BPPP", "b"), "KRKP": ("R", "p"), "KQKP": ("Q", "p"),
    "KQKRPs": ("Q", "rp"), "KQKRPs2": ("Q", "rpp"), "KBBKN": ("BB", "n"), "KBNKB": ("BN", "b"), "KNNKB": ("NN", "b"),
    "KQK": ("Q", ""), "KRK": ("R", ""), "KQQK": ("QQ", ""), "KRRPK": ("RRP", ""), "KBBK": ("BB", ""),
}


def mirror_fen(fen):
    """ranks flipped, colours, castling rights, en-passant square and side to move swapped"""
    pl, stm, rights, ep, clock, full = fen.split()
    rows = pl.split("/")
    pl2 = "/".join(r.swapcase() for r in reversed(rows))
    stm2 = "b" if stm == "w" else "w"
    r2 = "".join(c for c in "KQkq" if c.swapcase() in rights) or "-"
    ep2 = "-" if ep == "-" else ep[0] + str(9 - int(ep[1]))
    return "%s %s %s %s %s %s" % (pl2, stm2, r2, ep2, clock, full)


def material_positions(rng, per_class, classes=None):
    out = []
    for name, (strong, weak) in (classes or ENDGAME_CLASSES).items():
        for _ in range(per_class):
            board = {}
            free = list(range(64))
            rng.shuffle(free)

            def put(pc, cond=lambda s: True):
                for i, s in enumerate(free):
                    if cond(s) and not (pc in "Pp" and s // 8 in (0, 7)):
                        board[s] = pc
                        free.pop(i)
                        return s
                return None
            k1 = put("K")
            put("k", lambda s: max(abs(s % 8 - k1 % 8), abs(s // 8 - k1 // 8)) > 1)
            r = rng.random()
            for pc in strong:
                if pc == "P" and r < 0.35:
                    # rook-file / same-file / adjacent-file pawn templates
                    f = rng.choice([0, 7]) if r < 0.15 else rng.choice([0, 1, 2, 5, 6, 7])
                    put(pc, lambda s: s % 8 in (f, min(7, f + (1 if r > 0.25 else 0))))
                else:
                    put(pc)
            for pc in weak:
                if pc == "p" and rng.random() < 0.5:
                    put(pc, lambda s: s // 8 in (1, 2) and s % 8 in (0, 2, 5, 7))
                else:
                    put(pc)
            fen = board_to_fen(board, rng.choice("wb"), "", None, rng.choice([0, 0, 3, 40]), rng.choice([1, 50]))
            out.append((name, fen))
            out.append((name + "/mirrored", mirror_fen(fen)))
    return out


KBPSKB_TEMPLATES = [
    "b7/8/2K1k3/4P3/3P4/8/8/2B5 w - - 0 1", "8/8/4k3/2b1P3/3P1K2/8/8/2B5 b - - 0 1", "8/2b5/3k4/3P4/2P5/1K6/8/4B3 w - - 0 1",
    "8/8/3kb3/3P4/4P3/8/2K5/5B2 w - - 0 1", "8/5b2/4k3/4P3/5P2/3K4/8/6B1 b - - 0 1", "5b2/8/4k3/3P4/4P3/8/3K4/B7 w - - 0 1",
]
FORTRESS_TEMPLATES = [
    "8/8/8/8/8/1pk5/1r6/3Q2K1 w - - 0 1", "8/6pk/6r1/8/8/8/3Q4/6K1 w - - 0 1", "6k1/5pp1/6r1/8/8/8/3Q4/6K1 b - - 0 1",
    "8/8/8/8/8/k7/p7/K1Q5 w - - 0 1", "8/8/8/8/8/2k5/2p5/K3Q3 w - - 0 1", "7k/7P/7K/8/8/8/8/3B4 w - - 0 1", "k7/P7/K7/8/8/8/8/3B4 w - - 0 1",
]


def castling_middlegames(rng, n):
    """Opening-like positions in which both kings can still castle at once (paths clear, pieces developed): the kind of position in which
    the OPPONENT's castling move appears inside a principal variation."""
    out = []
    while len(out) < n:
        board = {sq(4, 0): "K", sq(4, 7): "k", sq(0, 0): "R", sq(7, 0): "R", sq(0, 7): "r", sq(7, 7): "r"}
        for f in range(8):
            r = rng.choice([1, 1, 1, 2, 2, 3])
            board[sq(f, r)] = "P"
            r2 = rng.choice([6, 6, 6, 5, 5, 4])
            if r2 > r:
                board[sq(f, r2)] = "p"
        spots_w = [sq(f, r) for f in range(8) for r in (1, 2, 3) if sq(f, r) not in board]
        spots_b = [sq(f, r) for f in range(8) for r in (4, 5, 6) if sq(f, r) not in board]
        rng.shuffle(spots_w)
        rng.shuffle(spots_b)
        for pcs, spots, low in (("NNBBQ", spots_w, False), ("nnbbq", spots_b, True)):
            for pc in pcs:
                if rng.random() < 0.8 and spots:
                    board[spots.pop()] = pc
        # sometimes one wing is still blocked
        if rng.random() < 0.3:
            board.setdefault(sq(rng.choice([1, 2, 3, 5, 6]), 0), rng.choice("NB"))
        if rng.random() < 0.3:
            board.setdefault(sq(rng.choice([1, 2, 3, 5, 6]), 7), rng.choice("nb"))
        rights = "".join(c for c in "KQkq" if rng.random() < 0.9)
        out.append(board_to_fen(board, rng.choice("wb"), rights, None, 0, rng.choice([8, 12, 20])))
    return out
