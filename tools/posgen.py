"""Seeded generators of positions (FEN strings) and games.

Positions are *constructed* (random placements shaped by templates) and then filtered by the
extracted `valid_position` (the quantifier of C01), so neither side is blamed for positions
outside the property's domain.  Games are played by the extracted rules (op `playout`).
"""
from vlib import run_lines, NPROC

START = "rnbqkbnr/pppppppp/8/8/8/8/PPPPPPPP/RNBQKBNR w KQkq - 0 1"

CLASSIC = [
    START,
    "r3k2r/p1ppqpb1/bn2pnp1/3PN3/1p2P3/2N2Q1p/PPPBBPPP/R3K2R w KQkq - 0 1",
    "8/2p5/3p4/KP5r/1R3p1k/8/4P1P1/8 w - - 0 1",
    "r3k2r/Pppp1ppp/1b3nbN/nP6/BBP1P3/q4N2/Pp1P2PP/R2Q1RK1 w kq - 0 1",
    "rnbq1k1r/pp1Pbppp/2p5/8/2B5/8/PPP1NnPP/RNBQK2R w KQ - 1 8",
    "r4rk1/1pp1qppp/p1np1n2/2b1p1B1/2B1P1b1/P1NP1N2/1PP1QPPP/R4RK1 w - - 0 10",
    # defects / boundary positions found while reading the code (DESIGN.md 1.2)
    "8/6b1/8/4Pp2/8/2K5/8/7k w - f6 0 1",
    "r3k2r/8/8/8/8/8/8/R3K2R w KQkq - 5 10",
    "8/8/1n4Pk/3p4/3P1P1p/1NK3P1/p1P4p/4B3 b - - 0 1",
    "r3k2r/8/8/8/8/8/8/R3K3 b kq - 0 1",
    "r3kbnr/2p3p1/bp2P3/p3pp2/7p/2P4Q/PP1KPPPP/R4BNR b q - 0 1",
    "R6R/3Q4/1Q4Q1/4Q3/2Q4Q/Q4Q2/pp1Q4/kBNN1KB1 w - - 0 1",
    "8/8/8/K7/8/k7/P7/8 w - - 0 1",
    "4k3/8/8/8/8/8/8/4K2R w K - 0 1",
    "8/8/8/8/k2Pp2Q/8/8/3K4 b - d3 0 1",
    "8/8/8/2k5/3Pp3/8/8/3K4 b - d3 0 1",
    "4k3/8/8/8/1b1Pp3/8/8/4K3 b - d3 0 1",
    "k7/8/8/8/3pP3/8/8/K6q w - - 0 1",
]

PIECES = "PNBRQK"


def sq(f, r):
    return r * 8 + f


def board_to_fen(board, stm, rights, ep, clock, fullmove):
    rows = []
    for r in range(7, -1, -1):
        row = ""
        run = 0
        for f in range(8):
            pc = board.get(sq(f, r))
            if pc is None:
                run += 1
            else:
                if run:
                    row += str(run)
                    run = 0
                row += pc
        if run:
            row += str(run)
        rows.append(row)
    eps = "-" if ep is None else "abcdefgh"[ep % 8] + "12345678"[ep // 8]
    return "%s %s %s %s %d %d" % ("/".join(rows), stm, rights or "-", eps, clock, fullmove)


def random_position(rng, style=None):
    """A random placement; about half survive the validity filter."""
    style = style or rng.choice(["sparse", "sparse", "mid", "dense", "ep", "castle", "promo", "pins", "queens"])
    board = {}
    free = list(range(64))
    rng.shuffle(free)

    def put(pc, where=None):
        if where is None:
            while free:
                s = free.pop()
                if pc in "Pp" and s // 8 in (0, 7):
                    continue
                board[s] = pc
                return s
            return None
        if where in board:
            return None
        board[where] = pc
        if where in free:
            free.remove(where)
        return where

    stm = rng.choice("wb")
    rights = ""
    ep = None
    if style == "castle":
        for pc, ks, r in (("K", 4, 0), ("k", 60, 0)):
            put(pc, ks)
        cand = [("K", "R", 7), ("Q", "R", 0), ("k", "r", 63), ("q", "r", 56)]
        for flag, pc, s in cand:
            if rng.random() < 0.8:
                put(pc, s)
                if rng.random() < 0.85:
                    rights += flag
        n = rng.randrange(0, 10)
        for _ in range(n):
            put(rng.choice("PNBRQpnbrq"))
    else:
        put("K")
        put("k")
    if style == "sparse":
        for _ in range(rng.randrange(1, 7)):
            put(rng.choice("QRBNPqrbnpQRBqrb"))
    elif style == "mid":
        for _ in range(rng.randrange(6, 16)):
            put(rng.choice("PPPNBRQpppnbrq"))
    elif style == "dense":
        for _ in range(rng.randrange(16, 30)):
            put(rng.choice("PPPPNBRQppppnbrq"))
    elif style == "queens":
        side = rng.choice(["Q", "q", "N", "n", "R", "r", "B", "b"])
        for _ in range(rng.randrange(5, 10)):
            put(side)
        for _ in range(rng.randrange(0, 5)):
            put(rng.choice("PNBRQpnbrq"))
    elif style == "promo":
        for _ in range(rng.randrange(1, 5)):
            f = rng.randrange(8)
            if rng.random() < 0.5:
                put("P", sq(f, 6))
            else:
                put("p", sq(f, 1))
        for _ in range(rng.randrange(0, 8)):
            put(rng.choice("NBRQnbrqPp"))
    elif style == "pins":
        # sliders aimed at kings with one blocker in between
        ks = [s for s, p in board.items() if p in "Kk"]
        for k in ks:
            own = board[k] == "K"
            for _ in range(rng.randrange(1, 4)):
                df, dr = rng.choice([(0, 1), (1, 0), (0, -1), (-1, 0), (1, 1), (1, -1), (-1, 1), (-1, -1)])
                d1 = rng.randrange(1, 4)
                d2 = d1 + rng.randrange(1, 4)
                f1, r1 = k % 8 + df * d1, k // 8 + dr * d1
                f2, r2 = k % 8 + df * d2, k // 8 + dr * d2
                if 0 <= f2 < 8 and 0 <= r2 < 8:
                    slider = rng.choice("QR" if 0 in (df, dr) else "QB")
                    blocker = rng.choice("PNBRQ" if rng.random() < 0.8 else "pnbrq")
                    if blocker in "Pp" and r1 in (0, 7):
                        blocker = "N"
                    put(blocker if own else blocker.swapcase(), sq(f1, r1))
                    put(slider.lower() if own else slider, sq(f2, r2))
        for _ in range(rng.randrange(0, 6)):
            put(rng.choice("PNBRQpnbrq"))
    if style == "ep" or (style in ("pins", "sparse", "mid") and rng.random() < 0.35):
        # a double push just happened: pusher is the side NOT to move
        f = rng.randrange(8)
        if stm == "w":
            pawn, r_p, r_e, r_o, cap = "p", 4, 5, 6, "P"
        else:
            pawn, r_p, r_e, r_o, cap = "P", 3, 2, 1, "p"
        if sq(f, r_p) not in board and sq(f, r_e) not in board and sq(f, r_o) not in board:
            put(pawn, sq(f, r_p))
            for s in (sq(f, r_e), sq(f, r_o)):
                if s in free:
                    free.remove(s)
            ep = sq(f, r_e)
            for df in (-1, 1):
                if 0 <= f + df < 8 and rng.random() < 0.7:
                    put(cap, sq(f + df, r_p))
            if style == "ep":
                # heavy pieces on the rank / diagonals to provoke the discovered-check cases
                for _ in range(rng.randrange(0, 5)):
                    put(rng.choice("QRBqrbNn"))
                if rng.random() < 0.5:
                    kk = "K" if stm == "w" else "k"
                    ksq = [s for s, p in board.items() if p == kk][0]
                    del board[ksq]
                    ff = rng.randrange(8)
                    if sq(ff, r_p) not in board:
                        board[sq(ff, r_p)] = kk
                        if sq(ff, r_p) in free:
                            free.remove(sq(ff, r_p))
                    else:
                        board[ksq] = kk
    clock = rng.choice([0, 0, 0, 1, 5, 49, 98, 99, 100, 120])
    if ep is not None:
        clock = 0
    full = rng.choice([1, 1, 2, 10, 37, 120])
    return board_to_fen(board, stm, rights, ep, clock, full)


def valid_positions(model, rng, n, styles=None, extra=()):
    """n valid FENs (by the extracted valid_position), plus the classic/corpus ones first."""
    out = []
    seen = set()
    cands = list(extra)
    tries = 0
    while len(out) < n and tries < 60:
        tries += 1
        batch = cands + [random_position(rng, rng.choice(styles) if styles else None) for _ in range(max(64, 2 * (n - len(out))))]
        cands = []
        rc, res, err = run_lines(model, ["valid " + f for f in batch], shards=NPROC)
        for f, r in zip(batch, res):
            if r == "1" and f not in seen:
                seen.add(f)
                out.append(f)
                if len(out) >= n:
                    break
    return out


def playouts(model, rng, starts, plies, bias=None):
    """Random legal games from the given start FENs, played by the extracted rules."""
    lines = ["playout %d %d %d %s" % (rng.randrange(1 << 30), plies, rng.randrange(0, 10) if bias is None else bias, f) for f in starts]
    rc, res, err = run_lines(model, lines, shards=NPROC)
    return [(f, (r or "").split()) for f, r in zip(starts, res)]
