"""Process-level UCI sessions over pipes (the real engine binary or a hooked variant)."""
import os
import select
import subprocess
import time


class Uci:
    def __init__(self, exe, env=None, args=()):
        e = dict(os.environ)
        if env:
            e.update(env)
        self.p = subprocess.Popen([exe] + list(args), stdin=subprocess.PIPE, stdout=subprocess.PIPE, stderr=subprocess.PIPE, env=e, bufsize=0)
        self.buf = b""
        self.lines = []
        self.log = []

    def send(self, cmd):
        self.log.append("> " + cmd)
        try:
            self.p.stdin.write((cmd + "\n").encode())
            self.p.stdin.flush()
        except (BrokenPipeError, OSError):
            pass

    def _pump(self, timeout):
        r, _, _ = select.select([self.p.stdout], [], [], timeout)
        if not r:
            return False
        data = os.read(self.p.stdout.fileno(), 65536)
        if not data:
            return None
        self.buf += data
        while b"\n" in self.buf:
            l, self.buf = self.buf.split(b"\n", 1)
            s = l.decode("utf8", "replace").rstrip("\r")
            self.lines.append((time.time(), s))
            self.log.append("< " + s)
        return True

    def wait_for(self, pred, timeout):
        """Wait until a received line satisfies pred; returns (line, time) or (None, None).  Consumes lines up to the match."""
        t_end = time.time() + timeout
        idx = getattr(self, "_idx", 0)
        while True:
            while idx < len(self.lines):
                t, s = self.lines[idx]
                idx += 1
                if pred(s):
                    self._idx = idx
                    return s, t
            self._idx = idx
            left = t_end - time.time()
            if left <= 0:
                return None, None
            r = self._pump(min(left, 0.5))
            if r is None:
                # EOF: drain what is there
                if idx >= len(self.lines):
                    return None, None

    def count(self, pred):
        return sum(1 for _, s in self.lines if pred(s))

    def close(self, timeout=10):
        self.send("quit")
        try:
            self.p.stdin.close()
        except OSError:
            pass
        try:
            self.p.wait(timeout=timeout)
        except subprocess.TimeoutExpired:
            self.p.kill()
            self.p.wait()
        # drain
        try:
            while self._pump(0.05):
                pass
        except (OSError, ValueError):
            pass
        err = b""
        try:
            err = self.p.stderr.read() or b""
        except (OSError, ValueError):
            pass
        return self.p.returncode, err.decode("utf8", "replace")


def run_script(exe, script, env=None, go_timeout=120):
    """script: list of commands; after each `go ...` waits for `bestmove`.  Returns dict(rc, stderr, log, missing_bestmove, bestmoves)."""
    u = Uci(exe, env)
    missing = []
    best = []
    for cmd in script:
        u.send(cmd)
        if cmd.startswith("go"):
            s, t = u.wait_for(lambda x: x.startswith("bestmove"), go_timeout)
            if s is None:
                missing.append(cmd)
                if u.p.poll() is not None:
                    break
            else:
                best.append(s.split()[1] if len(s.split()) > 1 else "")
        elif cmd == "isready":
            u.wait_for(lambda x: x == "readyok", 30)
        if u.p.poll() is not None:
            break
    rc, err = u.close()
    return {"rc": rc, "stderr": err, "log": u.log, "missing_bestmove": missing, "bestmoves": best}
