"""B1 for facts a compiled dumper cannot reflect: read clang's JSON AST of the working tree.
   - extent of the local array previous_moves in Search::iter_search
   - does Search::go() mention the stop flag (the reset that used to erase an early stop)
   - extent of the scratch array in Position::san / san_without_check"""
import json
import os
import re
from vlib import *


def _objs(txt):
    dec = json.JSONDecoder()
    i, out = 0, []
    while i < len(txt):
        while i < len(txt) and txt[i].isspace():
            i += 1
        if i >= len(txt):
            break
        o, i = dec.raw_decode(txt, i)
        out.append(o)
    return out


def _walk(n, f):
    f(n)
    for c in n.get("inner", []) or []:
        if isinstance(c, dict):
            _walk(c, f)


def _ast(src, flt, builddir):
    cmd = ["clang++", "-std=c++20", "-fsyntax-only", "-DNDEBUG", "-DLOG_LEVEL=0", "-D" + GUARD, "-I", builddir, "-I", os.path.join(REPO, "engine"),
           "-Xclang", "-ast-dump=json", "-Xclang", "-ast-dump-filter=" + flt, os.path.join(REPO, "engine", src)]
    rc, o, e = sh(cmd, timeout=300)
    if not o.strip():
        raise BuildError("clang AST dump of %s (%s) failed: %s" % (src, flt, e[-1500:]))
    return _objs(o)


def layout_facts():
    d, _ = engine_objects("plain")
    facts = {}
    # previous_moves extent
    ext = None
    for o in _ast("search.cpp", "iter_search", d):
        def f(n):
            nonlocal ext
            if n.get("kind") == "VarDecl" and n.get("name") == "previous_moves":
                t = n.get("type", {}).get("qualType", "")
                m = re.search(r"\[(\d+)\]", t)
                ext = int(m.group(1)) if m else (0 if "vector" in t else None)
        _walk(o, f)
    facts["previous_moves_extent"] = ext
    # does go() touch the flag?
    touches = False
    found_go = False
    for o in _ast("search.cpp", "engine::Search::go", d):
        if o.get("kind") == "CXXMethodDecl" and o.get("name") == "go":
            found_go = True

            def g(n):
                nonlocal touches
                if n.get("kind") == "MemberExpr" and n.get("name") == "stop_search":
                    touches = True
            _walk(o, g)
    facts["go_found"] = found_go
    facts["go_touches_stop_flag"] = touches
    # every write of the flag by any member function of Search: only 'true' (or |=) may be written - the search thread must never clear it
    clears = []
    sets = []

    def _strip(n):
        while n.get("kind") in ("ImplicitCastExpr", "ParenExpr", "ExprWithCleanups", "MaterializeTemporaryExpr", "CXXFunctionalCastExpr") and n.get("inner"):
            n = n["inner"][0]
        return n

    def _is_flag(n):
        n = _strip(n)
        return n.get("kind") == "MemberExpr" and n.get("name") == "stop_search"

    def _is_true(n):
        n = _strip(n)
        return n.get("kind") == "CXXBoolLiteralExpr" and n.get("value") is True

    def _line(n):
        b = n.get("range", {}).get("begin", {})
        return b.get("line") or b.get("spellingLoc", {}).get("line") or b.get("expansionLoc", {}).get("line")

    seen_fn = set()
    for o in _ast("search.cpp", "engine::Search::", d):
        if o.get("kind") not in ("CXXMethodDecl", "CXXConstructorDecl", "CXXDestructorDecl", "FunctionTemplateDecl") or not any(
                isinstance(c, dict) and c.get("kind") == "CompoundStmt" for c in (o.get("inner") or [])) and o.get("kind") != "FunctionTemplateDecl":
            continue
        if o.get("id") in seen_fn:
            continue
        seen_fn.add(o.get("id"))
        fn = o.get("name")

        def w(n):
            k = n.get("kind")
            inner = [c for c in (n.get("inner") or []) if isinstance(c, dict)]
            if k == "CXXOperatorCallExpr" and len(inner) >= 3 and _is_flag(inner[1]):
                op = _strip(inner[0]).get("referencedDecl", {}).get("name", "")
                if op == "operator=" and _is_true(inner[2]):
                    sets.append("%s:%s" % (fn, _line(n)))
                if op == "operator=" and not _is_true(inner[2]):
                    clears.append("%s: assignment of a non-literal" % fn)
                elif op in ("operator&=", "operator^="):
                    clears.append("%s: %s" % (fn, op))
            elif k in ("BinaryOperator", "CompoundAssignOperator") and len(inner) == 2 and _is_flag(inner[0]):
                opc = n.get("opcode")
                if (opc == "=" and not _is_true(inner[1])) or opc in ("&=", "^="):
                    clears.append("%s: %s" % (fn, opc))
            elif k == "CXXMemberCallExpr" and inner and inner[0].get("kind") == "MemberExpr" and inner[0].get("name") in (
                    "store", "exchange", "compare_exchange_strong", "compare_exchange_weak") and inner[0].get("inner") and _is_flag(inner[0]["inner"][0]):
                arg = inner[-1] if inner[0].get("name").startswith("compare") else (inner[1] if len(inner) > 1 else {})
                if not _is_true(arg):
                    clears.append("%s: %s of a non-literal" % (fn, inner[0].get("name")))
        _walk(o, w)
    facts["flag_clearing_writes"] = sorted(set(clears))
    facts["flag_set_sites"] = len(set(sets))
    # san scratch buffer
    sanext = None
    for o in _ast("position.cpp", "engine::Position::san", d):
        def h(n):
            nonlocal sanext
            if n.get("kind") == "VarDecl":
                qt = n.get("type", {}).get("qualType", "")
                if "Move" in qt and "vector" not in qt:
                    for t in (n.get("type", {}).get("desugaredQualType", ""), qt):
                        m = re.search(r"array<[^,]*,\s*(\d+)>", t) or re.search(r"\[(\d+)\]", t)
                        if m:
                            sanext = max(sanext or 0, int(m.group(1)))
        _walk(o, h)
    facts["san_scratch_extent"] = sanext
    return facts


def gen_layout_v():
    f = layout_facts()
    missing = [k for k in ("previous_moves_extent", "san_scratch_extent") if f.get(k) is None] + ([] if f["go_found"] else ["Search::go"])
    txt = "(* GENERATED by /verif/tools/layout.py (clang AST of the working tree). Do not edit. *)\nFrom Coq Require Import ZArith.\n\n"
    txt += "Definition previous_moves_extent : Z := (%d)%%Z.\n" % (f["previous_moves_extent"] if f["previous_moves_extent"] is not None else -1)
    txt += "Definition san_scratch_extent : Z := (%d)%%Z.\n" % (f["san_scratch_extent"] if f["san_scratch_extent"] is not None else -1)
    txt += "Definition go_touches_stop_flag : bool := %s.\n" % ("true" if f["go_touches_stop_flag"] or not f["go_found"] else "false")
    txt += "(* writes of the stop flag by member functions of Search that are not 'flag = true' / '|=': %s *)\n" % (", ".join(f["flag_clearing_writes"]) or "none")
    txt += "Definition flag_set_sites : Z := (%d)%%Z.   (* 'flag = true' statements found: the walk is not vacuous *)\n" % f["flag_set_sites"]
    txt += "Definition flag_clearing_writes : Z := (%d)%%Z.\n" % len(f["flag_clearing_writes"])
    write_if_changed(os.path.join(GEN, "LayoutAst.v"), txt)
    return f, missing
