#!/bin/bash
# Build and run the repository's 48 baseline unit tests in a scratch worktree with the repo's own warning flags.
# usage: wt_test.sh <worktree>      (build output goes to <worktree>/_wt, removed with the worktree)
set -e
W="$1"; B="$W/_wt"; mkdir -p "$B"
sed -e 's/@PROJECT_NAME@/chessplusplus/; s/@chessplusplus_VERSION@/1.2.0/; s/@chessplusplus_MAJOR@/1/; s/@chessplusplus_MINOR@/2/; s/@chessplusplus_PATCH@/0/; s/@chessplusplus_TWEAK@//' "$W/chessplusplusConfig.h.in" > "$B/chessplusplusConfig.h"
FLAGS="-std=c++20 -Ofast -DNDEBUG -DLOG_LEVEL=0 -Wall -Wextra -pedantic -Werror -Wno-error=maybe-uninitialized -march=native -mtune=native -I$B -I$W/engine -I$W/tests"
( cd "$W" && ls engine/*.cpp tests/*.cpp | grep -v engine/main.cpp | xargs -P16 -I{} sh -c 'g++ '"$FLAGS"' -c {} -o '"$B"'/$(echo {} | tr / _).o' )
g++ $FLAGS -c "$W/engine/main.cpp" -o "$B/main_engine.o"
g++ -Ofast $(ls $B/*.o | grep -v main_engine.o) /repo/_build/lib/libgtest.a -lpthread -o "$B/unitTests"
g++ -Ofast $(ls $B/engine_*.o) "$B/main_engine.o" -lpthread -o "$B/chessplusplus"
cd "$W" && "$B/unitTests" 2>&1 | tail -5
