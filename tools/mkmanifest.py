#!/usr/bin/env python3
"""Regenerates MANIFEST.json from the table below (keeps it valid and in one place)."""
import json, os

CHECKS = {
 "C01": dict(
  text="Coq theorems C01_rules / C01_rules_nodup: for EVERY position the executable enumeration legal_moves is exactly the set of moves legal under the rules spec (geometry, occupancy, castling conditions, en passant, own king safe afterwards), duplicate-free. The engine's generator is tied to that proved oracle by differential runs: constructed positions (pins x en passant x checks x castling x promotions templates, filtered by the extracted valid_position = the property's quantifier), lock-step continuations and model-driven games; every move list compared as a multiset.",
  note="The generator ALGORITHM (movegen.cpp) is not yet refined to the spec by a theorem (generator_refinement: partial in the evidence): its tie is the correspondence. Trusted: Coq kernel, extraction (ExtrOcamlBasic), both drivers, FEN parsing on both sides (C16). No axioms.",
  tech="Coq proof of the rules oracle (sound, complete, NoDup) + differential correspondence on generated positions"),
 "C02": dict(
  text="Algorithmic Coq model PositionRep.do_move (board, piece lists with the exact append / swap-remove order, both bitboard families, rights, ep, uint8 clock, ply, five key components, history) tied to the code by comparing EVERY private field after every ply of generated games; the rules-level result Rules.make_move (all six FEN fields) is compared with the engine's FEN after every ply. Theorems so far: spec-level facts (castling keeps the clock running, side alternates); the refinement theorem do_move -> make_move is in progress (see evidence: statements).",
  note="Partial: the all-inputs statement currently rests on the spec + exact correspondence of the algorithmic model; the refinement proof is not finished. Hypotheses: clock < 255 (uint8 wrap is explicit in the model), game within the history capacity. No axioms.",
  tech="Coq algorithmic model + rules spec; differential correspondence on every field; refinement proof in progress"),
 "C03": dict(
  text="Theorem C03_null: do_null_move followed by undo_null_move restores the ENTIRE engine state (every field, all five key components) for every Zobrist table. Make/unmake of ordinary moves: the algorithmic model undo_move/do_move is tied to the code on every field after every step of random nested make/unmake scripts (null moves included), and the property itself (all observables incl. legal moves, static evaluation, FEN, keys, repetition answers equal before/after) is checked on the implementation for every matched pair.",
  note="Partial: the general undo(do(s)) theorem for ordinary moves is in progress; until then that half rests on the correspondence of the algorithmic model and the direct before/after comparison. No axioms.",
  tech="Coq proof (null-move round trip, key algebra) + algorithmic-model correspondence on nested make/unmake scripts"),
 "C04": dict(
  text="Theorems for every Zobrist table: key updates are involutions (toggle twice / flip twice = identity), the key is a function of its five components. Tie: after every ply of games rich in transpositions the incremental key and pawn key equal the model's, equal the keys of the position reloaded from its FEN (from-scratch init), and equal the key of every earlier occurrence of the same (placement, side, rights, ep); pawn keys agree whenever pawn placement agrees.",
  note="The second half of the property (different positions get different keys) is a probability statement about the PRNG, not a theorem (DESIGN.md); the run reports observed collisions as validation only. The incremental = scratch invariant as a theorem over do/undo is in progress. No axioms.",
  tech="Coq proof of XOR key algebra over abstract tables + differential / metamorphic correspondence"),
 "C07": dict(
  text="History-level spec in Coq (positions compared by placement, side, rights, ep; insufficient material = bare kings or one minor; mate/stalemate from the proved legal_moves). Theorems: mate and stalemate are exclusive and equivalent to 'no legal move' (via C01_rules). Tie: after every ply of model-driven games (repetition shuffles, rule-50 crossings, material run-downs, mates, stalemates) the engine's seven answers equal the spec computed from the rules-level history (not from keys).",
  note="Partial: the refinement 'key-history predicates = history spec' (under no key collision) is stated in DESIGN.md and not yet proved; assumptions: clock < 256, game within history capacity. No axioms.",
  tech="Coq history-level spec + proved mate/stalemate characterisation; differential correspondence along generated games"),
 "C05": dict(
  text="Coq model SearchDriver of Search::Search (depth selection), Search::go and Search::iter_search with its aspiration loop; the root call of Search::search and both limit polls are ORACLES (any value, any pv head, any stop flag, any poll answer, a stop before the thread starts). Theorems for all oracles: go yields ONE answer and it is a root move (the legal move list, or the searchmoves list) whenever every root pv head is a root move (C05_bestmove); a stop before the first iteration is answered by the first root move (C05_stopped_before_start). Tie: the in-process Search (own table/evaluator, CHESSPP_VERIF hooks) is run on sessions with shared tables, every limit shape (tiny/zero/negative budgets), adversarially poisoned tables (illegal / foreign / NO_MOVE moves, all flags, depths to 200, mate and near-infinite scores, stale epochs), stop after exactly k node visits (k = 0..K) and at every schedule point; every recorded root call is replayed through the extracted model (exact sequence of windows, depths, info lines, bestmove) and checked against the theorem's hypotheses; bestmove and EVERY printed pv are judged by the extracted, proved rules (legal_moves).",
  note="Partial by design: the search below the root (evaluation, table, ordering, pruning) is an adversarial oracle, so 'every pv is a legal line' is established by the differential runs against the proved rules oracle, not by a theorem about the node recursion (planned: node-level skeleton). Termination of the aspiration loop is not a theorem for adversarial oracles (it can oscillate in the model); every run terminated. No axioms.",
  tech="Coq proof over an oracle-parametrised model of the iteration driver + replay of recorded root calls through the extracted model + differential runs judged by the proved rules"),
 "C08": dict(
  text="Theorems (constants re-extracted from the source each run): the score encoding announces a mate delivered on the p-th ply as ceil(p/2) MOVES, 'mate n' for the side to move and 'mate -n' against it, for every p up to MAX_DEPTH (C08_announce_win / _loss); values strictly inside the thresholds are printed as centipawns (C08_nonmate_is_cp); the one-ply adjustment on the way up turns 'child mated in k' into 'mate in k+1' and leaves non-mate values alone (C08_adjust_*). Tie: score2str of the implementation equals the model on the whole mate range, the thresholds and sampled ordinary values. The two search-level claims are decided on the implementation by an independent exhaustive solver extracted from the proved rules (forced_mate_within / forced_loss_within): every mate-in-one position (corpus + generated, found by the rules) must be answered by a mating move with final score 'mate 1' at depth 1,2,3; every final 'score mate y' (|y| <= 2 quick, 3 thorough) in sessions along model-driven games (tables carrying earlier real searches), on unbalanced / in-check positions and on the defect replays must be a true forced mate / loss within |y| moves.",
  note="Partial: soundness of mate claims for ALL positions and table contents is not a theorem (the search below the root is an oracle of the model; a proof needs the node-level skeleton with sound-table invariant, see DESIGN.md) - it is decided by the differential runs against the solver; claims with |y| above the bound are not judged; graph-history effects (rule-50 / repetition inside the tree) are ignored by the solver. No axioms.",
  tech="Coq proof of the mate-score encoding + exhaustive differential run of score2str + independent exhaustive mate solver extracted from the proved rules"),
 "C09": dict(
  text="Theorems over the same oracle-parametrised model: for ALL oracles the reported iterations are exactly 1,2,...,k consecutively, k <= the depth limit, no root search deeper than the limit is started (C09_depth_sequence); go depth d with d >= 1 uses min(d, MAX_DEPTH), including d above the internal maximum (C09_go_depth, C09_depth_cap, with MAX_DEPTH re-extracted from the source); the answer under searchmoves is one of the given moves (C09_searchmoves). Tie: recorded runs (depth 1..5 with earlier searches in the table, depth 38..INT_MAX on instant positions, forced mates seen before the iteration reaches their length, random searchmoves subsets after an unrestricted search, finite time / clock / node limits) are judged directly and replayed through the extracted model.",
  note="Termination under finite time/clock limits is checked by running (the clock is an oracle in the model; wall-clock duration of an iteration is not a theorem). No axioms.",
  tech="Coq proof over the oracle-parametrised iteration-driver model + replay correspondence + direct judgement of recorded runs"),
 "C11": dict(
  text="Coq theorems C11_rook/C11_bishop/C11_queen: for every square and EVERY occupancy the model of init_*_magics + slider_attack<> (instantiated with the magics and index widths re-extracted from the working tree on every run) returns exactly the ray-walk-until-first-blocker set; proved by an exhaustive kernel sweep over all 107,648 table entries lifted to all occupancies by pdep/pext and walk-independence lemmas. Leaper, ray, LINES, FULL_LINES and castling tables: the tables the current code built (dumped each run) are proved equal to their geometric specs entry by entry. Tie: B1 regeneration of Gen/MagicData.v + B2 exhaustive differential run of the real slider_attack<>/tables against the extracted spec.",
  note="Trusted: Coq kernel + vm_compute; dumper.cpp; extraction (ExtrOcamlBasic) and the two drivers; the model of the init loop is hand-written and tied by B2 (exhaustive over the 107,648 relevant subsets + random full occupancies). shift<> is proved linear and single-square pawn attacks exact; no axioms (Print Assumptions: closed under the global context).",
  tech="Coq proof: exhaustive vm_compute sweep + lifting lemma; translator-regenerated data; exhaustive differential correspondence"),
 "C12": dict(
  text="Coq theorem C12_bitbase: the table THE CURRENT CODE built (bitbase::init, dumped on every run), read through the model of bitbase::normalize / getIndex / check, marks a legal placement as won iff the pawn's side can force a safe promotion against every defence (KpkWin = least fixed point of the KPK game written from the rules: king steps not into attack, single / double pawn step with BOTH squares empty, capture of the pawn, promotion), for all 2 x 64 x 48 x 64 placements, both colours (C12_bitbase_black), both sides to move, all eight files. Proof: a generic game-certificate theorem (sound by induction on a rank, complete by induction on the Win derivation) whose single obligation, a local check at all 393,216 indices, is discharged by kernel computation (vm_compute, 8 shards); the rank table is computed inside Coq and untrusted. Tie: B1 the dump of this build's BITBASE; B2 exhaustive: bitbase::normalize+check on all 786,432 lookups and the evaluator's verdict (score >= VALUE_KNOWN_WIN) on all 662,704 legal placements equal the model.",
  note="Assumed chess fact in the spec's terminal rule: a promotion whose new piece cannot be captured at once wins (K+Q or K+R v K). Print Assumptions lists only the kernel's primitive Uint63/PArray operations (they hold the table and the rank certificate). Trusted: kernel + vm_compute, dumper.cpp, extraction, drivers. When the certificate fails the check solves the game from the spec, diffs against the table and confirms the first wrong entries on the real bitbase::check.",
  tech="Coq proof: game-certificate theorem + exhaustive kernel-evaluated certificate check of the dumped table; exhaustive differential correspondence"),
 "C15": dict(
  text="Rules-level spec of the three answers (capture = a piece or en-passant pawn is removed, quiet = nothing captured or promoted, gives check = opponent king attacked in Rules.move_board) and an algorithmic Coq model of move_is_quiet / move_is_capture / move_gives_check over the engine representation (slider lookups replaced by the ray walk, justified by theorem C11). Every legal move of generated positions (promotion-, castling-, pin-, en-passant-heavy templates) is classified by the engine, the spec and the algorithmic model; all three must agree. Theorems so far: spec-level consistency (quiet excludes capture, castling is quiet).",
  note="Partial: the refinement theorem 'algorithmic model = spec for every legal move of every valid position' (geometry of direct / discovered / en-passant / castling checks) is not proved yet; that half rests on the 3-way correspondence. No axioms.",
  tech="Coq spec + algorithmic model; 3-way differential correspondence on every legal move of generated positions"),
 "C16": dict(
  text="Coq theorems: the packed Move and MoveInfo codecs decode to the fields they were built from for all in-range fields (general arithmetic proof, plus injectivity and distinctness of the castling codes); C16_uci_roundtrip: for every position and every legal move, parsing the printed UCI text gives the same move (castling recognised only for a king on e1/e8; no legal king move has that shape). Tie: exhaustive run of the C++ accessors on all 64x64x5 triples / 17-bit codes / a MoveInfo grid against the model, and every legal move and every position of generated games printed, parsed back and reloaded from FEN on both sides.",
  note="FEN round trip is currently established by correspondence + the executable model (Fen.fen_print/fen_parse), the general Coq round-trip theorem for FEN is not proved yet (listed in DESIGN.md). Trusted: Coq kernel, extraction, drivers; std::istringstream tokenisation is modelled. No axioms.",
  tech="Coq proof (bit-field arithmetic, string round trip) + exhaustive / generated differential correspondence"),
 "C17": dict(
  text="Coq model of Position::san / san_without_check / parse_san with SAN_REGEX as an explicit greedy backtracking matcher. Every legal move of generated positions (3-5 like pieces reaching one square on the same file / rank / both, castling with check and mate, promotions with capture and check, the 218-move position) is printed and parsed back by the engine and by the model: texts must be equal and the engine's own parse-back must return the move; foreign SAN from scid.eco (and mutated variants) must resolve identically.",
  note="Partial: the round-trip theorem parse_san p (san p m) = Some m for all valid positions is not proved yet (uniqueness of the regex decomposition and of the disambiguation); std::regex is modelled, tied by the correspondence. No axioms.",
  tech="Coq model of printer, parser and regex; differential correspondence on every legal move + foreign SAN"),
 "C18": dict(
  text="Theorem C18_table (kernel computation over 12x64+4+8+1 entries): the Polyglot constants of the current source tree (re-extracted on every run) are exactly the published Random64 table re-ordered to the engine's piece numbering; the nine published test vectors are proved on the SPEC spec_hash (published layout). Tie: PolyglotBook::hash on generated positions (all castling-right combinations x en-passant situations: capturer left / right / both / none / pinned / edge files) must equal the extracted spec and the algorithmic model of the hash.",
  note="Golden/Random64.v could not be taken from an independent source in the sealed sandbox: it is the pinned commit's table re-flattened to the published order, cross-checked by the nine published vectors and well-known entries (0, 780); any CHANGE of a constant is caught, a pre-existing wrong constant not touched by the vectors would not be. The general theorem engine_hash = spec_hash under the representation invariant is not proved yet (correspondence only). No axioms.",
  tech="Coq proof by kernel computation (table identity, published vectors) + translator-regenerated constants + differential correspondence"),
 "C19": dict(
  text="Theorems for EVERY byte string / weight vector / draw: the reader model yields exactly length/16 records and record i is the decoding of bytes 16i..16i+15 (none dropped, duplicated or invented; empty and truncated files included); the random policy returns the entry whose cumulative-weight interval contains draw mod total, hence each entry for exactly weight-many residues and never an entry of weight zero; the best policy returns a recorded entry of maximal weight. Tie: PolyglotBook built from generated files (truncation at every offset, duplicate keys, zero weights) compared with the model map; every sampled move compared exactly with the model for the same draw (std::mt19937 replayed by the harness); decode_move on raw castling encodings.",
  note="std::ifstream::read is modelled (short read fails, inserts nothing), tied by truncations at every offset; mt19937 and uniform_int_distribution are replayed, not modelled; the deviation from exact proportionality caused by 2^64 mod total is stated, not bounded by a theorem. No axioms.",
  tech="Coq proof by list induction (reader, sampler, argmax) + differential correspondence with replayed PRNG"),
 "C20": dict(
  text="Coq theorems about the model of TimeManager::calculateTime / computeTimeForFixedLength (generic in the float structure): C20_nonneg and C20_monotone hold for EVERY float structure whose operations are monotone, sign-preserving roundings (Section Abstract; what survives -Ofast) and in particular for binary64 round-to-nearest-even (Flocq instance calc64), for every libm oracle with importance(x) >= 1/128; C20_cap: 10*calc64 <= 7*T for all 0 <= T < 2^31, proved from the exact value 0.7d = 6305039478318694*2^-53 < 7/10 with a representable separator (no error analysis); C20_le_clock. All inputs, no bound on movestogo/ply/increment. Tie: the extracted model instantiated with native binary64 and the implementation's own importance() values must EQUAL a strict-IEEE compile of time_manager.cpp on boundary-grid + random clock states; the oracle hypothesis is checked exhaustively (x = 0..1401); the three properties are re-checked directly on the strict and on the repository-flag (-Ofast) build, monotonicity on pairs (T, T+d).",
  note="Axioms: the standard library's classical real-number axioms that Reals/Flocq depend on (listed by Print Assumptions in the evidence: ClassicalDedekindReals.sig_forall_dec, sig_not_dec, functional_extensionality_dep). Modelled, not verified: libm pow/exp (oracle), the compiler's float code generation under -Ofast (assumed to keep each operation a monotone sign-preserving rounding; re-checked by running the properties on that build), int overflow excluded by the quantifier's ranges (T + inc*199 < 2^31).",
  tech="Coq/Flocq proof (monotone roundings; exact binary64 constant for the cap) + exact differential correspondence against a strict-IEEE build"),
}

NOT_YET = "check not built yet in this round (planned, see DESIGN.md section 10); not a limit of the technique"

def main():
    here = os.path.dirname(os.path.dirname(os.path.abspath(__file__)))
    m = {
        "version": 1,
        "setup_cmd": "./check setup",
        "hooks": {
            "guard": "CHESSPP_VERIF",
            "enable": "checks compile /repo/engine/*.cpp from the working tree with -DCHESSPP_VERIF (tools/vlib.py FLAVORS); the repository's own CMake build never defines it",
            "baseline_off_cmd": "cmake --build /repo/_build --target unitTests && ctest --test-dir /repo/_build -j8 --timeout 900",
            "source_commits": [],
            "add_only": True,
        },
        "checks": [],
        "not_applicable": [],
        "notes": "Technique: machine-checked proof in Coq 8.16.1 with a checked tie to the source (translator-regenerated data + differential correspondence). See DESIGN.md.",
    }
    for i in range(1, 21):
        pid = "C%02d" % i
        if pid in CHECKS:
            c = CHECKS[pid]
            m["checks"].append({
                "property_id": pid,
                "quick_cmd": "./check %s quick" % pid,
                "thorough_cmd": "./check %s thorough" % pid,
                "evidence_file": "evidence/%s.json" % pid,
                "replay_cmd_template": "cat {path}",
                "level_claimed": {"category": c.get("cat", "proof"), "text": c["text"], "design_ref": "DESIGN.md section 5 " + pid},
                "level_note": c["note"],
                "technique": c["tech"],
            })
        else:
            m["not_applicable"].append({"property_id": pid, "reason": NOT_YET})
    hooks = os.path.join(here, "hooks_commits.txt")
    if os.path.exists(hooks):
        m["hooks"]["source_commits"] = [l.split()[0] for l in open(hooks) if l.strip() and not l.startswith("#")]
    json.dump(m, open(os.path.join(here, "MANIFEST.json"), "w"), indent=1)

if __name__ == "__main__":
    main()
