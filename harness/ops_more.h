// position / game ops
struct GameCase
{
    std::string fen;
    std::vector<std::string> moves;
};

static GameCase parse_game(std::istringstream& is)
{
    GameCase g;
    std::string tok;
    bool in_moves = false;
    while (is >> tok)
    {
        if (tok == "|") { in_moves = true; continue; }
        if (in_moves) g.moves.push_back(tok);
        else g.fen += (g.fen.empty() ? "" : " ") + tok;
    }
    return g;
}

static std::vector<Move> gen_moves(const Position& p)
{
    Move buf[MAX_MOVES];
    Move* end = generate_moves(p, p.color(), buf);
    return std::vector<Move>(buf, end);
}

static std::string join(std::vector<std::string> v, const char* sep = " ")
{
    std::string s;
    for (size_t i = 0; i < v.size(); ++i) { if (i) s += sep; s += v[i]; }
    return s;
}

static std::string obs_legal(Position& p)
{
    std::vector<std::string> v;
    for (Move m : gen_moves(p)) v.push_back(p.uci(m));
    std::sort(v.begin(), v.end());
    return std::to_string(v.size()) + " " + join(v);
}

static std::string obs_fen(Position& p) { return p.fen(); }

// every legal move: text, and whether parsing the text back gives the same encoded move
static std::string obs_uci(Position& p)
{
    std::vector<std::string> v;
    for (Move m : gen_moves(p))
    {
        std::string s = p.uci(m);
        Move m2 = p.parse_uci(s);
        v.push_back(s + (m2 == m ? ":1" : ":0"));
    }
    std::sort(v.begin(), v.end());
    return join(v);
}

typedef std::string (*Observer)(Position&);

static std::string run_game(std::istringstream& is, Observer obs)
{
    GameCase g = parse_game(is);
    Position p(g.fen);
    std::string out = obs(p);
    for (const std::string& ms : g.moves)
    {
        Move m = p.parse_uci(ms);
        p.do_move(m);
        out += " ; " + obs(p);
    }
    return out;
}

// fen_rt <fen>: print, reload, print again, compare every field
static std::string op_fen_rt(std::istringstream& is)
{
    GameCase g = parse_game(is);
    Position p(g.fen);
    std::string f1 = p.fen();
    Position q(f1);
    std::string f2 = q.fen();
    bool same = (p == q) && p.half_moves() == q.half_moves() && p.ply_count() == q.ply_count() &&
                p.hash() == q.hash() && p.pawn_hash() == q.pawn_hash();
    for (int s = 0; s < 64; ++s) same = same && p.piece_at(Square(s)) == q.piece_at(Square(s));
    return f1 + " | " + f2 + " | " + (same ? "1" : "0");
}

static std::string dispatch_more(const std::string& op, std::istringstream& is)
{
    if (op == "g_legal") return run_game(is, obs_legal);
    if (op == "g_fen") return run_game(is, obs_fen);
    if (op == "g_uci") return run_game(is, obs_uci);
    if (op == "fen_rt") return op_fen_rt(is);
    return "UNKNOWN-OP " + op;
}
