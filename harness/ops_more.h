static std::string dispatch_more(const std::string& op, std::istringstream&)
{
    return "UNKNOWN-OP " + op;
}
