// position / game ops
struct GameCase
{
    std::string fen;
    std::vector<std::string> moves;
};

static GameCase parse_game(std::istringstream& is)
{
    GameCase g;
    std::string tok;
    bool in_moves = false;
    while (is >> tok)
    {
        if (tok == "|") { in_moves = true; continue; }
        if (in_moves) g.moves.push_back(tok);
        else g.fen += (g.fen.empty() ? "" : " ") + tok;
    }
    return g;
}

static std::vector<Move> gen_moves(const Position& p)
{
    Move buf[MAX_MOVES];
    Move* end = generate_moves(p, p.color(), buf);
    return std::vector<Move>(buf, end);
}

static std::string join(std::vector<std::string> v, const char* sep = " ")
{
    std::string s;
    for (size_t i = 0; i < v.size(); ++i) { if (i) s += sep; s += v[i]; }
    return s;
}

static std::string obs_legal(Position& p)
{
    std::vector<std::string> v;
    for (Move m : gen_moves(p)) v.push_back(p.uci(m));
    std::sort(v.begin(), v.end());
    return std::to_string(v.size()) + " " + join(v);
}

static std::string obs_fen(Position& p) { return p.fen(); }

// every legal move: text, and whether parsing the text back gives the same encoded move
static std::string obs_uci(Position& p)
{
    std::vector<std::string> v;
    for (Move m : gen_moves(p))
    {
        std::string s = p.uci(m);
        Move m2 = p.parse_uci(s);
        v.push_back(s + (m2 == m ? ":1" : ":0"));
    }
    std::sort(v.begin(), v.end());
    return join(v);
}

typedef std::string (*Observer)(Position&);

static std::string run_game(std::istringstream& is, Observer obs)
{
    GameCase g = parse_game(is);
    Position p(g.fen);
    std::string out = obs(p);
    for (const std::string& ms : g.moves)
    {
        Move m = p.parse_uci(ms);
        p.do_move(m);
        out += " ; " + obs(p);
    }
    return out;
}

// fen_rt <fen>: print, reload, print again, compare every field
static std::string op_fen_rt(std::istringstream& is)
{
    GameCase g = parse_game(is);
    Position p(g.fen);
    std::string f1 = p.fen();
    Position q(f1);
    std::string f2 = q.fen();
    bool same = (p == q) && p.half_moves() == q.half_moves() && p.ply_count() == q.ply_count() &&
                p.hash() == q.hash() && p.pawn_hash() == q.pawn_hash();
    for (int s = 0; s < 64; ++s) same = same && p.piece_at(Square(s)) == q.piece_at(Square(s));
    return f1 + " | " + f2 + " | " + (same ? "1" : "0");
}

// ---- full representation dump (C02/C03/C04): every private field, lists in order ----
static std::string obs_rep(Position& p)
{
    std::ostringstream o;
    o << int(p._current_side) << " " << int(p._half_move_counter) << " " << p._ply_counter << " B";
    for (int s = 0; s < 64; ++s) o << " " << int(p._board[s]);
    o << " L";
    for (int pc = 1; pc < 13; ++pc)
    {
        o << " [";
        for (int i = 0; i < p._piece_count[pc]; ++i) o << (i ? "," : "") << int(p._piece_position[pc][i]);
        o << "]";
    }
    o << " K";
    for (int k = 1; k < 7; ++k) o << " " << hex(p._by_piece_kind_bb[k]);
    o << " C " << hex(p._by_color_bb[0]) << " " << hex(p._by_color_bb[1]);
    o << " R " << int(p._castling_rights) << " E " << int(p._enpassant_square);
    o << " Z " << hex(p._zobrist_hash._piece_key) << " " << hex(p._zobrist_hash._pawn_key) << " "
      << hex(p._zobrist_hash._enpassant_key) << " " << hex(p._zobrist_hash._castling_key) << " "
      << hex(p._zobrist_hash._color_key);
    o << " H " << p._history_counter;
    for (int i = std::max(0, p._history_counter - 3); i < p._history_counter; ++i) o << " " << hex(p._history[i]);
    // observers
    o << " O " << hex(p.hash()) << " " << hex(p.pawn_hash()) << " " << int(p.is_repeated()) << int(p.threefold_repetition())
      << int(p.rule50()) << int(p.enough_material());
    return o.str();
}

// walk <fen> | tok...   tok = uci move (do) | u (undo last) | n (null move) | un (undo null)
static std::string op_walk(std::istringstream& is)
{
    GameCase g = parse_game(is);
    Position p(g.fen);
    std::vector<std::pair<Move, MoveInfo>> st;
    std::string out = obs_rep(p);
    for (const std::string& t : g.moves)
    {
        if (t == "u" || t == "un")
        {
            if (st.empty()) { out += " ; EMPTY"; break; }
            auto [m, mi] = st.back();
            st.pop_back();
            if (t == "u") p.undo_move(m, mi); else p.undo_null_move(mi);
        }
        else if (t == "n")
        {
            MoveInfo mi = p.do_null_move();
            st.push_back({NO_MOVE, mi});
        }
        else
        {
            Move m = p.parse_uci(t);
            MoveInfo mi = p.do_move(m);
            st.push_back({m, mi});
        }
        out += " ; " + obs_rep(p);
    }
    return out;
}

// ---- C03: engine-only rich observer (rep + legal moves + static evaluation) ----
static PositionScorer* g_scorer = nullptr;
static std::string obs_full(Position& p)
{
    if (!g_scorer) g_scorer = new PositionScorer();
    std::string o = obs_rep(p);
    o += " M " + obs_legal(p);
    o += " V " + std::to_string(PositionScorer().score(p)) + " " + std::to_string(g_scorer->score(p));
    o += " F " + p.fen();
    return o;
}

static std::string op_walk_gen(std::istringstream& is, Observer obs, bool only_after_do = false)
{
    GameCase g = parse_game(is);
    Position p(g.fen);
    std::vector<std::pair<Move, MoveInfo>> st;
    std::string out = obs(p);
    for (const std::string& t : g.moves)
    {
        if (t == "u" || t == "un")
        {
            if (st.empty()) { out += " ; EMPTY"; break; }
            auto [m, mi] = st.back();
            st.pop_back();
            if (t == "u") p.undo_move(m, mi); else p.undo_null_move(mi);
            if (only_after_do) { out += " ; -"; continue; }       // the way a search asks: never at the parent between two siblings
        }
        else if (t == "n")
        {
            MoveInfo mi = p.do_null_move();
            st.push_back({NO_MOVE, mi});
        }
        else
        {
            Move m = p.parse_uci(t);
            MoveInfo mi = p.do_move(m);
            st.push_back({m, mi});
        }
        out += " ; " + obs(p);
    }
    return out;
}

// ---- C04: keys: incremental, pawn key, and the key of the same position reloaded from its FEN ----
static std::string obs_key(Position& p)
{
    Position q(p.fen());
    std::ostringstream o;
    std::string f = p.fen();
    // first four FEN fields identify the position
    size_t pos = 0; int sp = 0;
    while (pos < f.size() && sp < 4) { if (f[pos] == ' ') ++sp; ++pos; }
    o << f.substr(0, pos ? pos - 1 : 0) << " | " << hex(p.hash()) << " " << hex(p.pawn_hash()) << " " << hex(q.hash()) << " " << hex(q.pawn_hash());
    return o.str();
}

// C16 on the position OBJECT a game reaches (not only on FEN text): reload from its own FEN and compare everything
static std::string obs_reload(Position& p)
{
    std::string f = p.fen();
    Position q(f);
    std::ostringstream o;
    o << (q == p ? 1 : 0) << (p == q ? 1 : 0) << (q.hash() == p.hash() ? 1 : 0) << (q.pawn_hash() == p.pawn_hash() ? 1 : 0) << (q.fen() == f ? 1 : 0)
      << (q.color() == p.color() ? 1 : 0) << (q.castling_rights() == p.castling_rights() ? 1 : 0) << (q.enpassant_square() == p.enpassant_square() ? 1 : 0);
    return o.str();
}

// ---- C07: predicates ----
static std::string obs_preds(Position& p)
{
    std::ostringstream o;
    o << int(p.is_in_check(p.color())) << int(p.is_checkmate()) << int(p.is_stalemate()) << int(p.is_repeated())
      << int(p.threefold_repetition()) << int(p.rule50()) << int(!p.enough_material());
    return o.str();
}

// ---- C15: classification of every legal move: uci:<quiet><capture><check> ----
static std::string obs_classify(Position& p)
{
    std::vector<std::string> v;
    for (Move m : gen_moves(p))
    {
        std::string s = p.uci(m) + ":";
        s += p.move_is_quiet(m) ? "1" : "0";
        s += p.move_is_capture(m) ? "1" : "0";
        s += p.move_gives_check(m) ? "1" : "0";
        v.push_back(s);
    }
    std::sort(v.begin(), v.end());
    return join(v);
}

// ---- C17: SAN of every legal move and whether parse_san gives the move back ----
static std::string obs_san(Position& p)
{
    std::vector<std::string> v;
    for (Move m : gen_moves(p))
    {
        std::string s = p.san(m);
        Move m2 = p.parse_san(s);
        v.push_back(p.uci(m) + ":" + s + ":" + (m2 == m ? "1" : "0"));
    }
    std::sort(v.begin(), v.end());
    return join(v);
}

// san_parse <fen> | s1 s2 ...  : foreign SAN strings, result as uci or "-"
static std::string op_san_parse(std::istringstream& is)
{
    GameCase g = parse_game(is);
    Position p(g.fen);
    std::vector<std::string> v;
    for (const std::string& s : g.moves)
    {
        Move m = p.parse_san(s);
        v.push_back(m == NO_MOVE ? "-" : p.uci(m));
    }
    return join(v);
}

// ---- C18 / C19: Polyglot ----
#include <fstream>
#include <random>
#include <unistd.h>
static std::string op_pghash(std::istringstream& is)
{
    GameCase g = parse_game(is);
    Position p(g.fen);
    return hex(PolyglotBook::hash(p));
}

static std::string tmp_book(const std::string& hexbytes)
{
    char path[] = "/tmp/verif_book_XXXXXX";
    int fd = mkstemp(path);
    std::string bytes;
    for (size_t i = 0; i + 1 < hexbytes.size(); i += 2)
        bytes.push_back(char(strtoul(hexbytes.substr(i, 2).c_str(), nullptr, 16)));
    if (fd >= 0) { ssize_t r = write(fd, bytes.data(), bytes.size()); (void)r; close(fd); }
    return path;
}

// book <hexbytes|-> : the loaded map, keys ascending, entries in order
static std::string op_book(std::istringstream& is)
{
    std::string hb;
    is >> hb;
    if (hb == "-") hb = "";
    std::string path = tmp_book(hb);
    PolyglotBook b(path, 1);
    unlink(path.c_str());
    std::ostringstream o;
    o << b._hashmap.size();
    for (auto& kv : b._hashmap)
    {
        o << " " << hex(kv.first) << ":";
        for (size_t i = 0; i < kv.second.size(); ++i) o << (i ? "," : "") << kv.second[i].first << "/" << kv.second[i].second;
    }
    return o.str();
}

// pick <seed> <n> | w1 w2 ... : n draws of the random policy on one key; prints draw:move pairs and the best move
static std::string op_pick(std::istringstream& is)
{
    size_t seed; int n; std::string bar;
    is >> seed >> n >> bar;
    std::vector<int> ws; int w;
    while (is >> w) ws.push_back(w);
    std::string hb;
    char buf[64];
    for (size_t i = 0; i < ws.size(); ++i)
    {
        // key 1, move code: from a2(+i files/ranks) to a3.. : use from = i, to = 63 - i (distinct raw moves)
        int from = int(i % 64), to = int(63 - (i % 64));
        int mc = ((from / 8) << 9) | ((from % 8) << 6) | ((to / 8) << 3) | (to % 8);
        snprintf(buf, sizeof buf, "0000000000000001%04x%04x00000000", mc, ws[i] & 0xFFFF);
        hb += buf;
    }
    std::string path = tmp_book(hb);
    PolyglotBook b(path, seed);
    unlink(path.c_str());
    Position pos("8/8/8/8/8/8/8/K1k5 w - - 0 1");
    // the harness replays the generator to know each draw
    std::mt19937 gen(seed);
    std::uniform_int_distribution<std::mt19937::result_type> dist;
    std::ostringstream o;
    if (!b.contains(1)) return "EMPTY";
    for (int i = 0; i < n; ++i)
    {
        unsigned long long d = dist(gen);
        Move m = b.get_random_move(1, pos);
        o << hex(d) << ":" << m << " ";
    }
    o << "best:" << b.get_best_move(1, pos);
    return o.str();
}

// pgdecode <fen> | code... : decode_move of raw (from,to) moves in a position
static std::string op_pgdecode(std::istringstream& is)
{
    GameCase g = parse_game(is);
    Position p(g.fen);
    PolyglotBook b;
    std::vector<std::string> v;
    for (auto& t : g.moves) v.push_back(std::to_string(b.decode_move(Move(atoi(t.c_str())), p)));
    return join(v);
}

// ---- C12: raw bitbase lookups through bitbase::normalize for every triple of squares ----
// kpkraw <strong 0/1> <stm 0/1> <pawn square> : 64x64 chars (strong king major, weak king minor)
static std::string op_kpkraw(std::istringstream& is)
{
    int strong, stm, pawn;
    is >> strong >> stm >> pawn;
    std::string out;
    out.reserve(4096);
    for (int sk = 0; sk < 64; ++sk)
        for (int wk = 0; wk < 64; ++wk)
        {
            Color side = Color(stm);
            Square a = Square(sk), p = Square(pawn), b = Square(wk);
            bitbase::normalize(Color(strong), side, a, p, b);
            out.push_back(bitbase::check(side, a, p, b) ? '1' : '0');
        }
    return out;
}


// kpkeval <strong 0/1> <stm 0/1> <pawn square> : the EVALUATOR's verdict (PositionScorer::score through
// endgame::score) for every pair of king squares: 'W' = score from the strong side's view >= VALUE_KNOWN_WIN,
// 'D' = below, '-' = placement not constructible (overlapping squares / adjacent kings)
static std::string op_kpkeval(std::istringstream& is)
{
    int strong, stm, pawn;
    is >> strong >> stm >> pawn;
    static PositionScorer scorer;
    std::string out;
    out.reserve(4096);
    for (int sk = 0; sk < 64; ++sk)
        for (int wk = 0; wk < 64; ++wk)
        {
            if (sk == wk || sk == pawn || wk == pawn || distance(Square(sk), Square(wk)) <= 1) { out.push_back('-'); continue; }
            char board[64];
            memset(board, 0, sizeof board);
            board[sk] = strong == 0 ? 'K' : 'k';
            board[wk] = strong == 0 ? 'k' : 'K';
            board[pawn] = strong == 0 ? 'P' : 'p';
            std::string fen;
            for (int r = 7; r >= 0; --r)
            {
                int empty = 0;
                for (int f = 0; f < 8; ++f)
                {
                    char c = board[r * 8 + f];
                    if (!c) { ++empty; continue; }
                    if (empty) { fen += char('0' + empty); empty = 0; }
                    fen += c;
                }
                if (empty) fen += char('0' + empty);
                if (r) fen += '/';
            }
            fen += stm == 0 ? " w - - 0 1" : " b - - 0 1";
            Position p(fen);
            Value v = scorer.score(p);
            if (Color(stm) != Color(strong)) v = -v;
            out.push_back(v >= VALUE_KNOWN_WIN ? 'W' : 'D');
        }
    return out;
}

#include "ops_time.h"

static std::string dispatch_more(const std::string& op, std::istringstream& is)
{
    if (op == "g_legal") return run_game(is, obs_legal);
    if (op == "g_fen") return run_game(is, obs_fen);
    if (op == "g_uci") return run_game(is, obs_uci);
    if (op == "g_reload") return run_game(is, obs_reload);
    if (op == "fen_rt") return op_fen_rt(is);
    if (op == "g_rep") return run_game(is, obs_rep);
    if (op == "walk") return op_walk(is);
    if (op == "walkx") return op_walk_gen(is, obs_full);
    // the public observers after EVERY step of a make / unmake / null-move script on ONE Position object (stale caches, lazily
    // updated members): compared with the model's value for the position reached
    if (op == "walk_preds") return op_walk_gen(is, obs_preds);
    if (op == "walk_preds_do") return op_walk_gen(is, obs_preds, true);
    if (op == "walk_all_do") return op_walk_gen(is, [](Position& p) { return obs_legal(p) + " S " + obs_san(p) + " C " + obs_classify(p) + " P " + obs_preds(p); }, true);
    if (op == "walk_san") return op_walk_gen(is, obs_san);
    if (op == "walk_legal") return op_walk_gen(is, obs_legal);
    if (op == "walk_classify") return op_walk_gen(is, obs_classify);
    if (op == "walk_san_do") return op_walk_gen(is, obs_san, true);
    if (op == "walk_legal_do") return op_walk_gen(is, obs_legal, true);
    if (op == "walk_classify_do") return op_walk_gen(is, obs_classify, true);
    if (op == "walk_all") return op_walk_gen(is, [](Position& p) { return obs_legal(p) + " S " + obs_san(p) + " C " + obs_classify(p) + " F " + p.fen(); });
    if (op == "g_key") return run_game(is, obs_key);
    if (op == "pghash") return op_pghash(is);
    if (op == "kpkraw") return op_kpkraw(is);
    if (op == "kpkeval") return op_kpkeval(is);
    if (op == "book") return op_book(is);
    if (op == "pick") return op_pick(is);
    if (op == "pgdecode") return op_pgdecode(is);
    if (op == "g_san") return run_game(is, obs_san);
    if (op == "san_parse") return op_san_parse(is);
    if (op == "g_classify" || op == "g_classify_alg") return run_game(is, obs_classify);
    if (op == "g_preds") return run_game(is, obs_preds);
    return dispatch_time(op, is);
}
