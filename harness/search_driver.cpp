// In-process search driver (C05 C08 C09 C10): owns the transposition table and the evaluator, runs
// Search::go() with captured stdout, delivers `stop` after exactly k node visits / at a schedule point
// through the CHESSPP_VERIF hooks, pre-loads the table with adversarial entries, and logs every
// root-level call of Search::search for the replay through the extracted iteration-driver model.
//
// line protocol (one result line per command):
//   new                               fresh table + evaluator state (ucinewgame)
//   epoch                             ttable.updateEpoch(1)   (what `position` does)
//   poison <seed> <n> <fen> | <moves>  n adversarial entries for the keys of the position, its children, grandchildren
//   go <fen> | <moves> | <go tokens> [@stopat=k] [@stoppoint=p]
#include <cstdio>
#include <cstring>
#include <iostream>
#include <sstream>
#include <string>
#include <vector>
#include <algorithm>
#include <memory>

#define private public
#include "position.h"
#include "score.h"
#include "hashmap.h"
#include "transposition_table.h"
#include "search.h"
#undef private
#include "endgame.h"
#include "move_bitboards.h"
#include "movegen.h"
#include "types.h"
#include "value.h"
#include "zobrist_hash.h"

using namespace engine;

static std::unique_ptr<tt::TTable> g_tt;
static std::unique_ptr<PositionScorer> g_scorer;

struct RootCall { int depth; long long alpha, beta, ret; int pvlen; std::string pv0; int stopped; };

static long long g_visits, g_stop_at, g_visits_at_stop;
static int g_stop_point, g_root_nest, g_max_ply, g_max_qdepth_ply;
static bool g_stopped_by_us;
static std::vector<RootCall> g_root;
static std::vector<std::pair<int, long long>> g_root_entry;   // stack of outermost-call entries
static Position* g_rootpos;
static long long g_bad_pv_nodes;        // nodes whose pv at exit is not a playable line (checked with the engine's own parse: cheap sanity)
static int g_iter_points;

static void cb_node(Search* s, int kind, Info* info, int depth, Value alpha, Value beta)
{
    ++g_visits;
    if (info->_ply > g_max_ply) g_max_ply = info->_ply;
    if (kind == 0 && info->_ply == 0)
    {
        if (g_root_nest == 0)
        {
            RootCall rc{depth, (long long)alpha, (long long)beta, 0, 0, "", 0};
            g_root.push_back(rc);
        }
        ++g_root_nest;
    }
    if (g_stop_at >= 0 && g_visits == g_stop_at + 1 && !g_stopped_by_us)
    {
        // the stop arrives just before the (k+1)-th node visit tests the flag
        g_stopped_by_us = true;
        g_visits_at_stop = g_visits - 1;
        s->stop();
    }
}

static long long g_pv_checked, g_pv_bad, g_exit_count;
static std::string g_pv_bad_example;

// invariant of theorem C05_pv_legal, validated on the running engine: at the exit of a node the pv in its slot is a
// playable line from the node's position (checked with the engine's own generator, itself tied to the rules by C01)
static void check_node_pv(Search* s, Info* info)
{
    ++g_pv_checked;
    Position p = s->_position;
    for (int i = 0; i < info->_pv_list_length; ++i)
    {
        Move m = info->_pv_list[i];
        Move buf[MAX_MOVES];
        Move* end = generate_moves(p, p.color(), buf);
        if (std::find(buf, end, m) == end)
        {
            ++g_pv_bad;
            if (g_pv_bad_example.empty()) g_pv_bad_example = p.fen() + " move#" + std::to_string(i) + " ply" + std::to_string(info->_ply);
            return;
        }
        p.do_move(m);
    }
}

static void cb_exit(Search* s, int kind, Info* info, Value ret)
{
    if ((++g_exit_count & 15) == 0 || info->_ply == 0) check_node_pv(s, info);
    if (kind == 0 && info->_ply == 0)
    {
        --g_root_nest;
        if (g_root_nest == 0 && !g_root.empty())
        {
            RootCall& rc = g_root.back();
            rc.ret = (long long)ret;
            rc.pvlen = info->_pv_list_length;
            rc.pv0 = rc.pvlen > 0 ? g_rootpos->uci(info->_pv_list[0]) : "-";
            rc.stopped = s->stop_search ? 1 : 0;
        }
    }
}

static void cb_point(Search* s, int point)
{
    if (point == 3) ++g_iter_points;
    if (g_stop_point >= 0 && !g_stopped_by_us)
    {
        // stoppoint p < 10: schedule point p of go(); 10+i: top of iteration i+1 (point 3, i-th occurrence)
        bool hit = (g_stop_point < 10 && point == g_stop_point && point != 3) ||
                   (g_stop_point >= 10 && point == 3 && g_iter_points == g_stop_point - 10 + 1);
        if (hit)
        {
            g_stopped_by_us = true;
            g_visits_at_stop = g_visits;
            s->stop();
        }
    }
}

// what Uci::go_command does for wtime / btime (a tree without the field simply has no such flag)
template <class L> static void mark_clock(L& l)
{
    if constexpr (requires { l.clock; }) l.clock = true;
}

static std::vector<std::string> split(const std::string& s)
{
    std::vector<std::string> v; std::istringstream is(s); std::string t;
    while (is >> t) v.push_back(t);
    return v;
}

static std::vector<std::string> sections(const std::string& rest)
{
    std::vector<std::string> out; std::string cur;
    std::istringstream is(rest); std::string t;
    while (is >> t)
    {
        if (t == "|") { out.push_back(cur); cur.clear(); }
        else cur += (cur.empty() ? "" : " ") + t;
    }
    out.push_back(cur);
    return out;
}

static Position make_position(const std::string& fen, const std::string& moves)
{
    Position p(fen);
    for (const std::string& m : split(moves)) p.do_move(p.parse_uci(m));
    return p;
}

static uint64_t splitmix64(uint64_t& x)
{
    x += 0x9e3779b97f4a7c15ULL;
    uint64_t z = x;
    z = (z ^ (z >> 30)) * 0xbf58476d1ce4e5b9ULL;
    z = (z ^ (z >> 27)) * 0x94d049bb133111ebULL;
    return z ^ (z >> 31);
}

static std::vector<Move> gen(const Position& p)
{
    Move buf[MAX_MOVES];
    Move* end = generate_moves(p, p.color(), buf);
    return std::vector<Move>(buf, end);
}

// adversarial entries: moves that are illegal here / legal elsewhere / NO_MOVE / random codes, every flag,
// depths 0..200, scores over the whole open range incl. mate scores, current and stale epochs
static std::string op_poison(const std::string& rest)
{
    std::istringstream is(rest);
    uint64_t seed; int n;
    is >> seed >> n;
    std::string tail; std::getline(is, tail);
    auto sec = sections(tail);
    Position root = make_position(sec[0], sec.size() > 1 ? sec[1] : "");
    std::vector<uint64_t> keys{root.hash()};
    std::vector<Move> foreign;
    for (Move m : gen(root))
    {
        Position c = root; c.do_move(m);
        keys.push_back(c.hash());
        std::vector<Move> cm = gen(c);
        for (size_t i = 0; i < cm.size() && i < 6; ++i)
        {
            foreign.push_back(cm[i]);
            Position g = c; g.do_move(cm[i]);
            keys.push_back(g.hash());
        }
    }
    uint64_t st = seed;
    int done = 0;
    for (int i = 0; i < n; ++i)
    {
        uint64_t key = (i < 3) ? keys[0] : keys[splitmix64(st) % keys.size()];
        uint64_t r = splitmix64(st);
        Move mv;
        switch (r % 5)
        {
        case 0: mv = NO_MOVE; break;
        case 1: mv = Move(splitmix64(st) & 0x1FFFF); break;
        case 2: mv = foreign.empty() ? NO_MOVE : foreign[splitmix64(st) % foreign.size()]; break;
        case 3: mv = create_castling((splitmix64(st) & 1) ? KING_CASTLING : QUEEN_CASTLING); break;
        default: mv = create_promotion(Square(splitmix64(st) & 63), Square(splitmix64(st) & 63), PieceKind(2 + splitmix64(st) % 4)); break;
        }
        int depth = int(splitmix64(st) % 7 == 0 ? 200 : splitmix64(st) % 12);
        tt::Flag flag = tt::Flag(splitmix64(st) % 3);
        long long score;
        switch (splitmix64(st) % 6)
        {
        case 0: score = VALUE_MATE - (long long)(splitmix64(st) % 50); break;
        case 1: score = -VALUE_MATE + (long long)(splitmix64(st) % 50); break;
        case 2: score = VALUE_INFINITE - 1; break;
        case 3: score = -VALUE_INFINITE + 1; break;
        default: score = (long long)(splitmix64(st) % 4001) - 2000; break;
        }
        g_tt->insert(key, tt::TTEntry(score, depth, flag, mv));
        if (splitmix64(st) % 3 == 0) g_tt->data_[key & (4 * 1024 * 1024 - 1)].epoch -= 1;   // stale epoch
        ++done;
    }
    return "poisoned " + std::to_string(done) + " keys=" + std::to_string(keys.size());
}

static std::string op_go(const std::string& rest)
{
    auto sec = sections(rest);
    if (sec.size() < 3) return "BAD-ARGS";
    Position pos = make_position(sec[0], sec[1]);
    Limits limits;
    g_stop_at = -1; g_stop_point = -1;
    std::vector<std::string> toks = split(sec[2]);
    for (size_t i = 0; i < toks.size(); ++i)
    {
        const std::string& t = toks[i];
        auto num = [&](size_t j) { return j < toks.size() ? atoll(toks[j].c_str()) : 0LL; };
        if (t == "wtime") { limits.timeleft[WHITE] = int(num(++i)); mark_clock(limits); }
        else if (t == "btime") { limits.timeleft[BLACK] = int(num(++i)); mark_clock(limits); }
        else if (t == "winc") limits.timeinc[WHITE] = int(num(++i));
        else if (t == "binc") limits.timeinc[BLACK] = int(num(++i));
        else if (t == "movestogo") limits.movestogo = int(num(++i));
        else if (t == "depth") limits.depth = int(num(++i));
        else if (t == "nodes") limits.nodes = num(++i);
        else if (t == "movetime") limits.movetime = int(num(++i));
        else if (t == "infinite") limits.infinite = true;
        else if (t.rfind("@stopat=", 0) == 0) g_stop_at = atoll(t.c_str() + 8);
        else if (t.rfind("@stoppoint=", 0) == 0) g_stop_point = atoi(t.c_str() + 11);
        else if (t == "searchmoves")
        {
            while (++i < toks.size() && toks[i][0] != '@')
                limits.searchmoves[limits.searchmovesnum++] = pos.parse_uci(toks[i]);
            --i;
        }
    }
    g_pv_checked = 0; g_pv_bad = 0; g_exit_count = 0; g_pv_bad_example.clear();
    g_visits = 0; g_visits_at_stop = -1; g_stopped_by_us = false; g_root.clear(); g_root_nest = 0; g_max_ply = -1; g_iter_points = 0;
    g_rootpos = &pos;
    std::string fen_before = pos.fen();
    uint64_t key_before = pos.hash();
    auto search = std::make_shared<Search>(pos, limits, *g_scorer, *g_tt);
    std::ostringstream cap;
    std::streambuf* old = std::cout.rdbuf(cap.rdbuf());
    search->go();
    std::cout.rdbuf(old);
    // the Search's private copy of the position must be back at the root (C03 through the search)
    bool restored = search->_position.fen() == fen_before && search->_position.hash() == key_before;
    std::string out;
    std::istringstream lines(cap.str());
    std::string line;
    int nbest = 0; std::string best = "-";
    std::string its;
    while (std::getline(lines, line))
    {
        auto t = split(line);
        if (t.empty()) continue;
        if (t[0] == "bestmove") { ++nbest; if (t.size() > 1) best = t[1]; }
        else if (t[0] == "info")
        {
            std::string depth = "?", score = "?", pv;
            for (size_t i = 1; i < t.size(); ++i)
            {
                if (t[i] == "depth" && i + 1 < t.size()) depth = t[i + 1];
                if (t[i] == "score" && i + 2 < t.size()) score = t[i + 1] + "_" + t[i + 2];
                if (t[i] == "pv") { for (size_t j = i + 1; j < t.size(); ++j) pv += (pv.empty() ? "" : ",") + t[j]; break; }
            }
            its += (its.empty() ? "" : " ") + depth + ":" + score + ":" + (pv.empty() ? "-" : pv);
        }
    }
    out = "bm=" + std::to_string(nbest) + " " + best + " | " + (its.empty() ? "-" : its) + " | ";
    std::string rs;
    for (const RootCall& rc : g_root)
        rs += (rs.empty() ? "" : ";") + std::to_string(rc.depth) + "," + std::to_string(rc.alpha) + "," + std::to_string(rc.beta) + "," +
              std::to_string(rc.ret) + "," + std::to_string(rc.pvlen) + "," + rc.pv0 + "," + std::to_string(rc.stopped);
    out += (rs.empty() ? "-" : rs);
    out += " | visits=" + std::to_string(g_visits) + " at_stop=" + std::to_string(g_visits_at_stop) + " maxply=" + std::to_string(g_max_ply) +
           " restored=" + std::to_string(restored ? 1 : 0) + " depthcap=" + std::to_string(search->_search_depth) +
           " nroot=" + std::to_string(search->_root_moves.size()) +
           " root0=" + (search->_root_moves.empty() ? std::string("-") : pos.uci(search->_root_moves[0])) +
           " pvnodes=" + std::to_string(g_pv_checked) + " badpv=" + std::to_string(g_pv_bad) +
           " alloc=" + std::to_string((long long)search->_search_time);
    if (g_pv_bad) { std::string e = g_pv_bad_example; for (char& ch : e) if (ch == ' ') ch = '_'; out += " badpv_at=" + e; }
    return out;
}

int main()
{
    move_bitboards::init();
    zobrist::init();
    bitbase::init();
    endgame::init();
    verif::on_node = cb_node;
    verif::on_exit = cb_exit;
    verif::on_point = cb_point;
    g_tt.reset(new tt::TTable());
    g_scorer.reset(new PositionScorer());
    std::string line;
    while (std::getline(std::cin, line))
    {
        std::istringstream is(line);
        std::string op; is >> op;
        std::string rest; std::getline(is, rest);
        std::string out;
        if (op == "new") { g_tt->clear(); g_scorer->clear(); out = "ok"; }
        else if (op == "fresh") { g_tt.reset(new tt::TTable()); g_scorer.reset(new PositionScorer()); out = "ok"; }
        else if (op == "epoch") { g_tt->updateEpoch(1); out = "ok"; }
        else if (op == "poison") out = op_poison(rest);
        else if (op == "go") out = op_go(rest);
        else if (op == "score2str") { long long v = atoll(rest.c_str()); out = score2str(Value(v)); }
        else out = "UNKNOWN-OP " + op;
        fputs(out.c_str(), stdout); fputc('\n', stdout); fflush(stdout);
    }
    return 0;
}
