// Implementation side of the correspondence (B2): one op per input line, one canonical result
// line per op.  Linked against objects compiled from /repo's working tree.
#include <cstdio>
#include <cstring>
#include <iostream>
#include <sstream>
#include <string>
#include <vector>
#include <algorithm>

#define private public
#include "position.h"
#include "polyglot.h"
#include "score.h"
#undef private
#include "endgame.h"
#include "move_bitboards.h"
#include "movegen.h"
#include "types.h"
#include "value.h"
#include "zobrist_hash.h"
#include "time_manager.h"

using namespace engine;

static std::string hex(uint64_t v)
{
    char buf[32];
    snprintf(buf, sizeof buf, "%llx", (unsigned long long)v);
    return buf;
}

static uint64_t parse_hex(const std::string& s) { return strtoull(s.c_str(), nullptr, 16); }

#include "ops_basic.h"
#include "ops_more.h"

int main()
{
    move_bitboards::init();
    zobrist::init();
    bitbase::init();
    endgame::init();
    std::ios::sync_with_stdio(false);
    std::string line;
    while (std::getline(std::cin, line))
    {
        if (line.empty()) { std::cout << "\n"; continue; }
        std::istringstream is(line);
        std::string op;
        is >> op;
        std::string out;
        try { out = dispatch(op, is); }
        catch (const std::exception& e) { out = std::string("EXC ") + e.what(); }
        std::cout << out << "\n";
    }
    std::cout.flush();
    return 0;
}
