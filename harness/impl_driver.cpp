// Implementation side of the correspondence (B2): one op per input line, one canonical result
// line per op.  Linked against objects compiled from /repo's working tree.
#include <cstdio>
#include <cstring>
#include <iostream>
#include <sstream>
#include <string>
#include <vector>
#include <algorithm>

#define private public
#include "position.h"
#include "polyglot.h"
#include "score.h"
#undef private
#include "endgame.h"
#include "move_bitboards.h"
#include "movegen.h"
#include "types.h"
#include "value.h"
#include "zobrist_hash.h"
#include "time_manager.h"

using namespace engine;

static std::string hex(uint64_t v)
{
    char buf[32];
    snprintf(buf, sizeof buf, "%llx", (unsigned long long)v);
    return buf;
}

static uint64_t parse_hex(const std::string& s) { return strtoull(s.c_str(), nullptr, 16); }

namespace engine
{
extern uint64_t PIECE_HASH[PIECE_NUM][SQUARE_NUM];
extern uint64_t CASTLING_HASH[1 << 4];
extern uint64_t SIDE_HASH;
extern uint64_t ENPASSANT_HASH[FILE_NUM];
}

static uint64_t splitmix64(uint64_t x)
{
    x += 0x9e3779b97f4a7c15ULL;
    x = (x ^ (x >> 30)) * 0xbf58476d1ce4e5b9ULL;
    x = (x ^ (x >> 27)) * 0x94d049bb133111ebULL;
    return x ^ (x >> 31);
}

// The engine seeds its Zobrist tables from std::random_device; for reproducible comparisons the
// harness overwrites them with a fixed function that the model side evaluates too.
static void deterministic_zobrist(uint64_t salt)
{
    for (int p = 0; p < 13; ++p)
        for (int s = 0; s < 64; ++s) PIECE_HASH[p][s] = splitmix64(salt + p * 64 + s + 1);
    for (int i = 0; i < 16; ++i) CASTLING_HASH[i] = splitmix64(salt + 1000 + i);
    SIDE_HASH = splitmix64(salt + 2000);
    for (int f = 0; f < 8; ++f) ENPASSANT_HASH[f] = splitmix64(salt + 3000 + f);
}

#include "ops_basic.h"
#include "ops_more.h"

int main()
{
    move_bitboards::init();
    zobrist::init();
    bitbase::init();
    endgame::init();
    deterministic_zobrist(0);
    std::ios::sync_with_stdio(false);
    std::string line;
    while (std::getline(std::cin, line))
    {
        if (line.empty()) { std::cout << "\n"; continue; }
        std::istringstream is(line);
        std::string op;
        is >> op;
        std::string out;
        try { out = dispatch(op, is); }
        catch (const std::exception& e) { out = std::string("EXC ") + e.what(); }
        std::cout << out << "\n";
    }
    std::cout.flush();
    return 0;
}
