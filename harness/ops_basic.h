// ops shared by the drivers: tables, encodings
static std::string op_slider(std::istringstream& is)
{
    std::string k, occs; int sq;
    is >> k >> sq >> occs;
    uint64_t occ = parse_hex(occs);
    Bitboard r = k == "B" ? slider_attack<BISHOP>(Square(sq), occ)
               : k == "R" ? slider_attack<ROOK>(Square(sq), occ)
                          : slider_attack<QUEEN>(Square(sq), occ);
    return hex(r);
}

static std::string op_leaper(std::istringstream& is)
{
    std::string k; int sq;
    is >> k >> sq;
    Bitboard r = k == "N" ? KNIGHT_MASK[sq] : k == "K" ? KING_MASK[sq]
               : k == "PW" ? pawn_attacks(square_bb(Square(sq)), WHITE) : pawn_attacks(square_bb(Square(sq)), BLACK);
    return hex(r);
}

static std::string op_lines(std::istringstream& is)
{
    int a, b;
    is >> a >> b;
    return hex(LINES[a][b]) + " " + hex(FULL_LINES[a][b]);
}

static std::string op_ray(std::istringstream& is)
{
    int r, s;
    is >> r >> s;
    return hex(RAYS[r][s]);
}

// enc from to promo : encoded move and decoded fields
static std::string op_enc(std::istringstream& is)
{
    int f, t, p;
    is >> f >> t >> p;
    Move m = p == 0 ? create_move(Square(f), Square(t)) : create_promotion(Square(f), Square(t), PieceKind(p));
    Move m2 = create_promotion(Square(f), Square(t), PieceKind(p));
    std::ostringstream o;
    o << m << " " << m2 << " " << from(m) << " " << to(m) << " " << promotion(m) << " " << castling(m);
    return o.str();
}

static std::string op_encc(std::istringstream& is)
{
    std::string k;
    is >> k;
    Move m = create_castling(k == "K" ? KING_CASTLING : QUEEN_CASTLING);
    std::ostringstream o;
    o << m << " " << from(m) << " " << to(m) << " " << promotion(m) << " " << castling(m);
    return o.str();
}

// dec <code>: decode an arbitrary 17-bit code
static std::string op_dec(std::istringstream& is)
{
    unsigned m;
    is >> m;
    std::ostringstream o;
    o << from(m) << " " << to(m) << " " << promotion(m) << " " << castling(m);
    return o.str();
}

// minfo captured castling ep(64=none) epflag hmc
static std::string op_minfo(std::istringstream& is)
{
    int c, cr, ep, ef, hm;
    is >> c >> cr >> ep >> ef >> hm;
    MoveInfo mi = create_moveinfo(PieceKind(c), Castling(cr), Square(ep), bool(ef), uint8_t(hm));
    std::ostringstream o;
    o << mi << " " << captured_piece(mi) << " " << last_castling(mi) << " " << last_enpassant_square(mi) << " "
      << int(enpassant(mi)) << " " << int(half_move_counter(mi));
    return o.str();
}

static std::string dispatch_more(const std::string& op, std::istringstream& is);

static std::string dispatch(const std::string& op, std::istringstream& is)
{
    if (op == "slider") return op_slider(is);
    if (op == "leaper") return op_leaper(is);
    if (op == "lines") return op_lines(is);
    if (op == "ray") return op_ray(is);
    if (op == "enc") return op_enc(is);
    if (op == "encc") return op_encc(is);
    if (op == "dec") return op_dec(is);
    if (op == "minfo") return op_minfo(is);
    return dispatch_more(op, is);
}
