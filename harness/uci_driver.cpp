// The real UCI loop (same start-up as engine/main.cpp) with the CHESSPP_VERIF hooks installed for forced schedules:
//   VERIF_PARK=point:<p>   park the search thread at schedule point p (0 go entry, 1 after init_search, 2 before
//                          iter_search, 3 top of an iteration (first), 4 before printing bestmove)
//   VERIF_PARK=visit:<k>   park it at its k-th node visit
// The parked thread announces "info string VERIF parked" and sleeps until the reader thread has executed
// Search::stop() (hook points 5/6); then the run continues and the number of node visits after the stop is reported
// as "info string VERIF visits_after_stop <n> frames <ply>" just before the bestmove.
#include <atomic>
#include <condition_variable>
#include <cstdlib>
#include <cstring>
#include <mutex>
#include <string>

#include <iostream>
#include <map>
#include <memory>
#include <sstream>
#include <thread>
#include <vector>
#define private public      // the parsed Limits and the root position inside Search are private
#include "endgame.h"
#include "info.h"
#include "logger.h"
#include "movegen.h"
#include "search.h"
#include "uci.h"
#include "zobrist_hash.h"

using namespace engine;

static int g_park_point = -1;
static long long g_park_visit = -1;
static std::atomic<long long> g_visits{0}, g_visits_at_stop{-1};
static std::atomic<int> g_ply_at_stop{-1}, g_cur_ply{0};
static std::atomic<bool> g_stop_called{false}, g_parked_once{false};
static std::mutex g_m;
static std::condition_variable g_cv;

static void park(const char* where)
{
    if (g_parked_once.exchange(true)) return;
    sync_cout << "info string VERIF parked " << where << sync_endl;
    std::unique_lock<std::mutex> lk(g_m);
    g_cv.wait(lk, [] { return g_stop_called.load(); });
}

static void cb_node(Search*, int, Info* info, int, Value, Value)
{
    long long v = ++g_visits;
    g_cur_ply = info->_ply;
    if (g_park_visit >= 0 && v == g_park_visit + 1) park("visit");
}

static bool g_dump_limits = false;
template <class L> static int clock_flag(const L& l)
{
    if constexpr (requires { l.clock; }) return l.clock ? 1 : 0; else return -1;
}

// VERIF_DUMP_LIMITS=1: at go entry print what Uci::go_command parsed (the Limits the Search was built from), then stop the
// search at once, so that every go - whatever its limits - ends immediately
static void dump_limits(Search* s)
{
    const Limits& l = s->limits;
    std::string ms;
    for (int i = 0; i < l.searchmovesnum; ++i) ms += (i ? "," : "") + s->_position.uci(l.searchmoves[i]);
    sync_cout << "info string VERIF limits ponder=" << (l.ponder ? 1 : 0) << " wtime=" << l.timeleft[WHITE] << " btime=" << l.timeleft[BLACK]
              << " winc=" << l.timeinc[WHITE] << " binc=" << l.timeinc[BLACK] << " movestogo=" << l.movestogo << " depth=" << l.depth
              << " nodes=" << l.nodes << " mate=" << l.mate << " movetime=" << l.movetime << " infinite=" << (l.infinite ? 1 : 0)
              << " searchmoves=" << (ms.empty() ? "-" : ms) << " clock=" << clock_flag(l) << sync_endl;
    s->stop();
}

static void cb_point(Search* s, int point)
{
    if (point == 0 && g_dump_limits) { dump_limits(s); return; }
    if (point == 6)
    {
        // reader thread, right after the flag was set
        g_visits_at_stop = g_visits.load();
        g_ply_at_stop = g_cur_ply.load();
        {
            std::lock_guard<std::mutex> lk(g_m);
            g_stop_called = true;
        }
        g_cv.notify_all();
        return;
    }
    if (point == 5) return;
    if (point == 4 && g_visits_at_stop >= 0)
        sync_cout << "info string VERIF visits_after_stop " << (g_visits.load() - g_visits_at_stop.load()) << " frames " << g_ply_at_stop.load() << sync_endl;
    if (point == g_park_point) park("point");
}

int main()
{
    if (const char* e = getenv("VERIF_PARK"))
    {
        if (!strncmp(e, "point:", 6)) g_park_point = atoi(e + 6);
        if (!strncmp(e, "visit:", 6)) g_park_visit = atoll(e + 6);
    }
    if (getenv("VERIF_DUMP_LIMITS")) g_dump_limits = true;
    verif::on_node = cb_node;
    verif::on_point = cb_point;
    move_bitboards::init();
    zobrist::init();
    bitbase::init();
    endgame::init();
    Uci uci;
    uci.loop();
    return 0;
}
