// ---- C13 / C14: evaluation ----
#include <memory>
namespace engine { namespace endgame { extern std::vector<std::unique_ptr<EndgameBase>> endgames; } }

static std::string fen_from_us(std::string s) { for (char& c : s) if (c == '_') c = ' '; return s; }

static int endgame_index(const Position& p)
{
    int i = 0;
    for (const auto& e : endgame::endgames) { if (e->applies(p)) return i; ++i; }
    return -1;
}

// eval <fen> : "<score by a fresh PositionScorer> <endgame class index or -1> <endgame::score or NONE>"
static std::string op_eval(std::istringstream& is)
{
    GameCase g = parse_game(is);
    Position p(g.fen);
    PositionScorer fresh;
    Value v = fresh.score(p);
    Value e = endgame::score(p);
    return std::to_string((long long)v) + " " + std::to_string(endgame_index(p)) + " " + (e == VALUE_NONE ? std::string("NONE") : std::to_string((long long)e));
}

// evalseq <tok> <tok> ... : ONE long-lived PositionScorer; tok = c (clear, what ucinewgame does) | fen with '_' for spaces
static std::string op_evalseq(std::istringstream& is)
{
    PositionScorer scorer;
    std::string tok, out;
    while (is >> tok)
    {
        if (tok == "c") { scorer.clear(); out += (out.empty() ? "" : " ") + std::string("c"); continue; }
        Position p(fen_from_us(tok));
        out += (out.empty() ? "" : " ") + std::to_string((long long)scorer.score(p));
    }
    return out;
}

// hm <tok> ... : the pawn-table type itself; tok = i:<hexkey>:<mg>:<eg> | p:<hexkey> | c ; output for each p: found:mg:eg
// (only when the table still maps a key to a plain Score; a tree that caches something else answers UNAVAILABLE and the check falls
//  back to judging the evaluator's observable behaviour)
template <class HM> static std::string hm_ops(std::istringstream& is)
{
    using V = std::decay_t<decltype(std::declval<HM&>().probe(uint64_t(0), std::declval<bool&>())->value)>;
    if constexpr (std::is_same_v<V, Score>)
    {
        static std::unique_ptr<HM> hm;
        hm.reset(new HM());
        std::string tok, out;
        while (is >> tok)
        {
            if (tok == "c") { hm->clear(); continue; }
            char kind = tok[0];
            std::vector<std::string> f;
            std::string cur;
            for (size_t i = 2; i <= tok.size(); ++i)
            {
                if (i == tok.size() || tok[i] == ':') { f.push_back(cur); cur.clear(); }
                else cur += tok[i];
            }
            uint64_t key = parse_hex(f[0]);
            if (kind == 'i') hm->insert(key, V(atoll(f[1].c_str()), atoll(f[2].c_str())));
            else
            {
                bool found = false;
                auto e = hm->probe(key, found);
                out += (out.empty() ? "" : " ") + std::string(found ? "1" : "0") + ":" + std::to_string((long long)e->value.mg) + ":" + std::to_string((long long)e->value.eg);
            }
        }
        return out;
    }
    else
    {
        return "UNAVAILABLE";
    }
}
static std::string op_hm(std::istringstream& is) { return hm_ops<PawnHashMap>(is); }

// pawnkey <fen> : Position::pawn_hash() (hex)
static std::string op_pawnkey(std::istringstream& is)
{
    GameCase g = parse_game(is);
    Position p(g.fen);
    return hex(p.pawn_hash());
}

// threatscan <fen> : CANDIDATE GENERATOR only (the judge is the extracted solver): quiet non-checking moves m of the side to
// move after which the defender (not in check, >= 13 legal moves) faces a mate-in-one threat that at most 2 of its
// moves parry.  Output: number of such moves.
static bool has_mate_in_one(Position& p)
{
    for (Move m : gen_moves(p))
    {
        MoveInfo mi = p.do_move(m);
        bool mate = p.is_in_check(p.color()) && gen_moves(p).empty();
        p.undo_move(m, mi);
        if (mate) return true;
    }
    return false;
}

static std::string op_threatscan(std::istringstream& is)
{
    GameCase g = parse_game(is);
    Position p(g.fen);
    int found = 0;
    for (Move m : gen_moves(p))
    {
        if (!p.move_is_quiet(m)) continue;
        MoveInfo mi = p.do_move(m);
        std::vector<Move> defs = gen_moves(p);
        if (!p.is_in_check(p.color()) && defs.size() >= 13)
        {
            MoveInfo nmi = p.do_null_move();
            bool threat = has_mate_in_one(p);
            p.undo_null_move(nmi);
            if (threat)
            {
                int parries = 0;
                for (Move d : defs)
                {
                    MoveInfo dmi = p.do_move(d);
                    if (!has_mate_in_one(p)) ++parries;
                    p.undo_move(d, dmi);
                    if (parries > 2) break;
                }
                if (parries >= 1 && parries <= 2) ++found;
            }
        }
        p.undo_move(m, mi);
    }
    return std::to_string(found);
}

// ztable : the Zobrist tables as zobrist::init() ITSELF fills them (the harness normally overwrites them with fixed values):
// piece[1..12][0..63], castling[0..15], side, ep[0..7]; the fixed values are restored afterwards
static std::string op_ztable(std::istringstream&)
{
    // as at process start: static storage is zero before zobrist::init() runs
    memset(PIECE_HASH, 0, sizeof PIECE_HASH); memset(CASTLING_HASH, 0, sizeof CASTLING_HASH); SIDE_HASH = 0; memset(ENPASSANT_HASH, 0, sizeof ENPASSANT_HASH);
    zobrist::init();
    std::string out;
    for (int p = 1; p <= 12; ++p) for (int s = 0; s < 64; ++s) out += hex(PIECE_HASH[p][s]) + " ";
    out += "|";
    for (int i = 0; i < 16; ++i) out += " " + hex(CASTLING_HASH[i]);
    out += " | " + hex(SIDE_HASH) + " |";
    for (int f = 0; f < 8; ++f) out += " " + hex(ENPASSANT_HASH[f]);
    deterministic_zobrist(0);
    return out;
}

// walk_eval <fen> | script : after every step of a make / unmake / null-move script on ONE Position object, the static evaluation of that
// object and of the same position reloaded from its FEN (a fresh evaluator each): the value must not depend on the history of the object
// (order of the piece lists after swap-remove, cached members)
static std::string obs_eval_pair(Position& p)
{
    PositionScorer a, b;
    Position q(p.fen());
    return std::to_string((long long)a.score(p)) + ":" + std::to_string((long long)b.score(q));
}

static std::string dispatch_eval(const std::string& op, std::istringstream& is)
{
    if (op == "walk_eval") return op_walk_gen(is, obs_eval_pair);
    if (op == "eval") return op_eval(is);
    if (op == "evalseq") return op_evalseq(is);
    if (op == "hm") return op_hm(is);
    if (op == "pawnkey") return op_pawnkey(is);
    if (op == "threatscan") return op_threatscan(is);
    if (op == "ztable") return op_ztable(is);
    return "UNKNOWN-OP " + op;
}
