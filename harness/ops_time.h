// ---- C20: time allocation ----
// weak: a tree where importance() is no longer an external function still builds; the check then
// falls back to the properties judged directly on calculateTime
namespace engine { double importance(double x) __attribute__((weak)); }

// imptable <n> : importance(0..n-1) as exact hex floats
static std::string op_imptable(std::istringstream& is)
{
    int n; is >> n;
    if (!&engine::importance) return "UNAVAILABLE";
    std::string out;
    char buf[64];
    for (int x = 0; x < n; ++x)
    {
        snprintf(buf, sizeof buf, "%a", engine::importance(double(x)));
        if (x) out += ' ';
        out += buf;
    }
    return out;
}

// time <T> <inc> <movestogo> <ply> <side> : TimeManager::calculateTime; the other colour's clock is set to
// unrelated values so that a mix-up of the two colours is visible
static std::string op_time(std::istringstream& is)
{
    long long T, inc; int mtg, ply, side;
    is >> T >> inc >> mtg >> ply >> side;
    Limits l;
    l.timeleft[side] = int(T); l.timeinc[side] = int(inc);
    l.timeleft[1 - side] = 123456789; l.timeinc[1 - side] = 98765;
    l.movestogo = mtg;
    return std::to_string((long long)TimeManager::calculateTime(l, Color(side), ply));
}

#include "ops_eval.h"

static std::string dispatch_time(const std::string& op, std::istringstream& is)
{
    if (op == "imptable") return op_imptable(is);
    if (op == "time") return op_time(is);
    return dispatch_eval(op, is);
}
