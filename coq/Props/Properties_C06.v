(* C06  `stop` is never lost and always produces a prompt `bestmove`. *)
From Coq Require Import List Arith Lia ZArith.
From CV Require Import Gen.Layout Gen.LayoutAst Engine.StopProtocol Engine.StopProofs.
Import ListNotations.

(* The two facts about the source the outcome depends on, re-extracted on every run (clang AST of Search::go, type
   traits of Search::stop_search): *)
Theorem C06_go_does_not_touch_the_flag : go_touches_stop_flag = false.
Proof. reflexivity. Qed.
Theorem C06_flag_is_atomic : stop_flag_atomic = true.
Proof. reflexivity. Qed.
(* ... and no member function of Search writes anything but the literal 'true' to the flag (the model's search thread
   never clears it: lemma sstep_keeps_flag); the walk that establishes this saw the 'flag = true' statements: *)
Theorem C06_search_thread_never_clears_the_flag : flag_clearing_writes = 0%Z /\ (1 <= flag_set_sites)%Z.
Proof. split; [reflexivity|discriminate]. Qed.

(* For EVERY interleaving of the reader thread's stop with the search thread (the stop may arrive before the search
   thread has executed a single step, during init, at any node visit, between iterations, after the last one) and
   for EVERY behaviour of the search while the flag is clear: once the stop is delivered, the bestmove has been
   printed after at most latency_bound further steps of the search thread, and it is printed exactly once.
   The model is instantiated with the flag-reset parameter READ FROM THE SOURCE. *)
Theorem C06_stop_never_lost : forall max_frames max_moves pre post,
  latency_bound max_frames max_moves <= searcher_steps post ->
  g_pc (run go_touches_stop_flag max_frames max_moves (pre ++ Reader :: post) init) = PDone.
Proof. exact stop_never_lost. Qed.
Print Assumptions C06_stop_never_lost.

Theorem C06_one_bestmove : forall max_frames max_moves pre post,
  latency_bound max_frames max_moves <= searcher_steps post ->
  g_best (run go_touches_stop_flag max_frames max_moves (pre ++ Reader :: post) init) = 1.
Proof. exact one_bestmove. Qed.
Print Assumptions C06_one_bestmove.

Theorem C06_never_two_bestmoves : forall max_frames max_moves gr sched,
  g_best (run gr max_frames max_moves sched init) <= 1.
Proof. exact never_two_bestmoves. Qed.

(* the bound for the engine's extents: 80 stack frames, at most 3 child calls for each of at most 218 moves *)
Example C06_bound_value : latency_bound 80 (3 * 218) = 53059.
Proof. reflexivity. Qed.

(* why the reset had to go: with a reset in go(), a stop delivered before it is lost - the thread never finishes *)
Theorem C06_lost_stop_if_go_resets : forall max_frames max_moves n,
  g_pc (run true max_frames max_moves (Reader :: Searcher Return :: Searcher Return :: repeat (Searcher Return) n) init) <> PDone.
Proof. exact lost_stop_with_reset. Qed.
