(* C16  Move text, move encoding and FEN round-trip. *)
From CV Require Import Engine.Encoding Engine.EncodingProofs Chess.Rules Chess.Fen Chess.TextProofs.
Local Open Scope N_scope.

(* ---- packed move encoding: decodes to the fields it was built from ---- *)
Theorem C16_encoding_promotion :
  forall from to promo, from < 64 -> to < 64 -> promo < 8 ->
    let m := create_promotion from to promo in
    mv_from m = from /\ mv_to m = to /\ mv_promotion m = promo /\ mv_castling m = 0.
Proof. exact decode_promotion. Qed.
Print Assumptions C16_encoding_promotion.

Theorem C16_encoding_move :
  forall from to, from < 64 -> to < 64 ->
    let m := create_move from to in
    mv_from m = from /\ mv_to m = to /\ mv_promotion m = 0 /\ mv_castling m = 0.
Proof. exact decode_move. Qed.
Print Assumptions C16_encoding_move.

Theorem C16_encoding_castling :
  mv_castling (create_castling KING_CASTLING) = KING_CASTLING /\
  mv_castling (create_castling QUEEN_CASTLING) = QUEEN_CASTLING /\
  mv_from (create_castling KING_CASTLING) = 0 /\ mv_to (create_castling KING_CASTLING) = 0 /\
  mv_from (create_castling QUEEN_CASTLING) = 0 /\ mv_to (create_castling QUEEN_CASTLING) = 0 /\
  mv_promotion (create_castling KING_CASTLING) = 0 /\ mv_promotion (create_castling QUEEN_CASTLING) = 0.
Proof. exact decode_castling. Qed.
Print Assumptions C16_encoding_castling.

Theorem C16_encoding_injective :
  forall f t p f' t' p', f < 64 -> t < 64 -> p < 8 -> f' < 64 -> t' < 64 -> p' < 8 ->
    create_promotion f t p = create_promotion f' t' p' -> f = f' /\ t = t' /\ p = p'.
Proof. exact promotion_code_injective. Qed.
Print Assumptions C16_encoding_injective.

Theorem C16_castling_codes_distinct :
  forall f t p, f < 64 -> t < 64 -> p < 8 ->
    create_promotion f t p <> KING_CASTLING_MOVE /\ create_promotion f t p <> QUEEN_CASTLING_MOVE.
Proof. exact castling_codes_not_normal. Qed.
Print Assumptions C16_castling_codes_distinct.

Theorem C16_moveinfo :
  forall captured castling last_ep ep hmc,
    captured < 8 -> castling < 16 -> (forall s, last_ep = Some s -> s < 64) -> hmc < 256 ->
    let mi := create_moveinfo captured castling last_ep ep hmc in
    mi_captured mi = captured /\ mi_castling mi = castling /\ mi_last_ep mi = last_ep /\
    mi_ep mi = ep /\ mi_hmc mi = hmc.
Proof. exact decode_moveinfo. Qed.
Print Assumptions C16_moveinfo.

(* ---- UCI long algebraic text: print then parse gives the same move, for every legal move ---- *)
Theorem C16_uci_roundtrip :
  forall p m, legal p m = true -> uci_parse p (uci_print p m) = Some m.
Proof. exact uci_roundtrip. Qed.
Print Assumptions C16_uci_roundtrip.

(* ---- the UCI front end's state (observe_at: `position fen ...` + `printboard`) ----
   Engine/UciSession.v: the only state is the current position; a position command forgets everything before it, the
   engine's `moves` command extends, a take-back is just the shorter line.  The extracted usession is run next to the real
   binary on sequences of RELATED commands (tools/uciglue.py). *)
From CV Require Import Engine.UciSession.
From Coq Require Import List.

Theorem C16_position_command_forgets_history : forall (s : position) (before : list ucmd) r ms,
  ufinal s (before ++ [CPosition r ms]) = play_text (root_of r) ms.
Proof. exact position_after_any_history. Qed.

Theorem C16_moves_command_extends_the_position_line : forall (s : position) r l0 l,
  text_ok (root_of r) l0 = true -> ustep (ustep s (CPosition r l0)) (CMoves l) = ustep s (CPosition r (l0 ++ l)).
Proof. exact moves_extends_position. Qed.

Theorem C16_take_back_is_the_shorter_line : forall (s : position) r l0 l,
  ustep (ustep s (CPosition r (l0 ++ l))) (CPosition r l0) = ustep s (CPosition r l0).
Proof. exact take_back_is_shorter_line. Qed.

(* ---- the FEN the engine prints loads back to the identical position (and therefore prints the identical FEN) ----
   Fen.fen_print / fen_parse model Position::fen() and the constructor's parsing loop (tied by the fen_rt correspondence on every
   position of the generated games and by the UCI-level sessions). *)
From CV Require Import Chess.FenProofs.
Local Open Scope Z_scope.

Theorem C16_fen_roundtrip : forall p : position,
  length (brd p) = 64%nat -> (forall e, ep p = Some e -> (e < 64)%N) -> 0 <= clock p -> 0 <= fullmove p ->
  fen_parse (fen_print p) = Some p.
Proof. exact fen_roundtrip. Qed.
Print Assumptions C16_fen_roundtrip.

Theorem C16_fen_print_parse_print : forall p : position,
  length (brd p) = 64%nat -> (forall e, ep p = Some e -> (e < 64)%N) -> 0 <= clock p -> 0 <= fullmove p ->
  option_map fen_print (fen_parse (fen_print p)) = Some (fen_print p).
Proof. exact fen_print_parse_print. Qed.
