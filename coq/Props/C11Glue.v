(* C11 glue: combines the sweep shards, discharges the per-square side conditions by computation and
   lifts boolean sweeps over the 64 squares to quantified statements. *)
From CV Require Import Engine.Magic Engine.MagicProofs Gen.MagicData.
From CV Require Import Props.C11Sweep_R0 Props.C11Sweep_R1 Props.C11Sweep_R2 Props.C11Sweep_R3
                       Props.C11Sweep_R4 Props.C11Sweep_R5 Props.C11Sweep_R6 Props.C11Sweep_R7
                       Props.C11Sweep_B.
From Coq Require Import Lia.
Local Open Scope N_scope.

Lemma forallb_range (f : N -> bool) (n : nat) :
  forallb f (range n) = true -> forall x, x < N.of_nat n -> f x = true.
Proof. intros H x Hx. rewrite forallb_forall in H. apply H. apply in_range. exact Hx. Qed.

Lemma all_squares_split :
  all_squares = map (fun i => 0 + i) (range 8) ++ map (fun i => 8 + i) (range 8) ++
                map (fun i => 16 + i) (range 8) ++ map (fun i => 24 + i) (range 8) ++
                map (fun i => 32 + i) (range 8) ++ map (fun i => 40 + i) (range 8) ++
                map (fun i => 48 + i) (range 8) ++ map (fun i => 56 + i) (range 8).
Proof. vm_compute. reflexivity. Qed.

Lemma sweep_rook_all :
  forallb (sweep_sq rook_magics rook_widths rook_mask_alg rook_attacks_alg rook_spec) all_squares = true.
Proof.
  rewrite all_squares_split. rewrite !forallb_app.
  rewrite sweep_rook_0, sweep_rook_1, sweep_rook_2, sweep_rook_3,
          sweep_rook_4, sweep_rook_5, sweep_rook_6, sweep_rook_7.
  reflexivity.
Qed.

Lemma rook_side_ok : forallb (side_ok rook_widths rook_mask_alg rook_dirs) all_squares = true.
Proof. vm_compute. reflexivity. Qed.
Lemma bishop_side_ok : forallb (side_ok bishop_widths bishop_mask_alg bishop_dirs) all_squares = true.
Proof. vm_compute. reflexivity. Qed.

Lemma rook_exact sq occ :
  sq < 64 -> slider_lookup rook_magics rook_widths rook_mask_alg rook_attacks_alg sq occ = rook_spec occ sq.
Proof.
  intro H. apply lookup_exact.
  - exact (forallb_range _ 64 rook_side_ok sq H).
  - exact (forallb_range _ 64 sweep_rook_all sq H).
Qed.

Lemma bishop_exact sq occ :
  sq < 64 -> slider_lookup bishop_magics bishop_widths bishop_mask_alg bishop_attacks_alg sq occ = bishop_spec occ sq.
Proof.
  intro H. apply lookup_exact.
  - exact (forallb_range _ 64 bishop_side_ok sq H).
  - exact (forallb_range _ 64 sweep_bishop sq H).
Qed.

Lemma lor_list_app (a b : list N) : lor_list (a ++ b) = N.lor (lor_list a) (lor_list b).
Proof.
  induction a as [|x a IH]; cbn [app lor_list fold_right].
  - rewrite N.lor_0_l. reflexivity.
  - fold (lor_list (a ++ b)). fold (lor_list a). rewrite IH. apply N.lor_assoc.
Qed.

Lemma queen_exact sq occ :
  sq < 64 ->
  N.lor (slider_lookup bishop_magics bishop_widths bishop_mask_alg bishop_attacks_alg sq occ)
        (slider_lookup rook_magics rook_widths rook_mask_alg rook_attacks_alg sq occ) = queen_spec occ sq.
Proof.
  intro H. rewrite rook_exact, bishop_exact by exact H.
  unfold queen_spec, bishop_spec, rook_spec, walk_dirs, queen_dirs.
  rewrite map_app, lor_list_app. reflexivity.
Qed.

(* run-time tables *)
Definition tables_check (sq : N) : bool :=
  (nthN knight_mask_dump sq =? knight_spec sq) &&
  (nthN king_mask_dump sq =? king_spec sq) &&
  (nthN bishop_mask_dump sq =? bishop_mask_alg sq) &&
  (nthN rook_mask_dump sq =? rook_mask_alg sq) &&
  forallb (fun ray => nthN rays_dump (ray * 64 + sq) =? ray_spec (nth (N.to_nat ray) ray_dirs (0, 0)%Z) sq) (range 8) &&
  forallb (fun to => (nthN lines_dump (sq * 64 + to) =? line_spec sq to) &&
                     (nthN full_lines_dump (sq * 64 + to) =? full_line_spec sq to)) (range 64).

Lemma tables_check_all : forallb tables_check all_squares = true.
Proof. vm_compute. reflexivity. Qed.

Lemma tables_dump_exact :
  forall sq, sq < 64 ->
    nthN knight_mask_dump sq = knight_spec sq /\
    nthN king_mask_dump sq = king_spec sq /\
    nthN bishop_mask_dump sq = bishop_mask_alg sq /\
    nthN rook_mask_dump sq = rook_mask_alg sq /\
    (forall ray, ray < 8 -> nthN rays_dump (ray * 64 + sq) = ray_spec (nth (N.to_nat ray) ray_dirs (0, 0)%Z) sq) /\
    (forall to, to < 64 -> nthN lines_dump (sq * 64 + to) = line_spec sq to /\
                           nthN full_lines_dump (sq * 64 + to) = full_line_spec sq to).
Proof.
  intros sq H. pose proof (forallb_range _ 64 tables_check_all sq H) as C.
  unfold tables_check in C.
  repeat (apply andb_prop in C; let C2 := fresh "C" in destruct C as [C C2]).
  repeat match goal with H : (_ =? _) = true |- _ => apply N.eqb_eq in H end.
  repeat split; try assumption.
  - intros ray Hr. apply N.eqb_eq. exact (forallb_range _ 8 C1 ray Hr).
  - pose proof (forallb_range _ 64 C0 to H0) as D. apply andb_prop in D. apply N.eqb_eq. apply D.
  - pose proof (forallb_range _ 64 C0 to H0) as D. apply andb_prop in D. apply N.eqb_eq. apply D.
Qed.

(* the model's own run-time tables agree with the dump too (so the model of init_* is tied to the code) *)
Lemma model_tables_match_dump :
  forallb (fun sq =>
    (knight_mask_alg sq =? nthN knight_mask_dump sq) && (king_mask_alg sq =? nthN king_mask_dump sq) &&
    forallb (fun ray => rays_alg ray sq =? nthN rays_dump (ray * 64 + sq)) (range 8) &&
    forallb (fun to => (lines_alg sq to =? nthN lines_dump (sq * 64 + to)) &&
                       (full_lines_alg sq to =? nthN full_lines_dump (sq * 64 + to))) (range 64)) all_squares = true.
Proof. vm_compute. reflexivity. Qed.

Lemma pawn_attacks_check :
  forallb (fun sq => (pawn_attacks_alg true (bit sq) =? pawn_attack_spec true sq) &&
                     (pawn_attacks_alg false (bit sq) =? pawn_attack_spec false sq)) all_squares = true.
Proof. vm_compute. reflexivity. Qed.

Lemma pawn_attacks_exact white sq :
  sq < 64 -> pawn_attacks_alg white (bit sq) = pawn_attack_spec white sq.
Proof.
  intro H. pose proof (forallb_range _ 64 pawn_attacks_check sq H) as C.
  apply andb_prop in C. destruct C as [C1 C2]. apply N.eqb_eq in C1, C2. destruct white; assumption.
Qed.

Lemma ldiff_lor_l (a b c : N) : N.ldiff (N.lor a b) c = N.lor (N.ldiff a c) (N.ldiff b c).
Proof.
  apply N.bits_inj. intro n. rewrite N.ldiff_spec, !N.lor_spec, !N.ldiff_spec.
  destruct (N.testbit a n), (N.testbit b n), (N.testbit c n); reflexivity.
Qed.

Lemma shl64_lor (a b n : N) : shl64 (N.lor a b) n = N.lor (shl64 a n) (shl64 b n).
Proof. unfold shl64, wrap64. rewrite N.shiftl_lor. apply N.land_lor_distr_l. Qed.

Lemma shift_lor d a b : shift d (N.lor a b) = N.lor (shift d a) (shift d b).
Proof.
  destruct d; unfold shift, andn; rewrite ?ldiff_lor_l, ?shl64_lor, ?N.shiftr_lor; reflexivity.
Qed.

Lemma castling_paths_exact :
  nthN castling_paths_dump 1 = N.lor (bit 5) (bit 6) /\ nthN castling_paths_dump 2 = N.lor (bit 2) (bit 3) /\
  nthN castling_paths_dump 4 = N.lor (bit 61) (bit 62) /\ nthN castling_paths_dump 8 = N.lor (bit 58) (bit 59) /\
  queen_castling_block_dump = [bit 1; bit 57].
Proof. vm_compute. repeat split; reflexivity. Qed.
