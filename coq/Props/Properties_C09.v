(* C09  Search limits are honoured. *)
From Coq Require Import ZArith List Lia.
From CV Require Import Gen.Consts Engine.SearchDriver Engine.SearchDriverProofs.
Import ListNotations.
Local Open Scope Z_scope.

(* for ALL oracles: the reported iterations are exactly 1, 2, ..., k (consecutive, no gaps), k never exceeds the
   depth limit, and no root search is started deeper than the limit *)
Theorem C09_depth_sequence :
  forall search_depth asp_fuel fuel root_moves stop0 roots brk tbrk best ev,
    go search_depth asp_fuel fuel root_moves stop0 roots brk tbrk = Some (best, ev) ->
    exists k, info_depths ev = zseq k /\ Z.of_nat k <= Z.max search_depth 1 /\
              Forall (fun d => 1 <= d <= Z.max search_depth 1) (call_depths ev).
Proof. exact go_depth_sequence. Qed.
Print Assumptions C09_depth_sequence.

(* `go depth d` with d >= 1, including d above the internal maximum: the limit used is min d MAX_DEPTH *)
Theorem C09_go_depth :
  forall d movetime timeleft asp_fuel fuel root_moves stop0 roots brk tbrk best ev,
    1 <= d ->
    go (search_depth_of false d movetime timeleft) asp_fuel fuel root_moves stop0 roots brk tbrk = Some (best, ev) ->
    exists k, info_depths ev = zseq k /\ Z.of_nat k <= d /\ Z.of_nat k <= MAX_DEPTH /\
              Forall (fun x => 1 <= x <= d /\ x <= MAX_DEPTH) (call_depths ev).
Proof.
  intros d mt tl af fu rm s0 roots brk tbrk best ev Hd H.
  rewrite (search_depth_of_depth d mt tl Hd) in H.
  destruct (go_depth_sequence _ _ _ _ _ _ _ _ _ _ H) as [k [K1 [K2 K3]]].
  assert (HM : 1 <= MAX_DEPTH) by (unfold MAX_DEPTH; lia).
  exists k. repeat split; try assumption; try lia.
  eapply Forall_impl; [|exact K3]. cbn. intros a Ha. lia.
Qed.
Print Assumptions C09_go_depth.

(* every depth limit the constructor can choose is at most MAX_DEPTH (so the per-depth arrays of extent
   MAX_DEPTH + 1 are never overrun: C10) *)
Theorem C09_depth_cap : forall infinite depth movetime timeleft,
  search_depth_of infinite depth movetime timeleft <= MAX_DEPTH.
Proof. exact search_depth_of_le. Qed.
Print Assumptions C09_depth_cap.

(* searchmoves: the answer is one of the given moves (the root move list IS the searchmoves list) *)
Theorem C09_searchmoves :
  forall search_depth asp_fuel fuel searchmoves stop0 roots brk tbrk best ev,
    searchmoves <> [] ->
    Forall (fun r => pv_ok searchmoves (r_pv0 r)) roots ->
    go search_depth asp_fuel fuel searchmoves stop0 roots brk tbrk = Some (best, ev) ->
    exists m, best = Some m /\ In m searchmoves.
Proof. exact go_bestmove_member. Qed.
Print Assumptions C09_searchmoves.

Example C09_example_depth60 : search_depth_of false 60 0 0 = 40.
Proof. reflexivity. Qed.

(* ---- the text of the go command (Uci::go_command) ----
   Engine/GoParse.v models the token loop; on commands made of well-formed parameter groups (ponder | infinite |
   <numeric keyword> <integer> | searchmoves <moves>) parsing applies the groups in turn, the result does not depend on
   the ORDER of the groups when no keyword is repeated, and a searchmoves list is read back exactly, wherever it stands
   ("any combination of ... limits").  The model is compared with what the real parser hands to Search on every run. *)
From CV Require Import Engine.GoParse Engine.GoParseProofs.
From Coq Require Import Permutation String.

Theorem C09_go_parameter_order_is_irrelevant : forall gs gs' : list group,
  Permutation gs gs' -> NoDup (map key gs) -> Forall wf gs ->
  parse_go (flat_map render gs) = parse_go (flat_map render gs').
Proof. exact go_parameter_order_is_irrelevant. Qed.
Print Assumptions C09_go_parameter_order_is_irrelevant.

Theorem C09_searchmoves_list_read_back_anywhere : forall (pre post : list group) (ms : list string),
  Forall wf pre -> Forall wf post -> Forall (fun m => is_move m = true) ms ->
  ~ In KMoves (map key pre) -> ~ In KMoves (map key post) ->
  l_searchmoves (parse_go (flat_map render (pre ++ GMoves ms :: post))) = ms.
Proof. exact searchmoves_anywhere. Qed.
Print Assumptions C09_searchmoves_list_read_back_anywhere.

Example C09_go_parse_example :
  let l := parse_go ["searchmoves"; "e7e8q"; "e1d1"; "depth"; "3"; "wtime"; "-5"]%string in
  l_searchmoves l = ["e7e8q"; "e1d1"]%string /\ l_depth l = 3 /\ l_wtime l = -5.
Proof. vm_compute. repeat split; reflexivity. Qed.
