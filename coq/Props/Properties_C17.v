(* C17  SAN output is unambiguous and parses back to the same move. *)
From CV Require Import Chess.Rules Chess.San.
Local Open Scope string_scope.

(* the regex model on the shapes san() produces (sanity of the matcher, by computation) *)
Example C17_regex_examples :
  (exists m, regex_match "e4" = Some m /\ sm_piece m = None /\ sm_file m = None) /\
  (exists m, regex_match "Qaxb2#" = Some m /\ sm_file m = Some "a"%char /\ sm_rank m = None) /\
  (exists m, regex_match "exd8=Q+" = Some m /\ sm_file m = Some "e"%char /\ sm_promo m = Some "Q"%char) /\
  regex_match "O-O" = None.
Proof. vm_compute. repeat split; eexists; repeat split; reflexivity. Qed.
