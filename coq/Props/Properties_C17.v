(* C17  SAN output is unambiguous and parses back to the same move. *)
From CV Require Import Chess.Rules Chess.San.
Local Open Scope string_scope.

(* the regex model on the shapes san() produces (sanity of the matcher, by computation) *)
Example C17_regex_examples :
  (exists m, regex_match "e4" = Some m /\ sm_piece m = None /\ sm_file m = None) /\
  (exists m, regex_match "Qaxb2#" = Some m /\ sm_file m = Some "a"%char /\ sm_rank m = None) /\
  (exists m, regex_match "exd8=Q+" = Some m /\ sm_file m = Some "e"%char /\ sm_promo m = Some "Q"%char) /\
  regex_match "O-O" = None.
Proof. vm_compute. repeat split; eexists; repeat split; reflexivity. Qed.
Print Assumptions C17_regex_examples.

(* ---- the property as a theorem about the model of Position::san / parse_san (Chess/San.v, tied to the C++ by checks/c17.py) ----
   For EVERY position and EVERY legal move of it: parsing the printed SAN in the same position gives the move back (castling, captures,
   file / rank / file+rank disambiguation, pawn captures, promotions, check and mate suffixes) ... *)
From CV Require Import Chess.SanProofs.
Theorem C17_san_parses_back_to_the_same_move :
  forall (p : position) (m : move), legal p m = true -> san_parse p (san_print p m) = Some m.
Proof. exact san_roundtrip. Qed.
Print Assumptions C17_san_parses_back_to_the_same_move.

(* ... hence no two legal moves of a position share a SAN text *)
Theorem C17_san_is_unambiguous :
  forall (p : position) (m1 m2 : move), legal p m1 = true -> legal p m2 = true -> san_print p m1 = san_print p m2 -> m1 = m2.
Proof. exact san_injective. Qed.
Print Assumptions C17_san_is_unambiguous.

(* non-vacuity: three knights that can all reach d4: two on the b-file need file and rank, the third the file only; the texts differ and parse back *)
Example C17_disambiguation_example :
  let p := {| brd := set (set (set (set (set empty_board 4 (Some (White, King))) 60 (Some (Black, King))) 17 (Some (White, Knight))) 33 (Some (White, Knight))) 21 (Some (White, Knight));
              stm := White; rights := {| wk := false; wq := false; bk := false; bq := false |}; ep := None; clock := 0; fullmove := 1 |} in
  san_print p (Normal 17 27 None) = "Nb3d4" /\ san_print p (Normal 33 27 None) = "Nb5d4" /\ san_print p (Normal 21 27 None) = "Nfd4" /\
  san_parse p "Nb3d4" = Some (Normal 17 27 None) /\ legal p (Normal 33 27 None) = true.
Proof. vm_compute. repeat split; reflexivity. Qed.
