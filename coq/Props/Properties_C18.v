(* C18  Opening-book keys follow the Polyglot specification. *)
From CV Require Import Engine.Polyglot Engine.PolyglotInst Chess.Fen.
From CV Require Import Golden.Random64 Gen.PolyglotData Engine.Magic.
From Coq Require Import String.
Local Open Scope N_scope.

(* The engine's tables (re-extracted from the working tree on every run) are the published
   Random64 constants re-ordered to the engine's piece numbering: 12 x 64 + 4 + 8 + 1 entries. *)
Definition table_check : bool :=
  forallb (fun pc => forallb (fun sq => pg_T pc sq =? pg_R (code_offset pc sq)) all_squares)
          [1; 2; 3; 4; 5; 6; 7; 8; 9; 10; 11; 12]
  && forallb (fun i => pg_C i =? pg_R (768 + i)) [0; 1; 2; 3]
  && forallb (fun f => pg_E f =? pg_R (772 + f)) (range 8)
  && (pg_TURN =? pg_R 780)
  && (List.length Random64 =? 781)%nat.

Theorem C18_table : table_check = true.
Proof. vm_compute. reflexivity. Qed.
Print Assumptions C18_table.

(* The nine published test vectors of the format description, evaluated on the SPEC. *)
Local Open Scope string_scope.
Definition vec (fen : string) (key : N) : bool :=
  match fen_parse fen with Some p => (pg_spec_hash p =? key)%N | None => false end.

Example C18_published_vectors :
  vec "rnbqkbnr/pppppppp/8/8/8/8/PPPPPPPP/RNBQKBNR w KQkq - 0 1" 0x463b96181691fc9c &&
  vec "rnbqkbnr/pppppppp/8/8/4P3/8/PPPP1PPP/RNBQKBNR b KQkq e3 0 1" 0x823c9b50fd114196 &&
  vec "rnbqkbnr/ppp1pppp/8/3p4/4P3/8/PPPP1PPP/RNBQKBNR w KQkq d6 0 2" 0x0756b94461c50fb0 &&
  vec "rnbqkbnr/ppp1pppp/8/3pP3/8/8/PPPP1PPP/RNBQKBNR b KQkq - 0 2" 0x662fafb965db29d4 &&
  vec "rnbqkbnr/ppp1p1pp/8/3pPp2/8/8/PPPP1PPP/RNBQKBNR w KQkq f6 0 3" 0x22a48b5a8e47ff78 &&
  vec "rnbqkbnr/ppp1p1pp/8/3pPp2/8/8/PPPPKPPP/RNBQ1BNR b kq - 0 3" 0x652a607ca3f242c1 &&
  vec "rnbq1bnr/ppp1pkpp/8/3pPp2/8/8/PPPPKPPP/RNBQ1BNR w - - 0 4" 0x00fdd303c946bdd9 &&
  vec "rnbqkbnr/p1pppppp/8/8/PpP4P/8/1P1PPPP1/RNBQKBNR b KQkq c3 0 3" 0x3c8123ea7b067637 &&
  vec "rnbqkbnr/p1pppppp/8/8/P6P/R1p5/1P1PPPP1/1NBQKBNR b Kkq - 0 4" 0x5c3f9b829b279560 = true.
Proof. vm_compute. reflexivity. Qed.

(* ---- the engine's key IS the published key ----
   engine_hash models PolyglotBook::hash as coded (piece lists, castling bits, en-passant test through pawn-attack bitboards of
   the two bitboard families, side to move); the theorem holds for the state the constructor builds from ANY position with a
   64-square board and an on-board en-passant square, with the tables re-extracted from the working tree (C18_table). *)
From CV Require Import Engine.PolyglotProofs Engine.RepAbs Chess.Rules Base.NIter.
From Coq Require Import List Lia.

Lemma C18_table_facts :
  (forall pc sq, 1 <= pc <= 12 -> sq < 64 -> pg_T pc sq = pg_R (code_offset pc sq)) /\
  (forall i, i < 4 -> pg_C i = pg_R (768 + i)) /\ (forall f, f < 8 -> pg_E f = pg_R (772 + f)) /\ pg_TURN = pg_R 780.
Proof.
  pose proof C18_table as H. unfold table_check in H.
  do 4 (apply andb_prop in H; destruct H as [H ?]).
  repeat split.
  - intros pc sq Hpc Hsq. rewrite forallb_forall in H.
    assert (Hin : In pc [1; 2; 3; 4; 5; 6; 7; 8; 9; 10; 11; 12]) by (cbn; lia).
    specialize (H pc Hin). rewrite forallb_forall in H. apply N.eqb_eq. apply H. apply RulesFacts.in_all_squares. exact Hsq.
  - intros i Hi. match goal with K : forallb _ [0; 1; 2; 3] = true |- _ => rewrite forallb_forall in K; apply N.eqb_eq; apply K end. cbn; lia.
  - intros f Hf. match goal with K : forallb _ (range 8) = true |- _ => rewrite forallb_forall in K; apply N.eqb_eq; apply K end.
    change (range 8) with [0; 1; 2; 3; 4; 5; 6; 7]. cbn; lia.
Qed.

Theorem C18_engine_key_is_the_published_key :
  forall (zt : zobrist) (p : position),
    length (brd p) = 64%nat -> (forall e, ep p = Some e -> e < 64) ->
    pg_engine_hash (rep_of_position zt p) = pg_spec_hash p.
Proof.
  intros zt p Hl He. destruct C18_table_facts as [HT [HC [HE HTURN]]].
  exact (engine_hash_is_spec_hash zt pg_R pg_T pg_C pg_E pg_TURN HT HC HE HTURN p Hl He).
Qed.
Print Assumptions C18_engine_key_is_the_published_key.
