From CV Require Import Engine.KPK Base.NIter Props.C12Tables Props.C12Defs.
From CV Require Import Props.C12Cert_0 Props.C12Cert_1 Props.C12Cert_2 Props.C12Cert_3
                       Props.C12Cert_4 Props.C12Cert_5 Props.C12Cert_6 Props.C12Cert_7.
From Coq Require Import Lia.
Local Open Scope N_scope.

Lemma land7_lt (x : N) : N.land x 7 < 8.
Proof. apply (N.le_lt_trans _ 7); [|lia]. apply N.le_trans with (N.land x (N.ones 3)); [reflexivity|].
       rewrite N.land_ones. change (2 ^ 3) with 8. pose proof (N.mod_lt x 8). lia. Qed.

Lemma land7_cases (x : N) : let f := N.land x 7 in
  f = 0 \/ f = 1 \/ f = 2 \/ f = 3 \/ f = 4 \/ f = 5 \/ f = 6 \/ f = 7.
Proof. cbv zeta. pose proof (land7_lt x). lia. Qed.

Lemma check_all (i : N) : i < 393216 -> check_index i = true.
Proof.
  intro Hi.
  pose proof (forallN_spec _ _ cert_file_0 i Hi) as H0. pose proof (forallN_spec _ _ cert_file_1 i Hi) as H1.
  pose proof (forallN_spec _ _ cert_file_2 i Hi) as H2. pose proof (forallN_spec _ _ cert_file_3 i Hi) as H3.
  pose proof (forallN_spec _ _ cert_file_4 i Hi) as H4. pose proof (forallN_spec _ _ cert_file_5 i Hi) as H5.
  pose proof (forallN_spec _ _ cert_file_6 i Hi) as H6. pose proof (forallN_spec _ _ cert_file_7 i Hi) as H7.
  cbv beta in *.
  destruct (land7_cases (N.shiftr i 13)) as [E|[E|[E|[E|[E|[E|[E|E]]]]]]]; cbv zeta in E; rewrite E in *;
    cbn [N.eqb Pos.eqb] in *; assumption.
Qed.

Lemma legal_fields (p : kpk) :
  kpk_legal p = true ->
  k_wk p < 64 /\ k_wp p < 64 /\ k_bk p < 64 /\ ((1 <=? rank_of (k_wp p))%Z && (rank_of (k_wp p) <=? 6)%Z = true).
Proof.
  unfold kpk_legal. intro H.
  repeat (apply andb_prop in H; let H2 := fresh "L" in destruct H as [H H2]).
  apply N.ltb_lt in H. apply N.ltb_lt in L5. apply N.ltb_lt in L6.
  repeat split; try assumption. rewrite L4, L3. reflexivity.
Qed.

Lemma legal_roundtrip (p : kpk) :
  kpk_legal p = true -> kpk_of_index (index_of_kpk p) = p /\ index_of_kpk p < 393216.
Proof.
  intro H. destruct (legal_fields p H) as [Hwk [Hwp [Hbk Hr]]].
  pose proof (rt_all (k_wk p) (k_wp p) (k_bk p) (k_btm p) Hwk Hwp Hbk) as R.
  unfold rt_at in R. cbv zeta in R. rewrite Hr in R.
  assert (Ep : {| k_btm := k_btm p; k_wk := k_wk p; k_wp := k_wp p; k_bk := k_bk p |} = p) by (destruct p; reflexivity).
  rewrite Ep in R.
  apply andb_prop in R. destruct R as [Ra Rb].
  split; [apply kpk_eqb_eq; exact Ra|apply N.ltb_lt; exact Rb].
Qed.

Lemma kpk_cert (p : kpk) : kpk_legal p = true -> cert_kpk p = true /\ forallb kpk_legal (kpk_moves p) = true.
Proof.
  intro H. destruct (legal_roundtrip p H) as [Hrt Hlt].
  pose proof (check_all (index_of_kpk p) Hlt) as C. unfold check_index in C.
  cbv zeta in C. rewrite Hrt in C. rewrite H in C.
  apply andb_prop in C. exact C.
Qed.

Lemma kpk_moves_legal (p q : kpk) : kpk_legal p = true -> In q (kpk_moves p) -> kpk_legal q = true.
Proof.
  intros H Hq. destruct (kpk_cert p H) as [_ Hm]. rewrite forallb_forall in Hm. apply Hm. exact Hq.
Qed.

Theorem bitbase_decides (p : kpk) : kpk_legal p = true -> (W_fn p = true <-> KpkWin p).
Proof.
  intro H. unfold KpkWin.
  apply (cert_decides kpk kpk_legal kpk_attacker_to_move kpk_moves kpk_win_now kpk_save_now kpk_mated
                      kpk_moves_legal W_fn rank_fn); [|exact H].
  intros p' H'. apply kpk_cert. exact H'.
Qed.
