(* C02  Making a move follows the rules of chess. *)
From CV Require Import Chess.Rules Engine.PositionRep Engine.RepAbs.
Local Open Scope Z_scope.

(* spec-level facts the property text singles out *)
Theorem C02_castling_keeps_clock_running :
  forall p ks, clock (make_move p (Castle ks)) = clock p + 1.
Proof. intros p ks. reflexivity. Qed.
Print Assumptions C02_castling_keeps_clock_running.

Theorem C02_side_alternates : forall p m, stm (make_move p m) = opp (stm p).
Proof. intros p m. reflexivity. Qed.
Print Assumptions C02_side_alternates.

(* ---- the engine's do_move REFINES the rules ----
   For every Zobrist table, every well-formed representation state (sizes, piece codes, u8 clock below 255, castling mask
   and en-passant square consistent with the board: RepRefineLegal.rep_ok) and every pseudo-legal - in particular every
   legal - move of the rules, the algorithmic model of Position::do_move applied to the engine's encoding of the move
   yields a state whose board, side to move, castling rights, en-passant square, half-move clock and move number are
   exactly those of Rules.make_move.  (PositionRep.do_move is tied to the C++ field by field by checks/c02.py.) *)
From CV Require Import Engine.RepRefine Engine.RepRefineLegal Engine.RepRoundTripNormal Base.NIter.
From Coq Require Import NArith List Lia.
Local Open Scope N_scope.

Theorem C02_do_move_refines_make_move :
  forall (zt : zobrist) (s : rep) (m : move),
    rep_ok s -> pseudo_legal (rep_abs s) m = true ->
    rep_abs (fst (do_move zt s (enc m))) = make_move (rep_abs s) m.
Proof. exact do_move_refines. Qed.
Print Assumptions C02_do_move_refines_make_move.

Theorem C02_do_move_refines_make_move_legal :
  forall (zt : zobrist) (s : rep) (m : move),
    rep_ok s -> legal (rep_abs s) m = true ->
    rep_abs (fst (do_move zt s (enc m))) = make_move (rep_abs s) m.
Proof. exact do_move_refines_legal. Qed.
Print Assumptions C02_do_move_refines_make_move_legal.

(* the three shape-level theorems the refinement is assembled from *)
Theorem C02_do_move_castling : forall (zt : zobrist) (s : rep) (ks : bool), wf_scalars s ->
  nthd (r_board s) (sq_at (if r_side s =? 0 then 0 else 7) 4) 0 = make_piece (r_side s) KING ->
  nthd (r_board s) (sq_at (if r_side s =? 0 then 0 else 7) (if ks then 7 else 0)) 0 = make_piece (r_side s) ROOK ->
  rep_abs (fst (do_move zt s (enc (Castle ks)))) = make_move (rep_abs s) (Castle ks).
Proof. exact castle_refines. Qed.
Print Assumptions C02_do_move_castling.

(* non-vacuity: the start position is a well-formed state, 1.e4 is legal in it, and the conclusion holds there *)
Example C02_refinement_example :
  let zt := {| z_piece := fun p s => p * 64 + s + 1; z_castling := fun c => 1000 + c; z_side := 7777; z_ep := fun f => 3000 + f |} in
  let s := rep_of_position zt Rules.initial_position in
  rep_ok s /\ legal (rep_abs s) (Normal 12 28 None) = true /\ legal (rep_abs s) (Normal 6 21 None) = true /\
  rep_abs (fst (do_move zt s (enc (Normal 12 28 None)))) = make_move Rules.initial_position (Normal 12 28 None).
Proof.
  cbv zeta. split; [|vm_compute; repeat split; reflexivity].
  split; [|split; [|split; vm_compute; reflexivity]].
  - split; [vm_compute; reflexivity|]. split; [vm_compute; reflexivity|]. split; [vm_compute; reflexivity|]. split; [vm_compute; reflexivity|].
    exists 1%Z. split; [lia|vm_compute; reflexivity].
  - intros i Hi.
    assert (H : forallN 64 (fun i => nthd (r_board (rep_of_position
               {| z_piece := fun p s => p * 64 + s + 1; z_castling := fun c => 1000 + c; z_side := 7777; z_ep := fun f => 3000 + f |}
               Rules.initial_position)) i 0 <? 13) = true) by (vm_compute; reflexivity).
    apply N.ltb_lt. exact (forallN_spec _ _ H i Hi).
Qed.
