(* C02  Making a move follows the rules of chess. *)
From CV Require Import Chess.Rules Engine.PositionRep Engine.RepAbs.
Local Open Scope Z_scope.

(* spec-level facts the property text singles out *)
Theorem C02_castling_keeps_clock_running :
  forall p ks, clock (make_move p (Castle ks)) = clock p + 1.
Proof. intros p ks. reflexivity. Qed.
Print Assumptions C02_castling_keeps_clock_running.

Theorem C02_side_alternates : forall p m, stm (make_move p m) = opp (stm p).
Proof. intros p m. reflexivity. Qed.
Print Assumptions C02_side_alternates.

(* ---- the engine's do_move REFINES the rules ----
   For every Zobrist table, every well-formed representation state (sizes, piece codes, u8 clock below 255, castling mask
   and en-passant square consistent with the board: RepRefineLegal.rep_ok) and every pseudo-legal - in particular every
   legal - move of the rules, the algorithmic model of Position::do_move applied to the engine's encoding of the move
   yields a state whose board, side to move, castling rights, en-passant square, half-move clock and move number are
   exactly those of Rules.make_move.  (PositionRep.do_move is tied to the C++ field by field by checks/c02.py.) *)
From CV Require Import Engine.RepRefine Engine.RepRefineLegal Engine.RepRoundTripNormal Base.NIter.
From Coq Require Import NArith List Lia.
Local Open Scope N_scope.

Theorem C02_do_move_refines_make_move :
  forall (zt : zobrist) (s : rep) (m : move),
    rep_ok s -> pseudo_legal (rep_abs s) m = true ->
    rep_abs (fst (do_move zt s (enc m))) = make_move (rep_abs s) m.
Proof. exact do_move_refines. Qed.
Print Assumptions C02_do_move_refines_make_move.

Theorem C02_do_move_refines_make_move_legal :
  forall (zt : zobrist) (s : rep) (m : move),
    rep_ok s -> legal (rep_abs s) m = true ->
    rep_abs (fst (do_move zt s (enc m))) = make_move (rep_abs s) m.
Proof. exact do_move_refines_legal. Qed.
Print Assumptions C02_do_move_refines_make_move_legal.

(* the three shape-level theorems the refinement is assembled from *)
Theorem C02_do_move_castling : forall (zt : zobrist) (s : rep) (ks : bool), wf_scalars s ->
  nthd (r_board s) (sq_at (if r_side s =? 0 then 0 else 7) 4) 0 = make_piece (r_side s) KING ->
  nthd (r_board s) (sq_at (if r_side s =? 0 then 0 else 7) (if ks then 7 else 0)) 0 = make_piece (r_side s) ROOK ->
  rep_abs (fst (do_move zt s (enc (Castle ks)))) = make_move (rep_abs s) (Castle ks).
Proof. exact castle_refines. Qed.
Print Assumptions C02_do_move_castling.

(* non-vacuity: the start position is a well-formed state, 1.e4 is legal in it, and the conclusion holds there *)
Example C02_refinement_example :
  let zt := {| z_piece := fun p s => p * 64 + s + 1; z_castling := fun c => 1000 + c; z_side := 7777; z_ep := fun f => 3000 + f |} in
  let s := rep_of_position zt Rules.initial_position in
  rep_ok s /\ legal (rep_abs s) (Normal 12 28 None) = true /\ legal (rep_abs s) (Normal 6 21 None) = true /\
  rep_abs (fst (do_move zt s (enc (Normal 12 28 None)))) = make_move Rules.initial_position (Normal 12 28 None).
Proof.
  cbv zeta. split; [|vm_compute; repeat split; reflexivity].
  split; [|split; [|split; vm_compute; reflexivity]].
  - split; [vm_compute; reflexivity|]. split; [vm_compute; reflexivity|]. split; [vm_compute; reflexivity|]. split; [vm_compute; reflexivity|].
    exists 1%Z. split; [lia|vm_compute; reflexivity].
  - intros i Hi.
    assert (H : forallN 64 (fun i => nthd (r_board (rep_of_position
               {| z_piece := fun p s => p * 64 + s + 1; z_castling := fun c => 1000 + c; z_side := 7777; z_ep := fun f => 3000 + f |}
               Rules.initial_position)) i 0 <? 13) = true) by (vm_compute; reflexivity).
    apply N.ltb_lt. exact (forallN_spec _ _ H i Hi).
Qed.

(* ---- whole games, with no hypothesis about intermediate states ----
   game_inv (Chess/ValidStep.v) is the part of valid_position that legal play preserves: both kings exactly once, the side that has just moved
   not in check, no pawn on a back rank, castling rights and en-passant square consistent with the board (Chess/GameInv.v: game_inv_step).
   Engine/GameRefine.v lifts the per-move theorems to every legal line from every legal position; the only side condition left is that the
   8-bit half-move counter does not wrap (clock + number of moves < 255; FIDE-legal games stay below 150). *)
From CV Require Import Chess.History Chess.HistoryKeys Chess.ValidStep Chess.GameInv Engine.KeyScratchInit Engine.HistoryRefine Engine.GameRefine.
From Coq Require Import List ZArith.
Import ListNotations.
Theorem C02_legal_positions_satisfy_the_game_invariant : forall p, valid_position p = true -> game_inv p.
Proof. exact valid_game_inv. Qed.
Print Assumptions C02_legal_positions_satisfy_the_game_invariant.

Theorem C02_every_legal_move_keeps_the_game_invariant : forall p m, game_inv p -> legal p m = true -> game_inv (make_move p m).
Proof. exact game_inv_step. Qed.
Print Assumptions C02_every_legal_move_keeps_the_game_invariant.

(* from EVERY legal position, along EVERY legal move sequence of any length (as long as the 8-bit half-move counter does not wrap), the
   representation built by the constructor and driven by do_move represents exactly the position the rules give *)
Theorem C02_every_legal_game_is_played_by_the_rules :
  forall (zt : zobrist) (p0 : position) (ms : list move),
    valid_position p0 = true -> legal_line p0 ms = true -> (clock p0 + Z.of_nat (length ms) < 255)%Z ->
    rep_abs (play_rep zt (rep_of_position zt p0) ms) = play p0 ms.
Proof.
  intros zt p0 ms Hv Hl Hn. destruct (valid_hyps p0 Hv) as [Hg [Hc Hf]].
  exact (proj1 (game_refines zt p0 ms Hg Hc Hf Hl Hn)).
Qed.
Print Assumptions C02_every_legal_game_is_played_by_the_rules.

Example C02_game_example :
  valid_position initial_position = true /\
  legal_line initial_position [Normal 12 28 None; Normal 52 36 None; Normal 6 21 None; Normal 57 42 None; Normal 5 26 None; Normal 62 45 None; Castle true] = true.
Proof. split; vm_compute; reflexivity. Qed.


(* ... and through the text of the UCI command: `position fen <the FEN of a legal position> moves <a legal line as UCI words>` is resolved by the
   front-end model (Engine/UciSession.v, run next to the real binary) to exactly play p0 ms *)
From CV Require Import Chess.Fen Engine.UciSession Engine.UciSessionText.
Theorem C02_position_command_text_reaches_the_rules_position :
  forall (s p0 : position) (ms : list move),
    valid_position p0 = true -> legal_line p0 ms = true ->
    ustep s (CPosition (fen_parse (fen_print p0)) (text_of_line p0 ms)) = play p0 ms.
Proof.
  intros s p0 ms Hv Hl. destruct (valid_parts p0 Hv) as [Hb [_ [_ [_ [_ [_ [Hep [Hc Hf]]]]]]]].
  apply position_command_on_text; try assumption; [|lia].
  intros e He. unfold ep_consistent in Hep. rewrite He in Hep. cbv zeta in Hep.
  repeat (apply andb_prop in Hep; destruct Hep as [Hep ?]). apply N.ltb_lt. exact Hep.
Qed.
Print Assumptions C02_position_command_text_reaches_the_rules_position.
