(* C02  Making a move follows the rules of chess. *)
From CV Require Import Chess.Rules Engine.PositionRep Engine.RepAbs.
Local Open Scope Z_scope.

(* spec-level facts the property text singles out *)
Theorem C02_castling_keeps_clock_running :
  forall p ks, clock (make_move p (Castle ks)) = clock p + 1.
Proof. intros p ks. reflexivity. Qed.
Print Assumptions C02_castling_keeps_clock_running.

Theorem C02_side_alternates : forall p m, stm (make_move p m) = opp (stm p).
Proof. intros p m. reflexivity. Qed.
Print Assumptions C02_side_alternates.
