(* C03  Unmaking a move restores the position exactly. *)
From CV Require Import Engine.PositionRep Engine.RepAbs Engine.RepProofs.
Local Open Scope N_scope.

(* Null move: the ENTIRE engine state (board, lists, bitboards, rights, ep, clock, ply, all five key
   components, history) is restored, for every Zobrist table. *)
Theorem C03_null :
  forall zt s, r_side s < 2 -> r_hmc s < 255 -> (forall e, r_ep s = Some e -> e < 64) -> ep_key_ok zt s ->
    undo_null_move zt (fst (do_null_move zt s)) (snd (do_null_move zt s)) = s.
Proof. exact null_move_roundtrip. Qed.
Print Assumptions C03_null.

(* Ordinary moves.  For EVERY state of the algorithmic model of Position (any board, any Zobrist table) and every
   applicable move, undo_move after do_move restores all observable scalars:
     obs s = (side, half-move clock, ply, board, castling rights, en-passant square, all five key components, history).
   The hypotheses are what legality gives: squares on the board and distinct, the target holds nothing or an enemy
   piece, a promoting piece is the mover's pawn, castling passes over empty squares, an en-passant capture removes the
   enemy pawn behind the target.  [base_ok]: 64 squares, side < 2, clock < 256, rights < 16, ep square on the board,
   castling / ep key components consistent with the state. *)
From CV Require Import Engine.RepRoundTrip Engine.RepRoundTripNormal Engine.Encoding.

Theorem C03_undo_do_castling : forall zt s (ks : bool),
  base_ok zt s ->
  let rank := if r_side s =? 0 then 0 else 7 in
  nthd (r_board s) (sq_at rank (if ks then 6 else 2)) 0 = 0 ->
  nthd (r_board s) (sq_at rank (if ks then 5 else 3)) 0 = 0 ->
  let m := if ks then KING_CASTLING_MOVE else QUEEN_CASTLING_MOVE in
  obs (undo_move zt (fst (do_move zt s m)) m (snd (do_move zt s m))) = obs s.
Proof. exact castle_roundtrip. Qed.
Print Assumptions C03_undo_do_castling.

(* quiet moves, captures, promotions, promotions with capture *)
Theorem C03_undo_do_normal : forall zt s from to promo cap,
  base_ok zt s -> from < 64 -> to < 64 -> from <> to -> promo < 8 ->
  nthd (r_board s) to 0 = cap -> make_piece (1 - r_side s) (pc_kind cap) = cap ->
  (promo <> 0 -> nthd (r_board s) from 0 = make_piece (r_side s) PAWN) ->
  is_ep_flag s from to = false ->
  let m := create_promotion from to promo in
  obs (undo_move zt (fst (do_move zt s m)) m (snd (do_move zt s m))) = obs s.
Proof. exact normal_roundtrip. Qed.
Print Assumptions C03_undo_do_normal.

Theorem C03_undo_do_en_passant : forall zt s from to,
  base_ok zt s -> from < 64 -> to < 64 -> from <> to ->
  nthd (r_board s) to 0 = 0 -> is_ep_flag s from to = true ->
  capsq s to < 64 -> capsq s to <> from -> capsq s to <> to ->
  nthd (r_board s) (capsq s to) 0 = make_piece (1 - r_side s) PAWN ->
  let m := create_promotion from to 0 in
  obs (undo_move zt (fst (do_move zt s m)) m (snd (do_move zt s m))) = obs s.
Proof. exact ep_roundtrip. Qed.
Print Assumptions C03_undo_do_en_passant.

(* ... and assembled: EVERY pseudo-legal (hence every legal) move of the rules on EVERY well-formed state.  rep_ok is the
   invariant of RepRefineLegal.v (sizes, piece codes, clock below 255, castling mask and en-passant square consistent with
   the board - what Rules.valid_position demands of them); key_ok says the castling / en-passant key components are in
   step with the fields.  The shape hypotheses of the three theorems above are DERIVED from Rules.pseudo_legal here. *)
From CV Require Import Engine.RepRefine Engine.RepRefineLegal Engine.RepRoundTripLegal Chess.Rules.
Theorem C03_undo_do_every_pseudo_legal_move : forall (zt : zobrist) (s : rep) (m : move),
  rep_ok s -> key_ok zt s -> pseudo_legal (rep_abs s) m = true ->
  obs (undo_move zt (fst (do_move zt s (enc m))) (enc m) (snd (do_move zt s (enc m)))) = obs s.
Proof. exact undo_do_legal. Qed.
Print Assumptions C03_undo_do_every_pseudo_legal_move.

(* The theorems above speak about the scalars, the board, the key and the history.  The piece lists (restored as duplicate-free sets: swap-remove
   may reorder them) and the two bitboard families (restored exactly) are covered at the end of this file. *)

(* non-vacuity: the start position satisfies base_ok, and 1.e4 meets the hypotheses of C03_undo_do_normal *)
Example C03_example :
  let zt := {| z_piece := fun p s => p * 64 + s + 1; z_castling := fun c => 1000 + c; z_side := 7777; z_ep := fun f => 3000 + f |} in
  let s := rep_of_position zt Rules.initial_position in
  length (r_board s) = 64%nat /\ r_side s = 0 /\ r_hmc s = 0 /\ r_castling s = 15 /\ r_ep s = None /\
  k_castling (r_key s) = z_castling zt (r_castling s) /\ k_ep (r_key s) = 0 /\
  nthd (r_board s) 28 0 = 0 /\ is_ep_flag s 12 28 = false /\
  obs (undo_move zt (fst (do_move zt s (create_promotion 12 28 0))) (create_promotion 12 28 0)
                 (snd (do_move zt s (create_promotion 12 28 0)))) = obs s.
Proof. vm_compute. repeat split; reflexivity. Qed.

(* at every point of every legal game from every legal position, taking back any legal move restores every observable field *)
From CV Require Import Chess.ValidStep Chess.GameInv Engine.KeyScratchInit Engine.GameRefine.
From Coq Require Import ZArith.
Theorem C03_undo_do_along_every_legal_game :
  forall (zt : zobrist) (p0 : position) (ms : list move) (m : move),
    valid_position p0 = true -> legal_line p0 ms = true -> (clock p0 + Z.of_nat (length ms) < 255)%Z -> legal (play p0 ms) m = true ->
    let s := play_rep zt (rep_of_position zt p0) ms in
    obs (undo_move zt (fst (do_move zt s (enc m))) (enc m) (snd (do_move zt s (enc m)))) = obs s.
Proof.
  intros zt p0 ms m Hv Hl Hn Hm. destruct (valid_hyps p0 Hv) as [Hg [Hc Hf]]. exact (game_undo zt p0 ms m Hg Hc Hf Hl Hn Hm).
Qed.
Print Assumptions C03_undo_do_along_every_legal_game.

(* ---- the piece lists ----
   undo_move after do_move keeps the list / key invariant KeyScratch.piece_inv (every list entry is a square holding that piece, once; the
   lists cover the board; the piece keys are the XOR over the lists), and since the board is restored every one of the twelve piece lists
   comes back as a duplicate-free enumeration of the same squares: a permutation of what it was (swap-remove reorders; nothing is lost,
   duplicated or invented). *)
From CV Require Import Engine.KeyScratch Engine.KeyScratchMove Engine.RepRefineLegal Engine.UndoInv.
From Coq Require Import Permutation Lia NArith.
Theorem C03_undo_do_keeps_the_list_invariant :
  forall (zt : zobrist) (s : rep) (m : move), rep_ok s -> key_inv zt s -> pseudo_legal (rep_abs s) m = true ->
    piece_inv zt (undo_move zt (fst (do_move zt s (enc m))) (enc m) (snd (do_move zt s (enc m)))).
Proof. exact undo_do_piece_inv. Qed.
Print Assumptions C03_undo_do_keeps_the_list_invariant.

Theorem C03_undo_do_restores_the_piece_lists_as_sets :
  forall (zt : zobrist) (s : rep) (m : move) (pc : N), rep_ok s -> key_inv zt s -> pseudo_legal (rep_abs s) m = true -> (1 <= pc <= 12)%N ->
    Permutation (nthd (r_lists (undo_move zt (fst (do_move zt s (enc m))) (enc m) (snd (do_move zt s (enc m))))) pc []) (nthd (r_lists s) pc []).
Proof. exact undo_do_lists. Qed.
Print Assumptions C03_undo_do_restores_the_piece_lists_as_sets.

Theorem C03_piece_lists_along_every_legal_game :
  forall (zt : zobrist) (p0 : position) (ms : list move) (m : move) (pc : N),
    valid_position p0 = true -> legal_line p0 ms = true -> (clock p0 + Z.of_nat (length ms) < 255)%Z -> legal (play p0 ms) m = true -> (1 <= pc <= 12)%N ->
    let s := play_rep zt (rep_of_position zt p0) ms in
    let s' := undo_move zt (fst (do_move zt s (enc m))) (enc m) (snd (do_move zt s (enc m))) in
    Permutation (nthd (r_lists s') pc []) (nthd (r_lists s) pc []) /\ piece_inv zt s'.
Proof.
  intros zt p0 ms m pc Hv Hl Hn Hm Hpc. destruct (valid_hyps p0 Hv) as [Hg [Hc Hf]]. exact (game_undo_lists zt p0 ms m pc Hg Hc Hf Hl Hn Hm Hpc).
Qed.
Print Assumptions C03_piece_lists_along_every_legal_game.

(* ---- the two bitboard families ----
   KeyScratch.piece_inv also says that bit i of entry k of the kind (colour) family is set exactly when square i holds a piece of kind (colour) k:
   the bitboards are functions of the board.  The constructor establishes it, add / remove / move keep it (N.lor / N.lxor with the square
   bits), hence do_move and undo_move keep it, and since undo after do restores the board it restores both families EXACTLY. *)
Theorem C03_undo_do_restores_the_bitboards :
  forall (zt : zobrist) (s : rep) (m : move), rep_ok s -> key_inv zt s -> pseudo_legal (rep_abs s) m = true ->
    let s' := undo_move zt (fst (do_move zt s (enc m))) (enc m) (snd (do_move zt s (enc m))) in
    r_kind_bb s' = r_kind_bb s /\ r_color_bb s' = r_color_bb s.
Proof. exact undo_do_bitboards. Qed.
Print Assumptions C03_undo_do_restores_the_bitboards.

(* the bitboards of every state reached by legal play are what the board says *)
Theorem C03_bitboards_are_functions_of_the_board :
  forall (zt : zobrist) (s : rep) (k i : N), piece_inv zt s -> (k < 7)%N ->
    N.testbit (nthd (r_kind_bb s) k 0) i = ((i <? 64) && negb (nthd (r_board s) i 0 =? 0) && (pc_kind (nthd (r_board s) i 0) =? k))%N.
Proof.
  intros zt s k i Hp Hk. destruct Hp as [_ [_ [_ [_ [_ [_ [_ [_ [_ [[_ K] _]]]]]]]]]]. apply K. lia.
Qed.
Print Assumptions C03_bitboards_are_functions_of_the_board.
