(* C03  Unmaking a move restores the position exactly. *)
From CV Require Import Engine.PositionRep Engine.RepAbs Engine.RepProofs.
Local Open Scope N_scope.

(* Null move: the ENTIRE engine state (board, lists, bitboards, rights, ep, clock, ply, all five key
   components, history) is restored, for every Zobrist table. *)
Theorem C03_null :
  forall zt s, r_side s < 2 -> r_hmc s < 255 -> (forall e, r_ep s = Some e -> e < 64) -> ep_key_ok zt s ->
    undo_null_move zt (fst (do_null_move zt s)) (snd (do_null_move zt s)) = s.
Proof. exact null_move_roundtrip. Qed.
Print Assumptions C03_null.
