(* C12: the dumped BITBASE as an array, the table on the 8-file index, the computed ranks. *)
From Coq Require Import Uint63 PArray.
From CV Require Import Engine.KPK Engine.KPKRank Engine.Magic Gen.BitbaseDump Base.NIter.
Local Open Scope N_scope.

Definition i2n (i : int) : N := Z.to_N (Uint63.to_Z i).
Definition n2i (n : N) : int := Uint63.of_Z (Z.of_N n).

Definition bb_arr : array int :=
  Eval vm_compute in
    snd (fold_left (fun st w => (Uint63.add (fst st) 1, (snd st).[fst st <- n2i w])%uint63) bitbase_dump
                   (0%uint63, PArray.make 6144 0%uint63)).

Definition word_fn (i : N) : N := i2n bb_arr.[n2i i].

(* the array holds exactly the dumped words *)
Lemma word_fn_is_dump : forallN 6144 (fun i => word_fn i =? nthN bitbase_dump i) = true.
Proof. vm_cast_no_check (eq_refl true). Qed.

Definition W8_arr : array bool :=
  Eval vm_compute in
    snd (N.iter 393216 (fun st => (N.succ (fst st), (snd st).[n2i (fst st) <- engine_W word_fn (kpk_of_index (fst st))]))
                (0, PArray.make 393216%uint63 false)).

Definition rank_arr : array int := Eval vm_compute in gen_ranks (fun i => W8_arr.[i]).

Definition rank_fn (p : kpk) : N := i2n rank_arr.[n2i (index_of_kpk p)].
Definition W_fn (p : kpk) : bool := engine_W word_fn p.
