(* C11  Attack tables are exact for every square and occupancy.
   Statements only; each is closed by [exact]/short glue over lemmas proved elsewhere. *)
From CV Require Import Engine.Magic Engine.MagicProofs Props.C11Glue Gen.MagicData.
From CV Require Import Props.C11Sweep_R0 Props.C11Sweep_R1 Props.C11Sweep_R2 Props.C11Sweep_R3
                       Props.C11Sweep_R4 Props.C11Sweep_R5 Props.C11Sweep_R6 Props.C11Sweep_R7
                       Props.C11Sweep_B.
Local Open Scope N_scope.

(* The engine's lookups, instantiated with the magics / widths of the current source tree. *)
Definition rook_lookup := slider_lookup rook_magics rook_widths rook_mask_alg rook_attacks_alg.
Definition bishop_lookup := slider_lookup bishop_magics bishop_widths bishop_mask_alg bishop_attacks_alg.
Definition queen_lookup (sq occ : N) := N.lor (bishop_lookup sq occ) (rook_lookup sq occ).

(* Finite obligation (exhaustive, 102,400 + 5,248 entries): stated with its bound. *)
Theorem C11_sweep :
  forallb (sweep_sq rook_magics rook_widths rook_mask_alg rook_attacks_alg rook_spec) all_squares = true /\
  forallb (sweep_sq bishop_magics bishop_widths bishop_mask_alg bishop_attacks_alg bishop_spec) all_squares = true.
Proof. exact (conj sweep_rook_all sweep_bishop). Qed.
Print Assumptions C11_sweep.

(* Every square, EVERY occupancy (no bound on occ at all). *)
Theorem C11_rook : forall sq occ, sq < 64 -> rook_lookup sq occ = rook_spec occ sq.
Proof. exact rook_exact. Qed.
Print Assumptions C11_rook.

Theorem C11_bishop : forall sq occ, sq < 64 -> bishop_lookup sq occ = bishop_spec occ sq.
Proof. exact bishop_exact. Qed.
Print Assumptions C11_bishop.

Theorem C11_queen : forall sq occ, sq < 64 -> queen_lookup sq occ = queen_spec occ sq.
Proof. exact queen_exact. Qed.
Print Assumptions C11_queen.

(* Run-time tables as the current code built them (dump) = the model's algorithm = the geometric spec. *)
Theorem C11_tables_dump :
  forall sq, sq < 64 ->
    nthN knight_mask_dump sq = knight_spec sq /\
    nthN king_mask_dump sq = king_spec sq /\
    nthN bishop_mask_dump sq = bishop_mask_alg sq /\
    nthN rook_mask_dump sq = rook_mask_alg sq /\
    (forall ray, ray < 8 -> nthN rays_dump (ray * 64 + sq) = ray_spec (nth (N.to_nat ray) ray_dirs (0, 0)%Z) sq) /\
    (forall to, to < 64 -> nthN lines_dump (sq * 64 + to) = line_spec sq to /\
                           nthN full_lines_dump (sq * 64 + to) = full_line_spec sq to).
Proof. exact tables_dump_exact. Qed.
Print Assumptions C11_tables_dump.

(* pawn attacks: single squares by sweep, sets by linearity of shift<> *)
Theorem C11_pawn_attacks :
  forall white sq, sq < 64 -> pawn_attacks_alg white (bit sq) = pawn_attack_spec white sq.
Proof. exact pawn_attacks_exact. Qed.
Print Assumptions C11_pawn_attacks.

Theorem C11_shift_linear : forall d a b, shift d (N.lor a b) = N.lor (shift d a) (shift d b).
Proof. exact shift_lor. Qed.
Print Assumptions C11_shift_linear.

Theorem C11_castling_paths :
  nthN castling_paths_dump 1 = N.lor (bit 5) (bit 6) /\ nthN castling_paths_dump 2 = N.lor (bit 2) (bit 3) /\
  nthN castling_paths_dump 4 = N.lor (bit 61) (bit 62) /\ nthN castling_paths_dump 8 = N.lor (bit 58) (bit 59) /\
  queen_castling_block_dump = [bit 1; bit 57].
Proof. exact castling_paths_exact. Qed.
Print Assumptions C11_castling_paths.

(* non-vacuity: a concrete occupied board *)
Example C11_example : rook_lookup 27 0x0000000808000800 = 0x00000008f7080800.
Proof. vm_compute. reflexivity. Qed.
