(* C05  Every `go` is answered by exactly one legal `bestmove`. *)
From Coq Require Import ZArith List.
From CV Require Import Gen.Consts Engine.SearchDriver Engine.SearchDriverProofs.
Import ListNotations.
Local Open Scope Z_scope.

(* Search::go as a function of ALL its oracles (every sequence of root-search results - values, pv heads, stop
   flags -, every answer of the limit polls, a stop that arrives before the thread starts): the model returns ONE
   answer, and that answer is a root move whenever the head of every root pv is a root move.  The root move list is
   the generated legal move list (or the searchmoves list); that the engine's root pv heads are root moves, for every
   table content, is the root-node lemma checked on every recorded root call by the replay (B2). *)
Theorem C05_bestmove :
  forall search_depth asp_fuel fuel root_moves stop0 roots brk tbrk best ev,
    root_moves <> [] ->
    Forall (fun r => pv_ok root_moves (r_pv0 r)) roots ->
    go search_depth asp_fuel fuel root_moves stop0 roots brk tbrk = Some (best, ev) ->
    exists m, best = Some m /\ In m root_moves.
Proof. exact go_bestmove_member. Qed.
Print Assumptions C05_bestmove.

(* a stop that arrives before the search thread runs its first iteration is answered by the first root move *)
Theorem C05_stopped_before_start :
  forall search_depth asp_fuel fuel m rest roots brk tbrk,
    go search_depth asp_fuel fuel (m :: rest) true roots brk tbrk = Some (Some m, []).
Proof. reflexivity. Qed.
Print Assumptions C05_stopped_before_start.

(* non-vacuity: a two-iteration run with an aspiration re-search *)
Example C05_example :
  go 2 10 10 [5; 9] false
     [{| r_val := 30; r_pv0 := Some 9; r_stop := false |}; {| r_val := 12; r_pv0 := Some 5; r_stop := false |}] [] [false]
  = Some (Some 5, [ECall 1 (- INF) INF; EInfo 1 30 (Some 9); ECall 2 (- INF) INF; EInfo 2 12 (Some 5)]).
Proof. vm_compute. reflexivity. Qed.

(* ---- every principal variation is a legal line ---- *)
From CV Require Import Chess.Rules Engine.SearchNode Engine.SearchNodeProofs.

(* Model of the node recursion (Search::search / quiescence_search) in which EVERY value-dependent decision - stop and
   limit polls, draw exits, depth, table hits and the table's moves (adversarial entries included), null-move pruning,
   skipped moves, re-searches, alpha raises, cut-offs - is taken by an arbitrary oracle.  Whatever the oracle does, at
   the exit of every call the pv in the call's slot is a legal line from the call's position (in particular the root
   pv that is printed and whose head becomes the bestmove), and the call never touches the slots below it.
   [gen] is the generated move list; its legality is C01. *)
Theorem C05_pv_legal :
  forall (orc : nat -> nat) (gen : position -> nat -> list move),
    (forall p ply m, In m (gen p ply) -> legal p m = true) ->
    forall fuel pos ply st,
      legal_line pos (fst (search orc gen fuel pos ply st) ply) = true /\
      (forall j, (j < ply)%nat -> fst (search orc gen fuel pos ply st) j = fst st j).
Proof. intros orc gen H fuel pos ply st. apply (search_ok orc gen H fuel pos ply st). Qed.
Print Assumptions C05_pv_legal.

Theorem C05_quiescence_pv_legal :
  forall (orc : nat -> nat) (gen : position -> nat -> list move),
    (forall p ply m, In m (gen p ply) -> legal p m = true) ->
    forall fuel pos ply st, legal_line pos (fst (qsearch orc gen fuel pos ply st) ply) = true.
Proof. intros orc gen H fuel pos ply st. apply (qsearch_ok orc gen H fuel pos ply st). Qed.

(* non-vacuity: an oracle under which a two-move pv is assembled from the start position *)
Example C05_pv_example :
  let gen := fun p (_ : nat) => legal_moves p in
  let orc := fun c : nat => match c with 16 => 1 | 19 => 1 | 20 => 1 | 23 => 1 | 24 => 1 | _ => 0 end%nat in
  exists m1 m2, fst (search orc gen 3%nat initial_position 0%nat (fun _ => [], 0%nat)) 0%nat = [m1; m2].
Proof. vm_compute. eexists. eexists. reflexivity. Qed.
