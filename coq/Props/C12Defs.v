From CV Require Import Engine.KPK Base.NIter Props.C12Tables.
Local Open Scope N_scope.

Definition cert_kpk (p : kpk) : bool :=
  cert_at kpk kpk_attacker_to_move kpk_moves kpk_win_now kpk_save_now kpk_mated W_fn rank_fn p.

(* at one index: if the placement is legal, the local certificate holds and every successor is legal *)
Definition check_index (i : N) : bool :=
  let p := kpk_of_index i in
  if kpk_legal p then cert_kpk p && forallb kpk_legal (kpk_moves p) else true.

Definition kpk_eqb (p q : kpk) : bool :=
  Bool.eqb (k_btm p) (k_btm q) && (k_wk p =? k_wk q) && (k_wp p =? k_wp q) && (k_bk p =? k_bk q).
Lemma kpk_eqb_eq p q : kpk_eqb p q = true -> p = q.
Proof.
  destruct p, q. unfold kpk_eqb. cbn. intro H.
  repeat (apply andb_prop in H; destruct H as [H ?]).
  apply Bool.eqb_prop in H. repeat match goal with E : (_ =? _) = true |- _ => apply N.eqb_eq in E end.
  subst. reflexivity.
Qed.

(* index / placement round trip on every placement with squares < 64 and the pawn on ranks 2..7 *)
Definition rt_at (wk wp bk : N) (btm : bool) : bool :=
  let p := {| k_btm := btm; k_wk := wk; k_wp := wp; k_bk := bk |} in
  if (1 <=? rank_of wp)%Z && (rank_of wp <=? 6)%Z
  then kpk_eqb (kpk_of_index (index_of_kpk p)) p && (index_of_kpk p <? 393216)
  else true.
Lemma roundtrip_ok :
  forallN 64 (fun wk => forallN 64 (fun wp => forallN 64 (fun bk => rt_at wk wp bk true && rt_at wk wp bk false))) = true.
Proof. vm_cast_no_check (eq_refl true). Qed.

Lemma rt_all (wk wp bk : N) (btm : bool) : wk < 64 -> wp < 64 -> bk < 64 -> rt_at wk wp bk btm = true.
Proof.
  intros Hwk Hwp Hbk.
  pose proof (forallN_spec _ _ (forallN_spec _ _ (forallN_spec _ _ roundtrip_ok wk Hwk) wp Hwp) bk Hbk) as R3.
  cbv beta in R3.
  apply andb_prop in R3. destruct btm; tauto.
Qed.
