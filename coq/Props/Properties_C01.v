(* C01  Legal move generation is exact (spec level). *)
From CV Require Import Chess.Rules Chess.RulesFacts.
Local Open Scope N_scope.

(* The executable enumeration used as the oracle of the correspondence is exactly the set of moves
   that are legal under the rules (Rules.legal: piece geometry, occupancy, castling conditions,
   en passant, and "own king not attacked afterwards"), for EVERY position, without duplicates. *)
Theorem C01_rules : forall p m, In m (legal_moves p) <-> legal p m = true.
Proof. exact legal_moves_iff. Qed.
Print Assumptions C01_rules.

Theorem C01_rules_nodup : forall p, NoDup (legal_moves p).
Proof. exact legal_moves_nodup. Qed.
Print Assumptions C01_rules_nodup.

(* perft anchors: the spec reproduces the published counts (sanity of the spec, by computation) *)
Example C01_startpos_20 : length (legal_moves initial_position) = 20%nat.
Proof. vm_compute. reflexivity. Qed.
Example C01_initial_valid : valid_position initial_position = true.
Proof. vm_compute. reflexivity. Qed.
