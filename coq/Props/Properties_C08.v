(* C08  Mates are played and mate announcements are true. *)
From Coq Require Import ZArith Lia.
From CV Require Import Gen.Consts Engine.SearchDriver Engine.MateScore.
Local Open Scope Z_scope.

(* The encoding half (all values, constants re-extracted from the source): a mate delivered on the p-th ply from
   now is announced as ceil(p/2) MOVES - "mate n" for the side to move, "mate -n" against it. *)
Theorem C08_announce_win : forall p, 0 <= p <= MAX_DEPTH -> score2str (win_in p) = Mate ((p + 1) / 2).
Proof. exact score2str_win. Qed.
Print Assumptions C08_announce_win.

Theorem C08_announce_loss : forall p, 0 <= p <= MAX_DEPTH -> score2str (lost_in p) = MateNeg ((p + 1) / 2).
Proof. exact score2str_loss. Qed.
Print Assumptions C08_announce_loss.

(* a value strictly inside the thresholds is never printed as a mate (with C14: a static evaluation never is) *)
Theorem C08_nonmate_is_cp : forall v, LOST_IN_MAX_DEPTH < v < WIN_IN_MAX_DEPTH -> exists n, score2str v = Cp n.
Proof. exact score2str_cp. Qed.
Print Assumptions C08_nonmate_is_cp.

(* the ply bookkeeping on the way up the tree *)
Theorem C08_adjust_loss : forall k, 0 <= k < MAX_DEPTH -> adjust (- lost_in k) = win_in (k + 1).
Proof. exact adjust_negate_loss. Qed.
Theorem C08_adjust_win : forall k, 0 <= k < MAX_DEPTH -> adjust (- win_in k) = lost_in (k + 1).
Proof. exact adjust_negate_win. Qed.
Theorem C08_adjust_nonmate : forall v, LOST_IN_MAX_DEPTH < v < WIN_IN_MAX_DEPTH -> adjust v = v.
Proof. exact adjust_nonmate. Qed.
Print Assumptions C08_adjust_loss.

(* mate in 2 moves = 3 plies is announced as "mate 2", being mated in 2 = 4 plies as "mate -2" *)
Example C08_examples : score2str (win_in 3) = Mate 2 /\ score2str (lost_in 4) = MateNeg 2 /\ score2str (win_in 1) = Mate 1 /\
                       score2str 370 = Cp 100 /\ score2str (-185) = Cp (-50).
Proof. vm_compute. repeat split; reflexivity. Qed.

(* C08_claims_sound (every printed mate score is a true forced mate for every table content earlier real searches can
   leave behind) and C08_mate_in_one are NOT theorems here: the search below the root is an oracle of the model.
   They are decided on the implementation by the extracted exhaustive solver Rules.forced_mate_within /
   forced_loss_within (checks/c08.py); see DESIGN.md section 5 C08. *)
