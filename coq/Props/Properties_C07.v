(* C07  Check, mate, stalemate and draw predicates agree with the game history. *)
From CV Require Import Chess.Rules Chess.History Chess.RulesFacts.
Local Open Scope Z_scope.

(* mate and stalemate are exclusive and both mean "no legal move" *)
Theorem C07_mate_stalemate_exclusive :
  forall p, checkmate p && stalemate p = false.
Proof.
  intro p. unfold checkmate, stalemate. destruct (in_check (brd p) (stm p)); cbn; [|reflexivity].
  apply andb_false_r.
Qed.
Print Assumptions C07_mate_stalemate_exclusive.

Theorem C07_no_moves_iff :
  forall p, (checkmate p || stalemate p = true) <-> (forall m, legal p m = false).
Proof.
  intro p. unfold checkmate, stalemate. split.
  - intros H m. destruct (legal p m) eqn:E; [|reflexivity].
    apply legal_moves_iff in E. destruct (legal_moves p); [destruct E|].
    destruct (in_check (brd p) (stm p)); cbn in H; discriminate.
  - intro H. destruct (legal_moves p) as [|m l] eqn:E.
    + destruct (in_check (brd p) (stm p)); reflexivity.
    + assert (In m (legal_moves p)) by (rewrite E; left; reflexivity).
      apply legal_moves_iff in H0. rewrite H in H0. discriminate.
Qed.
Print Assumptions C07_no_moves_iff.

(* ---- the answers computed from the KEY history equal the rules' answers on the POSITION history ----
   hist_rel s h: the state's key history is the list of keys of the positions h of the game (most recent first), its key is in
   step (C04) and it represents the latest position (C02).  Established by the constructor, preserved by do_move on every
   pseudo-legal move of a well-formed state.  Under "no two different positions of this game share a key" (a 64-bit collision
   is the only way the two can differ) is_repeated / threefold / rule50 ARE occurred_before / occurred_three_times /
   fifty_moves. *)
From CV Require Import Chess.HistoryKeys Engine.PositionRep Engine.RepAbs Engine.RepRefineLegal Engine.KeyScratchInit Engine.HistoryRefine.
From Coq Require Import List.
Import ListNotations.

Theorem C07_repetition_and_fifty_move_answers_agree_with_the_history :
  forall (zt : zobrist) (s : rep) (p : position) (earlier : list position),
    hist_rel zt s (p :: earlier) -> no_collision (Kpos zt) p earlier ->
    is_repeated s = occurred_before (p :: earlier) /\
    threefold s = occurred_three_times (p :: earlier) /\
    rule50 s = fifty_moves p.
Proof. exact repetition_answers_agree. Qed.
Print Assumptions C07_repetition_and_fifty_move_answers_agree_with_the_history.

Theorem C07_history_invariant_along_every_game :
  forall (zt : zobrist) (p0 : position) (ms : list move),
    length (brd p0) = 64%nat -> line_ok zt (rep_of_position zt p0) ms ->
    hist_rel zt (play_rep zt (rep_of_position zt p0) ms) (play_history [rep_abs (rep_of_position zt p0)] ms).
Proof. intros zt p0 ms Hl L. apply hist_rel_along_line; [apply hist_rel_init; exact Hl|exact L]. Qed.
Print Assumptions C07_history_invariant_along_every_game.

(* the same along EVERY legal game from EVERY legal position, with no hypothesis about the intermediate states (Engine/GameRefine.v) *)
From CV Require Import Chess.ValidStep Chess.GameInv Engine.GameRefine.
From Coq Require Import ZArith.
Theorem C07_answers_along_every_legal_game :
  forall (zt : zobrist) (p0 : position) (ms : list move),
    valid_position p0 = true -> legal_line p0 ms = true -> clock p0 + Z.of_nat (length ms) < 255 ->
    let s := play_rep zt (rep_of_position zt p0) ms in
    match play_history [p0] ms with
    | [] => False
    | p :: earlier => p = play p0 ms /\ (no_collision (Kpos zt) p earlier ->
        is_repeated s = occurred_before (p :: earlier) /\ threefold s = occurred_three_times (p :: earlier) /\ rule50 s = fifty_moves p)
    end.
Proof.
  intros zt p0 ms Hv Hl Hn. destruct (valid_hyps p0 Hv) as [Hg [Hc Hf]]. exact (game_answers zt p0 ms Hg Hc Hf Hl Hn).
Qed.
Print Assumptions C07_answers_along_every_legal_game.

(* insufficient material: Position::enough_material counts through the piece lists; with the list invariant (every entry a square that holds
   that piece, once; the lists cover the board - part of KeyScratch.piece_inv, established by the constructor and preserved by do_move) the
   answer is the property's definition - bare kings or a single minor piece - of the position represented, along every legal game *)
From CV Require Import Engine.KeyScratch Engine.Material.
Theorem C07_insufficient_material_is_counted_on_the_board :
  forall (zt : zobrist) (s : rep), piece_inv zt s -> enough_material s = negb (insufficient_material (brd (rep_abs s))).
Proof. exact enough_material_refines. Qed.
Print Assumptions C07_insufficient_material_is_counted_on_the_board.

Theorem C07_material_along_every_legal_game :
  forall (zt : zobrist) (p0 : position) (ms : list move),
    valid_position p0 = true -> legal_line p0 ms = true -> (clock p0 + Z.of_nat (length ms) < 255)%Z ->
    enough_material (play_rep zt (rep_of_position zt p0) ms) = negb (insufficient_material (brd (play p0 ms))).
Proof.
  intros zt p0 ms Hv Hl Hn. destruct (valid_hyps p0 Hv) as [Hg [Hc Hf]]. exact (game_material zt p0 ms Hg Hc Hf Hl Hn).
Qed.
Print Assumptions C07_material_along_every_legal_game.

(* C07_check_mate_partial: in_check / checkmate / stalemate as coded (bitboard attack tests) are not refined by a theorem;
   they are compared with the spec after every ply of the generated games. *)
