(* C07  Check, mate, stalemate and draw predicates agree with the game history. *)
From CV Require Import Chess.Rules Chess.History Chess.RulesFacts.
Local Open Scope Z_scope.

(* mate and stalemate are exclusive and both mean "no legal move" *)
Theorem C07_mate_stalemate_exclusive :
  forall p, checkmate p && stalemate p = false.
Proof.
  intro p. unfold checkmate, stalemate. destruct (in_check (brd p) (stm p)); cbn; [|reflexivity].
  apply andb_false_r.
Qed.
Print Assumptions C07_mate_stalemate_exclusive.

Theorem C07_no_moves_iff :
  forall p, (checkmate p || stalemate p = true) <-> (forall m, legal p m = false).
Proof.
  intro p. unfold checkmate, stalemate. split.
  - intros H m. destruct (legal p m) eqn:E; [|reflexivity].
    apply legal_moves_iff in E. destruct (legal_moves p); [destruct E|].
    destruct (in_check (brd p) (stm p)); cbn in H; discriminate.
  - intro H. destruct (legal_moves p) as [|m l] eqn:E.
    + destruct (in_check (brd p) (stm p)); reflexivity.
    + assert (In m (legal_moves p)) by (rewrite E; left; reflexivity).
      apply legal_moves_iff in H0. rewrite H in H0. discriminate.
Qed.
Print Assumptions C07_no_moves_iff.
