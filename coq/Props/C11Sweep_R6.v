(* C11: exhaustive kernel sweep of the rook magic table, squares 48..55 *)
From CV Require Import Engine.Magic Gen.MagicData.
Local Open Scope N_scope.
Lemma sweep_rook_6 :
  forallb (sweep_sq rook_magics rook_widths rook_mask_alg rook_attacks_alg rook_spec)
          (map (fun i => 48 + i) (range 8)) = true.
Proof. vm_cast_no_check (eq_refl true). Qed.
