(* C20  Time allocation never exceeds the clock. *)
From Coq Require Import ZArith Reals Lra.
From Flocq Require Import Core.
From CV Require Import Engine.TimeMgr Engine.TimeMgrProofs.
Local Open Scope Z_scope.

(* The model of TimeManager::calculateTime over binary64 (round to nearest even), for EVERY oracle
   [imp] (libm pow/exp) whose values are at least 1/128 (the code clamps at 0.01; checked exhaustively on
   the implementation for every argument the quantifier can produce): *)

Theorem C20_nonneg : forall imp, (forall x, (/128 <= imp x)%R) ->
  forall T inc mtg ply, 0 <= T -> 0 <= inc -> 0 <= calc64 imp T inc mtg ply.
Proof. exact calc64_nonneg. Qed.
Print Assumptions C20_nonneg.

Theorem C20_monotone : forall imp, (forall x, (/128 <= imp x)%R) ->
  forall T T' inc mtg ply, T <= T' -> calc64 imp T inc mtg ply <= calc64 imp T' inc mtg ply.
Proof. exact calc64_mono. Qed.
Print Assumptions C20_monotone.

(* at most 70% of the remaining time, for every clock value a 32-bit int can hold (24 h = 86,400,000 ms) *)
Theorem C20_cap : forall imp T inc mtg ply, 0 <= T < 2 ^ 31 -> 10 * calc64 imp T inc mtg ply <= 7 * T.
Proof. exact calc64_cap. Qed.
Print Assumptions C20_cap.

(* never more than the remaining time itself, whatever the float structure *)
Theorem C20_le_clock : forall imp T inc mtg ply, calc64 imp T inc mtg ply <= T.
Proof. intros. apply calculate_le_T. Qed.
Print Assumptions C20_le_clock.

(* The first two hold for ANY float structure whose operations are monotone, sign-preserving roundings
   (the guarantee that survives -Ofast); stated in Engine/TimeMgrProofs.v, Section Abstract: *)
Check calculate_nonneg.
Check calculate_mono.

(* non-vacuity: the hypothesis on the oracle is satisfiable *)
Example C20_oracle_exists : exists imp : Z -> R, forall x, (/128 <= imp x)%R.
Proof. exists (fun _ => 1%R). intro. lra. Qed.

(* ---- the glue in Search: what is actually allotted ----
   Search's constructor takes calculateTime for a clocked go; Search::go() then bounds the thinking time of a root with a
   single legal move by half a second (before the repair it REPLACED the allotment by 500 ms: 'go wtime 50' thought for
   half a second).  final_allotment is that step; the three properties survive it. *)
From Coq Require Import Lia.
Definition final_allotment (single_root_move : bool) (a : Z) : Z := if single_root_move then Z.min a 500 else a.

Theorem C20_search_allotment_cap : forall imp single T inc mtg ply, 0 <= T < 2 ^ 31 ->
  10 * final_allotment single (calc64 imp T inc mtg ply) <= 7 * T.
Proof. intros imp single T inc mtg ply H. pose proof (calc64_cap imp T inc mtg ply H). unfold final_allotment. destruct single; lia. Qed.
Print Assumptions C20_search_allotment_cap.

Theorem C20_search_allotment_nonneg : forall imp, (forall x, (/128 <= imp x)%R) ->
  forall single T inc mtg ply, 0 <= T -> 0 <= inc -> 0 <= final_allotment single (calc64 imp T inc mtg ply).
Proof. intros imp Hi single T inc mtg ply H1 H2. pose proof (calc64_nonneg imp Hi T inc mtg ply H1 H2). unfold final_allotment. destruct single; lia. Qed.

Theorem C20_search_allotment_monotone : forall imp, (forall x, (/128 <= imp x)%R) ->
  forall single T T' inc mtg ply, T <= T' ->
  final_allotment single (calc64 imp T inc mtg ply) <= final_allotment single (calc64 imp T' inc mtg ply).
Proof. intros imp Hi single T T' inc mtg ply H. pose proof (calc64_mono imp Hi T T' inc mtg ply H). unfold final_allotment. destruct single; lia. Qed.

(* the defect that was repaired: replacing the allotment by 500 breaks the cap for every clock below 715 ms *)
Theorem C20_unconditional_500_refuted : exists T, 0 <= T < 2 ^ 31 /\ ~ (10 * 500 <= 7 * T).
Proof. exists 100. lia. Qed.

(* a clock of exactly 0 ms: nothing is allotted (before the repair d9ec8e1 the glue read 0 as "no clock given") *)
Theorem C20_zero_clock_zero_time : forall imp, (forall x, (/128 <= imp x)%R) ->
  forall single inc mtg ply, 0 <= inc -> final_allotment single (calc64 imp 0 inc mtg ply) = 0.
Proof.
  intros imp Hi single inc mtg ply Hinc.
  pose proof (C20_search_allotment_cap imp single 0 inc mtg ply ltac:(lia)) as H1.
  pose proof (C20_search_allotment_nonneg imp Hi single 0 inc mtg ply ltac:(lia) Hinc) as H2. lia.
Qed.
