(* C10  No well-formed session corrupts memory: index bounds against the extents re-extracted from the working
   tree (Gen/Layout.v by the compiled dumper, Gen/LayoutAst.v from clang's AST, Gen/Consts.v). *)
From Coq Require Import ZArith List Lia Bool.
From CV Require Import Gen.Consts Gen.Layout Gen.LayoutAst Engine.SearchDriver Engine.SearchDriverProofs.
Import ListNotations.
Local Open Scope Z_scope.

(* per-depth array previous_moves[ ] in iter_search: indexed by _current_depth, for EVERY go command (any depth
   value, any behaviour of the search below the root) *)
Theorem C10_previous_moves :
  forall infinite depth movetime timeleft asp_fuel fuel root_moves stop0 roots brk tbrk best ev,
    go (search_depth_of infinite depth movetime timeleft) asp_fuel fuel root_moves stop0 roots brk tbrk = Some (best, ev) ->
    Forall (fun d => 0 <= d < previous_moves_extent) (call_depths ev).
Proof.
  intros inf d mt tl af fu rm s0 roots brk tbrk best ev H.
  pose proof (search_depth_of_le inf d mt tl) as Hle.
  destruct (go_depth_sequence _ _ _ _ _ _ _ _ _ _ H) as [k [_ [_ K3]]].
  assert (HM : MAX_DEPTH < previous_moves_extent) by (vm_compute; reflexivity).
  assert (H1 : 1 <= MAX_DEPTH) by (vm_compute; discriminate).
  eapply Forall_impl; [|exact K3]. cbn. intros a Ha. lia.
Qed.
Print Assumptions C10_previous_moves.

(* the game history has no fixed capacity *)
Theorem C10_history : history_is_vector = true.
Proof. reflexivity. Qed.

(* the search stack: a main-search node exists only at ply <= MAX_DEPTH and uses slot ply + 1; the quiescence search
   started there runs at most MAX_DEPTH - 1 further plies.  Main-search slots are always inside the stack: *)
Theorem C10_stack_main : forall ply, 0 <= ply <= MAX_DEPTH -> ply + 1 < stack_slots.
Proof. intros ply H. assert (MAX_DEPTH + 1 < stack_slots) by (vm_compute; reflexivity). lia. Qed.

(* ... and quiescence slots are inside it as long as fewer than MAX_DEPTH - 1 consecutive capture / evasion plies
   follow a main line of the full length MAX_DEPTH (residue: stated hypothesis, see DESIGN.md C10) *)
Theorem C10_stack_quiescence_partial :
  forall main_ply qplies, 0 <= main_ply <= MAX_DEPTH -> 0 <= qplies -> main_ply + qplies < MAX_DEPTH + (MAX_DEPTH - 1) ->
    main_ply + qplies + 1 < stack_slots.
Proof. intros m q Hm Hq H. assert (2 * MAX_DEPTH <= stack_slots) by (vm_compute; discriminate). lia. Qed.

(* a principal variation assembled at ply p holds at most the plies below it; the list has room for all of them *)
Theorem C10_pv_list : 2 * MAX_DEPTH <= pv_list_extent.
Proof. vm_compute. discriminate. Qed.

(* one row of MOVE_LIST per ply: rows for every ply the search and quiescence can reach, and for every perft depth *)
Theorem C10_move_list_rows : 2 * MAX_DEPTH <= move_list_rows.
Proof. vm_compute. discriminate. Qed.

(* every buffer that receives a generated move list has room for the largest known legal move count (218; the bound on
   the count itself is established by the sanitizer runs on the 218-move position, not by a theorem) *)
Theorem C10_move_buffers :
  218 <= move_list_cols /\ 218 <= temp_move_list_extent /\ 218 <= searchmoves_extent /\ 218 <= orderer_scores_extent /\
  218 <= san_scratch_extent.
Proof. vm_compute. repeat split; discriminate. Qed.

(* piece lists: ten entries per piece (promotions can give at most 2 + 8 of one kind) *)
Theorem C10_piece_lists : 10 <= piece_list_extent.
Proof. vm_compute. discriminate. Qed.
