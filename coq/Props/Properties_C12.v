(* C12  King-and-pawn-versus-king knowledge equals the game-theoretic truth. *)
From CV Require Import Engine.KPK Engine.Magic Base.NIter Props.C12Tables Props.C12Defs Props.C12Glue Gen.BitbaseDump.
Local Open Scope N_scope.

(* The table THE CURRENT CODE built (dumped on every run), read through the model of
   bitbase::normalize / getIndex / check, marks a legal placement as won if and only if White (the
   pawn's side) can force a safe promotion against every defence: for all 2 x 64 x 48 x 64 placements,
   all eight files, both sides to move.  KpkWin is the least fixed point of the game (Engine/Game.v). *)
Theorem C12_bitbase : forall p, kpk_legal p = true -> (engine_W word_fn p = true <-> KpkWin p).
Proof. exact bitbase_decides. Qed.
Print Assumptions C12_bitbase.

(* word_fn is the dumped table *)
Theorem C12_words : forall i, i < 6144 -> word_fn i = nthN bitbase_dump i.
Proof. intros i Hi. apply N.eqb_eq. exact (forallN_spec _ _ word_fn_is_dump i Hi). Qed.
Print Assumptions C12_words.

(* Black as the strong side: the engine mirrors the board and swaps the side to move; the Black game
   is by definition the mirrored White game (colour symmetry of the rules). *)
Theorem C12_bitbase_black :
  forall white_to_move bk bp wk,
    let p := {| k_btm := white_to_move; k_wk := flip_v bk; k_wp := flip_v bp; k_bk := flip_v wk |} in
    kpk_legal p = true -> (engine_W_black word_fn white_to_move bk bp wk = true <-> KpkWin p).
Proof. intros w bk bp wk p H. unfold engine_W_black. apply bitbase_decides. exact H. Qed.
Print Assumptions C12_bitbase_black.

(* non-vacuity: a won and a drawn placement *)
Example C12_examples :
  kpk_legal {| k_btm := false; k_wk := 21; k_wp := 12; k_bk := 60 |} = true /\
  engine_W word_fn {| k_btm := false; k_wk := 21; k_wp := 12; k_bk := 60 |} = true /\
  kpk_legal {| k_btm := false; k_wk := 32; k_wp := 8; k_bk := 16 |} = true /\
  engine_W word_fn {| k_btm := false; k_wk := 32; k_wp := 8; k_bk := 16 |} = false.
Proof. vm_compute. repeat split; reflexivity. Qed.
