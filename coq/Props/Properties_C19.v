(* C19  Book lookups return exactly what the book file says. *)
From CV Require Import Engine.Book Engine.BookProofs.
Local Open Scope N_scope.

(* exactly the complete 16-byte records, none dropped, duplicated or invented - for EVERY byte string *)
Theorem C19_reader_count : forall bytes, length (read_book bytes) = (length bytes / 16)%nat.
Proof. exact read_book_count. Qed.
Print Assumptions C19_reader_count.

Theorem C19_reader_records :
  forall bytes i, (i < length bytes / 16)%nat ->
    nth_error (read_book bytes) i = Some (decode_entry (firstn 16 (skipn (16 * i) bytes))).
Proof. exact read_book_nth. Qed.
Print Assumptions C19_reader_records.

Example C19_reader_empty_and_truncated :
  read_book [] = [] /\ length (read_book (repeat 7 15)) = 0%nat /\ length (read_book (repeat 7 33)) = 2%nat.
Proof. vm_compute. repeat split; reflexivity. Qed.

(* random policy: the entry chosen is the one whose cumulative interval contains draw mod total *)
Theorem C19_random_interval :
  forall l draw, sum_weights l <> 0 ->
    exists j, random_index l draw = Some j /\ (j < length l)%nat /\
      weights_before l j <= draw mod sum_weights l < weights_before l j + snd (nth j l (0, 0)).
Proof. exact random_index_spec. Qed.
Print Assumptions C19_random_interval.

(* ... hence each entry is chosen by exactly weight-many of the total-many residues (probability
   proportional to weight, up to the 2^64 mod total bias of the draw) ... *)
Theorem C19_random_proportional :
  forall l j s, sum_weights l <> 0 -> s < sum_weights l ->
    (random_index l s = Some j <->
     ((j < length l)%nat /\ weights_before l j <= s < weights_before l j + snd (nth j l (0, 0)))).
Proof. exact random_proportional. Qed.
Print Assumptions C19_random_proportional.

(* ... and a move of weight zero is never played *)
Theorem C19_random_never_zero :
  forall l draw j, random_index l draw = Some j -> snd (nth j l (0, 0)) <> 0.
Proof. exact random_never_zero_weight. Qed.
Print Assumptions C19_random_never_zero.

(* best policy: a recorded move of maximal weight *)
Theorem C19_best :
  forall l, l <> [] ->
    (best_index l < length l)%nat /\ forall k, (k < length l)%nat -> wt l k <= wt l (best_index l).
Proof. exact best_index_spec. Qed.
Print Assumptions C19_best.

(* castling stored as king-takes-rook decodes to castling only with the king on its home square *)
Example C19_castle_decode :
  decode_move (create_promotion 4 7 0) (fun s => if s =? 4 then 6 else 0) = KING_CASTLING_MOVE /\
  decode_move (create_promotion 4 0 0) (fun s => if s =? 4 then 6 else 0) = QUEEN_CASTLING_MOVE /\
  decode_move (create_promotion 60 63 0) (fun s => if s =? 60 then 12 else 0) = KING_CASTLING_MOVE /\
  decode_move (create_promotion 60 56 0) (fun s => if s =? 60 then 12 else 0) = QUEEN_CASTLING_MOVE /\
  decode_move (create_promotion 4 7 0) (fun s => if s =? 4 then 4 else 0) = create_promotion 4 7 0.
Proof. vm_compute. repeat split; reflexivity. Qed.
