(* C12: certificate check for all placements with the pawn on file 2 (49,152 indices, 2 sides) *)
From CV Require Import Engine.KPK Base.NIter Props.C12Tables Props.C12Defs.
Local Open Scope N_scope.
Lemma cert_file_2 : forallN 393216 (fun i => if N.land (N.shiftr i 13) 7 =? 2 then check_index i else true) = true.
Proof. vm_cast_no_check (eq_refl true). Qed.
