(* C04  The position key is a function of the position, not of its history. *)
From CV Require Import Engine.PositionRep Engine.RepAbs Engine.RepProofs.
Local Open Scope N_scope.

(* key updates are involutions: toggling a piece twice / flipping the side twice changes nothing,
   for every Zobrist table *)
Theorem C04_toggle_involution :
  forall zt k pc sq, toggle_piece zt (toggle_piece zt k pc sq) pc sq = k.
Proof. exact toggle_toggle. Qed.
Print Assumptions C04_toggle_involution.

Theorem C04_flip_involution : forall zt k, flip_side zt (flip_side zt k) = k.
Proof. exact flip_flip. Qed.
Print Assumptions C04_flip_involution.

(* ---- the incrementally maintained key equals the key computed from scratch, and is a function of the position ----
   key_inv s : the piece lists cover the board and all five key components equal (a) their from-scratch values
               (HashKey::init over the piece lists) and (b) the closed function position_key of the board array, the
               side to move, the castling mask and the en-passant square.
   Established by the constructor for every 64-square board, preserved by do_move for every pseudo-legal move of
   every well-formed state, for every Zobrist table; undo_move restores the earlier key (C03).  *)
From CV Require Import Engine.RepRefine Engine.RepRefineLegal Engine.RepRoundTrip Engine.KeyScratch Engine.KeyScratchMove Engine.KeyScratchInit Chess.Rules.
From Coq Require Import List.

Theorem C04_constructor_establishes_key_invariant :
  forall (zt : zobrist) (p : position), length (brd p) = 64%nat -> key_inv zt (rep_of_position zt p).
Proof. exact rep_of_position_key_inv. Qed.
Print Assumptions C04_constructor_establishes_key_invariant.

Theorem C04_do_move_preserves_key_invariant :
  forall (zt : zobrist) (s : rep) (m : move),
    rep_ok s -> key_inv zt s -> pseudo_legal (rep_abs s) m = true -> key_inv zt (fst (do_move zt s (enc m))).
Proof. exact do_move_key_inv. Qed.
Print Assumptions C04_do_move_preserves_key_invariant.

Theorem C04_incremental_key_equals_scratch_key :
  forall (zt : zobrist) (s : rep) (m : move),
    rep_ok s -> key_inv zt s -> pseudo_legal (rep_abs s) m = true ->
    r_key (fst (do_move zt s (enc m))) = scratch_key zt (fst (do_move zt s (enc m))).
Proof. exact do_move_key_scratch. Qed.
Print Assumptions C04_incremental_key_equals_scratch_key.

Theorem C04_key_is_a_function_of_the_position :
  forall (zt : zobrist) (s : rep), key_inv zt s ->
    r_key s = position_key zt (r_board s) (r_side s) (r_castling s) (r_ep s).
Proof. exact key_function_of_position. Qed.
Print Assumptions C04_key_is_a_function_of_the_position.

(* whichever FENs and move orders: equal placement, side, rights and ep square give equal 64-bit keys and pawn keys *)
Theorem C04_transpositions_have_equal_keys :
  forall (zt : zobrist) (p1 p2 : position) (ms1 ms2 : list move),
    length (brd p1) = 64%nat -> length (brd p2) = 64%nat ->
    line_ok zt (rep_of_position zt p1) ms1 -> line_ok zt (rep_of_position zt p2) ms2 ->
    let a := play_rep zt (rep_of_position zt p1) ms1 in let b := play_rep zt (rep_of_position zt p2) ms2 in
    r_board a = r_board b -> r_side a = r_side b -> r_castling a = r_castling b -> r_ep a = r_ep b ->
    get_key (r_key a) = get_key (r_key b) /\ k_pawn (r_key a) = k_pawn (r_key b).
Proof. exact transposition_same_key. Qed.
Print Assumptions C04_transpositions_have_equal_keys.

Theorem C04_pawn_key_depends_on_pawn_placement_only :
  forall (zt : zobrist) (b1 b2 : list N),
    (forall sq, sq < 64 -> pawn_part (nthd b1 sq 0) = pawn_part (nthd b2 sq 0)) -> bkw zt b1 = bkw zt b2.
Proof. exact pawn_key_depends_on_pawns_only. Qed.
Print Assumptions C04_pawn_key_depends_on_pawn_placement_only.

(* C04_distinct_positions_distinct_keys_partial: "positions that differ get different keys (up to collision odds)" is a
   statement about the PRNG and not a theorem; the check counts observed collisions (DESIGN.md). *)

(* non-vacuity: after 1.e4 from the start position the incremental key IS the scratch key and the closed function *)
Example C04_example :
  let zt := {| z_piece := fun p s => p * 64 + s + 1; z_castling := fun c => 1000 + c; z_side := 7777; z_ep := fun f => 3000 + f |} in
  let s := fst (do_move zt (rep_of_position zt initial_position) (enc (Normal 12 28 None))) in
  r_key s = scratch_key zt s /\ r_key s = position_key zt (r_board s) (r_side s) (r_castling s) (r_ep s) /\ get_key (r_key s) <> 0.
Proof. vm_compute. repeat split; discriminate. Qed.

(* ---- whole games, with no hypothesis about intermediate states ----
   game_inv (Chess/ValidStep.v) is the part of valid_position that legal play preserves: both kings exactly once, the side that has just moved
   not in check, no pawn on a back rank, castling rights and en-passant square consistent with the board (Chess/GameInv.v: game_inv_step).
   Engine/GameRefine.v lifts the per-move theorems to every legal line from every legal position; the only side condition left is that the
   8-bit half-move counter does not wrap (clock + number of moves < 255; FIDE-legal games stay below 150). *)
From CV Require Import Chess.History Chess.HistoryKeys Chess.ValidStep Chess.GameInv Engine.KeyScratchInit Engine.HistoryRefine Engine.GameRefine.
From Coq Require Import List ZArith.
Import ListNotations.
Local Open Scope Z_scope.
Theorem C04_the_key_along_every_legal_game_is_the_function_of_the_position :
  forall (zt : zobrist) (p0 : position) (ms : list move),
    valid_position p0 = true -> legal_line p0 ms = true -> clock p0 + Z.of_nat (length ms) < 255 ->
    let s := play_rep zt (rep_of_position zt p0) ms in
    r_key s = KeyScratchMove.position_key zt (r_board s) (r_side s) (r_castling s) (r_ep s) /\ get_key (r_key s) = Kpos zt (play p0 ms).
Proof.
  intros zt p0 ms Hv Hl Hn s. destruct (valid_hyps p0 Hv) as [Hg [Hc Hf]].
  destruct (game_refines zt p0 ms Hg Hc Hf Hl Hn) as [Ra [Ia [Hk _]]]. fold s in Ra, Ia, Hk. split; [exact Hk|].
  destruct Ia as [K [_ [S [C _]]]]. rewrite (state_key zt s K S C), Ra. reflexivity.
Qed.
Print Assumptions C04_the_key_along_every_legal_game_is_the_function_of_the_position.

Theorem C04_transpositions_of_legal_games_have_equal_keys :
  forall (zt : zobrist) (p1 p2 : position) (ms1 ms2 : list move),
    valid_position p1 = true -> legal_line p1 ms1 = true -> clock p1 + Z.of_nat (length ms1) < 255 ->
    valid_position p2 = true -> legal_line p2 ms2 = true -> clock p2 + Z.of_nat (length ms2) < 255 ->
    same_position (play p1 ms1) (play p2 ms2) = true ->
    let a := play_rep zt (rep_of_position zt p1) ms1 in let b := play_rep zt (rep_of_position zt p2) ms2 in
    get_key (r_key a) = get_key (r_key b) /\ k_pawn (r_key a) = k_pawn (r_key b).
Proof.
  intros zt p1 p2 ms1 ms2 V1 L1 N1 V2 L2 N2. destruct (valid_hyps p1 V1) as [G1 [C1 F1]]. destruct (valid_hyps p2 V2) as [G2 [C2 F2]].
  exact (legal_transpositions_same_key zt p1 p2 ms1 ms2 G1 C1 F1 L1 N1 G2 C2 F2 L2 N2).
Qed.
Print Assumptions C04_transpositions_of_legal_games_have_equal_keys.

(* taking a move back leaves the key invariant intact: the key is again the from-scratch key and the closed function of the position *)
From CV Require Import Engine.RepRefineLegal Engine.UndoInv.
Theorem C04_undo_restores_the_key_invariant :
  forall (zt : zobrist) (s : rep) (m : move), rep_ok s -> key_inv zt s -> pseudo_legal (rep_abs s) m = true ->
    key_inv zt (undo_move zt (fst (do_move zt s (enc m))) (enc m) (snd (do_move zt s (enc m)))).
Proof. exact undo_do_key_inv. Qed.
Print Assumptions C04_undo_restores_the_key_invariant.
