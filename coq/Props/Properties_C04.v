(* C04  The position key is a function of the position, not of its history. *)
From CV Require Import Engine.PositionRep Engine.RepAbs Engine.RepProofs.
Local Open Scope N_scope.

(* key updates are involutions: toggling a piece twice / flipping the side twice changes nothing,
   for every Zobrist table *)
Theorem C04_toggle_involution :
  forall zt k pc sq, toggle_piece zt (toggle_piece zt k pc sq) pc sq = k.
Proof. exact toggle_toggle. Qed.
Print Assumptions C04_toggle_involution.

Theorem C04_flip_involution : forall zt k, flip_side zt (flip_side zt k) = k.
Proof. exact flip_flip. Qed.
Print Assumptions C04_flip_involution.
