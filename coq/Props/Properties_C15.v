(* C15  Move classification predicates tell the truth. *)
From CV Require Import Chess.Rules Engine.Classify.

(* spec level: the three notions are consistent with each other *)
Theorem C15_quiet_excludes_capture : forall p m, quiet_spec p m = true -> captures_spec p m = false.
Proof.
  intros p m H. unfold quiet_spec, captures_spec in *. apply andb_prop in H. destruct H as [H _].
  destruct (is_capture p m); [discriminate|reflexivity].
Qed.
Print Assumptions C15_quiet_excludes_capture.

Theorem C15_castling_is_quiet : forall p ks, quiet_spec p (Castle ks) = true /\ captures_spec p (Castle ks) = false.
Proof. intros p ks. split; reflexivity. Qed.
Print Assumptions C15_castling_is_quiet.
