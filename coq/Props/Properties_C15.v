(* C15  Move classification predicates tell the truth. *)
From CV Require Import Chess.Rules Engine.Classify.

(* spec level: the three notions are consistent with each other *)
Theorem C15_quiet_excludes_capture : forall p m, quiet_spec p m = true -> captures_spec p m = false.
Proof.
  intros p m H. unfold quiet_spec, captures_spec in *. apply andb_prop in H. destruct H as [H _].
  destruct (is_capture p m); [discriminate|reflexivity].
Qed.
Print Assumptions C15_quiet_excludes_capture.

Theorem C15_castling_is_quiet : forall p ks, quiet_spec p (Castle ks) = true /\ captures_spec p (Castle ks) = false.
Proof. intros p ks. split; reflexivity. Qed.
Print Assumptions C15_castling_is_quiet.

(* ---- the predicates as coded tell what playing the move does ----
   For every well-formed representation state (RepRefineLegal.rep_ok) and every pseudo-legal - hence every legal - move of
   the rules, Position::move_is_capture and Position::move_is_quiet (algorithmic models in Engine/Classify.v, tied to the C++
   by the three-way correspondence of checks/c15.py) answer exactly Rules.is_capture / "no capture and no promotion". *)
From CV Require Import Engine.RepAbs Engine.RepRefineLegal Engine.ClassifyProofs.

Theorem C15_capture_and_quiet_tell_the_truth :
  forall (s : rep) (m : move), rep_ok s -> pseudo_legal (rep_abs s) m = true ->
    move_is_capture_alg s (enc m) = captures_spec (rep_abs s) m /\ move_is_quiet_alg s (enc m) = quiet_spec (rep_abs s) m.
Proof. exact classify_capture_quiet. Qed.
Print Assumptions C15_capture_and_quiet_tell_the_truth.

(* C15_gives_check_partial: the third predicate (move_gives_check_alg = gives_check_spec) is not proved; it rests on the
   three-way correspondence (engine / spec / algorithmic model) on every legal move of generated positions. *)
