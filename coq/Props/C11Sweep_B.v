(* C11: exhaustive kernel sweep of the bishop magic table, all 64 squares *)
From CV Require Import Engine.Magic Gen.MagicData.
Local Open Scope N_scope.
Lemma sweep_bishop :
  forallb (sweep_sq bishop_magics bishop_widths bishop_mask_alg bishop_attacks_alg bishop_spec)
          all_squares = true.
Proof. vm_cast_no_check (eq_refl true). Qed.
