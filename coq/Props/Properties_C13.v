(* C13  Static evaluation is colour-symmetric. *)
From Coq Require Import ZArith NArith List.
From CV Require Import Chess.Rules Engine.KPK Engine.EndgameModel Engine.EndgameProofs.
Local Open Scope Z_scope.

(* Model of engine/endgame.cpp with tables and constants re-extracted from the source each run.  For every position
   with the squares on the board and one king per side: *)

(* the applicability test of EVERY one of the 17 classes commutes with the mirror *)
Theorem C13_applies_symmetric : forall t c p, applies t (opp c) (mirror p) = applies t c p.
Proof. exact applies_mirror. Qed.
Print Assumptions C13_applies_symmetric.

(* for the eleven classes whose value reads single squares (KPK through the bitbase, KQKR, KNBK, KRNKR, KRBKR, KXK,
   KRKB, KRKN, KNNK, KQKP, KRKP) the strong side's value is the same for the mirrored position and colour, for EVERY
   bitbase content *)
Theorem C13_endgame_value_symmetric : forall word t c p,
  simple t = true -> wf p -> applies t c p = true ->
  strong_score word t (opp c) (mirror p) = strong_score word t c p.
Proof. exact score_mirror_simple. Qed.
Print Assumptions C13_endgame_value_symmetric.

(* ... hence endgame::score from the side to move's point of view is identical *)
Theorem C13_endgame_score_symmetric_partial : forall word t c p,
  wf p -> simple t = true -> eg_find p = Some (t, c) -> eg_find (mirror p) = Some (t, opp c) ->
  eg_score word (mirror p) = eg_score word p.
Proof. exact eg_score_mirror. Qed.
Print Assumptions C13_endgame_score_symmetric_partial.

(* FULL statement (not proved here; decided on the implementation by checks/c13.py):
     forall p, valid p -> sufficient_material p -> PositionScorer_score (mirror p) = PositionScorer_score p
   missing: the six classes that read several pawns / two like pieces (KPsK, KBPsK, KNNKP, KBPsKB, KQKRPs, KmmKm: their
   model is tied by exact correspondence) and the general middle-game evaluator (not modelled). *)

(* non-vacuity: K+Q v K+R, White strong *)
Example C13_example :
  let p := {| e_stm := White; e_list := fun c k => match c, k with
               | White, King => [4%N] | White, Queen => [3%N] | Black, King => [60%N] | Black, Rook => [56%N] | _, _ => [] end |} in
  eg_find p = Some (KQKR, White) /\ eg_find (mirror p) = Some (KQKR, Black) /\ simple KQKR = true.
Proof. vm_compute. repeat split; reflexivity. Qed.
