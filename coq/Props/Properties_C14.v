(* C14  Static evaluation is a pure, bounded function of the position. *)
From Coq Require Import ZArith NArith List.
From CV Require Import Chess.Rules Gen.Consts Engine.EvalCache Engine.EvalCacheProofs Engine.EndgameModel Engine.EndgameProofs.
Import ListNotations.

(* Purity.  The evaluator's only state is the pawn-structure cache.  For EVERY evaluation function (the cached term and
   everything computed around it are abstract), under the two hypotheses the code relies on - the cached term is a
   function of what the key covers, and the empty structure (key 0) scores the default value - the result of
   evaluating p after ANY sequence of earlier evaluations and clears equals the result on a fresh evaluator. *)
Theorem C14_pure :
  forall (pos V R : Type) (dflt : V) (pawn_key : pos -> N) (pawn_score : pos -> V) (finish : pos -> V -> R),
    (forall p q, pawn_key p = pawn_key q -> pawn_score p = pawn_score q) ->
    (forall p, pawn_key p = 0%N -> pawn_score p = dflt) ->
    forall ops p,
      fst (eval pos V R pawn_key pawn_score finish
                (fold_left (step pos V R pawn_key pawn_score finish (t_clear V dflt)) ops (t_init V dflt)) p)
      = pure_eval pos V R pawn_score finish p.
Proof. exact eval_pure. Qed.
Print Assumptions C14_pure.

(* the repaired defect: a clear() that zeroes only the keys is NOT transparent *)
Theorem C14_clear_keys_only_refuted :
  let pawn_key (p : nat) : N := match p with O => 0%N | _ => slots end in
  let pawn_score (p : nat) : Z := match p with O => 0%Z | _ => 77%Z end in
  let finish (_ : nat) (v : Z) := v in
  let st := fold_left (step nat Z Z pawn_key pawn_score finish (t_clear_keys_only Z)) [Eval nat 1%nat; Clear nat] (t_init Z 0%Z) in
  fst (eval nat Z Z pawn_key pawn_score finish st 0%nat) = 77%Z /\ pure_eval nat Z Z pawn_score finish 0%nat = 0%Z.
Proof. exact clear_keys_only_is_impure. Qed.

(* Range, endgame module (where the large values live): every value of every one of the 17 evaluators lies strictly
   inside the non-mate range, for every bitbase content, with the tables and constants of the current source *)
Theorem C14_endgame_bounded_partial : forall word t c p,
  wf p -> counts_ok p ->
  (LOST_IN_MAX_DEPTH < strong_score word t c p < WIN_IN_MAX_DEPTH)%Z.
Proof. exact endgame_value_bounded. Qed.
Print Assumptions C14_endgame_bounded_partial.

(* FULL range statement (general evaluator not modelled): decided on the implementation over extreme-material
   positions by checks/c14.py. *)
