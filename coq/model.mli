
val negb : bool -> bool

type nat =
| O
| S of nat

val fst : ('a1 * 'a2) -> 'a1

val snd : ('a1 * 'a2) -> 'a2

val length : 'a1 list -> nat

val app : 'a1 list -> 'a1 list -> 'a1 list

type comparison =
| Eq
| Lt
| Gt

val compOpp : comparison -> comparison

type uint =
| Nil
| D0 of uint
| D1 of uint
| D2 of uint
| D3 of uint
| D4 of uint
| D5 of uint
| D6 of uint
| D7 of uint
| D8 of uint
| D9 of uint

val revapp : uint -> uint -> uint

val rev : uint -> uint

module Little :
 sig
  val double : uint -> uint

  val succ_double : uint -> uint
 end

val add : nat -> nat -> nat

val mul : nat -> nat -> nat

val sub : nat -> nat -> nat

type positive =
| XI of positive
| XO of positive
| XH

type n =
| N0
| Npos of positive

type z =
| Z0
| Zpos of positive
| Zneg of positive

val eqb : bool -> bool -> bool

module Nat :
 sig
  val eqb : nat -> nat -> bool

  val leb : nat -> nat -> bool
 end

module Pos :
 sig
  val succ : positive -> positive

  val add : positive -> positive -> positive

  val add_carry : positive -> positive -> positive

  val pred_double : positive -> positive

  val pred_N : positive -> n

  val mul : positive -> positive -> positive

  val iter : ('a1 -> 'a1) -> 'a1 -> positive -> 'a1

  val compare_cont : comparison -> positive -> positive -> comparison

  val compare : positive -> positive -> comparison

  val eqb : positive -> positive -> bool

  val coq_Nsucc_double : n -> n

  val coq_Ndouble : n -> n

  val coq_lor : positive -> positive -> positive

  val coq_land : positive -> positive -> n

  val shiftl : positive -> n -> positive

  val testbit : positive -> n -> bool

  val iter_op : ('a1 -> 'a1 -> 'a1) -> positive -> 'a1 -> 'a1

  val to_nat : positive -> nat

  val of_succ_nat : nat -> positive

  val of_uint_acc : uint -> positive -> positive

  val of_uint : uint -> n

  val to_little_uint : positive -> uint

  val to_uint : positive -> uint
 end

module N :
 sig
  val add : n -> n -> n

  val mul : n -> n -> n

  val compare : n -> n -> comparison

  val eqb : n -> n -> bool

  val ltb : n -> n -> bool

  val div2 : n -> n

  val coq_lor : n -> n -> n

  val coq_land : n -> n -> n

  val shiftl : n -> n -> n

  val shiftr : n -> n -> n

  val testbit : n -> n -> bool

  val to_nat : n -> nat

  val of_nat : nat -> n

  val of_uint : uint -> n

  val to_uint : n -> uint
 end

val nth : nat -> 'a1 list -> 'a1 -> 'a1

val map : ('a1 -> 'a2) -> 'a1 list -> 'a2 list

val flat_map : ('a1 -> 'a2 list) -> 'a1 list -> 'a2 list

val fold_right : ('a2 -> 'a1 -> 'a1) -> 'a1 -> 'a2 list -> 'a1

val existsb : ('a1 -> bool) -> 'a1 list -> bool

val forallb : ('a1 -> bool) -> 'a1 list -> bool

val filter : ('a1 -> bool) -> 'a1 list -> 'a1 list

val find : ('a1 -> bool) -> 'a1 list -> 'a1 option

val firstn : nat -> 'a1 list -> 'a1 list

val skipn : nat -> 'a1 list -> 'a1 list

val seq : nat -> nat -> nat list

val repeat : 'a1 -> nat -> 'a1 list

type ascii =
| Ascii of bool * bool * bool * bool * bool * bool * bool * bool

val zero : ascii

val one : ascii

val shift : bool -> ascii -> ascii

val eqb0 : ascii -> ascii -> bool

val ascii_of_pos : positive -> ascii

val ascii_of_N : n -> ascii

val ascii_of_nat : nat -> ascii

val n_of_digits : bool list -> n

val n_of_ascii : ascii -> n

val nat_of_ascii : ascii -> nat

module Z :
 sig
  val double : z -> z

  val succ_double : z -> z

  val pred_double : z -> z

  val pos_sub : positive -> positive -> z

  val add : z -> z -> z

  val opp : z -> z

  val sub : z -> z -> z

  val mul : z -> z -> z

  val compare : z -> z -> comparison

  val leb : z -> z -> bool

  val ltb : z -> z -> bool

  val eqb : z -> z -> bool

  val max : z -> z -> z

  val abs : z -> z

  val to_nat : z -> nat

  val to_N : z -> n

  val of_nat : nat -> z

  val of_N : n -> z

  val pos_div_eucl : positive -> z -> z * z

  val div_eucl : z -> z -> z * z

  val div : z -> z -> z

  val modulo : z -> z -> z
 end

type string =
| EmptyString
| String of ascii * string

val eqb1 : string -> string -> bool

val append : string -> string -> string

val concat : string -> string list -> string

val bit : n -> n

val range : nat -> n list

val all_squares : n list

val lor_list : n list -> n

val file_of : n -> z

val rank_of : n -> z

val sq_of : z -> z -> n

val on_board : z -> z -> bool

val walk : n -> z -> z -> z -> z -> nat -> n

val bishop_dirs : (z * z) list

val rook_dirs : (z * z) list

val queen_dirs : (z * z) list

val walk_dirs : (z * z) list -> n -> n -> n

val bishop_spec : n -> n -> n

val rook_spec : n -> n -> n

val queen_spec : n -> n -> n

val knight_offs : (z * z) list

val king_offs : (z * z) list

val leaper_spec : (z * z) list -> n -> n

val knight_spec : n -> n

val king_spec : n -> n

val pawn_attack_spec : bool -> n -> n

val ray_spec : (z * z) -> n -> n

val ray_dirs : (z * z) list

val sgn : z -> z

val aligned : n -> n -> bool

val line_spec : n -> n -> n

val full_line_spec : n -> n -> n

val cheb : n -> n -> z

val create_move : n -> n -> n

val create_promotion : n -> n -> n -> n

val kING_CASTLING : n

val qUEEN_CASTLING : n

val create_castling : n -> n

val mv_from : n -> n

val mv_to : n -> n

val mv_promotion : n -> n

val mv_castling : n -> n

val b2n : bool -> n

val create_moveinfo : n -> n -> n option -> bool -> n -> n

val mi_captured : n -> n

val mi_castling : n -> n

val mi_last_ep : n -> n option

val mi_ep : n -> bool

val mi_hmc : n -> n

type color =
| White
| Black

type kind =
| Pawn
| Knight
| Bishop
| Rook
| Queen
| King

type piece = color * kind

val color_eqb : color -> color -> bool

val kind_eqb : kind -> kind -> bool

val opp0 : color -> color

type board = piece option list

val get : board -> n -> piece option

val set_nth : 'a1 list -> nat -> 'a1 -> 'a1 list

val set : board -> n -> piece option -> board

type castling = { wk : bool; wq : bool; bk : bool; bq : bool }

type position = { brd : board; stm : color; rights : castling; ep : n option;
                  clock : z; fullmove : z }

type move =
| Normal of n * n * kind option
| Castle of bool

val is_piece : board -> n -> color -> kind -> bool

val is_color : board -> n -> color -> bool

val is_empty : board -> n -> bool

val path_clear : board -> z -> z -> z -> z -> z -> z -> nat -> bool

val slides : board -> n -> n -> bool -> bool -> bool

val pawn_dir : color -> z

val piece_attacks : board -> color -> kind -> n -> n -> bool

val attacked : board -> color -> n -> bool

val king_sq : board -> color -> n option

val in_check : board -> color -> bool

val home_rank : color -> z

val has_right : castling -> color -> bool -> bool

val promo_ok : kind option -> bool

val pawn_move_ok : position -> color -> n -> n -> kind option -> bool

val castle_ok : position -> bool -> bool

val pseudo_legal : position -> move -> bool

val is_ep_capture : position -> n -> n -> bool

val is_capture : position -> move -> bool

val move_board : position -> move -> board

val touches : move -> n -> bool

val move_rights : position -> move -> castling

val move_ep : position -> move -> n option

val resets_clock : position -> move -> bool

val make_move : position -> move -> position

val legal : position -> move -> bool

val promos : kind option list

val candidates_from : position -> n -> move list

val candidates : position -> move list

val legal_moves : position -> move list

val checkmate : position -> bool

val stalemate : position -> bool

val count_piece : board -> color -> kind -> nat

val rights_consistent : board -> castling -> bool

val ep_consistent : position -> bool

val kinds : kind list

val no_pawn_on_back_ranks : board -> bool

val valid_position : position -> bool

val play : position -> move list -> position

val legal_line : position -> move list -> bool

val empty_board : board

val back_rank : kind list

val initial_board : board

val initial_position : position

val forced_mate_within : nat -> position -> bool

val forced_loss_within : nat -> position -> bool

val uint_of_char : ascii -> uint option -> uint option

module NilEmpty :
 sig
  val string_of_uint : uint -> string

  val uint_of_string : string -> uint option
 end

module NilZero :
 sig
  val string_of_uint : uint -> string

  val uint_of_string : string -> uint option
 end

val piece_char : piece -> ascii

val char_piece : ascii -> piece option

val digit_char : nat -> ascii

val char_digit : ascii -> nat option

val print_rank : piece option list -> nat -> string

val rank_squares : board -> nat -> piece option list

val print_placement : board -> string

val print_rights : castling -> string

val file_char : z -> ascii

val rank_char : z -> ascii

val square_name : n -> string

val print_Z : z -> string

val fen_print : position -> string

val split_on : ascii -> string -> string -> string list

val tokens : string -> string list

val parse_placement : string -> z -> board -> board option

val parse_rights : string -> castling -> castling

val parse_square : string -> n option

val parse_Z : string -> z option

val no_rights : castling

val fen_parse : string -> position option

val promo_char : kind -> string

val uci_print : position -> move -> string

val char_promo : ascii -> kind option

val uci_parse : position -> string -> move option
