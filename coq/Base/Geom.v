(* Board geometry: the declarative side.  Squares are indices 0..63 (a1=0, h1=7, a8=56);
   coordinates are integers so that stepping off the board is visible. *)
From CV Require Export Base.Bits.
Local Open Scope Z_scope.

(* file = s mod 8, rank = s / 8 (FileRank.v proves these forms); written with masks and shifts so that
   the extracted code does not run a division for every square *)
Definition file_of (s : N) : Z := Z.of_N (N.land s 7).
Definition rank_of (s : N) : Z := Z.of_N (N.shiftr s 3).
Definition sq_of (f r : Z) : N := Z.to_N (r * 8 + f).
Definition on_board (f r : Z) : bool := (0 <=? f) && (f <? 8) && (0 <=? r) && (r <? 8).

(* Walk from (f,r) in direction (df,dr): every square up to and including the first blocker. *)
Fixpoint walk (occ : N) (f r df dr : Z) (fuel : nat) : N :=
  match fuel with
  | O => 0%N
  | S k =>
    let f' := f + df in
    let r' := r + dr in
    if on_board f' r' then
      let s := sq_of f' r' in
      N.lor (bit s) (if N.testbit occ s then 0%N else walk occ f' r' df dr k)
    else 0%N
  end.

Definition bishop_dirs : list (Z * Z) := [(-1, 1); (1, 1); (1, -1); (-1, -1)].
Definition rook_dirs : list (Z * Z) := [(0, 1); (1, 0); (0, -1); (-1, 0)].
Definition queen_dirs : list (Z * Z) := bishop_dirs ++ rook_dirs.

Definition walk_dirs (dirs : list (Z * Z)) (occ s : N) : N :=
  lor_list (map (fun d => walk occ (file_of s) (rank_of s) (fst d) (snd d) 7) dirs).

Definition bishop_spec := walk_dirs bishop_dirs.
Definition rook_spec := walk_dirs rook_dirs.
Definition queen_spec := walk_dirs queen_dirs.

(* leapers *)
Definition knight_offs : list (Z * Z) :=
  [(1, 2); (-1, 2); (1, -2); (-1, -2); (2, 1); (2, -1); (-2, 1); (-2, -1)].
Definition king_offs : list (Z * Z) :=
  [(0, 1); (0, -1); (1, 0); (-1, 0); (1, 1); (-1, 1); (1, -1); (-1, -1)].

Definition leaper_spec (offs : list (Z * Z)) (s : N) : N :=
  lor_list (map (fun d =>
    let f := file_of s + fst d in
    let r := rank_of s + snd d in
    if on_board f r then bit (sq_of f r) else 0%N) offs).

Definition knight_spec := leaper_spec knight_offs.
Definition king_spec := leaper_spec king_offs.

(* pawn attacks of a set of pawns: white pawns attack (f±1, r+1), black (f±1, r-1) *)
Definition pawn_attack_spec (white : bool) (s : N) : N :=
  leaper_spec (if white then [(-1, 1); (1, 1)] else [(-1, -1); (1, -1)]) s.

(* ray from s in one direction on an empty board *)
Definition ray_spec (d : Z * Z) (s : N) : N := walk 0%N (file_of s) (rank_of s) (fst d) (snd d) 7.

(* the eight engine rays in the order of the Ray enum: NW N NE E SE S SW W *)
Definition ray_dirs : list (Z * Z) :=
  [(-1, 1); (0, 1); (1, 1); (1, 0); (1, -1); (0, -1); (-1, -1); (-1, 0)].

Definition sgn (x : Z) : Z := if x <? 0 then -1 else if 0 <? x then 1 else 0.

(* aligned: same rank, file or diagonal (and distinct) *)
Definition aligned (a b : N) : bool :=
  let df := file_of b - file_of a in
  let dr := rank_of b - rank_of a in
  negb ((df =? 0) && (dr =? 0)) &&
  ((df =? 0) || (dr =? 0) || (Z.abs df =? Z.abs dr)).

(* LINES[a][b]: squares from a to b inclusive if aligned (a itself when a = b), else empty *)
Definition line_spec (a b : N) : N :=
  if (a =? b)%N then bit a
  else if aligned a b then
    let d := (sgn (file_of b - file_of a), sgn (rank_of b - rank_of a)) in
    N.lor (bit a) (walk (bit b) (file_of a) (rank_of a) (fst d) (snd d) 7)
  else 0%N.

(* FULL_LINES[a][b]: the whole rank/file/diagonal through a and b, edge to edge *)
Definition full_line_spec (a b : N) : N :=
  if aligned a b then
    let d := (sgn (file_of b - file_of a), sgn (rank_of b - rank_of a)) in
    N.lor (bit a) (N.lor (ray_spec d a) (ray_spec (- fst d, - snd d) a))
  else 0%N.

Definition cheb (a b : N) : Z :=
  Z.max (Z.abs (file_of a - file_of b)) (Z.abs (rank_of a - rank_of b)).
