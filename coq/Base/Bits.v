(* 64-bit bitboards as binary naturals: definitions only (proofs in BitsFacts.v). *)
From Coq Require Export NArith ZArith List Bool.
Export ListNotations.
Local Open Scope N_scope.

Definition two64 : N := 0x10000000000000000.
Definition all64 : N := 0xFFFFFFFFFFFFFFFF.

Definition wrap64 (x : N) : N := N.land x all64.
Definition mul64 (a b : N) : N := wrap64 (a * b).
Definition not64 (a : N) : N := N.lxor a all64.          (* for a < 2^64 *)
Definition shl64 (a n : N) : N := wrap64 (N.shiftl a n).
Definition andn (a b : N) : N := N.ldiff a b.            (* a & ~b *)

Definition bit (s : N) : N := N.shiftl 1 s.              (* square_bb *)
Definition has (bb s : N) : bool := N.testbit bb s.

(* bithacks.cpp *)
Fixpoint ctz_pos (p : positive) : N :=
  match p with xO q => N.succ (ctz_pos q) | _ => 0 end.
Definition lsb (bb : N) : N := match bb with N0 => 0 | Npos p => ctz_pos p end.
Definition msb (bb : N) : N := N.log2 bb.
Fixpoint popcount_pos (p : positive) : N :=
  match p with xH => 1 | xO q => popcount_pos q | xI q => N.succ (popcount_pos q) end.
Definition popcount (bb : N) : N := match bb with N0 => 0 | Npos p => popcount_pos p end.
Definition clear_lsb (bb : N) : N := N.land bb (N.pred bb).   (* bb & (bb - 1), bb <> 0 *)
Definition more_than_one (bb : N) : bool := negb (bb =? 0) && negb (clear_lsb bb =? 0).

(* the list of set bits, ascending: what FOR_EACH_BIT / pop_lsb loops visit *)
Fixpoint bits_pos (p : positive) (i : N) : list N :=
  match p with
  | xH => [i]
  | xO q => bits_pos q (N.succ i)
  | xI q => i :: bits_pos q (N.succ i)
  end.
Definition bits_of (bb : N) : list N := match bb with N0 => [] | Npos p => bits_pos p 0 end.

(* file / rank masks (bitboard.h) *)
Definition rank1_bb : N := 0xFF.
Definition fileA_bb : N := 0x0101010101010101.
Definition fileH_bb : N := 0x8080808080808080.
Definition rank_bb (r : N) : N := N.shiftl rank1_bb (8 * r).
Definition file_bb (f : N) : N := N.shiftl fileA_bb f.

(* shift<dir> of bitboard.h; directions named by their square offset *)
Inductive dir := DN | DE | DS | DW | DNE | DNW | DSE | DSW | DNN | DSS.
Definition shift (d : dir) (bb : N) : N :=
  match d with
  | DN => shl64 bb 8
  | DE => shl64 (andn bb fileH_bb) 1
  | DS => N.shiftr bb 8
  | DW => N.shiftr (andn bb fileA_bb) 1
  | DNE => shl64 (andn bb fileH_bb) 9
  | DNW => shl64 (andn bb fileA_bb) 7
  | DSE => N.shiftr (andn bb fileH_bb) 7
  | DSW => N.shiftr (andn bb fileA_bb) 9
  | DNN => shl64 bb 16
  | DSS => N.shiftr bb 16
  end.

Definition range (n : nat) : list N := map N.of_nat (seq 0 n).
Definition all_squares : list N := range 64.

Definition lor_list (l : list N) : N := fold_right N.lor 0 l.
