(* Bounded universal quantification over N by binary iteration (no unary naturals). *)
From Coq Require Import NArith Bool Lia.
Local Open Scope N_scope.

Definition forallN (n : N) (f : N -> bool) : bool :=
  snd (N.iter n (fun st => (N.succ (fst st), snd st && f (fst st))) (0, true)).

Lemma forallN_iter (n : N) (f : N -> bool) :
  let st := N.iter n (fun st => (N.succ (fst st), snd st && f (fst st))) (0, true) in
  fst st = n /\ (snd st = true <-> forall i, i < n -> f i = true).
Proof.
  induction n as [|n IH] using N.peano_ind.
  - cbn. split; [reflexivity|]. split; [intros _ i Hi; lia|reflexivity].
  - rewrite N.iter_succ. cbv zeta in *. destruct IH as [Hfst Hsnd].
    cbn [fst snd]. rewrite Hfst. split; [reflexivity|].
    rewrite andb_true_iff, Hsnd. split.
    + intros [Hall Hn] i Hi. destruct (N.eq_dec i n) as [->|Hne]; [exact Hn|apply Hall; lia].
    + intro H. split; [intros i Hi; apply H; lia|apply H; lia].
Qed.

Lemma forallN_spec (n : N) (f : N -> bool) :
  forallN n f = true -> forall i, i < n -> f i = true.
Proof. unfold forallN. intro H. apply (proj2 (forallN_iter n f)). exact H. Qed.
