From CV Require Import Base.Geom.
From Coq Require Import Lia.
Local Open Scope Z_scope.

Lemma file_of_mod (s : N) : file_of s = Z.of_N s mod 8.
Proof.
  unfold file_of. change 7%N with (N.ones 3). rewrite N.land_ones.
  rewrite N2Z.inj_mod. reflexivity.
Qed.

Lemma rank_of_div (s : N) : rank_of s = Z.of_N s / 8.
Proof.
  unfold rank_of. rewrite N.shiftr_div_pow2. rewrite N2Z.inj_div. reflexivity.
Qed.

Lemma sq_of_file_rank (s : N) : sq_of (file_of s) (rank_of s) = s.
Proof.
  rewrite file_of_mod, rank_of_div. unfold sq_of.
  pose proof (Z.div_mod (Z.of_N s) 8). lia.
Qed.

Lemma file_rank_of_sq (f r : Z) :
  0 <= f < 8 -> 0 <= r -> file_of (sq_of f r) = f /\ rank_of (sq_of f r) = r.
Proof.
  intros Hf Hr. rewrite file_of_mod, rank_of_div. unfold sq_of.
  rewrite Z2N.id by lia. split.
  - rewrite Z.add_comm, Z.mod_add by lia. apply Z.mod_small. lia.
  - rewrite Z.add_comm, Z.div_add by lia. rewrite Z.div_small by lia. lia.
Qed.

Lemma on_board_sq_lt (f r : Z) : on_board f r = true -> (sq_of f r < 64)%N.
Proof.
  unfold on_board, sq_of. intro H.
  repeat (apply andb_prop in H; destruct H as [H ?]).
  lia.
Qed.
