
(** val negb : bool -> bool **)

let negb = function
| true -> false
| false -> true

type nat =
| O
| S of nat

(** val fst : ('a1 * 'a2) -> 'a1 **)

let fst = function
| (x, _) -> x

(** val snd : ('a1 * 'a2) -> 'a2 **)

let snd = function
| (_, y) -> y

(** val length : 'a1 list -> nat **)

let rec length = function
| [] -> O
| _ :: l' -> S (length l')

(** val app : 'a1 list -> 'a1 list -> 'a1 list **)

let rec app l m =
  match l with
  | [] -> m
  | a :: l1 -> a :: (app l1 m)

type comparison =
| Eq
| Lt
| Gt

(** val compOpp : comparison -> comparison **)

let compOpp = function
| Eq -> Eq
| Lt -> Gt
| Gt -> Lt

type uint =
| Nil
| D0 of uint
| D1 of uint
| D2 of uint
| D3 of uint
| D4 of uint
| D5 of uint
| D6 of uint
| D7 of uint
| D8 of uint
| D9 of uint

(** val revapp : uint -> uint -> uint **)

let rec revapp d d' =
  match d with
  | Nil -> d'
  | D0 d0 -> revapp d0 (D0 d')
  | D1 d0 -> revapp d0 (D1 d')
  | D2 d0 -> revapp d0 (D2 d')
  | D3 d0 -> revapp d0 (D3 d')
  | D4 d0 -> revapp d0 (D4 d')
  | D5 d0 -> revapp d0 (D5 d')
  | D6 d0 -> revapp d0 (D6 d')
  | D7 d0 -> revapp d0 (D7 d')
  | D8 d0 -> revapp d0 (D8 d')
  | D9 d0 -> revapp d0 (D9 d')

(** val rev : uint -> uint **)

let rev d =
  revapp d Nil

module Little =
 struct
  (** val double : uint -> uint **)

  let rec double = function
  | Nil -> Nil
  | D0 d0 -> D0 (double d0)
  | D1 d0 -> D2 (double d0)
  | D2 d0 -> D4 (double d0)
  | D3 d0 -> D6 (double d0)
  | D4 d0 -> D8 (double d0)
  | D5 d0 -> D0 (succ_double d0)
  | D6 d0 -> D2 (succ_double d0)
  | D7 d0 -> D4 (succ_double d0)
  | D8 d0 -> D6 (succ_double d0)
  | D9 d0 -> D8 (succ_double d0)

  (** val succ_double : uint -> uint **)

  and succ_double = function
  | Nil -> D1 Nil
  | D0 d0 -> D1 (double d0)
  | D1 d0 -> D3 (double d0)
  | D2 d0 -> D5 (double d0)
  | D3 d0 -> D7 (double d0)
  | D4 d0 -> D9 (double d0)
  | D5 d0 -> D1 (succ_double d0)
  | D6 d0 -> D3 (succ_double d0)
  | D7 d0 -> D5 (succ_double d0)
  | D8 d0 -> D7 (succ_double d0)
  | D9 d0 -> D9 (succ_double d0)
 end

module Coq__1 = struct
 (** val add : nat -> nat -> nat **)
 let rec add n0 m =
   match n0 with
   | O -> m
   | S p -> S (add p m)
end
include Coq__1

(** val mul : nat -> nat -> nat **)

let rec mul n0 m =
  match n0 with
  | O -> O
  | S p -> add m (mul p m)

(** val sub : nat -> nat -> nat **)

let rec sub n0 m =
  match n0 with
  | O -> n0
  | S k -> (match m with
            | O -> n0
            | S l -> sub k l)

type positive =
| XI of positive
| XO of positive
| XH

type n =
| N0
| Npos of positive

type z =
| Z0
| Zpos of positive
| Zneg of positive

(** val eqb : bool -> bool -> bool **)

let eqb b1 b2 =
  if b1 then b2 else if b2 then false else true

module Nat =
 struct
  (** val eqb : nat -> nat -> bool **)

  let rec eqb n0 m =
    match n0 with
    | O -> (match m with
            | O -> true
            | S _ -> false)
    | S n' -> (match m with
               | O -> false
               | S m' -> eqb n' m')

  (** val leb : nat -> nat -> bool **)

  let rec leb n0 m =
    match n0 with
    | O -> true
    | S n' -> (match m with
               | O -> false
               | S m' -> leb n' m')
 end

module Pos =
 struct
  (** val succ : positive -> positive **)

  let rec succ = function
  | XI p -> XO (succ p)
  | XO p -> XI p
  | XH -> XO XH

  (** val add : positive -> positive -> positive **)

  let rec add x y =
    match x with
    | XI p ->
      (match y with
       | XI q -> XO (add_carry p q)
       | XO q -> XI (add p q)
       | XH -> XO (succ p))
    | XO p ->
      (match y with
       | XI q -> XI (add p q)
       | XO q -> XO (add p q)
       | XH -> XI p)
    | XH -> (match y with
             | XI q -> XO (succ q)
             | XO q -> XI q
             | XH -> XO XH)

  (** val add_carry : positive -> positive -> positive **)

  and add_carry x y =
    match x with
    | XI p ->
      (match y with
       | XI q -> XI (add_carry p q)
       | XO q -> XO (add_carry p q)
       | XH -> XI (succ p))
    | XO p ->
      (match y with
       | XI q -> XO (add_carry p q)
       | XO q -> XI (add p q)
       | XH -> XO (succ p))
    | XH ->
      (match y with
       | XI q -> XI (succ q)
       | XO q -> XO (succ q)
       | XH -> XI XH)

  (** val pred_double : positive -> positive **)

  let rec pred_double = function
  | XI p -> XI (XO p)
  | XO p -> XI (pred_double p)
  | XH -> XH

  (** val pred_N : positive -> n **)

  let pred_N = function
  | XI p -> Npos (XO p)
  | XO p -> Npos (pred_double p)
  | XH -> N0

  (** val mul : positive -> positive -> positive **)

  let rec mul x y =
    match x with
    | XI p -> add y (XO (mul p y))
    | XO p -> XO (mul p y)
    | XH -> y

  (** val iter : ('a1 -> 'a1) -> 'a1 -> positive -> 'a1 **)

  let rec iter f x = function
  | XI n' -> f (iter f (iter f x n') n')
  | XO n' -> iter f (iter f x n') n'
  | XH -> f x

  (** val compare_cont : comparison -> positive -> positive -> comparison **)

  let rec compare_cont r x y =
    match x with
    | XI p ->
      (match y with
       | XI q -> compare_cont r p q
       | XO q -> compare_cont Gt p q
       | XH -> Gt)
    | XO p ->
      (match y with
       | XI q -> compare_cont Lt p q
       | XO q -> compare_cont r p q
       | XH -> Gt)
    | XH -> (match y with
             | XH -> r
             | _ -> Lt)

  (** val compare : positive -> positive -> comparison **)

  let compare =
    compare_cont Eq

  (** val eqb : positive -> positive -> bool **)

  let rec eqb p q =
    match p with
    | XI p0 -> (match q with
                | XI q0 -> eqb p0 q0
                | _ -> false)
    | XO p0 -> (match q with
                | XO q0 -> eqb p0 q0
                | _ -> false)
    | XH -> (match q with
             | XH -> true
             | _ -> false)

  (** val coq_Nsucc_double : n -> n **)

  let coq_Nsucc_double = function
  | N0 -> Npos XH
  | Npos p -> Npos (XI p)

  (** val coq_Ndouble : n -> n **)

  let coq_Ndouble = function
  | N0 -> N0
  | Npos p -> Npos (XO p)

  (** val coq_lor : positive -> positive -> positive **)

  let rec coq_lor p q =
    match p with
    | XI p0 ->
      (match q with
       | XI q0 -> XI (coq_lor p0 q0)
       | XO q0 -> XI (coq_lor p0 q0)
       | XH -> p)
    | XO p0 ->
      (match q with
       | XI q0 -> XI (coq_lor p0 q0)
       | XO q0 -> XO (coq_lor p0 q0)
       | XH -> XI p0)
    | XH -> (match q with
             | XO q0 -> XI q0
             | _ -> q)

  (** val coq_land : positive -> positive -> n **)

  let rec coq_land p q =
    match p with
    | XI p0 ->
      (match q with
       | XI q0 -> coq_Nsucc_double (coq_land p0 q0)
       | XO q0 -> coq_Ndouble (coq_land p0 q0)
       | XH -> Npos XH)
    | XO p0 ->
      (match q with
       | XI q0 -> coq_Ndouble (coq_land p0 q0)
       | XO q0 -> coq_Ndouble (coq_land p0 q0)
       | XH -> N0)
    | XH -> (match q with
             | XO _ -> N0
             | _ -> Npos XH)

  (** val shiftl : positive -> n -> positive **)

  let shiftl p = function
  | N0 -> p
  | Npos n1 -> iter (fun x -> XO x) p n1

  (** val testbit : positive -> n -> bool **)

  let rec testbit p n0 =
    match p with
    | XI p0 -> (match n0 with
                | N0 -> true
                | Npos n1 -> testbit p0 (pred_N n1))
    | XO p0 -> (match n0 with
                | N0 -> false
                | Npos n1 -> testbit p0 (pred_N n1))
    | XH -> (match n0 with
             | N0 -> true
             | Npos _ -> false)

  (** val iter_op : ('a1 -> 'a1 -> 'a1) -> positive -> 'a1 -> 'a1 **)

  let rec iter_op op p a =
    match p with
    | XI p0 -> op a (iter_op op p0 (op a a))
    | XO p0 -> iter_op op p0 (op a a)
    | XH -> a

  (** val to_nat : positive -> nat **)

  let to_nat x =
    iter_op Coq__1.add x (S O)

  (** val of_succ_nat : nat -> positive **)

  let rec of_succ_nat = function
  | O -> XH
  | S x -> succ (of_succ_nat x)

  (** val of_uint_acc : uint -> positive -> positive **)

  let rec of_uint_acc d acc =
    match d with
    | Nil -> acc
    | D0 l -> of_uint_acc l (mul (XO (XI (XO XH))) acc)
    | D1 l -> of_uint_acc l (add XH (mul (XO (XI (XO XH))) acc))
    | D2 l -> of_uint_acc l (add (XO XH) (mul (XO (XI (XO XH))) acc))
    | D3 l -> of_uint_acc l (add (XI XH) (mul (XO (XI (XO XH))) acc))
    | D4 l -> of_uint_acc l (add (XO (XO XH)) (mul (XO (XI (XO XH))) acc))
    | D5 l -> of_uint_acc l (add (XI (XO XH)) (mul (XO (XI (XO XH))) acc))
    | D6 l -> of_uint_acc l (add (XO (XI XH)) (mul (XO (XI (XO XH))) acc))
    | D7 l -> of_uint_acc l (add (XI (XI XH)) (mul (XO (XI (XO XH))) acc))
    | D8 l ->
      of_uint_acc l (add (XO (XO (XO XH))) (mul (XO (XI (XO XH))) acc))
    | D9 l ->
      of_uint_acc l (add (XI (XO (XO XH))) (mul (XO (XI (XO XH))) acc))

  (** val of_uint : uint -> n **)

  let rec of_uint = function
  | Nil -> N0
  | D0 l -> of_uint l
  | D1 l -> Npos (of_uint_acc l XH)
  | D2 l -> Npos (of_uint_acc l (XO XH))
  | D3 l -> Npos (of_uint_acc l (XI XH))
  | D4 l -> Npos (of_uint_acc l (XO (XO XH)))
  | D5 l -> Npos (of_uint_acc l (XI (XO XH)))
  | D6 l -> Npos (of_uint_acc l (XO (XI XH)))
  | D7 l -> Npos (of_uint_acc l (XI (XI XH)))
  | D8 l -> Npos (of_uint_acc l (XO (XO (XO XH))))
  | D9 l -> Npos (of_uint_acc l (XI (XO (XO XH))))

  (** val to_little_uint : positive -> uint **)

  let rec to_little_uint = function
  | XI p0 -> Little.succ_double (to_little_uint p0)
  | XO p0 -> Little.double (to_little_uint p0)
  | XH -> D1 Nil

  (** val to_uint : positive -> uint **)

  let to_uint p =
    rev (to_little_uint p)
 end

module N =
 struct
  (** val add : n -> n -> n **)

  let add n0 m =
    match n0 with
    | N0 -> m
    | Npos p -> (match m with
                 | N0 -> n0
                 | Npos q -> Npos (Pos.add p q))

  (** val mul : n -> n -> n **)

  let mul n0 m =
    match n0 with
    | N0 -> N0
    | Npos p -> (match m with
                 | N0 -> N0
                 | Npos q -> Npos (Pos.mul p q))

  (** val compare : n -> n -> comparison **)

  let compare n0 m =
    match n0 with
    | N0 -> (match m with
             | N0 -> Eq
             | Npos _ -> Lt)
    | Npos n' -> (match m with
                  | N0 -> Gt
                  | Npos m' -> Pos.compare n' m')

  (** val eqb : n -> n -> bool **)

  let eqb n0 m =
    match n0 with
    | N0 -> (match m with
             | N0 -> true
             | Npos _ -> false)
    | Npos p -> (match m with
                 | N0 -> false
                 | Npos q -> Pos.eqb p q)

  (** val ltb : n -> n -> bool **)

  let ltb x y =
    match compare x y with
    | Lt -> true
    | _ -> false

  (** val div2 : n -> n **)

  let div2 = function
  | N0 -> N0
  | Npos p0 -> (match p0 with
                | XI p -> Npos p
                | XO p -> Npos p
                | XH -> N0)

  (** val coq_lor : n -> n -> n **)

  let coq_lor n0 m =
    match n0 with
    | N0 -> m
    | Npos p -> (match m with
                 | N0 -> n0
                 | Npos q -> Npos (Pos.coq_lor p q))

  (** val coq_land : n -> n -> n **)

  let coq_land n0 m =
    match n0 with
    | N0 -> N0
    | Npos p -> (match m with
                 | N0 -> N0
                 | Npos q -> Pos.coq_land p q)

  (** val shiftl : n -> n -> n **)

  let shiftl a n0 =
    match a with
    | N0 -> N0
    | Npos a0 -> Npos (Pos.shiftl a0 n0)

  (** val shiftr : n -> n -> n **)

  let shiftr a = function
  | N0 -> a
  | Npos p -> Pos.iter div2 a p

  (** val testbit : n -> n -> bool **)

  let testbit a n0 =
    match a with
    | N0 -> false
    | Npos p -> Pos.testbit p n0

  (** val to_nat : n -> nat **)

  let to_nat = function
  | N0 -> O
  | Npos p -> Pos.to_nat p

  (** val of_nat : nat -> n **)

  let of_nat = function
  | O -> N0
  | S n' -> Npos (Pos.of_succ_nat n')

  (** val of_uint : uint -> n **)

  let of_uint =
    Pos.of_uint

  (** val to_uint : n -> uint **)

  let to_uint = function
  | N0 -> D0 Nil
  | Npos p -> Pos.to_uint p
 end

(** val nth : nat -> 'a1 list -> 'a1 -> 'a1 **)

let rec nth n0 l default =
  match n0 with
  | O -> (match l with
          | [] -> default
          | x :: _ -> x)
  | S m -> (match l with
            | [] -> default
            | _ :: t -> nth m t default)

(** val map : ('a1 -> 'a2) -> 'a1 list -> 'a2 list **)

let rec map f = function
| [] -> []
| a :: t -> (f a) :: (map f t)

(** val flat_map : ('a1 -> 'a2 list) -> 'a1 list -> 'a2 list **)

let rec flat_map f = function
| [] -> []
| x :: t -> app (f x) (flat_map f t)

(** val fold_right : ('a2 -> 'a1 -> 'a1) -> 'a1 -> 'a2 list -> 'a1 **)

let rec fold_right f a0 = function
| [] -> a0
| b :: t -> f b (fold_right f a0 t)

(** val existsb : ('a1 -> bool) -> 'a1 list -> bool **)

let rec existsb f = function
| [] -> false
| a :: l0 -> (||) (f a) (existsb f l0)

(** val forallb : ('a1 -> bool) -> 'a1 list -> bool **)

let rec forallb f = function
| [] -> true
| a :: l0 -> (&&) (f a) (forallb f l0)

(** val filter : ('a1 -> bool) -> 'a1 list -> 'a1 list **)

let rec filter f = function
| [] -> []
| x :: l0 -> if f x then x :: (filter f l0) else filter f l0

(** val find : ('a1 -> bool) -> 'a1 list -> 'a1 option **)

let rec find f = function
| [] -> None
| x :: tl -> if f x then Some x else find f tl

(** val firstn : nat -> 'a1 list -> 'a1 list **)

let rec firstn n0 l =
  match n0 with
  | O -> []
  | S n1 -> (match l with
             | [] -> []
             | a :: l0 -> a :: (firstn n1 l0))

(** val skipn : nat -> 'a1 list -> 'a1 list **)

let rec skipn n0 l =
  match n0 with
  | O -> l
  | S n1 -> (match l with
             | [] -> []
             | _ :: l0 -> skipn n1 l0)

(** val seq : nat -> nat -> nat list **)

let rec seq start = function
| O -> []
| S len0 -> start :: (seq (S start) len0)

(** val repeat : 'a1 -> nat -> 'a1 list **)

let rec repeat x = function
| O -> []
| S k -> x :: (repeat x k)

type ascii =
| Ascii of bool * bool * bool * bool * bool * bool * bool * bool

(** val zero : ascii **)

let zero =
  Ascii (false, false, false, false, false, false, false, false)

(** val one : ascii **)

let one =
  Ascii (true, false, false, false, false, false, false, false)

(** val shift : bool -> ascii -> ascii **)

let shift c = function
| Ascii (a1, a2, a3, a4, a5, a6, a7, _) ->
  Ascii (c, a1, a2, a3, a4, a5, a6, a7)

(** val eqb0 : ascii -> ascii -> bool **)

let eqb0 a b =
  let Ascii (a0, a1, a2, a3, a4, a5, a6, a7) = a in
  let Ascii (b0, b1, b2, b3, b4, b5, b6, b7) = b in
  if if if if if if if eqb a0 b0 then eqb a1 b1 else false
                 then eqb a2 b2
                 else false
              then eqb a3 b3
              else false
           then eqb a4 b4
           else false
        then eqb a5 b5
        else false
     then eqb a6 b6
     else false
  then eqb a7 b7
  else false

(** val ascii_of_pos : positive -> ascii **)

let ascii_of_pos =
  let rec loop n0 p =
    match n0 with
    | O -> zero
    | S n' ->
      (match p with
       | XI p' -> shift true (loop n' p')
       | XO p' -> shift false (loop n' p')
       | XH -> one)
  in loop (S (S (S (S (S (S (S (S O))))))))

(** val ascii_of_N : n -> ascii **)

let ascii_of_N = function
| N0 -> zero
| Npos p -> ascii_of_pos p

(** val ascii_of_nat : nat -> ascii **)

let ascii_of_nat a =
  ascii_of_N (N.of_nat a)

(** val n_of_digits : bool list -> n **)

let rec n_of_digits = function
| [] -> N0
| b :: l' ->
  N.add (if b then Npos XH else N0) (N.mul (Npos (XO XH)) (n_of_digits l'))

(** val n_of_ascii : ascii -> n **)

let n_of_ascii = function
| Ascii (a0, a1, a2, a3, a4, a5, a6, a7) ->
  n_of_digits
    (a0 :: (a1 :: (a2 :: (a3 :: (a4 :: (a5 :: (a6 :: (a7 :: []))))))))

(** val nat_of_ascii : ascii -> nat **)

let nat_of_ascii a =
  N.to_nat (n_of_ascii a)

module Z =
 struct
  (** val double : z -> z **)

  let double = function
  | Z0 -> Z0
  | Zpos p -> Zpos (XO p)
  | Zneg p -> Zneg (XO p)

  (** val succ_double : z -> z **)

  let succ_double = function
  | Z0 -> Zpos XH
  | Zpos p -> Zpos (XI p)
  | Zneg p -> Zneg (Pos.pred_double p)

  (** val pred_double : z -> z **)

  let pred_double = function
  | Z0 -> Zneg XH
  | Zpos p -> Zpos (Pos.pred_double p)
  | Zneg p -> Zneg (XI p)

  (** val pos_sub : positive -> positive -> z **)

  let rec pos_sub x y =
    match x with
    | XI p ->
      (match y with
       | XI q -> double (pos_sub p q)
       | XO q -> succ_double (pos_sub p q)
       | XH -> Zpos (XO p))
    | XO p ->
      (match y with
       | XI q -> pred_double (pos_sub p q)
       | XO q -> double (pos_sub p q)
       | XH -> Zpos (Pos.pred_double p))
    | XH ->
      (match y with
       | XI q -> Zneg (XO q)
       | XO q -> Zneg (Pos.pred_double q)
       | XH -> Z0)

  (** val add : z -> z -> z **)

  let add x y =
    match x with
    | Z0 -> y
    | Zpos x' ->
      (match y with
       | Z0 -> x
       | Zpos y' -> Zpos (Pos.add x' y')
       | Zneg y' -> pos_sub x' y')
    | Zneg x' ->
      (match y with
       | Z0 -> x
       | Zpos y' -> pos_sub y' x'
       | Zneg y' -> Zneg (Pos.add x' y'))

  (** val opp : z -> z **)

  let opp = function
  | Z0 -> Z0
  | Zpos x0 -> Zneg x0
  | Zneg x0 -> Zpos x0

  (** val sub : z -> z -> z **)

  let sub m n0 =
    add m (opp n0)

  (** val mul : z -> z -> z **)

  let mul x y =
    match x with
    | Z0 -> Z0
    | Zpos x' ->
      (match y with
       | Z0 -> Z0
       | Zpos y' -> Zpos (Pos.mul x' y')
       | Zneg y' -> Zneg (Pos.mul x' y'))
    | Zneg x' ->
      (match y with
       | Z0 -> Z0
       | Zpos y' -> Zneg (Pos.mul x' y')
       | Zneg y' -> Zpos (Pos.mul x' y'))

  (** val compare : z -> z -> comparison **)

  let compare x y =
    match x with
    | Z0 -> (match y with
             | Z0 -> Eq
             | Zpos _ -> Lt
             | Zneg _ -> Gt)
    | Zpos x' -> (match y with
                  | Zpos y' -> Pos.compare x' y'
                  | _ -> Gt)
    | Zneg x' ->
      (match y with
       | Zneg y' -> compOpp (Pos.compare x' y')
       | _ -> Lt)

  (** val leb : z -> z -> bool **)

  let leb x y =
    match compare x y with
    | Gt -> false
    | _ -> true

  (** val ltb : z -> z -> bool **)

  let ltb x y =
    match compare x y with
    | Lt -> true
    | _ -> false

  (** val eqb : z -> z -> bool **)

  let eqb x y =
    match x with
    | Z0 -> (match y with
             | Z0 -> true
             | _ -> false)
    | Zpos p -> (match y with
                 | Zpos q -> Pos.eqb p q
                 | _ -> false)
    | Zneg p -> (match y with
                 | Zneg q -> Pos.eqb p q
                 | _ -> false)

  (** val max : z -> z -> z **)

  let max n0 m =
    match compare n0 m with
    | Lt -> m
    | _ -> n0

  (** val abs : z -> z **)

  let abs = function
  | Zneg p -> Zpos p
  | x -> x

  (** val to_nat : z -> nat **)

  let to_nat = function
  | Zpos p -> Pos.to_nat p
  | _ -> O

  (** val to_N : z -> n **)

  let to_N = function
  | Zpos p -> Npos p
  | _ -> N0

  (** val of_nat : nat -> z **)

  let of_nat = function
  | O -> Z0
  | S n1 -> Zpos (Pos.of_succ_nat n1)

  (** val of_N : n -> z **)

  let of_N = function
  | N0 -> Z0
  | Npos p -> Zpos p

  (** val pos_div_eucl : positive -> z -> z * z **)

  let rec pos_div_eucl a b =
    match a with
    | XI a' ->
      let (q, r) = pos_div_eucl a' b in
      let r' = add (mul (Zpos (XO XH)) r) (Zpos XH) in
      if ltb r' b
      then ((mul (Zpos (XO XH)) q), r')
      else ((add (mul (Zpos (XO XH)) q) (Zpos XH)), (sub r' b))
    | XO a' ->
      let (q, r) = pos_div_eucl a' b in
      let r' = mul (Zpos (XO XH)) r in
      if ltb r' b
      then ((mul (Zpos (XO XH)) q), r')
      else ((add (mul (Zpos (XO XH)) q) (Zpos XH)), (sub r' b))
    | XH -> if leb (Zpos (XO XH)) b then (Z0, (Zpos XH)) else ((Zpos XH), Z0)

  (** val div_eucl : z -> z -> z * z **)

  let div_eucl a b =
    match a with
    | Z0 -> (Z0, Z0)
    | Zpos a' ->
      (match b with
       | Z0 -> (Z0, a)
       | Zpos _ -> pos_div_eucl a' b
       | Zneg b' ->
         let (q, r) = pos_div_eucl a' (Zpos b') in
         (match r with
          | Z0 -> ((opp q), Z0)
          | _ -> ((opp (add q (Zpos XH))), (add b r))))
    | Zneg a' ->
      (match b with
       | Z0 -> (Z0, a)
       | Zpos _ ->
         let (q, r) = pos_div_eucl a' b in
         (match r with
          | Z0 -> ((opp q), Z0)
          | _ -> ((opp (add q (Zpos XH))), (sub b r)))
       | Zneg b' -> let (q, r) = pos_div_eucl a' (Zpos b') in (q, (opp r)))

  (** val div : z -> z -> z **)

  let div a b =
    let (q, _) = div_eucl a b in q

  (** val modulo : z -> z -> z **)

  let modulo a b =
    let (_, r) = div_eucl a b in r
 end

type string =
| EmptyString
| String of ascii * string

(** val eqb1 : string -> string -> bool **)

let rec eqb1 s1 s2 =
  match s1 with
  | EmptyString ->
    (match s2 with
     | EmptyString -> true
     | String (_, _) -> false)
  | String (c1, s1') ->
    (match s2 with
     | EmptyString -> false
     | String (c2, s2') -> if eqb0 c1 c2 then eqb1 s1' s2' else false)

(** val append : string -> string -> string **)

let rec append s1 s2 =
  match s1 with
  | EmptyString -> s2
  | String (c, s1') -> String (c, (append s1' s2))

(** val concat : string -> string list -> string **)

let rec concat sep = function
| [] -> EmptyString
| x :: xs ->
  (match xs with
   | [] -> x
   | _ :: _ -> append x (append sep (concat sep xs)))

(** val bit : n -> n **)

let bit s =
  N.shiftl (Npos XH) s

(** val range : nat -> n list **)

let range n0 =
  map N.of_nat (seq O n0)

(** val all_squares : n list **)

let all_squares =
  range (S (S (S (S (S (S (S (S (S (S (S (S (S (S (S (S (S (S (S (S (S (S (S
    (S (S (S (S (S (S (S (S (S (S (S (S (S (S (S (S (S (S (S (S (S (S (S (S
    (S (S (S (S (S (S (S (S (S (S (S (S (S (S (S (S (S
    O))))))))))))))))))))))))))))))))))))))))))))))))))))))))))))))))

(** val lor_list : n list -> n **)

let lor_list l =
  fold_right N.coq_lor N0 l

(** val file_of : n -> z **)

let file_of s =
  Z.modulo (Z.of_N s) (Zpos (XO (XO (XO XH))))

(** val rank_of : n -> z **)

let rank_of s =
  Z.div (Z.of_N s) (Zpos (XO (XO (XO XH))))

(** val sq_of : z -> z -> n **)

let sq_of f r =
  Z.to_N (Z.add (Z.mul r (Zpos (XO (XO (XO XH))))) f)

(** val on_board : z -> z -> bool **)

let on_board f r =
  (&&)
    ((&&) ((&&) (Z.leb Z0 f) (Z.ltb f (Zpos (XO (XO (XO XH)))))) (Z.leb Z0 r))
    (Z.ltb r (Zpos (XO (XO (XO XH)))))

(** val walk : n -> z -> z -> z -> z -> nat -> n **)

let rec walk occ f r df dr = function
| O -> N0
| S k ->
  let f' = Z.add f df in
  let r' = Z.add r dr in
  if on_board f' r'
  then let s = sq_of f' r' in
       N.coq_lor (bit s)
         (if N.testbit occ s then N0 else walk occ f' r' df dr k)
  else N0

(** val bishop_dirs : (z * z) list **)

let bishop_dirs =
  ((Zneg XH), (Zpos XH)) :: (((Zpos XH), (Zpos XH)) :: (((Zpos XH), (Zneg
    XH)) :: (((Zneg XH), (Zneg XH)) :: [])))

(** val rook_dirs : (z * z) list **)

let rook_dirs =
  (Z0, (Zpos XH)) :: (((Zpos XH), Z0) :: ((Z0, (Zneg XH)) :: (((Zneg XH),
    Z0) :: [])))

(** val queen_dirs : (z * z) list **)

let queen_dirs =
  app bishop_dirs rook_dirs

(** val walk_dirs : (z * z) list -> n -> n -> n **)

let walk_dirs dirs occ s =
  lor_list
    (map (fun d ->
      walk occ (file_of s) (rank_of s) (fst d) (snd d) (S (S (S (S (S (S (S
        O)))))))) dirs)

(** val bishop_spec : n -> n -> n **)

let bishop_spec =
  walk_dirs bishop_dirs

(** val rook_spec : n -> n -> n **)

let rook_spec =
  walk_dirs rook_dirs

(** val queen_spec : n -> n -> n **)

let queen_spec =
  walk_dirs queen_dirs

(** val knight_offs : (z * z) list **)

let knight_offs =
  ((Zpos XH), (Zpos (XO XH))) :: (((Zneg XH), (Zpos (XO XH))) :: (((Zpos XH),
    (Zneg (XO XH))) :: (((Zneg XH), (Zneg (XO XH))) :: (((Zpos (XO XH)),
    (Zpos XH)) :: (((Zpos (XO XH)), (Zneg XH)) :: (((Zneg (XO XH)), (Zpos
    XH)) :: (((Zneg (XO XH)), (Zneg XH)) :: [])))))))

(** val king_offs : (z * z) list **)

let king_offs =
  (Z0, (Zpos XH)) :: ((Z0, (Zneg XH)) :: (((Zpos XH), Z0) :: (((Zneg XH),
    Z0) :: (((Zpos XH), (Zpos XH)) :: (((Zneg XH), (Zpos XH)) :: (((Zpos XH),
    (Zneg XH)) :: (((Zneg XH), (Zneg XH)) :: [])))))))

(** val leaper_spec : (z * z) list -> n -> n **)

let leaper_spec offs s =
  lor_list
    (map (fun d ->
      let f = Z.add (file_of s) (fst d) in
      let r = Z.add (rank_of s) (snd d) in
      if on_board f r then bit (sq_of f r) else N0) offs)

(** val knight_spec : n -> n **)

let knight_spec =
  leaper_spec knight_offs

(** val king_spec : n -> n **)

let king_spec =
  leaper_spec king_offs

(** val pawn_attack_spec : bool -> n -> n **)

let pawn_attack_spec white s =
  leaper_spec
    (if white
     then ((Zneg XH), (Zpos XH)) :: (((Zpos XH), (Zpos XH)) :: [])
     else ((Zneg XH), (Zneg XH)) :: (((Zpos XH), (Zneg XH)) :: [])) s

(** val ray_spec : (z * z) -> n -> n **)

let ray_spec d s =
  walk N0 (file_of s) (rank_of s) (fst d) (snd d) (S (S (S (S (S (S (S
    O)))))))

(** val ray_dirs : (z * z) list **)

let ray_dirs =
  ((Zneg XH), (Zpos XH)) :: ((Z0, (Zpos XH)) :: (((Zpos XH), (Zpos
    XH)) :: (((Zpos XH), Z0) :: (((Zpos XH), (Zneg XH)) :: ((Z0, (Zneg
    XH)) :: (((Zneg XH), (Zneg XH)) :: (((Zneg XH), Z0) :: [])))))))

(** val sgn : z -> z **)

let sgn x =
  if Z.ltb x Z0 then Zneg XH else if Z.ltb Z0 x then Zpos XH else Z0

(** val aligned : n -> n -> bool **)

let aligned a b =
  let df = Z.sub (file_of b) (file_of a) in
  let dr = Z.sub (rank_of b) (rank_of a) in
  (&&) (negb ((&&) (Z.eqb df Z0) (Z.eqb dr Z0)))
    ((||) ((||) (Z.eqb df Z0) (Z.eqb dr Z0)) (Z.eqb (Z.abs df) (Z.abs dr)))

(** val line_spec : n -> n -> n **)

let line_spec a b =
  if N.eqb a b
  then bit a
  else if aligned a b
       then let d = ((sgn (Z.sub (file_of b) (file_of a))),
              (sgn (Z.sub (rank_of b) (rank_of a))))
            in
            N.coq_lor (bit a)
              (walk (bit b) (file_of a) (rank_of a) (fst d) (snd d) (S (S (S
                (S (S (S (S O))))))))
       else N0

(** val full_line_spec : n -> n -> n **)

let full_line_spec a b =
  if aligned a b
  then let d = ((sgn (Z.sub (file_of b) (file_of a))),
         (sgn (Z.sub (rank_of b) (rank_of a))))
       in
       N.coq_lor (bit a)
         (N.coq_lor (ray_spec d a)
           (ray_spec ((Z.opp (fst d)), (Z.opp (snd d))) a))
  else N0

(** val cheb : n -> n -> z **)

let cheb a b =
  Z.max (Z.abs (Z.sub (file_of a) (file_of b)))
    (Z.abs (Z.sub (rank_of a) (rank_of b)))

(** val create_move : n -> n -> n **)

let create_move from to0 =
  N.coq_lor (N.shiftl to0 (Npos (XO (XI XH)))) from

(** val create_promotion : n -> n -> n -> n **)

let create_promotion from to0 promo =
  N.coq_lor
    (N.coq_lor (N.shiftl promo (Npos (XO (XO (XI XH)))))
      (N.shiftl to0 (Npos (XO (XI XH))))) from

(** val kING_CASTLING : n **)

let kING_CASTLING =
  Npos (XI (XO XH))

(** val qUEEN_CASTLING : n **)

let qUEEN_CASTLING =
  Npos (XO (XI (XO XH)))

(** val create_castling : n -> n **)

let create_castling c =
  N.shiftl (if N.eqb c kING_CASTLING then Npos XH else Npos (XO XH)) (Npos
    (XI (XI (XI XH))))

(** val mv_from : n -> n **)

let mv_from m =
  N.coq_land m (Npos (XI (XI (XI (XI (XI XH))))))

(** val mv_to : n -> n **)

let mv_to m =
  N.coq_land (N.shiftr m (Npos (XO (XI XH)))) (Npos (XI (XI (XI (XI (XI
    XH))))))

(** val mv_promotion : n -> n **)

let mv_promotion m =
  N.coq_land (N.shiftr m (Npos (XO (XO (XI XH))))) (Npos (XI (XI XH)))

(** val mv_castling : n -> n **)

let mv_castling m =
  let p = N.coq_land (N.shiftr m (Npos (XI (XI (XI XH))))) (Npos (XI XH)) in
  if N.eqb p N0
  then N0
  else if N.eqb p (Npos XH) then kING_CASTLING else qUEEN_CASTLING

(** val b2n : bool -> n **)

let b2n = function
| true -> Npos XH
| false -> N0

(** val create_moveinfo : n -> n -> n option -> bool -> n -> n **)

let create_moveinfo captured castling0 last_ep ep0 hmc =
  match last_ep with
  | Some s ->
    N.coq_lor
      (N.coq_lor
        (N.coq_lor
          (N.coq_lor
            (N.coq_lor (N.shiftl hmc (Npos (XI (XI (XI XH)))))
              (N.shiftl (b2n ep0) (Npos (XO (XI (XI XH))))))
            (N.shiftl (Npos XH) (Npos (XI (XO (XI XH))))))
          (N.shiftl s (Npos (XI (XI XH)))))
        (N.shiftl castling0 (Npos (XI XH)))) captured
  | None ->
    N.coq_lor
      (N.coq_lor
        (N.coq_lor (N.shiftl hmc (Npos (XI (XI (XI XH)))))
          (N.shiftl (b2n ep0) (Npos (XO (XI (XI XH))))))
        (N.shiftl castling0 (Npos (XI XH)))) captured

(** val mi_captured : n -> n **)

let mi_captured mi =
  N.coq_land mi (Npos (XI (XI XH)))

(** val mi_castling : n -> n **)

let mi_castling mi =
  N.coq_land (N.shiftr mi (Npos (XI XH))) (Npos (XI (XI (XI XH))))

(** val mi_last_ep : n -> n option **)

let mi_last_ep mi =
  if N.eqb (N.coq_land (N.shiftr mi (Npos (XI (XO (XI XH))))) (Npos XH))
       (Npos XH)
  then Some
         (N.coq_land (N.shiftr mi (Npos (XI (XI XH)))) (Npos (XI (XI (XI (XI
           (XI XH)))))))
  else None

(** val mi_ep : n -> bool **)

let mi_ep mi =
  N.eqb (N.coq_land (N.shiftr mi (Npos (XO (XI (XI XH))))) (Npos XH)) (Npos
    XH)

(** val mi_hmc : n -> n **)

let mi_hmc mi =
  N.coq_land (N.shiftr mi (Npos (XI (XI (XI XH))))) (Npos (XI (XI (XI (XI (XI
    (XI (XI XH))))))))

type color =
| White
| Black

type kind =
| Pawn
| Knight
| Bishop
| Rook
| Queen
| King

type piece = color * kind

(** val color_eqb : color -> color -> bool **)

let color_eqb a b =
  match a with
  | White -> (match b with
              | White -> true
              | Black -> false)
  | Black -> (match b with
              | White -> false
              | Black -> true)

(** val kind_eqb : kind -> kind -> bool **)

let kind_eqb a b =
  match a with
  | Pawn -> (match b with
             | Pawn -> true
             | _ -> false)
  | Knight -> (match b with
               | Knight -> true
               | _ -> false)
  | Bishop -> (match b with
               | Bishop -> true
               | _ -> false)
  | Rook -> (match b with
             | Rook -> true
             | _ -> false)
  | Queen -> (match b with
              | Queen -> true
              | _ -> false)
  | King -> (match b with
             | King -> true
             | _ -> false)

(** val opp0 : color -> color **)

let opp0 = function
| White -> Black
| Black -> White

type board = piece option list

(** val get : board -> n -> piece option **)

let get b s =
  nth (N.to_nat s) b None

(** val set_nth : 'a1 list -> nat -> 'a1 -> 'a1 list **)

let rec set_nth l n0 x =
  match l with
  | [] -> []
  | h :: t -> (match n0 with
               | O -> x :: t
               | S k -> h :: (set_nth t k x))

(** val set : board -> n -> piece option -> board **)

let set b s x =
  set_nth b (N.to_nat s) x

type castling = { wk : bool; wq : bool; bk : bool; bq : bool }

type position = { brd : board; stm : color; rights : castling; ep : n option;
                  clock : z; fullmove : z }

type move =
| Normal of n * n * kind option
| Castle of bool

(** val is_piece : board -> n -> color -> kind -> bool **)

let is_piece b s c k =
  match get b s with
  | Some p -> let (c', k') = p in (&&) (color_eqb c c') (kind_eqb k k')
  | None -> false

(** val is_color : board -> n -> color -> bool **)

let is_color b s c =
  match get b s with
  | Some p -> let (c', _) = p in color_eqb c c'
  | None -> false

(** val is_empty : board -> n -> bool **)

let is_empty b s =
  match get b s with
  | Some _ -> false
  | None -> true

(** val path_clear : board -> z -> z -> z -> z -> z -> z -> nat -> bool **)

let rec path_clear b f r df dr tf tr = function
| O -> false
| S k ->
  let f' = Z.add f df in
  let r' = Z.add r dr in
  if (&&) (Z.eqb f' tf) (Z.eqb r' tr)
  then true
  else if on_board f' r'
       then (&&) (is_empty b (sq_of f' r')) (path_clear b f' r' df dr tf tr k)
       else false

(** val slides : board -> n -> n -> bool -> bool -> bool **)

let slides b a s diag orth =
  let df = Z.sub (file_of s) (file_of a) in
  let dr = Z.sub (rank_of s) (rank_of a) in
  let is_diag = (&&) (Z.eqb (Z.abs df) (Z.abs dr)) (negb (Z.eqb df Z0)) in
  let is_orth =
    (&&) ((||) (Z.eqb df Z0) (Z.eqb dr Z0))
      (negb ((&&) (Z.eqb df Z0) (Z.eqb dr Z0)))
  in
  (&&) ((||) ((&&) diag is_diag) ((&&) orth is_orth))
    (path_clear b (file_of a) (rank_of a) (sgn df) (sgn dr) (file_of s)
      (rank_of s) (S (S (S (S (S (S (S O))))))))

(** val pawn_dir : color -> z **)

let pawn_dir = function
| White -> Zpos XH
| Black -> Zneg XH

(** val piece_attacks : board -> color -> kind -> n -> n -> bool **)

let piece_attacks b c k a s =
  let df = Z.sub (file_of s) (file_of a) in
  let dr = Z.sub (rank_of s) (rank_of a) in
  (match k with
   | Pawn -> (&&) (Z.eqb (Z.abs df) (Zpos XH)) (Z.eqb dr (pawn_dir c))
   | Knight ->
     (||)
       ((&&) (Z.eqb (Z.abs df) (Zpos XH)) (Z.eqb (Z.abs dr) (Zpos (XO XH))))
       ((&&) (Z.eqb (Z.abs df) (Zpos (XO XH))) (Z.eqb (Z.abs dr) (Zpos XH)))
   | Bishop -> slides b a s true false
   | Rook -> slides b a s false true
   | Queen -> slides b a s true true
   | King -> Z.eqb (Z.max (Z.abs df) (Z.abs dr)) (Zpos XH))

(** val attacked : board -> color -> n -> bool **)

let attacked b c s =
  existsb (fun a ->
    match get b a with
    | Some p ->
      let (c', k) = p in (&&) (color_eqb c c') (piece_attacks b c k a s)
    | None -> false) all_squares

(** val king_sq : board -> color -> n option **)

let king_sq b c =
  find (fun s -> is_piece b s c King) all_squares

(** val in_check : board -> color -> bool **)

let in_check b c =
  match king_sq b c with
  | Some k -> attacked b (opp0 c) k
  | None -> false

(** val home_rank : color -> z **)

let home_rank = function
| White -> Z0
| Black -> Zpos (XI (XI XH))

(** val has_right : castling -> color -> bool -> bool **)

let has_right cr c king_side =
  match c with
  | White -> if king_side then cr.wk else cr.wq
  | Black -> if king_side then cr.bk else cr.bq

(** val promo_ok : kind option -> bool **)

let promo_ok = function
| Some k -> (match k with
             | Pawn -> false
             | King -> false
             | _ -> true)
| None -> false

(** val pawn_move_ok : position -> color -> n -> n -> kind option -> bool **)

let pawn_move_ok p c from to0 promo =
  let b = p.brd in
  let df = Z.sub (file_of to0) (file_of from) in
  let dr = Z.sub (rank_of to0) (rank_of from) in
  let d = pawn_dir c in
  let last = match c with
             | White -> Zpos (XI (XI XH))
             | Black -> Z0 in
  let start = match c with
              | White -> Zpos XH
              | Black -> Zpos (XO (XI XH)) in
  (&&)
    (if Z.eqb (rank_of to0) last
     then promo_ok promo
     else (match promo with
           | Some _ -> false
           | None -> true))
    ((||)
      ((||) ((&&) ((&&) (Z.eqb df Z0) (Z.eqb dr d)) (is_empty b to0))
        ((&&)
          ((&&)
            ((&&) ((&&) (Z.eqb df Z0) (Z.eqb dr (Z.mul (Zpos (XO XH)) d)))
              (Z.eqb (rank_of from) start))
            (is_empty b (sq_of (file_of from) (Z.add (rank_of from) d))))
          (is_empty b to0)))
      ((&&) ((&&) (Z.eqb (Z.abs df) (Zpos XH)) (Z.eqb dr d))
        ((||) (is_color b to0 (opp0 c))
          (match p.ep with
           | Some e -> N.eqb e to0
           | None -> false))))

(** val castle_ok : position -> bool -> bool **)

let castle_ok p king_side =
  let b = p.brd in
  let c = p.stm in
  let r = home_rank c in
  (&&)
    ((&&)
      ((&&)
        ((&&)
          ((&&)
            ((&&) (has_right p.rights c king_side)
              (is_piece b (sq_of (Zpos (XO (XO XH))) r) c King))
            (is_piece b
              (sq_of (if king_side then Zpos (XI (XI XH)) else Z0) r) c Rook))
          (if king_side
           then (&&) (is_empty b (sq_of (Zpos (XI (XO XH))) r))
                  (is_empty b (sq_of (Zpos (XO (XI XH))) r))
           else (&&)
                  ((&&) (is_empty b (sq_of (Zpos (XI XH)) r))
                    (is_empty b (sq_of (Zpos (XO XH)) r)))
                  (is_empty b (sq_of (Zpos XH) r))))
        (negb (attacked b (opp0 c) (sq_of (Zpos (XO (XO XH))) r))))
      (negb
        (attacked b (opp0 c)
          (sq_of (if king_side then Zpos (XI (XO XH)) else Zpos (XI XH)) r))))
    (negb
      (attacked b (opp0 c)
        (sq_of (if king_side then Zpos (XO (XI XH)) else Zpos (XO XH)) r)))

(** val pseudo_legal : position -> move -> bool **)

let pseudo_legal p = function
| Normal (from, to0, promo) ->
  (&&)
    ((&&) (N.ltb from (Npos (XO (XO (XO (XO (XO (XO XH))))))))
      (N.ltb to0 (Npos (XO (XO (XO (XO (XO (XO XH)))))))))
    (match get p.brd from with
     | Some p0 ->
       let (c, k) = p0 in
       (&&) ((&&) (color_eqb c p.stm) (negb (is_color p.brd to0 c)))
         (match k with
          | Pawn -> pawn_move_ok p c from to0 promo
          | _ ->
            (&&) (match promo with
                  | Some _ -> false
                  | None -> true) (piece_attacks p.brd c k from to0))
     | None -> false)
| Castle ks -> castle_ok p ks

(** val is_ep_capture : position -> n -> n -> bool **)

let is_ep_capture p from to0 =
  (&&)
    ((&&) (is_piece p.brd from p.stm Pawn)
      (match p.ep with
       | Some e -> N.eqb e to0
       | None -> false)) (negb (Z.eqb (file_of from) (file_of to0)))

(** val is_capture : position -> move -> bool **)

let is_capture p = function
| Normal (from, to0, _) ->
  (||) (negb (is_empty p.brd to0)) (is_ep_capture p from to0)
| Castle _ -> false

(** val move_board : position -> move -> board **)

let move_board p m =
  let b = p.brd in
  let c = p.stm in
  (match m with
   | Normal (from, to0, promo) ->
     let moved = match promo with
                 | Some k -> Some (c, k)
                 | None -> get b from
     in
     let b1 =
       if is_ep_capture p from to0
       then set b (sq_of (file_of to0) (rank_of from)) None
       else b
     in
     set (set b1 from None) to0 moved
   | Castle ks ->
     let r = home_rank c in
     let b1 =
       set (set b (sq_of (Zpos (XO (XO XH))) r) None)
         (sq_of (if ks then Zpos (XO (XI XH)) else Zpos (XO XH)) r) (Some (c,
         King))
     in
     set (set b1 (sq_of (if ks then Zpos (XI (XI XH)) else Z0) r) None)
       (sq_of (if ks then Zpos (XI (XO XH)) else Zpos (XI XH)) r) (Some (c,
       Rook)))

(** val touches : move -> n -> bool **)

let touches m s =
  match m with
  | Normal (from, to0, _) -> (||) (N.eqb from s) (N.eqb to0 s)
  | Castle _ -> false

(** val move_rights : position -> move -> castling **)

let move_rights p m =
  let cr = p.rights in
  let c = p.stm in
  let king_moves =
    match m with
    | Normal (from, _, _) -> is_piece p.brd from c King
    | Castle _ -> true
  in
  let lose = fun col ks ->
    (||) ((&&) king_moves (color_eqb col c))
      (touches m
        (sq_of (if ks then Zpos (XI (XI XH)) else Z0) (home_rank col)))
  in
  { wk = ((&&) cr.wk (negb (lose White true))); wq =
  ((&&) cr.wq (negb (lose White false))); bk =
  ((&&) cr.bk (negb (lose Black true))); bq =
  ((&&) cr.bq (negb (lose Black false))) }

(** val move_ep : position -> move -> n option **)

let move_ep p = function
| Normal (from, to0, _) ->
  if (&&) (is_piece p.brd from p.stm Pawn)
       (Z.eqb (Z.abs (Z.sub (rank_of to0) (rank_of from))) (Zpos (XO XH)))
  then Some
         (sq_of (file_of from)
           (Z.div (Z.add (rank_of from) (rank_of to0)) (Zpos (XO XH))))
  else None
| Castle _ -> None

(** val resets_clock : position -> move -> bool **)

let resets_clock p m = match m with
| Normal (from, _, _) ->
  (||) (is_piece p.brd from p.stm Pawn) (is_capture p m)
| Castle _ -> false

(** val make_move : position -> move -> position **)

let make_move p m =
  { brd = (move_board p m); stm = (opp0 p.stm); rights = (move_rights p m);
    ep = (move_ep p m); clock =
    (if resets_clock p m then Z0 else Z.add p.clock (Zpos XH)); fullmove =
    (match p.stm with
     | White -> p.fullmove
     | Black -> Z.add p.fullmove (Zpos XH)) }

(** val legal : position -> move -> bool **)

let legal p m =
  (&&) (pseudo_legal p m) (negb (in_check (move_board p m) p.stm))

(** val promos : kind option list **)

let promos =
  (Some Queen) :: ((Some Rook) :: ((Some Bishop) :: ((Some Knight) :: [])))

(** val candidates_from : position -> n -> move list **)

let candidates_from p from =
  match get p.brd from with
  | Some p0 ->
    let (c, k) = p0 in
    if color_eqb c p.stm
    then flat_map (fun to0 ->
           match k with
           | Pawn ->
             if (||) (Z.eqb (rank_of to0) (Zpos (XI (XI XH))))
                  (Z.eqb (rank_of to0) Z0)
             then map (fun pr -> Normal (from, to0, pr)) promos
             else (Normal (from, to0, None)) :: []
           | _ -> (Normal (from, to0, None)) :: []) all_squares
    else []
  | None -> []

(** val candidates : position -> move list **)

let candidates p =
  app (flat_map (candidates_from p) all_squares) ((Castle true) :: ((Castle
    false) :: []))

(** val legal_moves : position -> move list **)

let legal_moves p =
  filter (legal p) (candidates p)

(** val checkmate : position -> bool **)

let checkmate p =
  (&&) (in_check p.brd p.stm)
    (match legal_moves p with
     | [] -> true
     | _ :: _ -> false)

(** val stalemate : position -> bool **)

let stalemate p =
  (&&) (negb (in_check p.brd p.stm))
    (match legal_moves p with
     | [] -> true
     | _ :: _ -> false)

(** val count_piece : board -> color -> kind -> nat **)

let count_piece b c k =
  length (filter (fun s -> is_piece b s c k) all_squares)

(** val rights_consistent : board -> castling -> bool **)

let rights_consistent b cr =
  (&&)
    ((&&)
      ((&&)
        ((&&)
          ((&&)
            ((||) (negb ((||) cr.wk cr.wq))
              (is_piece b (Npos (XO (XO XH))) White King))
            ((||) (negb ((||) cr.bk cr.bq))
              (is_piece b (Npos (XO (XO (XI (XI (XI XH)))))) Black King)))
          ((||) (negb cr.wk) (is_piece b (Npos (XI (XI XH))) White Rook)))
        ((||) (negb cr.wq) (is_piece b N0 White Rook)))
      ((||) (negb cr.bk)
        (is_piece b (Npos (XI (XI (XI (XI (XI XH)))))) Black Rook)))
    ((||) (negb cr.bq)
      (is_piece b (Npos (XO (XO (XO (XI (XI XH)))))) Black Rook))

(** val ep_consistent : position -> bool **)

let ep_consistent p =
  match p.ep with
  | Some e ->
    let c = p.stm in
    let d = pawn_dir (opp0 c) in
    let f = file_of e in
    let r = rank_of e in
    (&&)
      ((&&)
        ((&&)
          ((&&)
            ((&&) (N.ltb e (Npos (XO (XO (XO (XO (XO (XO XH))))))))
              (Z.eqb r
                (match c with
                 | White -> Zpos (XI (XO XH))
                 | Black -> Zpos (XO XH)))) (is_empty p.brd e))
          (is_empty p.brd (sq_of f (Z.sub r d))))
        (is_piece p.brd (sq_of f (Z.add r d)) (opp0 c) Pawn))
      (negb
        (in_check
          (set (set p.brd (sq_of f (Z.add r d)) None) (sq_of f (Z.sub r d))
            (Some ((opp0 c), Pawn))) c))
  | None -> true

(** val kinds : kind list **)

let kinds =
  Pawn :: (Knight :: (Bishop :: (Rook :: (Queen :: (King :: [])))))

(** val no_pawn_on_back_ranks : board -> bool **)

let no_pawn_on_back_ranks b =
  forallb (fun s ->
    (||)
      (negb
        ((||) (Z.eqb (rank_of s) Z0) (Z.eqb (rank_of s) (Zpos (XI (XI XH))))))
      (negb ((||) (is_piece b s White Pawn) (is_piece b s Black Pawn))))
    all_squares

(** val valid_position : position -> bool **)

let valid_position p =
  let b = p.brd in
  (&&)
    ((&&)
      ((&&)
        ((&&)
          ((&&)
            ((&&)
              ((&&)
                ((&&)
                  ((&&)
                    ((&&)
                      (Nat.eqb (length b) (S (S (S (S (S (S (S (S (S (S (S (S
                        (S (S (S (S (S (S (S (S (S (S (S (S (S (S (S (S (S (S
                        (S (S (S (S (S (S (S (S (S (S (S (S (S (S (S (S (S (S
                        (S (S (S (S (S (S (S (S (S (S (S (S (S (S (S (S
                        O)))))))))))))))))))))))))))))))))))))))))))))))))))))))))))))))))
                      (Nat.eqb (count_piece b White King) (S O)))
                    (Nat.eqb (count_piece b Black King) (S O)))
                  (match king_sq b White with
                   | Some k1 ->
                     (match king_sq b Black with
                      | Some k2 -> Z.ltb (Zpos XH) (cheb k1 k2)
                      | None -> false)
                   | None -> false)) (negb (in_check b (opp0 p.stm))))
              (no_pawn_on_back_ranks b)) (rights_consistent b p.rights))
          (ep_consistent p))
        (forallb (fun c ->
          forallb (fun k ->
            Nat.leb (count_piece b c k) (S (S (S (S (S (S (S (S (S (S
              O))))))))))) kinds) (White :: (Black :: []))))
      (Z.leb Z0 p.clock)) (Z.leb (Zpos XH) p.fullmove)

(** val play : position -> move list -> position **)

let rec play p = function
| [] -> p
| m :: r -> play (make_move p m) r

(** val legal_line : position -> move list -> bool **)

let rec legal_line p = function
| [] -> true
| m :: r -> (&&) (legal p m) (legal_line (make_move p m) r)

(** val empty_board : board **)

let empty_board =
  repeat None (S (S (S (S (S (S (S (S (S (S (S (S (S (S (S (S (S (S (S (S (S
    (S (S (S (S (S (S (S (S (S (S (S (S (S (S (S (S (S (S (S (S (S (S (S (S
    (S (S (S (S (S (S (S (S (S (S (S (S (S (S (S (S (S (S (S
    O))))))))))))))))))))))))))))))))))))))))))))))))))))))))))))))))

(** val back_rank : kind list **)

let back_rank =
  Rook :: (Knight :: (Bishop :: (Queen :: (King :: (Bishop :: (Knight :: (Rook :: [])))))))

(** val initial_board : board **)

let initial_board =
  app (map (fun k -> Some (White, k)) back_rank)
    (app (repeat (Some (White, Pawn)) (S (S (S (S (S (S (S (S O)))))))))
      (app
        (repeat None (S (S (S (S (S (S (S (S (S (S (S (S (S (S (S (S (S (S (S
          (S (S (S (S (S (S (S (S (S (S (S (S (S
          O)))))))))))))))))))))))))))))))))
        (app (repeat (Some (Black, Pawn)) (S (S (S (S (S (S (S (S O)))))))))
          (map (fun k -> Some (Black, k)) back_rank))))

(** val initial_position : position **)

let initial_position =
  { brd = initial_board; stm = White; rights = { wk = true; wq = true; bk =
    true; bq = true }; ep = None; clock = Z0; fullmove = (Zpos XH) }

(** val forced_mate_within : nat -> position -> bool **)

let rec forced_mate_within n0 p =
  match n0 with
  | O -> false
  | S k ->
    existsb (fun m ->
      let q = make_move p m in
      (||) (checkmate q)
        ((&&) (negb (match legal_moves q with
                     | [] -> true
                     | _ :: _ -> false))
          (forallb (fun m' -> forced_mate_within k (make_move q m'))
            (legal_moves q)))) (legal_moves p)

(** val forced_loss_within : nat -> position -> bool **)

let forced_loss_within n0 p =
  (||) (checkmate p)
    ((&&) (negb (match legal_moves p with
                 | [] -> true
                 | _ :: _ -> false))
      (forallb (fun m -> forced_mate_within n0 (make_move p m))
        (legal_moves p)))

(** val uint_of_char : ascii -> uint option -> uint option **)

let uint_of_char a = function
| Some d0 ->
  let Ascii (b, b0, b1, b2, b3, b4, b5, b6) = a in
  if b
  then if b0
       then if b1
            then if b2
                 then None
                 else if b3
                      then if b4
                           then if b5
                                then None
                                else if b6 then None else Some (D7 d0)
                           else None
                      else None
            else if b2
                 then None
                 else if b3
                      then if b4
                           then if b5
                                then None
                                else if b6 then None else Some (D3 d0)
                           else None
                      else None
       else if b1
            then if b2
                 then None
                 else if b3
                      then if b4
                           then if b5
                                then None
                                else if b6 then None else Some (D5 d0)
                           else None
                      else None
            else if b2
                 then if b3
                      then if b4
                           then if b5
                                then None
                                else if b6 then None else Some (D9 d0)
                           else None
                      else None
                 else if b3
                      then if b4
                           then if b5
                                then None
                                else if b6 then None else Some (D1 d0)
                           else None
                      else None
  else if b0
       then if b1
            then if b2
                 then None
                 else if b3
                      then if b4
                           then if b5
                                then None
                                else if b6 then None else Some (D6 d0)
                           else None
                      else None
            else if b2
                 then None
                 else if b3
                      then if b4
                           then if b5
                                then None
                                else if b6 then None else Some (D2 d0)
                           else None
                      else None
       else if b1
            then if b2
                 then None
                 else if b3
                      then if b4
                           then if b5
                                then None
                                else if b6 then None else Some (D4 d0)
                           else None
                      else None
            else if b2
                 then if b3
                      then if b4
                           then if b5
                                then None
                                else if b6 then None else Some (D8 d0)
                           else None
                      else None
                 else if b3
                      then if b4
                           then if b5
                                then None
                                else if b6 then None else Some (D0 d0)
                           else None
                      else None
| None -> None

module NilEmpty =
 struct
  (** val string_of_uint : uint -> string **)

  let rec string_of_uint = function
  | Nil -> EmptyString
  | D0 d0 ->
    String ((Ascii (false, false, false, false, true, true, false, false)),
      (string_of_uint d0))
  | D1 d0 ->
    String ((Ascii (true, false, false, false, true, true, false, false)),
      (string_of_uint d0))
  | D2 d0 ->
    String ((Ascii (false, true, false, false, true, true, false, false)),
      (string_of_uint d0))
  | D3 d0 ->
    String ((Ascii (true, true, false, false, true, true, false, false)),
      (string_of_uint d0))
  | D4 d0 ->
    String ((Ascii (false, false, true, false, true, true, false, false)),
      (string_of_uint d0))
  | D5 d0 ->
    String ((Ascii (true, false, true, false, true, true, false, false)),
      (string_of_uint d0))
  | D6 d0 ->
    String ((Ascii (false, true, true, false, true, true, false, false)),
      (string_of_uint d0))
  | D7 d0 ->
    String ((Ascii (true, true, true, false, true, true, false, false)),
      (string_of_uint d0))
  | D8 d0 ->
    String ((Ascii (false, false, false, true, true, true, false, false)),
      (string_of_uint d0))
  | D9 d0 ->
    String ((Ascii (true, false, false, true, true, true, false, false)),
      (string_of_uint d0))

  (** val uint_of_string : string -> uint option **)

  let rec uint_of_string = function
  | EmptyString -> Some Nil
  | String (a, s0) -> uint_of_char a (uint_of_string s0)
 end

module NilZero =
 struct
  (** val string_of_uint : uint -> string **)

  let string_of_uint d = match d with
  | Nil ->
    String ((Ascii (false, false, false, false, true, true, false, false)),
      EmptyString)
  | _ -> NilEmpty.string_of_uint d

  (** val uint_of_string : string -> uint option **)

  let uint_of_string s = match s with
  | EmptyString -> None
  | String (_, _) -> NilEmpty.uint_of_string s
 end

(** val piece_char : piece -> ascii **)

let piece_char = function
| (c, k) ->
  (match c with
   | White ->
     (match k with
      | Pawn -> Ascii (false, false, false, false, true, false, true, false)
      | Knight -> Ascii (false, true, true, true, false, false, true, false)
      | Bishop -> Ascii (false, true, false, false, false, false, true, false)
      | Rook -> Ascii (false, true, false, false, true, false, true, false)
      | Queen -> Ascii (true, false, false, false, true, false, true, false)
      | King -> Ascii (true, true, false, true, false, false, true, false))
   | Black ->
     (match k with
      | Pawn -> Ascii (false, false, false, false, true, true, true, false)
      | Knight -> Ascii (false, true, true, true, false, true, true, false)
      | Bishop -> Ascii (false, true, false, false, false, true, true, false)
      | Rook -> Ascii (false, true, false, false, true, true, true, false)
      | Queen -> Ascii (true, false, false, false, true, true, true, false)
      | King -> Ascii (true, true, false, true, false, true, true, false)))

(** val char_piece : ascii -> piece option **)

let char_piece = function
| Ascii (b, b0, b1, b2, b3, b4, b5, b6) ->
  if b
  then if b0
       then if b1
            then None
            else if b2
                 then if b3
                      then None
                      else if b4
                           then if b5
                                then if b6 then None else Some (Black, King)
                                else None
                           else if b5
                                then if b6 then None else Some (White, King)
                                else None
                 else None
       else if b1
            then None
            else if b2
                 then None
                 else if b3
                      then if b4
                           then if b5
                                then if b6 then None else Some (Black, Queen)
                                else None
                           else if b5
                                then if b6 then None else Some (White, Queen)
                                else None
                      else None
  else if b0
       then if b1
            then if b2
                 then if b3
                      then None
                      else if b4
                           then if b5
                                then if b6 then None else Some (Black, Knight)
                                else None
                           else if b5
                                then if b6 then None else Some (White, Knight)
                                else None
                 else None
            else if b2
                 then None
                 else if b3
                      then if b4
                           then if b5
                                then if b6 then None else Some (Black, Rook)
                                else None
                           else if b5
                                then if b6 then None else Some (White, Rook)
                                else None
                      else if b4
                           then if b5
                                then if b6 then None else Some (Black, Bishop)
                                else None
                           else if b5
                                then if b6 then None else Some (White, Bishop)
                                else None
       else if b1
            then None
            else if b2
                 then None
                 else if b3
                      then if b4
                           then if b5
                                then if b6 then None else Some (Black, Pawn)
                                else None
                           else if b5
                                then if b6 then None else Some (White, Pawn)
                                else None
                      else None

(** val digit_char : nat -> ascii **)

let digit_char n0 =
  ascii_of_nat
    (add (S (S (S (S (S (S (S (S (S (S (S (S (S (S (S (S (S (S (S (S (S (S (S
      (S (S (S (S (S (S (S (S (S (S (S (S (S (S (S (S (S (S (S (S (S (S (S (S
      (S O)))))))))))))))))))))))))))))))))))))))))))))))) n0)

(** val char_digit : ascii -> nat option **)

let char_digit c =
  let n0 = nat_of_ascii c in
  if (&&)
       (Nat.leb (S (S (S (S (S (S (S (S (S (S (S (S (S (S (S (S (S (S (S (S
         (S (S (S (S (S (S (S (S (S (S (S (S (S (S (S (S (S (S (S (S (S (S (S
         (S (S (S (S (S O)))))))))))))))))))))))))))))))))))))))))))))))) n0)
       (Nat.leb n0 (S (S (S (S (S (S (S (S (S (S (S (S (S (S (S (S (S (S (S
         (S (S (S (S (S (S (S (S (S (S (S (S (S (S (S (S (S (S (S (S (S (S (S
         (S (S (S (S (S (S (S (S (S (S (S (S (S (S (S
         O))))))))))))))))))))))))))))))))))))))))))))))))))))))))))
  then Some
         (sub n0 (S (S (S (S (S (S (S (S (S (S (S (S (S (S (S (S (S (S (S (S
           (S (S (S (S (S (S (S (S (S (S (S (S (S (S (S (S (S (S (S (S (S (S
           (S (S (S (S (S (S
           O)))))))))))))))))))))))))))))))))))))))))))))))))
  else None

(** val print_rank : piece option list -> nat -> string **)

let rec print_rank l run =
  match l with
  | [] ->
    (match run with
     | O -> EmptyString
     | S _ -> String ((digit_char run), EmptyString))
  | o :: t ->
    (match o with
     | Some pc ->
       (match run with
        | O -> String ((piece_char pc), (print_rank t O))
        | S _ ->
          String ((digit_char run), (String ((piece_char pc),
            (print_rank t O)))))
     | None -> print_rank t (S run))

(** val rank_squares : board -> nat -> piece option list **)

let rank_squares b r =
  firstn (S (S (S (S (S (S (S (S O))))))))
    (skipn (mul (S (S (S (S (S (S (S (S O)))))))) r) b)

(** val print_placement : board -> string **)

let print_placement b =
  concat (String ((Ascii (true, true, true, true, false, true, false,
    false)), EmptyString))
    (map (fun r -> print_rank (rank_squares b r) O) ((S (S (S (S (S (S (S
      O))))))) :: ((S (S (S (S (S (S O)))))) :: ((S (S (S (S (S O))))) :: ((S
      (S (S (S O)))) :: ((S (S (S O))) :: ((S (S O)) :: ((S
      O) :: (O :: [])))))))))

(** val print_rights : castling -> string **)

let print_rights cr =
  if negb ((||) ((||) ((||) cr.wk cr.wq) cr.bk) cr.bq)
  then String ((Ascii (true, false, true, true, false, true, false, false)),
         EmptyString)
  else append
         (if cr.wk
          then String ((Ascii (true, true, false, true, false, false, true,
                 false)), EmptyString)
          else EmptyString)
         (append
           (if cr.wq
            then String ((Ascii (true, false, false, false, true, false,
                   true, false)), EmptyString)
            else EmptyString)
           (append
             (if cr.bk
              then String ((Ascii (true, true, false, true, false, true,
                     true, false)), EmptyString)
              else EmptyString)
             (if cr.bq
              then String ((Ascii (true, false, false, false, true, true,
                     true, false)), EmptyString)
              else EmptyString)))

(** val file_char : z -> ascii **)

let file_char f =
  ascii_of_nat
    (add (S (S (S (S (S (S (S (S (S (S (S (S (S (S (S (S (S (S (S (S (S (S (S
      (S (S (S (S (S (S (S (S (S (S (S (S (S (S (S (S (S (S (S (S (S (S (S (S
      (S (S (S (S (S (S (S (S (S (S (S (S (S (S (S (S (S (S (S (S (S (S (S (S
      (S (S (S (S (S (S (S (S (S (S (S (S (S (S (S (S (S (S (S (S (S (S (S (S
      (S (S
      O)))))))))))))))))))))))))))))))))))))))))))))))))))))))))))))))))))))))))))))))))))))))))))))))))
      (Z.to_nat f))

(** val rank_char : z -> ascii **)

let rank_char r =
  ascii_of_nat
    (add (S (S (S (S (S (S (S (S (S (S (S (S (S (S (S (S (S (S (S (S (S (S (S
      (S (S (S (S (S (S (S (S (S (S (S (S (S (S (S (S (S (S (S (S (S (S (S (S
      (S (S O))))))))))))))))))))))))))))))))))))))))))))))))) (Z.to_nat r))

(** val square_name : n -> string **)

let square_name s =
  String ((file_char (file_of s)), (String ((rank_char (rank_of s)),
    EmptyString)))

(** val print_Z : z -> string **)

let print_Z z0 =
  NilZero.string_of_uint (N.to_uint (Z.to_N z0))

(** val fen_print : position -> string **)

let fen_print p =
  append (print_placement p.brd)
    (append (String ((Ascii (false, false, false, false, false, true, false,
      false)), EmptyString))
      (append
        (match p.stm with
         | White ->
           String ((Ascii (true, true, true, false, true, true, true,
             false)), EmptyString)
         | Black ->
           String ((Ascii (false, true, false, false, false, true, true,
             false)), EmptyString))
        (append (String ((Ascii (false, false, false, false, false, true,
          false, false)), EmptyString))
          (append (print_rights p.rights)
            (append (String ((Ascii (false, false, false, false, false, true,
              false, false)), EmptyString))
              (append
                (match p.ep with
                 | Some e -> square_name e
                 | None ->
                   String ((Ascii (true, false, true, true, false, true,
                     false, false)), EmptyString))
                (append (String ((Ascii (false, false, false, false, false,
                  true, false, false)), EmptyString))
                  (append (print_Z p.clock)
                    (append (String ((Ascii (false, false, false, false,
                      false, true, false, false)), EmptyString))
                      (print_Z p.fullmove))))))))))

(** val split_on : ascii -> string -> string -> string list **)

let rec split_on sep s cur =
  match s with
  | EmptyString -> cur :: []
  | String (c, t) ->
    if eqb0 c sep
    then cur :: (split_on sep t EmptyString)
    else split_on sep t (append cur (String (c, EmptyString)))

(** val tokens : string -> string list **)

let tokens s =
  filter (fun t -> negb (eqb1 t EmptyString))
    (split_on (Ascii (false, false, false, false, false, true, false, false))
      s EmptyString)

(** val parse_placement : string -> z -> board -> board option **)

let rec parse_placement s sq b =
  match s with
  | EmptyString -> Some b
  | String (c, t) ->
    if eqb0 c (Ascii (true, true, true, true, false, true, false, false))
    then parse_placement t (Z.sub sq (Zpos (XO (XO (XO (XO XH)))))) b
    else (match char_digit c with
          | Some d -> parse_placement t (Z.add sq (Z.of_nat d)) b
          | None ->
            (match char_piece c with
             | Some pc ->
               if (&&) (Z.leb Z0 sq)
                    (Z.ltb sq (Zpos (XO (XO (XO (XO (XO (XO XH))))))))
               then parse_placement t (Z.add sq (Zpos XH))
                      (set b (Z.to_N sq) (Some pc))
               else None
             | None -> None))

(** val parse_rights : string -> castling -> castling **)

let rec parse_rights s cr =
  match s with
  | EmptyString -> cr
  | String (c, t) ->
    parse_rights t
      (if eqb0 c (Ascii (true, true, false, true, false, false, true, false))
       then { wk = true; wq = cr.wq; bk = cr.bk; bq = cr.bq }
       else if eqb0 c (Ascii (true, false, false, false, true, false, true,
                 false))
            then { wk = cr.wk; wq = true; bk = cr.bk; bq = cr.bq }
            else if eqb0 c (Ascii (true, true, false, true, false, true,
                      true, false))
                 then { wk = cr.wk; wq = cr.wq; bk = true; bq = cr.bq }
                 else if eqb0 c (Ascii (true, false, false, false, true,
                           true, true, false))
                      then { wk = cr.wk; wq = cr.wq; bk = cr.bk; bq = true }
                      else cr)

(** val parse_square : string -> n option **)

let parse_square = function
| EmptyString -> None
| String (fc, s0) ->
  (match s0 with
   | EmptyString -> None
   | String (rc, s1) ->
     (match s1 with
      | EmptyString ->
        let f =
          Z.sub (Z.of_nat (nat_of_ascii fc)) (Zpos (XI (XO (XO (XO (XO (XI
            XH)))))))
        in
        let r =
          Z.sub (Z.of_nat (nat_of_ascii rc)) (Zpos (XI (XO (XO (XO (XI
            XH))))))
        in
        if on_board f r then Some (sq_of f r) else None
      | String (_, _) -> None))

(** val parse_Z : string -> z option **)

let parse_Z s =
  match NilZero.uint_of_string s with
  | Some u -> Some (Z.of_N (N.of_uint u))
  | None -> None

(** val no_rights : castling **)

let no_rights =
  { wk = false; wq = false; bk = false; bq = false }

(** val fen_parse : string -> position option **)

let fen_parse s =
  match tokens s with
  | [] -> None
  | pl :: l ->
    (match l with
     | [] -> None
     | side :: l0 ->
       (match l0 with
        | [] -> None
        | cr :: l1 ->
          (match l1 with
           | [] -> None
           | e :: l2 ->
             (match l2 with
              | [] -> None
              | hm :: l3 ->
                (match l3 with
                 | [] -> None
                 | fm :: l4 ->
                   (match l4 with
                    | [] ->
                      (match parse_placement pl (Zpos (XO (XO (XO (XI (XI
                               XH)))))) empty_board with
                       | Some b ->
                         (match parse_Z hm with
                          | Some h ->
                            (match parse_Z fm with
                             | Some f ->
                               let e' =
                                 if eqb1 e (String ((Ascii (true, false,
                                      true, true, false, true, false,
                                      false)), EmptyString))
                                 then Some None
                                 else (match parse_square e with
                                       | Some x -> Some (Some x)
                                       | None -> None)
                               in
                               (match e' with
                                | Some e'' ->
                                  Some { brd = b; stm =
                                    (if eqb1 side (String ((Ascii (true,
                                          true, true, false, true, true,
                                          true, false)), EmptyString))
                                     then White
                                     else Black); rights =
                                    (parse_rights cr no_rights); ep = e'';
                                    clock = h; fullmove = f }
                                | None -> None)
                             | None -> None)
                          | None -> None)
                       | None -> None)
                    | _ :: _ -> None))))))

(** val promo_char : kind -> string **)

let promo_char = function
| Knight ->
  String ((Ascii (false, true, true, true, false, true, true, false)),
    EmptyString)
| Bishop ->
  String ((Ascii (false, true, false, false, false, true, true, false)),
    EmptyString)
| Rook ->
  String ((Ascii (false, true, false, false, true, true, true, false)),
    EmptyString)
| Queen ->
  String ((Ascii (true, false, false, false, true, true, true, false)),
    EmptyString)
| _ -> EmptyString

(** val uci_print : position -> move -> string **)

let uci_print p = function
| Normal (from, to0, promo) ->
  append (square_name from)
    (append (square_name to0)
      (match promo with
       | Some k -> promo_char k
       | None -> EmptyString))
| Castle king_side ->
  if king_side
  then (match p.stm with
        | White ->
          String ((Ascii (true, false, true, false, false, true, true,
            false)), (String ((Ascii (true, false, false, false, true, true,
            false, false)), (String ((Ascii (true, true, true, false, false,
            true, true, false)), (String ((Ascii (true, false, false, false,
            true, true, false, false)), EmptyString)))))))
        | Black ->
          String ((Ascii (true, false, true, false, false, true, true,
            false)), (String ((Ascii (false, false, false, true, true, true,
            false, false)), (String ((Ascii (true, true, true, false, false,
            true, true, false)), (String ((Ascii (false, false, false, true,
            true, true, false, false)), EmptyString))))))))
  else (match p.stm with
        | White ->
          String ((Ascii (true, false, true, false, false, true, true,
            false)), (String ((Ascii (true, false, false, false, true, true,
            false, false)), (String ((Ascii (true, true, false, false, false,
            true, true, false)), (String ((Ascii (true, false, false, false,
            true, true, false, false)), EmptyString)))))))
        | Black ->
          String ((Ascii (true, false, true, false, false, true, true,
            false)), (String ((Ascii (false, false, false, true, true, true,
            false, false)), (String ((Ascii (true, true, false, false, false,
            true, true, false)), (String ((Ascii (false, false, false, true,
            true, true, false, false)), EmptyString))))))))

(** val char_promo : ascii -> kind option **)

let char_promo = function
| Ascii (b, b0, b1, b2, b3, _, b5, b6) ->
  if b
  then if b0
       then None
       else if b1
            then None
            else if b2
                 then None
                 else if b3
                      then if b5
                           then if b6 then None else Some Queen
                           else None
                      else None
  else if b0
       then if b1
            then if b2
                 then if b3
                      then None
                      else if b5
                           then if b6 then None else Some Knight
                           else None
                 else None
            else if b2
                 then None
                 else if b3
                      then if b5 then if b6 then None else Some Rook else None
                      else if b5
                           then if b6 then None else Some Bishop
                           else None
       else None

(** val uci_parse : position -> string -> move option **)

let uci_parse p = function
| EmptyString -> None
| String (a, s0) ->
  (match s0 with
   | EmptyString -> None
   | String (b, s1) ->
     (match s1 with
      | EmptyString -> None
      | String (c, s2) ->
        (match s2 with
         | EmptyString -> None
         | String (d, rest) ->
           (match parse_square (String (a, (String (b, EmptyString)))) with
            | Some from ->
              (match parse_square (String (c, (String (d, EmptyString)))) with
               | Some to0 ->
                 let promo =
                   match rest with
                   | EmptyString -> Some None
                   | String (pc, _) ->
                     (match char_promo pc with
                      | Some k -> Some (Some k)
                      | None -> None)
                 in
                 (match promo with
                  | Some pr ->
                    let king_from =
                      match get p.brd from with
                      | Some p0 ->
                        let (_, k) = p0 in
                        (match k with
                         | King -> true
                         | _ -> false)
                      | None -> false
                    in
                    if (&&) ((&&) king_from (N.eqb from (Npos (XO (XO XH)))))
                         (N.eqb to0 (Npos (XO (XI XH))))
                    then Some (Castle true)
                    else if (&&)
                              ((&&) king_from
                                (N.eqb from (Npos (XO (XO XH)))))
                              (N.eqb to0 (Npos (XO XH)))
                         then Some (Castle false)
                         else if (&&)
                                   ((&&) king_from
                                     (N.eqb from (Npos (XO (XO (XI (XI (XI
                                       XH))))))))
                                   (N.eqb to0 (Npos (XO (XI (XI (XI (XI
                                     XH)))))))
                              then Some (Castle true)
                              else if (&&)
                                        ((&&) king_from
                                          (N.eqb from (Npos (XO (XO (XI (XI
                                            (XI XH))))))))
                                        (N.eqb to0 (Npos (XO (XI (XO (XI (XI
                                          XH)))))))
                                   then Some (Castle false)
                                   else Some (Normal (from, to0, pr))
                  | None -> None)
               | None -> None)
            | None -> None))))
