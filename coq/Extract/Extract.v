(* Extraction of the executable models to OCaml.  Only ExtrOcamlBasic is used: bool, option, list,
   prod, unit, sumbool map to OCaml's own types; N, Z, positive, nat, string, ascii stay the
   extracted inductives (no Extract Constant, no native integers). *)
Require Extraction.
Require Import ExtrOcamlBasic.
From CV Require Import Base.Geom Engine.Magic Engine.Encoding Chess.Rules Chess.Fen Engine.PositionRep Engine.RepAbs Chess.History Engine.Classify Chess.San Engine.PolyglotInst Engine.KPK Gen.BitbaseDump Engine.TimeMgr Engine.SearchDriver Engine.MateScore Engine.EndgameModel Engine.EvalCache Engine.GoParse Engine.UciSession.

Extraction "model.ml"
  (* geometry specs *)
  bishop_spec rook_spec queen_spec knight_spec king_spec pawn_attack_spec ray_spec ray_dirs
  line_spec full_line_spec
  (* encodings *)
  create_move create_promotion create_castling mv_from mv_to mv_promotion mv_castling
  create_moveinfo mi_captured mi_castling mi_last_ep mi_ep mi_hmc
  (* rules *)
  legal_moves legal make_move valid_position in_check checkmate stalemate play legal_line
  forced_mate_within forced_loss_within initial_position attacked king_sq is_capture
  (* text *)
  fen_print fen_parse uci_print uci_parse
  (* engine representation *)
  rep_of_position rep_abs enc rep_parse_uci do_move undo_move do_null_move undo_null_move get_key
  is_repeated threefold rule50 enough_material scratch_key
  (* history spec *)
  move_is_quiet_alg move_is_capture_alg move_gives_check_alg captures_spec quiet_spec gives_check_spec
  san_print san_parse regex_match
  pg_spec_hash pg_engine_hash read_book lookup random_index best_index decode_move piece_at
  engine_W engine_W_black bitbase_dump kpk_legal kpk_moves kpk_win_now kpk_save_now
  calculate go search_depth_of is_mate score2str adjust eg_score eg_find egp_of_position registry t_init t_probe t_insert t_clear slot
  same_position occurred_before occurred_three_times fifty_moves insufficient_material
  parse_go usession.
