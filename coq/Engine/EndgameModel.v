(* Transcription of engine/endgame.cpp: the 17 specialised endgame evaluators, their applicability tests and the
   registration order.  The model reads exactly what the C++ reads from Position: the side to move and the per-piece
   square lists IN THE ENGINE'S ORDER (piece_position(piece, i)); bitboards are the sets of those lists.
   Tables and constants come from Gen (re-extracted each run); the KPK verdict is the bitbase model of Engine/KPK.v.
   No proofs in this file. *)
From Coq Require Import ZArith NArith List Bool.
From CV Require Import Base.Geom Chess.Rules Engine.KPK Engine.Magic Gen.Consts Gen.EvalConsts.
Import ListNotations.
Local Open Scope Z_scope.

Record egp := { e_stm : color; e_list : color -> kind -> list N }.

Definition cnt (p : egp) (c : color) (k : kind) : Z := Z.of_nat (length (e_list p c k)).
Definition first (p : egp) (c : color) (k : kind) : N := hd 0%N (e_list p c k).
Definition second (p : egp) (c : color) (k : kind) : N := nth 1 (e_list p c k) 0%N.
Definition no_nonpawns (p : egp) (c : color) : Z := cnt p c Knight + cnt p c Bishop + cnt p c Rook + cnt p c Queen.
Definition all_of (p : egp) (c : color) : list N :=
  e_list p c Pawn ++ e_list p c Knight ++ e_list p c Bishop ++ e_list p c Rook ++ e_list p c Queen ++ e_list p c King.
Definition occupancy (p : egp) : N := fold_left (fun acc s => N.lor acc (N.shiftl 1 s)) (all_of p White ++ all_of p Black) 0%N.

Definition pv (k : kind) : Z :=
  nth (match k with Pawn => 1 | Knight => 2 | Bishop => 3 | Rook => 4 | Queen => 5 | King => 6 end) piece_value_eg 0.
Definition tab (t : list Z) (i : Z) : Z := nth (Z.to_nat i) t 0.
Definition edge (s : N) : Z := tab push_to_edge (Z.of_N s).
Definition corner (s : N) : Z := tab push_to_color_corner (Z.of_N s).
Definition close (d : Z) : Z := tab push_close d.

Definition norm (s : N) (strong : color) : N := match strong with White => s | Black => flip_v s end.
Definition sq_white (s : N) : bool := Z.odd (rank_of s + file_of s).      (* sq_color(s) == WHITE *)
Definition min_sq (l : list N) : N := fold_left N.min l 64%N.            (* lsb of the bitboard *)
Definition max_sq (l : list N) : N := fold_left N.max l 0%N.             (* msb *)
Definition most_advanced (l : list N) (side : color) : N := match side with White => max_sq l | Black => min_sq l end.
Definition all_on_file (l : list N) (f : Z) : bool := forallb (fun s => file_of s =? f) l.
Definition same_file (l : list N) : bool := existsb (fun f => all_on_file l f) [0; 1; 2; 3; 4; 5; 6; 7].
Definition capped (v : Z) : Z := Z.min (VALUE_KNOWN_WIN + v) (VALUE_MATE - 1).

Inductive egtype := KPK | KPsK | KRKB | KRKN | KNNK | KNNKP | KQKR | KNBK | KRNKR | KRBKR | KBPsK | KBPsKB | KRKP | KQKP | KQKRPs | KmmKm | KXK.

(* registration order of endgame::init() *)
Definition registry : list egtype := [KPK; KPsK; KRKB; KRKN; KNNK; KNNKP; KQKR; KNBK; KRNKR; KRBKR; KBPsK; KBPsKB; KRKP; KQKP; KQKRPs; KmmKm; KXK].

(* piece counts (P N B R Q) of the strong and the weak side for the classes that compare the piece-count vector *)
Definition pcv_of (t : egtype) : option (list Z * list Z) :=
  match t with
  | KPK => Some ([1; 0; 0; 0; 0], [0; 0; 0; 0; 0])
  | KNBK => Some ([0; 1; 1; 0; 0], [0; 0; 0; 0; 0])
  | KQKR => Some ([0; 0; 0; 0; 1], [0; 0; 0; 1; 0])
  | KRNKR => Some ([0; 1; 0; 1; 0], [0; 0; 0; 1; 0])
  | KRBKR => Some ([0; 0; 1; 1; 0], [0; 0; 0; 1; 0])
  | KQKP => Some ([0; 0; 0; 0; 1], [1; 0; 0; 0; 0])
  | KRKP => Some ([0; 0; 0; 1; 0], [1; 0; 0; 0; 0])
  | KNNK => Some ([0; 2; 0; 0; 0], [0; 0; 0; 0; 0])
  | KNNKP => Some ([0; 2; 0; 0; 0], [1; 0; 0; 0; 0])
  | KRKB => Some ([0; 0; 0; 1; 0], [0; 0; 1; 0; 0])
  | KRKN => Some ([0; 0; 0; 1; 0], [0; 1; 0; 0; 0])
  | _ => None
  end.
Definition counts (p : egp) (c : color) : list Z := [cnt p c Pawn; cnt p c Knight; cnt p c Bishop; cnt p c Rook; cnt p c Queen].
Definition zlist_eqb (a b : list Z) : bool := (length a =? length b)%nat && forallb (fun xy => fst xy =? snd xy) (combine a b).

Definition applies (t : egtype) (strong : color) (p : egp) : bool :=
  let weak := opp strong in
  match pcv_of t with
  | Some (s, w) => zlist_eqb (counts p strong) s && zlist_eqb (counts p weak) w
  | None =>
    match t with
    | KPsK => (no_nonpawns p strong =? 0) && (2 <=? cnt p strong Pawn) && (no_nonpawns p weak =? 0) && (cnt p weak Pawn =? 0)
    | KXK => (no_nonpawns p weak =? 0) && (cnt p weak Pawn =? 0)
    | KBPsK => (cnt p strong Bishop =? 1) && (no_nonpawns p strong =? 1) && (0 <? cnt p strong Pawn)
               && (no_nonpawns p weak =? 0) && (cnt p weak Pawn =? 0)
    | KBPsKB => (cnt p strong Bishop =? 1) && (cnt p weak Bishop =? 1) && (1 <=? cnt p strong Pawn) && (cnt p weak Pawn =? 0)
                && (no_nonpawns p strong =? 1) && (no_nonpawns p weak =? 1)
    | KQKRPs => (cnt p strong Queen =? 1) && (cnt p weak Rook =? 1) && (cnt p strong Pawn =? 0) && (1 <=? cnt p weak Pawn)
                && (no_nonpawns p strong =? 1) && (no_nonpawns p weak =? 1)
    | KmmKm => (cnt p strong Knight + cnt p strong Bishop =? 2) && (cnt p weak Knight + cnt p weak Bishop =? 1)
               && (cnt p strong Pawn =? 0) && (cnt p weak Pawn =? 0) && (no_nonpawns p strong =? 2) && (no_nonpawns p weak =? 1)
    | _ => false
    end
  end.

Section Score.
  Variable word : N -> N.        (* BITBASE words *)

  Definition pawn_attacked_by (pawns : list N) (side : color) (target : N) : bool :=
    existsb (fun s => (rank_of target =? rank_of s + pawn_dir side) && (Z.abs (file_of target - file_of s) =? 1)) pawns.

  Definition strong_score (t : egtype) (strong : color) (p : egp) : Z :=
    let weak := opp strong in
    let sk := first p strong King in
    let wk := first p weak King in
    match t with
    | KPK =>
      let pawn := first p strong Pawn in
      let btm := negb (color_eqb (e_stm p) strong) in        (* weak side to move *)
      let won := match strong with
                 | White => engine_W word {| k_btm := btm; k_wk := sk; k_wp := pawn; k_bk := wk |}
                 | Black => engine_W_black word btm sk pawn wk
                 end in
      (if won then VALUE_KNOWN_WIN else VALUE_POSITIVE_DRAW) + rank_of (norm pawn strong)
    | KPsK =>
      let pawns := e_list p strong Pawn in
      let pf := file_of (min_sq pawns) in
      let qsq := norm (sq_of pf 7) strong in
      if (all_on_file pawns 0 || all_on_file pawns 7) && (cheb wk qsq <=? 1) then VALUE_POSITIVE_DRAW
      else VALUE_KNOWN_WIN + pv Pawn * cnt p strong Pawn + rank_of (norm (most_advanced pawns strong) strong)
    | KNBK =>
      let b := first p strong Bishop in
      capped (corner (if sq_white b then flip_v wk else wk))
    | KQKR => capped (pv Queen - pv Rook + edge wk + close (cheb sk wk))
    | KXK => capped (pv Pawn * cnt p strong Pawn + pv Knight * cnt p strong Knight + pv Bishop * cnt p strong Bishop
                     + pv Rook * cnt p strong Rook + pv Queen * cnt p strong Queen + edge wk + close (cheb sk wk))
    | KRNKR | KRBKR => VALUE_POSITIVE_DRAW + edge wk
    | KBPsK =>
      let pawns := e_list p strong Pawn in
      let pf := file_of (min_sq pawns) in
      let qsq := norm (sq_of pf 7) strong in
      let b := first p strong Bishop in
      if (all_on_file pawns 0 || all_on_file pawns 7) && negb (Bool.eqb (sq_white qsq) (sq_white b)) && (cheb wk qsq <=? 1)
      then VALUE_POSITIVE_DRAW
      else VALUE_KNOWN_WIN + pv Pawn * cnt p strong Pawn + pv Bishop + rank_of (norm (most_advanced pawns strong) strong)
    | KQKP =>
      let skn := norm sk strong in let wkn := norm wk strong in
      let pn := norm (first p weak Pawn) strong in
      let qsq := sq_of (file_of pn) 0 in
      let f := file_of (first p weak Pawn) in
      if (rank_of pn =? 1) && ((f =? 0) || (f =? 2) || (f =? 5) || (f =? 7)) && (cheb wkn qsq <=? 1)
      then VALUE_POSITIVE_DRAW + close (cheb skn pn)
      else VALUE_KNOWN_WIN + close (cheb skn pn)
    | KRKP =>
      let skn := norm sk strong in let wkn := norm wk strong in
      let pn := norm (first p weak Pawn) strong in
      let qsq := sq_of (file_of pn) 0 in
      if (rank_of skn <? rank_of pn) && (Z.abs (file_of skn - file_of pn) <=? 1) then VALUE_KNOWN_WIN + close (cheb skn pn)
      else if (rank_of pn <? 4) && (cheb wkn pn <=? 1) && (2 <? cheb skn pn) then VALUE_POSITIVE_DRAW + rank_of pn
      else pv Rook - pv Pawn - close (cheb pn qsq)
    | KNNK => VALUE_DRAW
    | KNNKP =>
      let skn := norm sk strong in let wkn := norm wk strong in
      let pn := norm (first p weak Pawn) strong in
      let n1 := norm (first p strong Knight) strong in let n2 := norm (second p strong Knight) strong in
      pv Pawn + 5 * close (cheb skn wkn) + 5 * close (cheb n1 wkn) + 5 * close (cheb n2 wkn) + edge wkn + 30 * rank_of pn
    | KBPsKB =>
      let pawns := e_list p strong Pawn in
      let np := cnt p strong Pawn in
      let fp := norm (most_advanced pawns strong) strong in
      let wkn := norm wk strong in
      let sb := norm (first p strong Bishop) strong in
      let wb := norm (first p weak Bishop) strong in
      let dflt := np * pv Pawn + 10 * rank_of fp in
      let drawish := VALUE_POSITIVE_DRAW + 10 * np + 2 * rank_of fp in
      if same_file pawns then
        if (file_of wkn =? file_of fp) && (rank_of fp <? rank_of wkn) && negb (Bool.eqb (sq_white wkn) (sq_white sb)) then drawish else dflt
      else if negb (Bool.eqb (sq_white sb) (sq_white wkn)) then
        let file1 := file_of fp in
        let file2 := fold_left (fun acc s => if file_of s =? file1 then acc else file_of s) pawns file1 in
        let nfiles := Z.of_nat (length (filter (fun f => existsb (fun s => file_of s =? f) pawns) [0; 1; 2; 3; 4; 5; 6; 7])) in
        if nfiles =? 2 then
          let on2 := filter (fun s => file_of s =? file2) pawns in
          let on1 := filter (fun s => file_of s =? file1) pawns in
          let fp2 := norm (most_advanced on2 strong) strong in
          if (Z.abs (file1 - file2) =? 1) && (Z.of_nat (length on1) <=? 1) && (rank_of fp2 <? rank_of fp)
             && Bool.eqb (sq_white fp) (sq_white sb) then
            let block1 := sq_of file1 (rank_of fp + 1) in
            let block2 := sq_of file2 (rank_of fp) in
            let attacks (target : N) : bool :=
              N.testbit (bishop_spec (occupancy p) (norm wb strong)) (norm target strong) in
            if (wkn =? block1)%N && ((wb =? block2)%N || attacks block2) then drawish
            else if (wkn =? block2)%N && ((wb =? block1)%N || attacks block1) then drawish
            else dflt
          else dflt
        else dflt
      else dflt
    | KRKB => VALUE_POSITIVE_DRAW + edge (norm wk strong)
    | KRKN => let wkn := norm wk strong in VALUE_POSITIVE_DRAW + edge wkn + 10 * cheb wkn (norm (first p weak Knight) strong)
    | KQKRPs =>
      let pawns := e_list p weak Pawn in
      let r := first p weak Rook in
      if pawn_attacked_by pawns weak r && existsb (fun s => cheb s wk =? 1) pawns
      then VALUE_POSITIVE_DRAW + 10 * rank_of (norm (most_advanced pawns weak) strong)
      else pv Queen - pv Rook - cnt p weak Pawn * pv Pawn
    | KmmKm =>
      if negb ((cnt p strong Bishop =? 2) && (cnt p weak Knight =? 1)) then VALUE_POSITIVE_DRAW
      else if negb (Bool.eqb (sq_white (first p strong Bishop)) (sq_white (second p strong Bishop)))
           then 2 * pv Bishop - pv Knight else VALUE_POSITIVE_DRAW
    end.

  (* endgame::score: first applicable entry of the registry (White as strong side before Black); None = VALUE_NONE *)
  Definition eg_find (p : egp) : option (egtype * color) :=
    find (fun tc => applies (fst tc) (snd tc) p) (flat_map (fun t => [(t, White); (t, Black)]) registry).

  Definition eg_score (p : egp) : option Z :=
    match eg_find p with
    | None => None
    | Some (t, strong) => let v := strong_score t strong p in Some (if color_eqb (e_stm p) strong then v else - v)
    end.
End Score.

(* the engine's piece lists for a position loaded from a FEN: squares in the order the FEN is scanned
   (rank 8 first, files a..h) *)
Definition fen_order : list N :=
  flat_map (fun r => map (fun f => N.of_nat (8 * r + f)) (seq 0 8)) (rev (seq 0 8)).
Definition egp_of_position (q : position) : egp :=
  {| e_stm := stm q;
     e_list := fun c k => filter (fun s => is_piece (brd q) s c k) fen_order |}.
