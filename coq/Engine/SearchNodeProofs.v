(* C05: every principal variation assembled by the node recursion is a legal line, for ALL oracles. *)
From Coq Require Import List Arith Bool Lia.
From CV Require Import Chess.Rules Engine.SearchNode.
Import ListNotations.

Section Proofs.
  Variable orc : nat -> nat.
  Variable gen : position -> nat -> list move.
  Hypothesis gen_legal : forall p ply m, In m (gen p ply) -> legal p m = true.

  Notation move_loop := (move_loop orc).
  Notation qsearch := (qsearch orc gen).
  Notation search := (search orc gen).

  Lemma upd_same s i l : upd s i l i = l.
  Proof. unfold upd. rewrite Nat.eqb_refl. reflexivity. Qed.
  Lemma upd_other s i l j : j <> i -> upd s i l j = s j.
  Proof. intro H. unfold upd. destruct (Nat.eqb j i) eqn:E; [apply Nat.eqb_eq in E; congruence|reflexivity]. Qed.

  (* what a call at [ply] on [pos] guarantees: its slot holds a legal line from pos; lower slots are untouched *)
  Definition call_ok (f : position -> nat -> state -> state) : Prop :=
    forall pos ply st, legal_line pos (fst (f pos ply st) ply) = true /\ (forall j, j < ply -> fst (f pos ply st) j = fst st j).

  Lemma opt_call f q ply (st : state) (b : bool) (s0 : slots) :
    call_ok f ->
    legal_line q (fst st (S ply)) = true -> (forall j, j <= ply -> fst st j = s0 j) ->
    let st' := if b then f q (S ply) (fst st, S (snd st)) else (fst st, S (snd st)) in
    legal_line q (fst st' (S ply)) = true /\ (forall j, j <= ply -> fst st' j = s0 j).
  Proof.
    intros Hf Hl Hfr. destruct b; cbn.
    - destruct (Hf q (S ply) (fst st, S (snd st))) as [A B]. split; [exact A|].
      intros j Hj. rewrite B by lia. cbn. apply Hfr. exact Hj.
    - split; assumption.
  Qed.

  Lemma move_loop_ok child pos ply : call_ok child ->
    forall ms st found, (forall m, In m ms -> legal pos m = true) -> legal_line pos (fst st ply) = true ->
      legal_line pos (fst (fst (move_loop child pos ply ms st found)) ply) = true /\
      (forall j, j < ply -> fst (fst (move_loop child pos ply ms st found)) j = fst st j).
  Proof.
    intros Hc. induction ms as [|m rest IH]; intros st found Hms Hl; cbn [SearchNode.move_loop].
    - split; [exact Hl|reflexivity].
    - destruct st as [s c]. destruct (bit orc c).
      + destruct (IH (s, S c) found) as [A B]; [intros; apply Hms; right; assumption|exact Hl|]. split; assumption.
      + cbv zeta. remember (make_move pos m) as q eqn:Eq.
        match goal with |- context [child q (S ply) ?x] => remember (child q (S ply) x) as st1 eqn:E1 end.
        assert (H1 : legal_line q (fst st1 (S ply)) = true /\ (forall j, j <= ply -> fst st1 j = s j)).
        { rewrite E1. match goal with |- context [child q (S ply) ?x] => destruct (Hc q (S ply) x) as [A B] end.
          split; [exact A|]. intros j Hj. apply B. lia. }
        destruct H1 as [L1 F1].
        pose proof (opt_call child q ply st1 (bit orc (snd st1)) s Hc L1 F1) as H2. cbv zeta in H2.
        match goal with |- context [if bit orc (snd st1) then ?a else ?b] => remember (if bit orc (snd st1) then a else b) as st2 eqn:E2 end.
        destruct H2 as [L2 F2].
        pose proof (opt_call child q ply st2 (bit orc (snd st2)) s Hc L2 F2) as H3. cbv zeta in H3.
        match goal with |- context [if bit orc (snd st2) then ?a else ?b] => remember (if bit orc (snd st2) then a else b) as st3 eqn:E3 end.
        destruct H3 as [L3 F3]. clear E1 E2 E3. destruct st3 as [s3 c3]. cbn [fst snd] in *.
        assert (Hm : legal pos m = true) by (apply Hms; left; reflexivity).
        assert (Hrest : forall m', In m' rest -> legal pos m' = true) by (intros; apply Hms; right; assumption).
        destruct (bit orc c3).
        * assert (L4 : legal_line pos (upd s3 ply (m :: s3 (S ply)) ply) = true).
          { rewrite upd_same. cbn [legal_line]. rewrite Hm, <- Eq. cbn [andb]. exact L3. }
          assert (F4 : forall j, j < ply -> upd s3 ply (m :: s3 (S ply)) j = s j).
          { intros j Hj. rewrite upd_other by lia. apply F3. lia. }
          destruct (bit orc (S c3)).
          -- cbn [fst]. split; [exact L4|exact F4].
          -- destruct (IH (upd s3 ply (m :: s3 (S ply)), S (S c3)) true Hrest L4) as [A B]. split; [exact A|].
             intros j Hj. rewrite B by exact Hj. cbn. apply F4. exact Hj.
        * assert (L4 : legal_line pos (s3 ply) = true) by (rewrite F3 by lia; exact Hl).
          destruct (IH (s3, S c3) found Hrest L4) as [A B]. split; [exact A|].
          intros j Hj. rewrite B by exact Hj. cbn. apply F3. lia.
  Qed.

  Lemma gen_all_legal p ply : forall m, In m (gen p ply) -> legal p m = true.
  Proof. intros m H. eapply gen_legal. exact H. Qed.

  Theorem qsearch_ok fuel : call_ok (qsearch fuel).
  Proof.
    induction fuel as [|f IH]; intros pos ply [s c]; cbn [SearchNode.qsearch].
    - cbn. rewrite upd_same. split; [reflexivity|]. intros j Hj. apply upd_other. lia.
    - destruct (bit orc c).
      + cbn. rewrite upd_same. split; [reflexivity|]. intros j Hj. apply upd_other. lia.
      + destruct (move_loop_ok (qsearch f) pos ply IH (gen pos ply) (upd s ply [], S c) false (gen_all_legal pos ply)) as [A B].
        * cbn. rewrite upd_same. reflexivity.
        * split; [exact A|]. intros j Hj. rewrite B by exact Hj. cbn. apply upd_other. lia.
  Qed.

  Theorem search_ok fuel : call_ok (search fuel).
  Proof.
    induction fuel as [|f IH]; intros pos ply [s c]; cbn [SearchNode.search].
    - cbn. rewrite upd_same. split; [reflexivity|]. intros j Hj. apply upd_other. lia.
    - assert (E0 : legal_line pos (upd s ply [] ply) = true) by (rewrite upd_same; reflexivity).
      assert (F0 : forall j, j < ply -> upd s ply [] j = s j) by (intros j Hj; apply upd_other; lia).
      destruct (bit orc c); [cbn; split; assumption|].
      destruct (gen pos ply) as [|m0 ms0] eqn:Eg; [cbn; split; assumption|].
      destruct (bit orc (S c)); [cbn; split; assumption|].
      destruct (bit orc (S (S c))).
      { destruct (qsearch_ok f pos ply (upd s ply [], S (S (S c)))) as [A B]. split; [exact A|].
        intros j Hj. rewrite B by exact Hj. cbn. apply F0. exact Hj. }
      (* internal iterative deepening *)
      set (st1 := if bit orc (S (S (S c))) then search f pos ply (upd s ply [], S (S (S (S c)))) else (upd s ply [], S (S (S (S c))))).
      assert (H1 : legal_line pos (fst st1 ply) = true /\ (forall j, j < ply -> fst st1 j = s j)).
      { unfold st1. destruct (bit orc (S (S (S c)))).
        - destruct (IH pos ply (upd s ply [], S (S (S (S c))))) as [A B]. split; [exact A|].
          intros j Hj. rewrite B by exact Hj. cbn. apply F0. exact Hj.
        - cbn. split; assumption. }
      destruct H1 as [L1 F1]. destruct st1 as [s1 c1]. cbn [fst snd] in *.
      assert (Hleg : forall m, In m (m0 :: ms0) -> legal pos m = true) by (rewrite <- Eg; apply gen_all_legal).
      (* transposition table *)
      assert (Hmain : forall (dummy : unit),
        let c2 := S (S c1) in
        let '(st3, ret) :=
            if bit orc c2 then
              let st' := search f (null_pos pos) (S ply) (s1, S c2) in
              if bit orc (snd st') then ((fst st', S (snd st')), true)
              else if bit orc (S (snd st')) then
                     let st'' := search f pos (S ply) (fst st', S (S (snd st'))) in
                     ((fst st'', S (snd st'')), bit orc (snd st''))
                   else ((fst st', S (S (snd st'))), false)
            else ((s1, S c2), false) in
        let r := if ret then st3
                 else let '(st4, found) := move_loop (search f) pos ply (m0 :: ms0) st3 false in
                      if found then st4 else (upd (fst st4) ply [m0], snd st4) in
        legal_line pos (fst r ply) = true /\ (forall j, j < ply -> fst r j = s j)).
      { intros _. cbv zeta.
        (* null move: slots <= ply are untouched *)
        assert (Hnull : forall st3 ret,
                   (if bit orc (S (S c1)) then
                      let st' := search f (null_pos pos) (S ply) (s1, S (S (S c1))) in
                      if bit orc (snd st') then ((fst st', S (snd st')), true)
                      else if bit orc (S (snd st')) then
                             let st'' := search f pos (S ply) (fst st', S (S (snd st'))) in
                             ((fst st'', S (snd st'')), bit orc (snd st''))
                           else ((fst st', S (S (snd st'))), false)
                    else ((s1, S (S (S c1))), false)) = (st3, ret) ->
                   forall j, j <= ply -> fst st3 j = s1 j).
        { intros st3 ret E j Hj. destruct (bit orc (S (S c1))).
          - cbv zeta in E.
            destruct (IH (null_pos pos) (S ply) (s1, S (S (S c1)))) as [_ B1].
            set (st' := search f (null_pos pos) (S ply) (s1, S (S (S c1)))) in *.
            destruct (bit orc (snd st')).
            + injection E as <- _. cbn. apply B1. lia.
            + destruct (bit orc (S (snd st'))).
              * destruct (IH pos (S ply) (fst st', S (S (snd st')))) as [_ B2].
                injection E as <- _. cbn. rewrite B2 by lia. cbn. apply B1. lia.
              * injection E as <- _. cbn. apply B1. lia.
          - injection E as <- _. reflexivity. }
        destruct (if bit orc (S (S c1)) then _ else _) as [st3 ret] eqn:E3.
        pose proof (Hnull st3 ret eq_refl) as F3.
        assert (L3 : legal_line pos (fst st3 ply) = true) by (rewrite F3 by lia; exact L1).
        destruct ret.
        - split; [exact L3|]. intros j Hj. rewrite F3 by lia. apply F1. exact Hj.
        - destruct (move_loop_ok (search f) pos ply IH (m0 :: ms0) st3 false Hleg L3) as [A B].
          destruct (move_loop (search f) pos ply (m0 :: ms0) st3 false) as [st4 found]. cbn [fst snd] in *.
          destruct found.
          + split; [exact A|]. intros j Hj. rewrite B by exact Hj. rewrite F3 by lia. apply F1. exact Hj.
          + cbn [fst]. rewrite upd_same. split.
            * cbn [legal_line]. rewrite (Hleg m0 (or_introl eq_refl)). reflexivity.
            * intros j Hj. rewrite upd_other by lia. rewrite B by exact Hj. rewrite F3 by lia. apply F1. exact Hj. }
      specialize (Hmain tt). cbv zeta in Hmain. cbv zeta.
      match type of Hmain with (let '(_, _) := ?X in _) => destruct X as [st3 ret] end.
      assert (Hm : legal_line pos (fst (match (st3, ret) with
                                         | (st3, true) => st3
                                         | (st3, false) => match move_loop (search f) pos ply (m0 :: ms0) st3 false with
                                                           | (st4, true) => st4
                                                           | (st4, false) => (upd (fst st4) ply [m0], snd st4)
                                                           end
                                         end) ply) = true /\
                   (forall j, j < ply -> fst (match (st3, ret) with
                                         | (st3, true) => st3
                                         | (st3, false) => match move_loop (search f) pos ply (m0 :: ms0) st3 false with
                                                           | (st4, true) => st4
                                                           | (st4, false) => (upd (fst st4) ply [m0], snd st4)
                                                           end
                                         end) j = s j)) by (destruct ret; exact Hmain).
      clear Hmain.
      destruct (Nat.modulo (orc c1) 3) as [|[|[|n]]]; try exact Hm.
      + (* exact entry *)
        destruct (nth_error (m0 :: ms0) (orc (S c1))) as [tm|] eqn:En; [|exact Hm].
        cbn [fst]. rewrite upd_same. split.
        * cbn [legal_line]. rewrite (Hleg tm (nth_error_In _ _ En)). reflexivity.
        * intros j Hj. rewrite upd_other by lia. apply F1. exact Hj.
      + (* bound cut-off *)
        destruct (nth_error (m0 :: ms0) (orc (S c1))); cbn [fst]; (split; [exact L1|exact F1]).
  Qed.

  (* C05: whatever the oracle does, the pv left in the root slot (and in every slot at its node's exit) is a legal line *)
  Corollary root_pv_legal fuel pos (s : slots) c : legal_line pos (fst (search fuel pos 0 (s, c)) 0) = true.
  Proof. apply search_ok. Qed.
End Proofs.
