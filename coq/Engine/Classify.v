(* Position::move_is_quiet / move_is_capture / move_gives_check as coded (position.cpp), over the
   engine representation.  slider_attack<> is replaced by the ray-walk spec, which is what it equals
   for every square and occupancy by theorem C11. *)
From CV Require Export Engine.RepAbs Engine.Magic.
Local Open Scope N_scope.

Definition color_bb (s : rep) (c : N) : N := nthd (r_color_bb s) c 0.
Definition kind_bb (s : rep) (k : N) : N := nthd (r_kind_bb s) k 0.
Definition pieces_all (s : rep) : N := N.lor (color_bb s 0) (color_bb s 1).
Definition pieces_ck (s : rep) (c k : N) : N := N.land (color_bb s c) (kind_bb s k).
Definition piece_at (s : rep) (sq : N) : N := nthd (r_board s) sq 0.
Definition is_ep_target (s : rep) (sq : N) : bool :=
  match r_ep s with Some e => sq =? e | None => false end.
Definition nonzero (x : N) : bool := negb (x =? 0).

Definition move_is_quiet_alg (s : rep) (m : N) : bool :=
  if negb (mv_castling m =? 0) then true
  else if negb (mv_promotion m =? 0) then false
  else if is_ep_target s (mv_to m) && (pc_kind (piece_at s (mv_from m)) =? PAWN) then false
  else piece_at s (mv_to m) =? 0.

Definition move_is_capture_alg (s : rep) (m : N) : bool :=
  (mv_castling m =? 0) &&
  (negb (piece_at s (mv_to m) =? 0)
   || ((pc_kind (piece_at s (mv_from m)) =? PAWN) && is_ep_target s (mv_to m))).

Definition king_square (s : rep) (c : N) : N := nthd (nthd (r_lists s) (make_piece c KING) []) 0 0.

Definition move_gives_check_alg (s : rep) (m : N) : bool :=
  let us := r_side s in
  let king_sq := king_square s (1 - us) in
  let king_bb := bit king_sq in
  if negb (mv_castling m =? 0) then
    let rank := if us =? 0 then 0 else 7 in
    let ks := negb (N.land (mv_castling m) KING_CASTLING =? 0) in
    let old_king := king_square s us in
    let old_rook := sq_at rank (if ks then 7 else 0) in
    let my_king := sq_at rank (if ks then 6 else 2) in
    let my_rook := sq_at rank (if ks then 5 else 3) in
    let blockers := N.lxor (N.lxor (N.lxor (N.lxor (pieces_all s) (bit old_king)) (bit old_rook)) (bit my_king)) (bit my_rook) in
    nonzero (N.land (rook_spec blockers my_rook) king_bb)
  else
    let from := mv_from m in
    let to := mv_to m in
    let moved := if negb (mv_promotion m =? 0) then mv_promotion m else pc_kind (piece_at s from) in
    let blockers := N.lxor (pieces_all s) (bit from) in
    let direct :=
        if moved =? PAWN then nonzero (N.land (pawn_attacks_alg (us =? 0) (bit to)) king_bb)
        else if moved =? KNIGHT then nonzero (N.land (knight_spec to) king_bb)
        else if moved =? BISHOP then nonzero (N.land (bishop_spec blockers to) king_bb)
        else if moved =? ROOK then nonzero (N.land (rook_spec blockers to) king_bb)
        else if moved =? QUEEN then nonzero (N.land (queen_spec blockers to) king_bb)
        else false in
    let blockers2 := N.lor blockers (bit to) in
    let diag := N.lor (pieces_ck s us BISHOP) (pieces_ck s us QUEEN) in
    let orth := N.lor (pieces_ck s us ROOK) (pieces_ck s us QUEEN) in
    let disc b := nonzero (N.land (bishop_spec b king_sq) diag) || nonzero (N.land (rook_spec b king_sq) orth) in
    direct || disc blockers2 ||
    ((moved =? PAWN) && is_ep_target s to &&
     disc (N.lxor blockers2 (bit (sq_at (from / 8) (to mod 8))))).

(* what actually happens when the move is played (spec, over the rules) *)
Definition captures_spec (p : position) (m : move) : bool := is_capture p m.
Definition quiet_spec (p : position) (m : move) : bool :=
  negb (is_capture p m) && match m with Normal _ _ (Some _) => false | _ => true end.
Definition gives_check_spec (p : position) (m : move) : bool :=
  in_check (move_board p m) (opp (stm p)).
