(* C07: the engine's repetition and fifty-move answers, computed from the KEY history it keeps, equal the rules' answers
   computed from the POSITIONS of the game - for every Zobrist table, every game played from any FEN through well-formed
   states by pseudo-legal moves, provided no two different positions of that game share a 64-bit key (the only way the two
   can differ).  Built on C02 (do_move refines make_move) and C04 (the key is a function of the position). *)
From CV Require Import Engine.PositionRep Engine.EncodingProofs Engine.RepProofs Engine.RepRoundTrip Engine.RepRoundTripNormal
     Engine.RepAbs Engine.RepRefine Engine.RepRefineLegal Engine.KeyScratch Engine.KeyScratchMove Engine.KeyScratchInit
     Chess.History Chess.HistoryKeys Base.NIter.
From Coq Require Import Lia List Bool ZArith.
Import ListNotations.
Local Open Scope N_scope.

Section HR.
  Variable zt : zobrist.

  (* the engine's key as a function of a rules-level position *)
  Definition Kpos (p : position) : N :=
    get_key (position_key zt (map piece_code (brd p)) (color_code (stm p)) (rights_code (rights p)) (ep p)).

  Lemma piece_eqb_eq a b : piece_eqb a b = true -> a = b.
  Proof. destruct a as [[[] []]|], b as [[[] []]|]; cbn; intro H; try discriminate H; reflexivity. Qed.
  Lemma board_eqb_eq a : forall b, board_eqb a b = true -> a = b.
  Proof.
    induction a as [|x a IH]; intros [|y b] H; cbn in H; try discriminate H; [reflexivity|].
    apply andb_prop in H as [H1 H2]. apply piece_eqb_eq in H1. subst y. f_equal. apply IH. exact H2.
  Qed.

  Lemma Kpos_sound p q : same_position p q = true -> Kpos p = Kpos q.
  Proof.
    unfold same_position. intro H. repeat (apply andb_prop in H; destruct H as [H ?]).
    apply board_eqb_eq in H. unfold Kpos. rewrite H.
    assert (Ec : stm p = stm q) by (destruct (stm p), (stm q); cbn in *; congruence).
    assert (Er : rights p = rights q).
    { destruct (rights p) as [a1 a2 a3 a4], (rights q) as [b1 b2 b3 b4]. unfold rights_eqb in *. cbn [wk wq bk bq] in *.
      repeat match goal with K : _ && _ = true |- _ => apply andb_prop in K; destruct K end.
      repeat match goal with K : Bool.eqb _ _ = true |- _ => apply Bool.eqb_prop in K end. subst. reflexivity. }
    assert (Ee : ep p = ep q).
    { destruct (ep p), (ep q); cbn in *; try discriminate; [|reflexivity].
      match goal with K : (_ =? _) = true |- _ => apply N.eqb_eq in K; subst; reflexivity end. }
    rewrite Ec, Er, Ee. reflexivity.
  Qed.

  (* the key of a state is the key of the position it represents *)
  Lemma code_piece_inv x : x < 13 -> piece_code (code_piece x) = x.
  Proof. intro H. apply N13 in H. destruct H as [H|[H|[H|[H|[H|[H|[H|[H|[H|[H|[H|[H|H]]]]]]]]]]]]; subst x; reflexivity. Qed.
  Lemma rights_code_inv cr : cr < 16 -> rights_code (code_rights cr) = cr.
  Proof.
    intro H. assert (K : forallN 16 (fun cr => rights_code (code_rights cr) =? cr) = true) by (vm_compute; reflexivity).
    apply N.eqb_eq. exact (forallN_spec _ _ K cr H).
  Qed.
  Lemma map_code_inv (b : list N) : (forall i, i < 64 -> nthd b i 0 < 13) -> length b = 64%nat -> map piece_code (map code_piece b) = b.
  Proof.
    intros Hc Hl. rewrite map_map. rewrite <- (map_id b) at 2. apply map_ext_in. intros x Hin.
    apply code_piece_inv. apply In_nth with (d := 0) in Hin as [n [Hn E]].
    specialize (Hc (N.of_nat n) ltac:(lia)). unfold nthd in Hc. rewrite Nat2N.id, E in Hc. exact Hc.
  Qed.

  Lemma state_key s : key_inv zt s -> r_side s < 2 -> r_castling s < 16 -> get_key (r_key s) = Kpos (rep_abs s).
  Proof.
    intros Hk Hs Hc. rewrite (key_function_of_position zt s Hk). unfold Kpos. cbn [brd stm rights ep rep_abs].
    destruct Hk as [[Hlen [_ [Hcodes _]]] _].
    rewrite (map_code_inv (r_board s) Hcodes Hlen), (rights_code_inv _ Hc).
    change (if r_side s =? 0 then White else Black) with (col (r_side s)). rewrite (code_col _ Hs). reflexivity.
  Qed.

  (* ---- what do_move does to the history, the side and the rights mask (any state, any move code) ---- *)
  Lemma do_move_hist s m : r_hist (fst (do_move zt s m)) = get_key (r_key (fst (do_move zt s m))) :: r_hist s.
  Proof.
    unfold do_move. cbv zeta.
    destruct (negb (mv_castling m =? 0)); [destruct (mv_castling m =? KING_CASTLING); reflexivity|].
    destruct ((pc_kind (nthd (r_board (set_meta s (1 - r_side s) (r_hmc s) (r_ply s + 1)%Z (r_castling s) (r_ep s) (key_set_ep zt (flip_side zt (r_key s)) None) (r_hist s))) (mv_from m) 0) =? PAWN) &&
              match r_ep s with Some e => mv_to m =? e | None => false end); [reflexivity|].
    destruct (negb (nthd (r_board (set_meta s (1 - r_side s) (r_hmc s) (r_ply s + 1)%Z (r_castling s) (r_ep s) (key_set_ep zt (flip_side zt (r_key s)) None) (r_hist s))) (mv_to m) 0 =? 0));
      destruct (negb (mv_promotion m =? 0)); reflexivity.
  Qed.

  Lemma do_move_side s m : r_side (fst (do_move zt s m)) = 1 - r_side s.
  Proof.
    unfold do_move. cbv zeta.
    destruct (negb (mv_castling m =? 0)); [destruct (mv_castling m =? KING_CASTLING); reflexivity|].
    destruct ((pc_kind (nthd (r_board (set_meta s (1 - r_side s) (r_hmc s) (r_ply s + 1)%Z (r_castling s) (r_ep s) (key_set_ep zt (flip_side zt (r_key s)) None) (r_hist s))) (mv_from m) 0) =? PAWN) &&
              match r_ep s with Some e => mv_to m =? e | None => false end); [reflexivity|].
    destruct (negb (nthd (r_board (set_meta s (1 - r_side s) (r_hmc s) (r_ply s + 1)%Z (r_castling s) (r_ep s) (key_set_ep zt (flip_side zt (r_key s)) None) (r_hist s))) (mv_to m) 0 =? 0));
      destruct (negb (mv_promotion m =? 0)); reflexivity.
  Qed.

  Lemma land_lt16 a b : a < 16 -> N.land a b < 16.
  Proof.
    intro H. destruct (N.eq_dec (N.land a b) 0) as [E|E]; [rewrite E; lia|].
    change 16 with (2 ^ 4). apply N.log2_lt_pow2; [lia|].
    pose proof (N.log2_land a b) as L. destruct (N.eq_dec a 0) as [Ea|Ea]; [subst a; rewrite N.land_0_l in E; contradiction|].
    assert (N.log2 a < 4) by (apply N.log2_lt_pow2; [lia|exact H]). lia.
  Qed.

  Lemma do_move_castling_lt16 s m : r_castling s < 16 -> r_castling (fst (do_move zt s m)) < 16.
  Proof.
    intro H. unfold do_move. cbv zeta.
    destruct (negb (mv_castling m =? 0)); [destruct (mv_castling m =? KING_CASTLING); cbn [fst set_meta r_castling]; apply land_lt16; exact H|].
    destruct ((pc_kind (nthd (r_board (set_meta s (1 - r_side s) (r_hmc s) (r_ply s + 1)%Z (r_castling s) (r_ep s) (key_set_ep zt (flip_side zt (r_key s)) None) (r_hist s))) (mv_from m) 0) =? PAWN) &&
              match r_ep s with Some e => mv_to m =? e | None => false end); [cbn [fst set_meta r_castling]; exact H|].
    cbn [fst set_meta r_castling].
    repeat match goal with |- context [if ?c then N.land _ _ else _] => destruct c end; repeat apply land_lt16; exact H.
  Qed.

  (* ---- the history invariant: the key history of the state is the list of keys of the positions of the game ---- *)
  Definition hist_rel (s : rep) (h : list position) : Prop :=
    match h with
    | [] => False
    | p :: _ => p = rep_abs s /\ r_hist s = map Kpos h /\ key_inv zt s /\ r_side s < 2 /\ r_castling s < 16
    end.

  Lemma hist_rel_init (p : position) : length (brd p) = 64%nat ->
    hist_rel (rep_of_position zt p) [rep_abs (rep_of_position zt p)].
  Proof.
    intro Hl. pose proof (rep_of_position_key_inv zt p Hl) as Hk.
    assert (Hs : r_side (rep_of_position zt p) < 2).
    { unfold rep_of_position. cbv zeta. destruct (fold_left _ fen_order _) as [[ls kb] cb]. cbn [set_meta r_side]. destruct (stm p); cbn; lia. }
    assert (Hc : r_castling (rep_of_position zt p) < 16).
    { unfold rep_of_position. cbv zeta. destruct (fold_left _ fen_order _) as [[ls kb] cb]. cbn [set_meta r_castling].
      unfold rights_code. destruct (rights p) as [[] [] [] []]; cbn; lia. }
    cbn [hist_rel]. split; [reflexivity|]. split; [|split; [exact Hk|split; assumption]].
    cbn [map]. rewrite <- (state_key _ Hk Hs Hc).
    unfold rep_of_position. cbv zeta. destruct (fold_left _ fen_order _) as [[ls kb] cb]. reflexivity.
  Qed.

  Lemma hist_rel_step s h m : hist_rel s h -> rep_ok s -> pseudo_legal (rep_abs s) m = true ->
    hist_rel (fst (do_move zt s (enc m))) (make_move (rep_abs s) m :: h).
  Proof.
    destruct h as [|p earlier]; [intros []|]. intros [Hp [Hh [Hk [Hs Hc]]]] Hok Hpl.
    pose proof (do_move_key_inv zt s m Hok Hk Hpl) as Hk'.
    pose proof (do_move_refines zt s m Hok Hpl) as Hr.
    assert (Hs' : r_side (fst (do_move zt s (enc m))) < 2) by (rewrite do_move_side; lia).
    pose proof (do_move_castling_lt16 s (enc m) Hc) as Hc'.
    cbn [hist_rel]. split; [symmetry; exact Hr|]. split; [|split; [exact Hk'|split; assumption]].
    rewrite do_move_hist, Hh. cbn [map]. f_equal. rewrite (state_key _ Hk' Hs' Hc'), Hr. reflexivity.
  Qed.

  (* ---- C07: the engine's repetition / fifty-move answers are the rules' answers on the game history ---- *)
  Theorem repetition_answers_agree s p earlier :
    hist_rel s (p :: earlier) -> no_collision Kpos p earlier ->
    is_repeated s = occurred_before (p :: earlier) /\
    threefold s = occurred_three_times (p :: earlier) /\
    rule50 s = fifty_moves p.
  Proof.
    intros [Hp [Hh [Hk [Hs Hc]]]] Hnc.
    assert (Hkey : get_key (r_key s) = Kpos p) by (rewrite Hp; apply state_key; assumption).
    unfold is_repeated, threefold, count_key. rewrite Hh. cbn [map tl]. rewrite Hkey.
    split; [apply (repeated_by_keys Kpos Kpos_sound); exact Hnc|].
    split; [apply (threefold_by_keys Kpos Kpos_sound); exact Hnc|].
    unfold rule50, fifty_moves. rewrite Hp. cbn [clock rep_abs].
    destruct (100 <=? r_hmc s) eqn:E; symmetry; [apply Z.leb_le; apply N.leb_le in E; lia|apply Z.leb_gt; apply N.leb_gt in E; lia].
  Qed.

  (* along a whole game: the history invariant follows the rules-level history *)
  Theorem hist_rel_along_line ms : forall s h, hist_rel s h -> line_ok zt s ms -> hist_rel (play_rep zt s ms) (play_history h ms).
  Proof.
    induction ms as [|m r IH]; intros s h H L; [destruct h; exact H|].
    destruct L as [Hok [Hpl Hr]]. destruct h as [|p earlier]; [destruct H|].
    cbn [play_rep play_history]. apply IH; [|exact Hr].
    assert (Ep : p = rep_abs s) by (destruct H as [E _]; exact E). rewrite Ep.
    apply hist_rel_step; [rewrite <- Ep; exact H|exact Hok|exact Hpl].
  Qed.

  Corollary game_repetition_answers (p0 : position) (ms : list move) :
    length (brd p0) = 64%nat -> line_ok zt (rep_of_position zt p0) ms ->
    let s := play_rep zt (rep_of_position zt p0) ms in
    match play_history [rep_abs (rep_of_position zt p0)] ms with
    | p :: earlier =>
      no_collision Kpos p earlier ->
      is_repeated s = occurred_before (p :: earlier) /\ threefold s = occurred_three_times (p :: earlier) /\ rule50 s = fifty_moves p
    | [] => False
    end.
  Proof.
    intros Hl L s. pose proof (hist_rel_along_line ms _ _ (hist_rel_init p0 Hl) L) as H. fold s in H.
    destruct (play_history [rep_abs (rep_of_position zt p0)] ms) as [|p earlier]; [exact H|].
    intro Hnc. apply repetition_answers_agree; assumption.
  Qed.
End HR.
