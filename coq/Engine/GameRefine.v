(* Game-level refinement without per-state hypotheses: from every position that satisfies the game invariant, along EVERY legal line
   (while the 8-bit half-move counter does not wrap), the engine's representation keeps its invariants, represents exactly the position
   the rules give, carries the key that is the closed function of that position, and a key history equal to the keys of the positions of
   the game. *)
From CV Require Import Chess.Rules Chess.History Chess.HistoryKeys Chess.ValidStep Chess.GameInv Engine.PositionRep Engine.RepAbs Engine.RepRefine
  Engine.RepRefineLegal Engine.KeyScratch Engine.KeyScratchMove Engine.KeyScratchInit Engine.HistoryRefine Engine.PolyglotProofs Engine.RepProofs Engine.RepRoundTrip Engine.RepRoundTripLegal Engine.Material Engine.UndoInv.
From Coq Require Import List NArith ZArith Lia Bool Permutation.
Import ListNotations.
Local Open Scope N_scope.
Local Strategy expand [count_piece king_sq attacked in_check valid_position].
Ltac Zify.zify_post_hook ::= Z.div_mod_to_equations.

Section WithTables.
  Variable zt : zobrist.

  Definition state_inv (s : rep) : Prop :=
    key_inv zt s /\ game_inv (rep_abs s) /\ r_side s < 2 /\ r_castling s < 16 /\ ply_ok s /\ r_hmc s < 255.

  Lemma state_inv_rep_ok s : state_inv s -> rep_ok s.
  Proof.
    intros [[[Hlen [_ [Hcodes _]]] _] [Hg [Hs [Hc [Hp Hh]]]]].
    destruct Hg as [_ [_ [_ [_ [_ [Hr He]]]]]].
    split; [repeat split; assumption|]. split; [exact Hcodes|]. split; assumption.
  Qed.

  Lemma do_move_ply s m : r_ply (fst (do_move zt s m)) = (r_ply s + 1)%Z.
  Proof.
    unfold do_move. cbv zeta.
    destruct (negb (mv_castling m =? 0)); [destruct (mv_castling m =? KING_CASTLING); reflexivity|].
    destruct ((pc_kind (nthd (r_board (set_meta s (1 - r_side s) (r_hmc s) (r_ply s + 1)%Z (r_castling s) (r_ep s) (key_set_ep zt (flip_side zt (r_key s)) None) (r_hist s))) (mv_from m) 0) =? PAWN) &&
              match r_ep s with Some e => mv_to m =? e | None => false end); [reflexivity|].
    destruct (negb (nthd (r_board (set_meta s (1 - r_side s) (r_hmc s) (r_ply s + 1)%Z (r_castling s) (r_ep s) (key_set_ep zt (flip_side zt (r_key s)) None) (r_hist s))) (mv_to m) 0 =? 0));
      destruct (negb (mv_promotion m =? 0)); reflexivity.
  Qed.

  Lemma ply_ok_step s m : r_side s < 2 -> ply_ok s -> ply_ok (fst (do_move zt s m)).
  Proof.
    intros Hs [F [HF Hp]]. unfold ply_ok. rewrite do_move_ply, do_move_side, Hp.
    assert (r_side s = 0 \/ r_side s = 1) as [E|E] by lia; rewrite E.
    - exists F. split; [exact HF|]. cbn. lia.
    - exists (F + 1)%Z. split; [lia|]. lia.
  Qed.

  Lemma hmc_step s m : rep_ok s -> legal (rep_abs s) m = true -> r_hmc (fst (do_move zt s (enc m))) <= r_hmc s + 1.
  Proof.
    intros Hok Hl. pose proof (do_move_refines_legal zt s m Hok Hl) as R.
    apply (f_equal clock) in R. cbn [clock rep_abs make_move] in R.
    destruct (resets_clock (rep_abs s) m); lia.
  Qed.

  Theorem state_inv_step s m : state_inv s -> legal (rep_abs s) m = true -> r_hmc s < 254 -> state_inv (fst (do_move zt s (enc m))).
  Proof.
    intros Hi Hl Hh. pose proof (state_inv_rep_ok s Hi) as Hok. destruct Hi as [Hk [Hg [Hs [Hc [Hp _]]]]].
    assert (Hpl : pseudo_legal (rep_abs s) m = true) by (unfold legal in Hl; apply andb_prop in Hl as [A _]; exact A).
    split; [apply do_move_key_inv; assumption|].
    split; [rewrite (do_move_refines_legal zt s m Hok Hl); apply game_inv_step; assumption|].
    split; [rewrite do_move_side; lia|]. split; [apply do_move_castling_lt16; exact Hc|].
    split; [apply ply_ok_step; assumption|]. pose proof (hmc_step s m Hok Hl). lia.
  Qed.

  (* along a legal line *)
  Theorem play_refines (ms : list move) : forall s, state_inv s -> legal_line (rep_abs s) ms = true ->
    (N.to_nat (r_hmc s) + length ms < 255)%nat ->
    state_inv (play_rep zt s ms) /\ rep_abs (play_rep zt s ms) = play (rep_abs s) ms /\ line_ok zt s ms.
  Proof.
    induction ms as [|m r IH]; intros s Hi Hl Hlen; [split; [exact Hi|split; [reflexivity|exact I]]|].
    cbn [legal_line] in Hl. apply andb_prop in Hl as [Hm Hr]. cbn [length] in Hlen.
    pose proof (state_inv_rep_ok s Hi) as Hok.
    assert (Hpl : pseudo_legal (rep_abs s) m = true) by (unfold legal in Hm; apply andb_prop in Hm as [A _]; exact A).
    pose proof (do_move_refines_legal zt s m Hok Hm) as R.
    assert (Hi' : state_inv (fst (do_move zt s (enc m)))) by (apply state_inv_step; [assumption|assumption|lia]).
    pose proof (hmc_step s m Hok Hm) as Hh.
    destruct (IH (fst (do_move zt s (enc m))) Hi') as [A [B C]]; [rewrite R; exact Hr|lia|].
    cbn [play_rep play line_ok]. split; [exact A|]. split; [rewrite B, R; reflexivity|]. split; [exact Hok|]. split; [exact Hpl|exact C].
  Qed.

  (* ---- the constructor ---- *)
  Lemma code_rights_code cr : code_rights (rights_code cr) = cr.
  Proof. destruct cr as [[] [] [] []]; reflexivity. Qed.

  Lemma rep_of_position_fields (p : position) :
    let s := rep_of_position zt p in
    r_board s = map piece_code (brd p) /\ r_side s = color_code (stm p) /\ r_hmc s = u8 (Z.to_N (clock p)) /\
    r_ply s = (2 * fullmove p - 1 + (if (color_code (stm p) =? 1)%N then 1 else 0))%Z /\ r_castling s = rights_code (rights p) /\ r_ep s = ep p.
  Proof. unfold rep_of_position. cbv zeta. destruct (fold_left _ fen_order _) as [[ls kb] cb]. cbn. repeat split; reflexivity. Qed.

  Theorem rep_abs_of_position (p : position) : (0 <= clock p < 256)%Z -> rep_abs (rep_of_position zt p) = p.
  Proof.
    intro Hc. destruct (rep_of_position_fields p) as [Hb [Hs [Hh [Hp [Hcr He]]]]]. unfold rep_abs. rewrite Hb, Hs, Hh, Hp, Hcr, He.
    destruct p as [b c r e cl fm]. cbn [brd stm rights ep clock fullmove] in *. f_equal.
    - rewrite map_map. rewrite <- (map_id b) at 2. apply map_ext. intro o. apply code_piece_code.
    - destruct c; reflexivity.
    - apply code_rights_code.
    - unfold u8. rewrite N.mod_small by lia. lia.
    - destruct c; cbn [color_code]; [change (0 =? 1)%N with false|change (1 =? 1)%N with true]; cbv iota; lia.
  Qed.

  Theorem state_inv_init (p : position) : game_inv p -> (0 <= clock p < 255)%Z -> (1 <= fullmove p)%Z -> state_inv (rep_of_position zt p).
  Proof.
    intros Hg Hc Hf. destruct (Hg) as [Hl _]. destruct (rep_of_position_fields p) as [Hb [Hs [Hh [Hp [Hcr He]]]]].
    split; [apply rep_of_position_key_inv; exact Hl|]. split; [rewrite rep_abs_of_position by lia; exact Hg|].
    split; [rewrite Hs; destruct (stm p); cbn; lia|]. split; [rewrite Hcr; unfold rights_code; destruct (rights p) as [[] [] [] []]; cbn; lia|].
    split; [exists (fullmove p); split; [exact Hf|]; rewrite Hp, Hs; destruct (stm p); cbn; lia|].
    rewrite Hh. unfold u8. rewrite N.mod_small by lia. lia.
  Qed.

  (* ---- the game-level statement: any legal position, any legal line ---- *)
  Theorem game_refines (p0 : position) (ms : list move) :
    game_inv p0 -> (0 <= clock p0)%Z -> (1 <= fullmove p0)%Z -> legal_line p0 ms = true -> (clock p0 + Z.of_nat (length ms) < 255)%Z ->
    let s := play_rep zt (rep_of_position zt p0) ms in
    rep_abs s = play p0 ms /\ state_inv s /\
    r_key s = position_key zt (r_board s) (r_side s) (r_castling s) (r_ep s) /\
    hist_rel zt s (play_history [p0] ms).
  Proof.
    intros Hg Hc Hf Hl Hlen s.
    assert (Hc' : (0 <= clock p0 < 255)%Z) by lia.
    pose proof (state_inv_init p0 Hg Hc' Hf) as Hi.
    pose proof (rep_abs_of_position p0 ltac:(lia)) as Ha.
    destruct (rep_of_position_fields p0) as [_ [_ [Hh _]]].
    destruct (play_refines ms (rep_of_position zt p0) Hi) as [A [B C]]; [rewrite Ha; exact Hl| |].
    { rewrite Hh. unfold u8. rewrite N.mod_small by lia. lia. }
    split; [unfold s; rewrite B, Ha; reflexivity|]. split; [exact A|].
    split; [apply key_function_of_position; destruct A as [K _]; exact K|].
    destruct (Hg) as [Hlen64 _]. pose proof (hist_rel_init zt p0 Hlen64) as H0. rewrite Ha in H0.
    exact (hist_rel_along_line zt ms _ _ H0 C).
  Qed.

  (* the same position (placement, side, rights, en-passant square) reached by two legal games has one key and one pawn key *)
  Theorem legal_transpositions_same_key (p1 p2 : position) (ms1 ms2 : list move) :
    game_inv p1 -> (0 <= clock p1)%Z -> (1 <= fullmove p1)%Z -> legal_line p1 ms1 = true -> (clock p1 + Z.of_nat (length ms1) < 255)%Z ->
    game_inv p2 -> (0 <= clock p2)%Z -> (1 <= fullmove p2)%Z -> legal_line p2 ms2 = true -> (clock p2 + Z.of_nat (length ms2) < 255)%Z ->
    same_position (play p1 ms1) (play p2 ms2) = true ->
    let a := play_rep zt (rep_of_position zt p1) ms1 in let b := play_rep zt (rep_of_position zt p2) ms2 in
    get_key (r_key a) = get_key (r_key b) /\ k_pawn (r_key a) = k_pawn (r_key b).
  Proof.
    intros G1 C1 F1 L1 N1 G2 C2 F2 L2 N2 Hsame a b.
    destruct (game_refines p1 ms1 G1 C1 F1 L1 N1) as [Ra [Ia _]]. destruct (game_refines p2 ms2 G2 C2 F2 L2 N2) as [Rb [Ib _]].
    fold a in Ra, Ia. fold b in Rb, Ib.
    destruct Ia as [Ka [_ [Sa [Ca _]]]]. destruct Ib as [Kb [_ [Sb [Cb _]]]].
    split.
    - rewrite (state_key zt a Ka Sa Ca), (state_key zt b Kb Sb Cb), Ra, Rb. apply Kpos_sound. exact Hsame.
    - destruct (Ka) as [[La [_ [Coda [_ [_ [_ [_ [Pa _]]]]]]]] _]. destruct (Kb) as [[Lb [_ [Codb [_ [_ [_ [_ [Pb _]]]]]]]] _].
      rewrite Pa, Pb. rewrite <- (map_code_inv (r_board a) Coda La), <- (map_code_inv (r_board b) Codb Lb).
      change (map code_piece (r_board a)) with (brd (rep_abs a)). change (map code_piece (r_board b)) with (brd (rep_abs b)). rewrite Ra, Rb.
      unfold same_position in Hsame. repeat (apply andb_prop in Hsame; destruct Hsame as [Hsame ?]).
      apply board_eqb_eq in Hsame. rewrite Hsame. reflexivity.
  Qed.

  (* repetition, threefold and fifty-move answers along every legal game *)
  Theorem game_answers (p0 : position) (ms : list move) :
    game_inv p0 -> (0 <= clock p0)%Z -> (1 <= fullmove p0)%Z -> legal_line p0 ms = true -> (clock p0 + Z.of_nat (length ms) < 255)%Z ->
    let s := play_rep zt (rep_of_position zt p0) ms in
    match play_history [p0] ms with
    | [] => False
    | p :: earlier => p = play p0 ms /\ (no_collision (Kpos zt) p earlier ->
        is_repeated s = occurred_before (p :: earlier) /\ threefold s = occurred_three_times (p :: earlier) /\ rule50 s = fifty_moves p)
    end.
  Proof.
    intros Hg Hc Hf Hl Hn s. destruct (game_refines p0 ms Hg Hc Hf Hl Hn) as [Ra [_ [_ Hh]]]. fold s in Ra, Hh.
    destruct (play_history [p0] ms) as [|p earlier]; [exact Hh|].
    split; [destruct Hh as [E _]; rewrite E; exact Ra|]. intro Hno. exact (repetition_answers_agree zt s p earlier Hh Hno).
  Qed.
  (* taking back any legal move at any point of any legal game restores every observable field *)
  Lemma state_inv_key_ok s : state_inv s -> key_ok zt s.
  Proof. intros [[_ [He [Hc _]]] _]. split; [exact Hc|exact He]. Qed.

  Theorem game_undo (p0 : position) (ms : list move) (m : move) :
    game_inv p0 -> (0 <= clock p0)%Z -> (1 <= fullmove p0)%Z -> legal_line p0 ms = true -> (clock p0 + Z.of_nat (length ms) < 255)%Z ->
    legal (play p0 ms) m = true ->
    let s := play_rep zt (rep_of_position zt p0) ms in
    obs (undo_move zt (fst (do_move zt s (enc m))) (enc m) (snd (do_move zt s (enc m)))) = obs s.
  Proof.
    intros Hg Hc Hf Hl Hn Hm s. destruct (game_refines p0 ms Hg Hc Hf Hl Hn) as [Ra [Ia _]]. fold s in Ra, Ia.
    apply undo_do_legal; [apply state_inv_rep_ok; exact Ia|apply state_inv_key_ok; exact Ia|].
    rewrite Ra. unfold legal in Hm. apply andb_prop in Hm as [A _]. exact A.
  Qed.

  (* insufficient material along every legal game: the engine's list-based count is the rules' board count *)
  Theorem game_material (p0 : position) (ms : list move) :
    game_inv p0 -> (0 <= clock p0)%Z -> (1 <= fullmove p0)%Z -> legal_line p0 ms = true -> (clock p0 + Z.of_nat (length ms) < 255)%Z ->
    enough_material (play_rep zt (rep_of_position zt p0) ms) = negb (insufficient_material (brd (play p0 ms))).
  Proof.
    intros Hg Hc Hf Hl Hn. destruct (game_refines p0 ms Hg Hc Hf Hl Hn) as [Ra [[[Hp _] _] _]].
    rewrite <- Ra. apply (enough_material_refines zt). exact Hp.
  Qed.

  (* ... and every piece list as a set (swap-remove may reorder it), with the list / key invariant intact *)
  Theorem game_undo_lists (p0 : position) (ms : list move) (m : move) (pc : N) :
    game_inv p0 -> (0 <= clock p0)%Z -> (1 <= fullmove p0)%Z -> legal_line p0 ms = true -> (clock p0 + Z.of_nat (length ms) < 255)%Z ->
    legal (play p0 ms) m = true -> 1 <= pc <= 12 ->
    let s := play_rep zt (rep_of_position zt p0) ms in
    let s' := undo_move zt (fst (do_move zt s (enc m))) (enc m) (snd (do_move zt s (enc m))) in
    Permutation (nthd (r_lists s') pc []) (nthd (r_lists s) pc []) /\ piece_inv zt s'.
  Proof.
    intros Hg Hc Hf Hl Hn Hm Hpc s s'. destruct (game_refines p0 ms Hg Hc Hf Hl Hn) as [Ra [Ia _]]. fold s in Ra, Ia.
    assert (Hpl : pseudo_legal (rep_abs s) m = true) by (rewrite Ra; unfold legal in Hm; apply andb_prop in Hm as [A _]; exact A).
    pose proof (state_inv_rep_ok s Ia) as Hok. destruct Ia as [Hk _].
    split; [apply undo_do_lists; assumption|apply undo_do_piece_inv; assumption].
  Qed.

  Lemma valid_hyps (p : position) : valid_position p = true -> game_inv p /\ (0 <= clock p)%Z /\ (1 <= fullmove p)%Z.
  Proof. intro H. split; [apply valid_game_inv; exact H|]. destruct (valid_parts p H) as [_ [_ [_ [_ [_ [_ [_ [A B]]]]]]]]. split; assumption. Qed.
End WithTables.
