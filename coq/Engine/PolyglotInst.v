(* The Polyglot models instantiated with the golden Random64 table and with the constants
   re-extracted from the working tree (Gen/PolyglotData.v). *)
From CV Require Export Engine.Polyglot Engine.Book.
From CV Require Import Golden.Random64 Gen.PolyglotData.
Local Open Scope N_scope.

Definition pg_R (i : N) : N := nthN Random64 i.
Definition pg_T (pc sq : N) : N := nthN pg_piece_dump (pc * 64 + sq).
Definition pg_C (i : N) : N := nthN pg_castling_dump i.
Definition pg_E (f : N) : N := nthN pg_ep_dump f.
Definition pg_TURN : N := nthN pg_turn_dump 0.

Definition pg_spec_hash (p : position) : N := spec_hash pg_R p.
Definition pg_engine_hash (s : rep) : N := engine_hash pg_T pg_C pg_E pg_TURN s.
