(* C20: non-negativity, monotonicity and the 70% cap of the time allocation.
   Part 1: for EVERY float structure whose operations are monotone, sign-preserving roundings (what
   survives -Ofast: re-association and contraction keep monotonicity of each operation).
   Part 2: the binary64 instance (Flocq): the hypotheses are satisfiable, and the cap needs the concrete
   constant 0.7d = 6305039478318694 * 2^-53 < 7/10. *)
From Coq Require Import ZArith Reals Lia Lra.
From Flocq Require Import Core.
From CV Require Import Engine.TimeMgr.
Local Open Scope Z_scope.

Section Abstract.
  Variable ofint : Z -> R.
  Variable mul add div : R -> R -> R.
  Variable trunc : R -> Z.
  Variable imp : Z -> R.
  Variable c07 : R.

  Hypothesis ofint_mono : forall a b, a <= b -> (ofint a <= ofint b)%R.
  Hypothesis ofint_nonneg : forall a, 0 <= a -> (0 <= ofint a)%R.
  Hypothesis mul_mono_l : forall x y r, (0 <= r)%R -> (x <= y)%R -> (mul x r <= mul y r)%R.
  Hypothesis mul_mono_r : forall c x y, (0 <= c)%R -> (x <= y)%R -> (mul c x <= mul c y)%R.
  Hypothesis mul_nonneg : forall x r, (0 <= x)%R -> (0 <= r)%R -> (0 <= mul x r)%R.
  Hypothesis trunc_mono : forall x y, (x <= y)%R -> trunc x <= trunc y.
  Hypothesis trunc_nonneg : forall x, (0 <= x)%R -> 0 <= trunc x.
  Hypothesis add_nonneg : forall a b, (0 <= a)%R -> (0 <= b)%R -> (0 <= add a b)%R.
  Hypothesis add_lb : forall a b, (/128 <= a)%R -> (0 <= b)%R -> (/128 <= add a b)%R.
  Hypothesis div_nonneg : forall a b, (0 <= a)%R -> (0 < b)%R -> (0 <= div a b)%R.
  Hypothesis imp_lb : forall x, (/128 <= imp x)%R.
  Hypothesis c07_nonneg : (0 <= c07)%R.

  Notation rest_from := (rest_from R add imp).
  Notation ratio := (ratio R add div imp 0%R).
  Notation fixed_length := (fixed_length R ofint mul add div trunc imp 0%R).
  Notation loop := (loop R ofint mul add div trunc imp 0%R).
  Notation time_max := (time_max R ofint mul trunc c07).
  Notation calculate := (calculate R ofint mul add div trunc imp 0%R c07).

  Lemma imp_nonneg x : (0 <= imp x)%R.
  Proof. pose proof (imp_lb x). lra. Qed.

  Lemma rest_nonneg ply n : forall i acc, (0 <= acc)%R -> (0 <= rest_from ply i n acc)%R.
  Proof.
    induction n as [|n IH]; intros i acc Hacc; cbn [TimeMgr.rest_from]; [exact Hacc|].
    apply IH. apply add_nonneg; [exact Hacc|apply imp_nonneg].
  Qed.

  Lemma ratio_nonneg ply k : (0 <= ratio ply k)%R.
  Proof.
    unfold TimeMgr.ratio. apply div_nonneg; [apply imp_nonneg|].
    assert (H : (/128 <= add (imp ply) (rest_from ply 1 (Z.to_nat (k - 1)) 0))%R).
    { apply add_lb; [apply imp_lb|apply rest_nonneg; lra]. }
    lra.
  Qed.

  Lemma fixed_length_mono a b k ply : a <= b -> fixed_length a k ply <= fixed_length b k ply.
  Proof.
    intro H. unfold TimeMgr.fixed_length. apply trunc_mono. apply mul_mono_l; [apply ratio_nonneg|].
    apply ofint_mono. exact H.
  Qed.

  Lemma fixed_length_nonneg a k ply : 0 <= a -> 0 <= fixed_length a k ply.
  Proof.
    intro H. unfold TimeMgr.fixed_length. apply trunc_nonneg. apply mul_nonneg; [|apply ratio_nonneg].
    apply ofint_nonneg. exact H.
  Qed.

  Lemma loop_mono inc ply n : forall k T T' t t', T <= T' -> t <= t' -> loop T inc ply k n t <= loop T' inc ply k n t'.
  Proof.
    induction n as [|n IH]; intros k T T' t t' HT Ht; cbn [TimeMgr.loop]; [exact Ht|].
    apply IH; [exact HT|].
    apply Z.min_le_compat; [exact Ht|]. apply fixed_length_mono. lia.
  Qed.

  Lemma loop_nonneg T inc ply n : 0 <= T -> 0 <= inc -> forall k t, 1 <= k -> 0 <= t -> 0 <= loop T inc ply k n t.
  Proof.
    intros HT Hi. induction n as [|n IH]; intros k t Hk Ht; cbn [TimeMgr.loop]; [exact Ht|].
    apply IH; [lia|]. apply Z.min_glb; [exact Ht|]. apply fixed_length_nonneg. nia.
  Qed.

  Lemma loop_le_init T inc ply n : forall k t, loop T inc ply k n t <= t.
  Proof.
    induction n as [|n IH]; intros k t; cbn [TimeMgr.loop]; [lia|].
    eapply Z.le_trans; [apply IH|]. apply Z.le_min_l.
  Qed.

  Theorem calculate_nonneg T inc mtg ply : 0 <= T -> 0 <= inc -> 0 <= calculate T inc mtg ply.
  Proof.
    intros HT Hi. unfold TimeMgr.calculate. apply Z.min_glb.
    - apply loop_nonneg; try assumption; lia.
    - unfold TimeMgr.time_max. apply trunc_nonneg. apply mul_nonneg; [exact c07_nonneg|apply ofint_nonneg; exact HT].
  Qed.

  Theorem calculate_mono T T' inc mtg ply : T <= T' -> calculate T inc mtg ply <= calculate T' inc mtg ply.
  Proof.
    intro H. unfold TimeMgr.calculate. apply Z.min_le_compat.
    - apply loop_mono; assumption.
    - unfold TimeMgr.time_max. apply trunc_mono. apply mul_mono_r; [exact c07_nonneg|]. apply ofint_mono. exact H.
  Qed.

  Theorem calculate_le_time_max T inc mtg ply : calculate T inc mtg ply <= time_max T.
  Proof. unfold TimeMgr.calculate. apply Z.le_min_r. Qed.

  Theorem calculate_le_T T inc mtg ply : calculate T inc mtg ply <= T.
  Proof. unfold TimeMgr.calculate. eapply Z.le_trans; [apply Z.le_min_l|apply loop_le_init]. Qed.
End Abstract.

(* ---------------------------------------------------------------- the binary64 instance *)
Definition fexp64 := FLT_exp (-1074) 53.
Global Instance prec53 : Prec_gt_0 53. Proof. unfold Prec_gt_0. lia. Qed.
Definition rnd (x : R) : R := round radix2 fexp64 ZnearestE x.

Definition b_ofint (n : Z) : R := rnd (IZR n).
Definition b_mul (x y : R) : R := rnd (x * y).
Definition b_add (x y : R) : R := rnd (x + y).
Definition b_div (x y : R) : R := rnd (x / y).
(* the literal 0.7 as a binary64 number *)
Definition b_c07 : R := F2R (Float radix2 6305039478318694 (-53)).

Lemma rnd_le x y : (x <= y)%R -> (rnd x <= rnd y)%R.
Proof. apply round_le; [apply FLT_exp_valid; apply prec53|apply valid_rnd_N]. Qed.
Lemma rnd_0 : rnd 0 = 0%R.
Proof. apply round_0. apply valid_rnd_N. Qed.
Lemma rnd_nonneg x : (0 <= x)%R -> (0 <= rnd x)%R.
Proof. intro H. rewrite <- rnd_0. apply rnd_le. exact H. Qed.
Lemma rnd_id x : generic_format radix2 fexp64 x -> rnd x = x.
Proof. intro H. apply round_generic; [apply valid_rnd_N|exact H]. Qed.

Lemma fmt_F2R m e : Z.abs m < 2 ^ 53 -> -1074 <= e -> generic_format radix2 fexp64 (F2R (Float radix2 m e)).
Proof.
  intros Hm He. apply generic_format_FLT. apply (FLT_spec radix2 (-1074) 53 _ (Float radix2 m e)); [reflexivity| |exact He].
  cbn [Fnum]. exact Hm.
Qed.

Lemma fmt_int n : Z.abs n < 2 ^ 53 -> generic_format radix2 fexp64 (IZR n).
Proof.
  intro H. replace (IZR n) with (F2R (Float radix2 n 0)).
  - apply fmt_F2R; [exact H|lia].
  - unfold F2R. cbn [Fnum Fexp bpow]. ring.
Qed.

Lemma fmt_128 : generic_format radix2 fexp64 (/128).
Proof.
  replace (/128)%R with (bpow radix2 (-7)).
  - apply generic_format_FLT_bpow; [apply prec53|lia].
  - cbn. lra.
Qed.

Lemma b_c07_val : b_c07 = (6305039478318694 / 9007199254740992)%R.
Proof. unfold b_c07, F2R. cbn [Fnum Fexp bpow]. unfold Rdiv. f_equal. Qed.

Lemma b_c07_nonneg : (0 <= b_c07)%R.
Proof. rewrite b_c07_val. lra. Qed.

(* the hypotheses of Part 1 hold for binary64 *)
Lemma b_ofint_mono a b : a <= b -> (b_ofint a <= b_ofint b)%R.
Proof. intro H. apply rnd_le. apply IZR_le. exact H. Qed.
Lemma b_ofint_nonneg a : 0 <= a -> (0 <= b_ofint a)%R.
Proof. intro H. apply rnd_nonneg. apply IZR_le. exact H. Qed.
Lemma b_mul_mono_l x y r : (0 <= r)%R -> (x <= y)%R -> (b_mul x r <= b_mul y r)%R.
Proof. intros Hr H. apply rnd_le. apply Rmult_le_compat_r; assumption. Qed.
Lemma b_mul_mono_r c x y : (0 <= c)%R -> (x <= y)%R -> (b_mul c x <= b_mul c y)%R.
Proof. intros Hc H. apply rnd_le. apply Rmult_le_compat_l; assumption. Qed.
Lemma b_mul_nonneg x r : (0 <= x)%R -> (0 <= r)%R -> (0 <= b_mul x r)%R.
Proof. intros. apply rnd_nonneg. apply Rmult_le_pos; assumption. Qed.
Lemma b_trunc_nonneg x : (0 <= x)%R -> 0 <= Ztrunc x.
Proof. intro H. rewrite <- (Ztrunc_IZR 0). apply Ztrunc_le. exact H. Qed.
Lemma b_add_nonneg a b : (0 <= a)%R -> (0 <= b)%R -> (0 <= b_add a b)%R.
Proof. intros. apply rnd_nonneg. lra. Qed.
Lemma b_add_lb a b : (/128 <= a)%R -> (0 <= b)%R -> (/128 <= b_add a b)%R.
Proof. intros Ha Hb. rewrite <- (rnd_id (/128) fmt_128). apply rnd_le. lra. Qed.
Lemma b_div_nonneg a b : (0 <= a)%R -> (0 < b)%R -> (0 <= b_div a b)%R.
Proof. intros Ha Hb. apply rnd_nonneg. apply Rmult_le_pos; [exact Ha|]. left. apply Rinv_0_lt_compat. exact Hb. Qed.

(* the cap: trunc (RN (0.7d * T)) <= floor (7T/10), for every clock value a 32-bit int can hold *)
Lemma time_max_cap T : 0 <= T < 2 ^ 31 -> 10 * Ztrunc (b_mul b_c07 (b_ofint T)) <= 7 * T.
Proof.
  intros [H0 H1].
  set (q := (7 * T) / 10).
  assert (Hq : 10 * q <= 7 * T < 10 * q + 10) by (unfold q; pose proof (Z.div_mod (7 * T) 10 ltac:(lia)); pose proof (Z.mod_pos_bound (7 * T) 10 ltac:(lia)); lia).
  assert (HofT : b_ofint T = IZR T). { unfold b_ofint. apply rnd_id. apply fmt_int. lia. }
  rewrite HofT.
  set (y := F2R (Float radix2 (16 * q + 15) (-4))).
  assert (Hy : y = (IZR q + 15 / 16)%R).
  { unfold y, F2R. cbn [Fnum Fexp bpow]. rewrite plus_IZR, mult_IZR. cbn. lra. }
  assert (Hfy : generic_format radix2 fexp64 y). { unfold y. apply fmt_F2R; lia. }
  assert (Hx : (b_c07 * IZR T <= y)%R).
  { rewrite Hy, b_c07_val.
    assert (Hr : (10 * IZR q + 9 >= 7 * IZR T)%R).
    { apply Rle_ge. rewrite <- !mult_IZR, <- plus_IZR. apply IZR_le. lia. }
    assert (HT : (0 <= IZR T)%R) by (apply IZR_le; exact H0).
    lra. }
  assert (Hr : (b_mul b_c07 (IZR T) <= y)%R). { unfold b_mul. rewrite <- (rnd_id y Hfy). apply rnd_le. exact Hx. }
  assert (Hty : Ztrunc y = q).
  { assert (Hq0 : 0 <= q) by (unfold q; apply Z.div_pos; lia).
    rewrite Ztrunc_floor; [|rewrite Hy; pose proof (IZR_le 0 q Hq0); lra].
    apply Zfloor_imp. rewrite Hy, plus_IZR. lra. }
  pose proof (Ztrunc_le _ _ Hr) as Hle. rewrite Hty in Hle. lia.
Qed.

(* the closed instance: the model of calculateTime over binary64 with round-to-nearest-even *)
Section Instance.
  Variable imp : Z -> R.                  (* the libm oracle *)
  Hypothesis imp_lb : forall x, (/128 <= imp x)%R.

  Definition calc64 := calculate R b_ofint b_mul b_add b_div Ztrunc imp 0%R b_c07.

  Theorem calc64_nonneg T inc mtg ply : 0 <= T -> 0 <= inc -> 0 <= calc64 T inc mtg ply.
  Proof.
    apply calculate_nonneg; auto using b_ofint_nonneg, b_mul_nonneg, b_trunc_nonneg, b_add_nonneg, b_add_lb, b_div_nonneg, b_c07_nonneg.
  Qed.

  Theorem calc64_mono T T' inc mtg ply : T <= T' -> calc64 T inc mtg ply <= calc64 T' inc mtg ply.
  Proof.
    apply calculate_mono; auto using b_ofint_mono, b_mul_mono_l, b_mul_mono_r, Ztrunc_le, b_add_nonneg, b_add_lb, b_div_nonneg, b_c07_nonneg.
  Qed.

  Theorem calc64_cap T inc mtg ply : 0 <= T < 2 ^ 31 -> 10 * calc64 T inc mtg ply <= 7 * T.
  Proof.
    intro H. pose proof (calculate_le_time_max b_ofint b_mul b_add b_div Ztrunc imp b_c07 T inc mtg ply) as Hm.
    unfold time_max in Hm. pose proof (time_max_cap T H). unfold calc64. lia.
  Qed.
End Instance.
