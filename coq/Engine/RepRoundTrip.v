(* C03 (ordinary moves): undo_move after do_move restores every observable scalar of the engine state - board, side,
   castling rights, en-passant square, both clocks, all five key components and the history - for EVERY state of the
   algorithmic model and every applicable move, for every Zobrist table.  (Piece lists and bitboards are restored up
   to the permutation swap-remove introduces; that half is tied by the field-by-field correspondence.) *)
From CV Require Import Engine.PositionRep Engine.EncodingProofs Engine.RepProofs.
From Coq Require Import Lia List Btauto.
Import ListNotations.
Local Open Scope N_scope.

(* ---- lists ---- *)
Lemma upd_length {A} (l : list A) n x : length (upd l n x) = length l.
Proof. revert n. induction l as [|h t IH]; intros [|n]; cbn; auto. Qed.
Lemma upd_nth_same {A} (l : list A) n x d : (n < length l)%nat -> nth n (upd l n x) d = x.
Proof. revert n. induction l as [|h t IH]; intros [|n] H; cbn in *; try lia; auto. apply IH. lia. Qed.
Lemma upd_nth_other {A} (l : list A) n m x d : n <> m -> nth m (upd l n x) d = nth m l d.
Proof. revert n m. induction l as [|h t IH]; intros [|n] [|m] H; cbn; auto; try congruence. Qed.
Lemma upd_upd_same {A} (l : list A) n x y : upd (upd l n x) n y = upd l n y.
Proof. revert n. induction l as [|h t IH]; intros [|n]; cbn; auto. f_equal. apply IH. Qed.
Lemma upd_comm {A} (l : list A) n m x y : n <> m -> upd (upd l n x) m y = upd (upd l m y) n x.
Proof. revert n m. induction l as [|h t IH]; intros [|n] [|m] H; cbn; auto; try congruence. f_equal. apply IH. congruence. Qed.
Lemma upd_id {A} (l : list A) n d : (n < length l)%nat -> upd l n (nth n l d) = l.
Proof. revert n. induction l as [|h t IH]; intros [|n] H; cbn in *; try lia; auto. f_equal. apply IH. lia. Qed.

Lemma updN_length {A} (l : list A) i x : length (updN l i x) = length l.
Proof. apply upd_length. Qed.
Lemma nthd_updN_same {A} (l : list A) i x d : (N.to_nat i < length l)%nat -> nthd (updN l i x) i d = x.
Proof. apply upd_nth_same. Qed.
Lemma nthd_updN_other {A} (l : list A) i j x d : i <> j -> nthd (updN l i x) j d = nthd l j d.
Proof. intro H. apply upd_nth_other. intro E. apply H. apply N2Nat.inj. exact E. Qed.
Lemma updN_updN_same {A} (l : list A) i x y : updN (updN l i x) i y = updN l i y.
Proof. apply upd_upd_same. Qed.
Lemma updN_comm {A} (l : list A) i j x y : i <> j -> updN (updN l i x) j y = updN (updN l j y) i x.
Proof. intro H. apply upd_comm. intro E. apply H. apply N2Nat.inj. exact E. Qed.
Lemma updN_id {A} (l : list A) i d : (N.to_nat i < length l)%nat -> updN l i (nthd l i d) = l.
Proof. apply upd_id. Qed.

Section RT.
  Variable zt : zobrist.

  (* ---- key algebra ---- *)
  Lemma toggle_comm k p1 s1 p2 s2 :
    toggle_piece zt (toggle_piece zt k p1 s1) p2 s2 = toggle_piece zt (toggle_piece zt k p2 s2) p1 s1.
  Proof.
    unfold toggle_piece. destruct (pc_kind p1 =? PAWN), (pc_kind p2 =? PAWN); cbn; f_equal;
      rewrite !N.lxor_assoc; f_equal; apply N.lxor_comm.
  Qed.

  (* the observable scalars *)
  Definition obs (s : rep) := (r_side s, r_hmc s, r_ply s, r_board s, r_castling s, r_ep s, r_key s, r_hist s).

  (* fields after the three piece operations *)
  Lemma add_piece_fields s pc sq :
    r_board (add_piece zt s pc sq) = updN (r_board s) sq pc /\ r_key (add_piece zt s pc sq) = toggle_piece zt (r_key s) pc sq /\
    r_side (add_piece zt s pc sq) = r_side s /\ r_hmc (add_piece zt s pc sq) = r_hmc s /\ r_ply (add_piece zt s pc sq) = r_ply s /\
    r_castling (add_piece zt s pc sq) = r_castling s /\ r_ep (add_piece zt s pc sq) = r_ep s /\ r_hist (add_piece zt s pc sq) = r_hist s.
  Proof. repeat split; reflexivity. Qed.
  Lemma remove_piece_fields s sq :
    r_board (remove_piece zt s sq) = updN (r_board s) sq 0 /\
    r_key (remove_piece zt s sq) = toggle_piece zt (r_key s) (nthd (r_board s) sq 0) sq /\
    r_side (remove_piece zt s sq) = r_side s /\ r_hmc (remove_piece zt s sq) = r_hmc s /\ r_ply (remove_piece zt s sq) = r_ply s /\
    r_castling (remove_piece zt s sq) = r_castling s /\ r_ep (remove_piece zt s sq) = r_ep s /\ r_hist (remove_piece zt s sq) = r_hist s.
  Proof. repeat split; reflexivity. Qed.
  Lemma move_piece_fields s f t :
    r_board (move_piece zt s f t) = updN (updN (r_board s) f 0) t (nthd (r_board s) f 0) /\
    r_key (move_piece zt s f t) = toggle_piece zt (toggle_piece zt (r_key s) (nthd (r_board s) f 0) f) (nthd (r_board s) f 0) t /\
    r_side (move_piece zt s f t) = r_side s /\ r_hmc (move_piece zt s f t) = r_hmc s /\ r_ply (move_piece zt s f t) = r_ply s /\
    r_castling (move_piece zt s f t) = r_castling s /\ r_ep (move_piece zt s f t) = r_ep s /\ r_hist (move_piece zt s f t) = r_hist s.
  Proof. repeat split; reflexivity. Qed.

  (* moving a piece there and back restores board and key when the target was empty *)
  Lemma move_back b k f t :
    length b = 64%nat -> f < 64 -> t < 64 -> f <> t -> nthd b t 0 = 0 ->
    let pc := nthd b f 0 in
    let b1 := updN (updN b f 0) t pc in
    updN (updN b1 t 0) f (nthd b1 t 0) = b /\
    toggle_piece zt (toggle_piece zt (toggle_piece zt (toggle_piece zt k pc f) pc t) (nthd b1 t 0) t) (nthd b1 t 0) f = k.
  Proof.
    intros Hl Hf Ht Hne He pc b1.
    assert (Hb1t : nthd b1 t 0 = pc).
    { unfold b1. apply nthd_updN_same. rewrite updN_length. lia. }
    rewrite Hb1t. split.
    - unfold b1. rewrite updN_updN_same.
      rewrite (updN_comm (updN b f 0) t f) by congruence. rewrite updN_updN_same.
      rewrite <- He at 1. rewrite updN_comm by congruence.
      rewrite (updN_id b t 0) by lia. unfold pc. apply updN_id. lia.
    - rewrite (toggle_comm (toggle_piece zt (toggle_piece zt k pc f) pc t) pc t pc f).
      rewrite (toggle_comm (toggle_piece zt k pc f) pc t pc f).
      rewrite toggle_toggle. rewrite toggle_toggle. reflexivity.
  Qed.

  (* ---- keys componentwise ---- *)
  Definition tp (pc sq : N) : N := if pc_kind pc =? PAWN then 0 else z_piece zt pc sq.
  Definition tw (pc sq : N) : N := if pc_kind pc =? PAWN then z_piece zt pc sq else 0.
  Lemma toggle_comp k pc sq :
    toggle_piece zt k pc sq = {| k_piece := N.lxor (k_piece k) (tp pc sq); k_pawn := N.lxor (k_pawn k) (tw pc sq);
                                 k_ep := k_ep k; k_castling := k_castling k; k_color := k_color k |}.
  Proof. unfold toggle_piece, tp, tw. destruct (pc_kind pc =? PAWN); cbn; rewrite N.lxor_0_r; reflexivity. Qed.

  Ltac xor_solve := apply N.bits_inj; intro; rewrite ?N.lxor_spec; btauto.

  (* two lists of length 64 that agree on every index are equal *)
  Lemma nthd_ext (a b : list N) : length a = 64%nat -> length b = 64%nat ->
    (forall i, i < 64 -> nthd a i 0 = nthd b i 0) -> a = b.
  Proof.
    intros Ha Hb H. apply (nth_ext a b 0 0); [congruence|]. intros n Hn.
    specialize (H (N.of_nat n) ltac:(lia)). unfold nthd in H. rewrite Nat2N.id in H. exact H.
  Qed.

  Definition key_ok (s : rep) : Prop :=
    k_castling (r_key s) = z_castling zt (r_castling s) /\ ep_key_ok zt s.
  Definition base_ok (s : rep) : Prop :=
    length (r_board s) = 64%nat /\ r_side s < 2 /\ r_hmc s < 256 /\ r_castling s < 16 /\
    (forall e, r_ep s = Some e -> e < 64) /\ key_ok s.

  Lemma side_cases s : r_side s < 2 -> r_side s = 0 \/ r_side s = 1.
  Proof. lia. Qed.

  Lemma key_restore (k : hashkey) cr (e : option N) (P W : N) :
    k_castling k = z_castling zt cr ->
    k_ep k = match e with Some x => z_ep zt (x mod 8) | None => 0 end ->
    P = k_piece k -> W = k_pawn k ->
    forall k', k_piece k' = P -> k_pawn k' = W -> k_color k' = k_color k ->
    key_set_ep zt (key_set_castling zt k' cr) (match e with Some x => Some (x mod 8) | None => None end) = k.
  Proof.
    intros Hc He -> -> k' Hp Hw Hcol. destruct k as [kp kw ke kc kcol]. cbn in *. unfold key_set_ep, key_set_castling. cbn.
    rewrite Hp, Hw, Hcol, Hc. f_equal. destruct e; cbn; congruence.
  Qed.

  Lemma hashkey_ext (a b : hashkey) :
    k_piece a = k_piece b -> k_pawn a = k_pawn b -> k_ep a = k_ep b -> k_castling a = k_castling b -> k_color a = k_color b -> a = b.
  Proof. destruct a, b; cbn; intros; subst; reflexivity. Qed.
  Lemma tg_piece k pc sq : k_piece (toggle_piece zt k pc sq) = N.lxor (k_piece k) (tp pc sq).
  Proof. rewrite toggle_comp. reflexivity. Qed.
  Lemma tg_pawn k pc sq : k_pawn (toggle_piece zt k pc sq) = N.lxor (k_pawn k) (tw pc sq).
  Proof. rewrite toggle_comp. reflexivity. Qed.
  Lemma tg_ep k pc sq : k_ep (toggle_piece zt k pc sq) = k_ep k. Proof. rewrite toggle_comp. reflexivity. Qed.
  Lemma tg_castling k pc sq : k_castling (toggle_piece zt k pc sq) = k_castling k. Proof. rewrite toggle_comp. reflexivity. Qed.
  Lemma tg_color k pc sq : k_color (toggle_piece zt k pc sq) = k_color k. Proof. rewrite toggle_comp. reflexivity. Qed.
  Lemma se_piece k e : k_piece (key_set_ep zt k e) = k_piece k. Proof. reflexivity. Qed.
  Lemma se_pawn k e : k_pawn (key_set_ep zt k e) = k_pawn k. Proof. reflexivity. Qed.
  Lemma se_ep k e : k_ep (key_set_ep zt k e) = match e with Some f => z_ep zt f | None => 0 end. Proof. reflexivity. Qed.
  Lemma se_castling k e : k_castling (key_set_ep zt k e) = k_castling k. Proof. reflexivity. Qed.
  Lemma se_color k e : k_color (key_set_ep zt k e) = k_color k. Proof. reflexivity. Qed.
  Lemma sc_piece k c : k_piece (key_set_castling zt k c) = k_piece k. Proof. reflexivity. Qed.
  Lemma sc_pawn k c : k_pawn (key_set_castling zt k c) = k_pawn k. Proof. reflexivity. Qed.
  Lemma sc_ep k c : k_ep (key_set_castling zt k c) = k_ep k. Proof. reflexivity. Qed.
  Lemma sc_castling k c : k_castling (key_set_castling zt k c) = z_castling zt c. Proof. reflexivity. Qed.
  Lemma sc_color k c : k_color (key_set_castling zt k c) = k_color k. Proof. reflexivity. Qed.
  Lemma fs_piece k : k_piece (flip_side zt k) = k_piece k. Proof. reflexivity. Qed.
  Lemma fs_pawn k : k_pawn (flip_side zt k) = k_pawn k. Proof. reflexivity. Qed.
  Lemma fs_ep k : k_ep (flip_side zt k) = k_ep k. Proof. reflexivity. Qed.
  Lemma fs_castling k : k_castling (flip_side zt k) = k_castling k. Proof. reflexivity. Qed.
  Lemma fs_color k : k_color (flip_side zt k) = N.lxor (k_color k) (z_side zt). Proof. reflexivity. Qed.
  Hint Rewrite tg_piece tg_pawn tg_ep tg_castling tg_color se_piece se_pawn se_ep se_castling se_color
       sc_piece sc_pawn sc_ep sc_castling sc_color fs_piece fs_pawn fs_ep fs_castling fs_color : keyproj.

  Lemma sm_side s a b c d e f g : r_side (set_meta s a b c d e f g) = a. Proof. reflexivity. Qed.
  Lemma sm_hmc s a b c d e f g : r_hmc (set_meta s a b c d e f g) = b. Proof. reflexivity. Qed.
  Lemma sm_ply s a b c d e f g : r_ply (set_meta s a b c d e f g) = c. Proof. reflexivity. Qed.
  Lemma sm_castling s a b c d e f g : r_castling (set_meta s a b c d e f g) = d. Proof. reflexivity. Qed.
  Lemma sm_ep s a b c d e f g : r_ep (set_meta s a b c d e f g) = e. Proof. reflexivity. Qed.
  Lemma sm_key s a b c d e f g : r_key (set_meta s a b c d e f g) = f. Proof. reflexivity. Qed.
  Lemma sm_hist s a b c d e f g : r_hist (set_meta s a b c d e f g) = g. Proof. reflexivity. Qed.
  Lemma sm_board s a b c d e f g : r_board (set_meta s a b c d e f g) = r_board s. Proof. reflexivity. Qed.
  Lemma mp_side s f t : r_side (move_piece zt s f t) = r_side s. Proof. reflexivity. Qed.
  Lemma mp_hmc s f t : r_hmc (move_piece zt s f t) = r_hmc s. Proof. reflexivity. Qed.
  Lemma mp_ply s f t : r_ply (move_piece zt s f t) = r_ply s. Proof. reflexivity. Qed.
  Lemma mp_castling s f t : r_castling (move_piece zt s f t) = r_castling s. Proof. reflexivity. Qed.
  Lemma mp_ep s f t : r_ep (move_piece zt s f t) = r_ep s. Proof. reflexivity. Qed.
  Lemma mp_hist s f t : r_hist (move_piece zt s f t) = r_hist s. Proof. reflexivity. Qed.
  Lemma mp_board s f t : r_board (move_piece zt s f t) = updN (updN (r_board s) f 0) t (nthd (r_board s) f 0). Proof. reflexivity. Qed.
  Lemma mp_key s f t : r_key (move_piece zt s f t) = toggle_piece zt (toggle_piece zt (r_key s) (nthd (r_board s) f 0) f) (nthd (r_board s) f 0) t. Proof. reflexivity. Qed.
  Lemma ap_side s p q : r_side (add_piece zt s p q) = r_side s. Proof. reflexivity. Qed.
  Lemma ap_hmc s p q : r_hmc (add_piece zt s p q) = r_hmc s. Proof. reflexivity. Qed.
  Lemma ap_ply s p q : r_ply (add_piece zt s p q) = r_ply s. Proof. reflexivity. Qed.
  Lemma ap_castling s p q : r_castling (add_piece zt s p q) = r_castling s. Proof. reflexivity. Qed.
  Lemma ap_ep s p q : r_ep (add_piece zt s p q) = r_ep s. Proof. reflexivity. Qed.
  Lemma ap_hist s p q : r_hist (add_piece zt s p q) = r_hist s. Proof. reflexivity. Qed.
  Lemma ap_board s p q : r_board (add_piece zt s p q) = updN (r_board s) q p. Proof. reflexivity. Qed.
  Lemma ap_key s p q : r_key (add_piece zt s p q) = toggle_piece zt (r_key s) p q. Proof. reflexivity. Qed.
  Lemma rp_side s q : r_side (remove_piece zt s q) = r_side s. Proof. reflexivity. Qed.
  Lemma rp_hmc s q : r_hmc (remove_piece zt s q) = r_hmc s. Proof. reflexivity. Qed.
  Lemma rp_ply s q : r_ply (remove_piece zt s q) = r_ply s. Proof. reflexivity. Qed.
  Lemma rp_castling s q : r_castling (remove_piece zt s q) = r_castling s. Proof. reflexivity. Qed.
  Lemma rp_ep s q : r_ep (remove_piece zt s q) = r_ep s. Proof. reflexivity. Qed.
  Lemma rp_hist s q : r_hist (remove_piece zt s q) = r_hist s. Proof. reflexivity. Qed.
  Lemma rp_board s q : r_board (remove_piece zt s q) = updN (r_board s) q 0. Proof. reflexivity. Qed.
  Lemma rp_key s q : r_key (remove_piece zt s q) = toggle_piece zt (r_key s) (nthd (r_board s) q 0) q. Proof. reflexivity. Qed.
  Hint Rewrite sm_side sm_hmc sm_ply sm_castling sm_ep sm_key sm_hist sm_board
       mp_side mp_hmc mp_ply mp_castling mp_ep mp_hist mp_board mp_key
       ap_side ap_hmc ap_ply ap_castling ap_ep ap_hist ap_board ap_key
       rp_side rp_hmc rp_ply rp_castling rp_ep rp_hist rp_board rp_key : fields.

  Lemma nthd_same64 (l : list N) i x : length l = 64%nat -> i < 64 -> nthd (updN l i x) i 0 = x.
  Proof. intros Hl Hi. apply nthd_updN_same. lia. Qed.
  Lemma len_upd64 (l : list N) i x : length l = 64%nat -> length (updN l i x) = 64%nat.
  Proof. intro H. rewrite updN_length. exact H. Qed.

  Ltac len64 := repeat apply len_upd64; assumption.
  Ltac simp_nthd :=
    repeat first [ rewrite nthd_same64 by (first [len64 | lia])
                 | rewrite nthd_updN_other by (first [lia | congruence | discriminate]) ].

  (* what undo needs from the MoveInfo word *)
  Lemma mi_fields cap cr ep b hm : cap < 8 -> cr < 16 -> (forall e, ep = Some e -> e < 64) -> hm < 256 ->
    mi_captured (create_moveinfo cap cr ep b hm) = cap /\ mi_castling (create_moveinfo cap cr ep b hm) = cr /\
    mi_last_ep (create_moveinfo cap cr ep b hm) = ep /\ mi_ep (create_moveinfo cap cr ep b hm) = b /\
    mi_hmc (create_moveinfo cap cr ep b hm) = hm.
  Proof. intros. apply decode_moveinfo; assumption. Qed.

  (* the key after undo equals the original key once the piece / pawn components are back *)
  Lemma key_back (k k' : hashkey) cr (e : option N) :
    k_castling k = z_castling zt cr ->
    k_ep k = match e with Some x => z_ep zt (x mod 8) | None => 0 end ->
    k_piece k' = k_piece k -> k_pawn k' = k_pawn k -> k_color k' = k_color k ->
    k_castling k' = z_castling zt cr ->
    k_ep k' = match e with Some x => z_ep zt (x mod 8) | None => 0 end ->
    k' = k.
  Proof. intros. apply hashkey_ext; congruence. Qed.

  (* ---- castling ---- *)
  Lemma castle_board (b : list N) e g h f :
    length b = 64%nat -> e < 64 -> g < 64 -> h < 64 -> f < 64 ->
    e <> g -> e <> h -> e <> f -> g <> h -> g <> f -> h <> f ->
    nthd b g 0 = 0 -> nthd b f 0 = 0 ->
    updN (updN (updN (updN (updN (updN (updN (updN b e 0) g (nthd b e 0)) h 0) f (nthd b h 0)) g 0) e (nthd b e 0)) f 0) h (nthd b h 0) = b.
  Proof.
    intros Hlen He Hg Hh Hf N1 N2 N3 N4 N5 N6 H1 H2.
    apply nthd_ext; [len64|exact Hlen|]. intros i Hi.
    destruct (N.eq_dec i e) as [->|Ne]; [simp_nthd; reflexivity|].
    destruct (N.eq_dec i g) as [->|Ng]; [simp_nthd; symmetry; exact H1|].
    destruct (N.eq_dec i h) as [->|Nh]; [simp_nthd; reflexivity|].
    destruct (N.eq_dec i f) as [->|Nf]; [simp_nthd; symmetry; exact H2|].
    simp_nthd. reflexivity.
  Qed.

  Lemma castle_key k K R cr' cr (ep : option N) e g h f :
    k_castling k = z_castling zt cr ->
    k_ep k = match ep with Some x => z_ep zt (x mod 8) | None => 0 end ->
    toggle_piece zt (toggle_piece zt (toggle_piece zt (toggle_piece zt
      (key_set_ep zt (key_set_castling zt (flip_side zt (key_set_castling zt
         (toggle_piece zt (toggle_piece zt (toggle_piece zt (toggle_piece zt (key_set_ep zt (flip_side zt k) None) K e) K g) R h) R f) cr'))
         cr) match ep with Some x => Some (x mod 8) | None => None end) K g) K e) R f) R h = k.
  Proof.
    intros Hc He. apply hashkey_ext; autorewrite with keyproj.
    - xor_solve.
    - xor_solve.
    - rewrite He. destruct ep; reflexivity.
    - symmetry. exact Hc.
    - xor_solve.
  Qed.

  Theorem castle_roundtrip s (ks : bool) :
    base_ok s ->
    let rank := if r_side s =? 0 then 0 else 7 in
    nthd (r_board s) (sq_at rank (if ks then 6 else 2)) 0 = 0 ->
    nthd (r_board s) (sq_at rank (if ks then 5 else 3)) 0 = 0 ->
    let m := if ks then KING_CASTLING_MOVE else QUEEN_CASTLING_MOVE in
    obs (undo_move zt (fst (do_move zt s m)) m (snd (do_move zt s m))) = obs s.
  Proof.
    intros [Hlen [Hside [Hhm [Hcr [Hep [Hkc Hke]]]]]] rank H1 H2 m.
    destruct (mi_fields 0 (r_castling s) (r_ep s) false (r_hmc s) ltac:(lia) Hcr Hep Hhm) as [M1 [M2 [M3 [M4 M5]]]].
    unfold ep_key_ok in Hke.
    assert (Hobs : forall side', side' = r_side s ->
       (side', r_hmc s, r_ply s, r_board s, r_castling s, r_ep s, r_key s, r_hist s) = obs s) by (intros ? ->; reflexivity).
    destruct (side_cases s Hside) as [Es|Es]; destruct ks; subst m rank; rewrite Es in H1, H2;
      cbn [N.eqb Pos.eqb] in H1, H2;
      unfold do_move; cbv beta zeta;
      [ change (mv_castling KING_CASTLING_MOVE) with 5 | change (mv_castling QUEEN_CASTLING_MOVE) with 10
      | change (mv_castling KING_CASTLING_MOVE) with 5 | change (mv_castling QUEEN_CASTLING_MOVE) with 10 ];
      try change (negb (5 =? 0)) with true; try change (negb (10 =? 0)) with true;
      try change (5 =? KING_CASTLING) with true; try change (10 =? KING_CASTLING) with false;
      cbv iota; rewrite Es; cbn [N.eqb Pos.eqb]; cbv iota; cbn [fst snd];
      unfold undo_move; cbv beta zeta;
      [ change (mv_castling KING_CASTLING_MOVE) with 5 | change (mv_castling QUEEN_CASTLING_MOVE) with 10
      | change (mv_castling KING_CASTLING_MOVE) with 5 | change (mv_castling QUEEN_CASTLING_MOVE) with 10 ];
      try change (negb (5 =? 0)) with true; try change (negb (10 =? 0)) with true;
      try change (5 =? KING_CASTLING) with true; try change (10 =? KING_CASTLING) with false;
      cbv iota; autorewrite with fields; rewrite ?M2, ?M3, ?M5;
      try change (1 - (1 - 0)) with 0; try change (1 - (1 - 1)) with 1; cbn [N.eqb Pos.eqb]; cbv iota;
      unfold obs at 1; autorewrite with fields;
      repeat match goal with |- context [sq_at ?r ?f] => let v := eval vm_compute in (sq_at r f) in change (sq_at r f) with v end;
      cbn [N.eqb Pos.eqb] in H1, H2;
      repeat match type of H1 with context [sq_at ?r ?f] => let v := eval vm_compute in (sq_at r f) in change (sq_at r f) with v in H1 end;
      repeat match type of H2 with context [sq_at ?r ?f] => let v := eval vm_compute in (sq_at r f) in change (sq_at r f) with v in H2 end;
      simp_nthd; replace (r_ply s + 1 - 1)%Z with (r_ply s) by lia; cbn [tl];
      rewrite castle_board by (first [assumption | lia]);
      rewrite (castle_key (r_key s) _ _ _ (r_castling s) (r_ep s)) by assumption;
      apply Hobs; symmetry; exact Es.
  Qed.
End RT.
