(* C04: the constructor establishes the key invariant (for every Zobrist table and every 64-square board), so that with
   KeyScratchMove.do_move_key_inv the key of every position reached by legal play from any FEN is the closed function
   position_key of (placement, side, rights, ep) - whichever move order led there. *)
From CV Require Import Engine.PositionRep Engine.RepProofs Engine.RepRoundTrip Engine.RepAbs Engine.RepRefineLegal Engine.KeyScratch Engine.KeyScratchMove
     Base.NIter Base.Bits Chess.RulesFacts.
From Coq Require Import Lia List Bool ZArith Btauto Permutation.
Import ListNotations.
Local Open Scope N_scope.

Section I.
  Variable zt : zobrist.

  Definition place_fn (b : list N) (acc : list (list N) * list N * list N) (sq : N) : list (list N) * list N * list N :=
    let '(ls, kb, cb) := acc in
    let pc := nthd b sq 0 in
    if pc =? 0 then acc
    else (updN ls pc (nthd ls pc [] ++ [sq]),
          updN kb (pc_kind pc) (N.lor (nthd kb (pc_kind pc) 0) (bit sq)),
          updN cb (pc_color pc) (N.lor (nthd cb (pc_color pc) 0) (bit sq))).

  Lemma place_fn_eq b ls kb cb sq : place_fn b (ls, kb, cb) sq =
    if nthd b sq 0 =? 0 then (ls, kb, cb)
    else (updN ls (nthd b sq 0) (nthd ls (nthd b sq 0) [] ++ [sq]),
          updN kb (pc_kind (nthd b sq 0)) (N.lor (nthd kb (pc_kind (nthd b sq 0)) 0) (bit sq)),
          updN cb (pc_color (nthd b sq 0)) (N.lor (nthd cb (pc_color (nthd b sq 0)) 0) (bit sq))).
  Proof. reflexivity. Qed.

  Lemma SX_cons c b h t : SX c b (h :: t) = N.lxor (c (nthd b h 0) h) (SX c b t).
  Proof. reflexivity. Qed.

  Lemma fold_place b L : forall ls kb cb, length ls = 13%nat -> (forall sq, In sq L -> nthd b sq 0 < 13) ->
    let ls' := fst (fst (fold_left (place_fn b) L (ls, kb, cb))) in
    length ls' = 13%nat /\
    pk zt ls' = N.lxor (pk zt ls) (SX (cp zt) b L) /\ wkp zt ls' = N.lxor (wkp zt ls) (SX (cw zt) b L) /\
    (forall sq pc, In sq (nthd ls pc []) -> In sq (nthd ls' pc [])) /\
    (forall sq, In sq L -> nthd b sq 0 <> 0 -> In sq (nthd ls' (nthd b sq 0) [])).
  Proof.
    induction L as [|h t IH]; intros ls kb cb Hl Hc; cbn [fold_left].
    - cbn [fst]. split; [exact Hl|]. split; [cbn; rewrite N.lxor_0_r; reflexivity|]. split; [cbn; rewrite N.lxor_0_r; reflexivity|].
      split; [intros; assumption|intros sq []].
    - assert (Hc' : forall sq, In sq t -> nthd b sq 0 < 13) by (intros sq Hin; apply Hc; right; exact Hin).
      rewrite place_fn_eq.
      destruct (nthd b h 0 =? 0) eqn:E0.
      + apply N.eqb_eq in E0. destruct (IH ls kb cb Hl Hc') as [A [B [C [D F]]]]. cbv zeta in *.
        split; [exact A|]. rewrite !SX_cons, E0, cp0, cw0.
        split; [rewrite B; xor_solve|]. split; [rewrite C; xor_solve|]. split; [exact D|].
        intros sq [->|Hin] Hne; [contradiction|apply F; assumption].
      + apply N.eqb_neq in E0. set (pc := nthd b h 0) in *.
        assert (Hpc : 1 <= pc <= 12) by (pose proof (Hc h (or_introl eq_refl)); fold pc in H; lia).
        set (ls1 := updN ls pc (nthd ls pc [] ++ [h])).
        assert (Hl1 : length ls1 = 13%nat) by (unfold ls1; rewrite updN_length; exact Hl).
        match goal with |- context [fold_left (place_fn b) t (_, ?k, ?c)] => destruct (IH ls1 k c Hl1 Hc') as [A [B [C [D F]]]] end. cbv zeta in *.
        destruct (keys_upd zt ls pc (nthd ls pc [] ++ [h]) Hl Hpc) as [K1 K2]. fold ls1 in K1, K2.
        split; [exact A|]. rewrite !SX_cons. fold pc.
        split; [|split; [|split]].
        * rewrite B, K1. unfold cp. destruct (pc =? 0) eqn:E; [apply N.eqb_eq in E; contradiction|]. cbn [orb].
          destruct (pc_kind pc =? PAWN); [xor_solve|rewrite xl_app; xor_solve].
        * rewrite C, K2. unfold cw. destruct (pc_kind pc =? PAWN); [rewrite xl_app; xor_solve|xor_solve].
        * intros sq q Hin. apply D. unfold ls1. rewrite nthd_upd_lists by (first [assumption|lia]).
          destruct (q =? pc) eqn:Eq; [apply N.eqb_eq in Eq; subst q; apply in_or_app; left; exact Hin|exact Hin].
        * intros sq [->|Hin] Hne; [|apply F; assumption].
          fold pc. apply D. unfold ls1. rewrite nthd_upd_lists by (first [assumption|lia]). rewrite N.eqb_refl.
          apply in_or_app. right. left. reflexivity.
  Qed.

  (* ... and every entry the constructor puts on a list is a square holding that piece, once *)
  Lemma fold_place_sound b L : NoDup L -> forall ls kb cb, length ls = 13%nat -> (forall sq, In sq L -> nthd b sq 0 < 13) ->
    (forall pc, 1 <= pc <= 12 -> NoDup (nthd ls pc []) /\ forall sq, In sq (nthd ls pc []) -> ~ In sq L /\ nthd b sq 0 = pc) ->
    let ls' := fst (fst (fold_left (place_fn b) L (ls, kb, cb))) in
    forall pc, 1 <= pc <= 12 -> NoDup (nthd ls' pc []) /\
      forall sq, In sq (nthd ls' pc []) -> nthd b sq 0 = pc /\ (In sq L \/ In sq (nthd ls pc [])).
  Proof.
    induction L as [|h t IH]; intros Hnd ls kb cb Hl Hc Hinv; cbn [fold_left].
    - cbn [fst]. intros pc Hpc. destruct (Hinv pc Hpc) as [A B]. split; [exact A|]. intros sq Hin. destruct (B sq Hin) as [_ E]. split; [exact E|right; exact Hin].
    - inversion Hnd as [|? ? Hh Ht]; subst.
      assert (Hc' : forall sq, In sq t -> nthd b sq 0 < 13) by (intros sq Hin; apply Hc; right; exact Hin).
      rewrite place_fn_eq. destruct (nthd b h 0 =? 0) eqn:E0.
      + assert (Hinv' : forall pc, 1 <= pc <= 12 -> NoDup (nthd ls pc []) /\ forall sq, In sq (nthd ls pc []) -> ~ In sq t /\ nthd b sq 0 = pc).
        { intros pc Hpc. destruct (Hinv pc Hpc) as [A B]. split; [exact A|]. intros sq Hin. destruct (B sq Hin) as [X Y]. split; [intro Z; apply X; right; exact Z|exact Y]. }
        pose proof (IH Ht ls kb cb Hl Hc' Hinv') as R. cbv zeta in R |- *. intros pc Hpc. destruct (R pc Hpc) as [A B]. split; [exact A|].
        intros sq Hin. destruct (B sq Hin) as [X [Y|Y]]; (split; [exact X|]); [left; right; exact Y|right; exact Y].
      + apply N.eqb_neq in E0. set (q := nthd b h 0) in *.
        assert (Hq : 1 <= q <= 12) by (pose proof (Hc h (or_introl eq_refl)); fold q in H; lia).
        set (ls1 := updN ls q (nthd ls q [] ++ [h])).
        assert (Hl1 : length ls1 = 13%nat) by (unfold ls1; rewrite updN_length; exact Hl).
        assert (Hinv' : forall pc, 1 <= pc <= 12 -> NoDup (nthd ls1 pc []) /\ forall sq, In sq (nthd ls1 pc []) -> ~ In sq t /\ nthd b sq 0 = pc).
        { intros pc Hpc. destruct (Hinv pc Hpc) as [A B]. unfold ls1. rewrite nthd_upd_lists by (first [assumption|lia]).
          destruct (pc =? q) eqn:Eq.
          - apply N.eqb_eq in Eq. subst pc. split.
            + apply NoDup_snoc; [exact A|]. intro X. destruct (B h X) as [Y _]. apply Y. left. reflexivity.
            + intros sq Hin. apply in_app_or in Hin as [Hin|[<-|[]]].
              * destruct (B sq Hin) as [X Y]. split; [intro Z; apply X; right; exact Z|exact Y].
              * split; [exact Hh|reflexivity].
          - split; [exact A|]. intros sq Hin. destruct (B sq Hin) as [X Y]. split; [intro Z; apply X; right; exact Z|exact Y]. }
        match goal with |- context [fold_left (place_fn b) t (_, ?k, ?c)] => pose proof (IH Ht ls1 k c Hl1 Hc' Hinv') as R end.
        cbv zeta in R |- *. intros pc Hpc. destruct (R pc Hpc) as [A B]. split; [exact A|].
        intros sq Hin. destruct (B sq Hin) as [X [Y|Y]]; (split; [exact X|]); [left; right; exact Y|].
        unfold ls1 in Y. rewrite nthd_upd_lists in Y by (first [assumption|lia]).
        destruct (pc =? q) eqn:Eq; [|right; exact Y]. apply N.eqb_eq in Eq. rewrite Eq. apply in_app_or in Y as [Y|[<-|[]]]; [right; exact Y|left; left; reflexivity].
  Qed.

  Lemma testbit_bit_q q i : N.testbit (bit q) i = (q =? i).
  Proof. unfold bit. rewrite N.shiftl_1_l. apply N.pow2_bits_eqb. Qed.
  (* ---- the two bitboard families after the constructor's fold ---- *)
  Definition kb_of_i (acc : list (list N) * list N * list N) : list N := snd (fst acc).
  Definition cb_of_i (acc : list (list N) * list N * list N) : list N := snd acc.

  Lemma nthd_upd7_i (l : list N) i j x : length l = 7%nat -> i < 7 -> nthd (updN l i x) j 0 = if j =? i then x else nthd l j 0.
  Proof.
    intros H Hi. destruct (j =? i) eqn:E.
    - apply N.eqb_eq in E. subst j. apply nthd_updN_same. lia.
    - apply N.eqb_neq in E. apply nthd_updN_other. congruence.
  Qed.
  Lemma nthd_upd2_i (l : list N) i j x : length l = 2%nat -> i < 2 -> nthd (updN l i x) j 0 = if j =? i then x else nthd l j 0.
  Proof.
    intros H Hi. destruct (j =? i) eqn:E.
    - apply N.eqb_eq in E. subst j. apply nthd_updN_same. lia.
    - apply N.eqb_neq in E. apply nthd_updN_other. congruence.
  Qed.
  Lemma pc_kind_lt7N pc : pc_kind pc < 7.
  Proof. unfold pc_kind. destruct (pc =? 0); [lia|]. pose proof (N.mod_lt (pc - 1) 6 ltac:(lia)). lia. Qed.
  Lemma pc_color_lt2N pc : pc_color pc < 2.
  Proof. unfold pc_color. destruct (pc <? 7); lia. Qed.

  Lemma fold_place_bb_i b L : forall ls kb cb, length kb = 7%nat -> length cb = 2%nat ->
    let acc := fold_left (place_fn b) L (ls, kb, cb) in
    length (kb_of_i acc) = 7%nat /\ length (cb_of_i acc) = 2%nat /\
    (forall k i, N.testbit (nthd (kb_of_i acc) k 0) i = N.testbit (nthd kb k 0) i || existsb (fun sq => (sq =? i) && negb (nthd b sq 0 =? 0) && (pc_kind (nthd b sq 0) =? k)) L) /\
    (forall c i, N.testbit (nthd (cb_of_i acc) c 0) i = N.testbit (nthd cb c 0) i || existsb (fun sq => (sq =? i) && negb (nthd b sq 0 =? 0) && (pc_color (nthd b sq 0) =? c)) L).
  Proof.
    induction L as [|h t IH]; intros ls kb cb Hk Hc; cbn [fold_left].
    - cbv zeta. unfold kb_of_i, cb_of_i. cbn [fst snd existsb]. repeat split; try assumption; intros; rewrite orb_false_r; reflexivity.
    - rewrite place_fn_eq. destruct (nthd b h 0 =? 0) eqn:E0.
      + destruct (IH ls kb cb Hk Hc) as [A [B [C D]]]. cbv zeta in *. split; [exact A|]. split; [exact B|]. split.
        * intros k i. rewrite C. cbn [existsb]. rewrite E0. cbn [negb andb]. rewrite andb_false_r. reflexivity.
        * intros c i. rewrite D. cbn [existsb]. rewrite E0. cbn [negb andb]. rewrite andb_false_r. reflexivity.
      + set (pc := nthd b h 0) in *.
        match goal with |- context [fold_left (place_fn b) t (?a, ?k, ?c)] =>
          destruct (IH a k c ltac:(rewrite updN_length; exact Hk) ltac:(rewrite updN_length; exact Hc)) as [A [B [C D]]] end.
        cbv zeta in *. split; [exact A|]. split; [exact B|]. split.
        * intros k i. rewrite C. rewrite (nthd_upd7_i kb (pc_kind pc) k _ Hk (pc_kind_lt7N pc)). cbn [existsb]. fold pc. rewrite E0. cbn [negb].
          destruct (k =? pc_kind pc) eqn:Ek.
          -- apply N.eqb_eq in Ek. subst k. rewrite N.lor_spec, testbit_bit_q, N.eqb_refl. rewrite andb_true_r. btauto.
          -- rewrite (N.eqb_sym (pc_kind pc) k), Ek. rewrite andb_false_r. reflexivity.
        * intros c i. rewrite D. rewrite (nthd_upd2_i cb (pc_color pc) c _ Hc (pc_color_lt2N pc)). cbn [existsb]. fold pc. rewrite E0. cbn [negb].
          destruct (c =? pc_color pc) eqn:Ec.
          -- apply N.eqb_eq in Ec. subst c. rewrite N.lor_spec, testbit_bit_q, N.eqb_refl. rewrite andb_true_r. btauto.
          -- rewrite (N.eqb_sym (pc_color pc) c), Ec. rewrite andb_false_r. reflexivity.
  Qed.

  (* XOR sums do not depend on the order of the squares *)
  Lemma SX_perm c b L1 L2 : Permutation L1 L2 -> SX c b L1 = SX c b L2.
  Proof.
    induction 1 as [|x l l' H IH|x y l|l l' l'' H1 IH1 H2 IH2]; [reflexivity| | |congruence].
    - rewrite !SX_cons, IH. reflexivity.
    - rewrite !SX_cons. xor_solve.
  Qed.

  Lemma nodup_check (l : list N) : forallb (fun x => Nat.eqb (count_occ N.eq_dec l x) 1) l = true -> NoDup l.
  Proof.
    intro H. apply (NoDup_count_occ' N.eq_dec). intros x Hin. rewrite forallb_forall in H. apply Nat.eqb_eq. apply H. exact Hin.
  Qed.
  Lemma fen_order_perm : Permutation fen_order all_squares.
  Proof.
    apply NoDup_Permutation.
    - apply nodup_check. vm_compute. reflexivity.
    - apply NoDup_all_squares.
    - intro x. rewrite <- in_all_squares. split.
      + intro Hin. assert (H : forallb (fun x => x <? 64) fen_order = true) by (vm_compute; reflexivity).
        rewrite forallb_forall in H. apply N.ltb_lt. apply H. exact Hin.
      + intro Hx. assert (H : forallN 64 (fun x => existsb (N.eqb x) fen_order) = true) by (vm_compute; reflexivity).
        pose proof (forallN_spec _ _ H x Hx) as K. cbv beta in K. apply existsb_exists in K as [y [Hy E]]. apply N.eqb_eq in E. subst y. exact Hy.
  Qed.

  Lemma piece_code_lt13 o : piece_code o < 13.
  Proof. destruct o as [[[] []]|]; cbn; lia. Qed.
  Lemma codes_of_map (bd : Rules.board) sq : nthd (map piece_code bd) sq 0 < 13.
  Proof.
    unfold nthd. change 0 with (piece_code None). rewrite map_nth. apply piece_code_lt13.
  Qed.

  Lemma in_fen_order_existsb (f g : N -> bool) i : existsb (fun sq => (sq =? i) && f sq && g sq) fen_order = (i <? 64) && f i && g i.
  Proof.
    destruct (i <? 64) eqn:E.
    - apply N.ltb_lt in E. cbn [andb]. destruct (f i && g i) eqn:Fi.
      + apply existsb_exists. exists i. split; [apply (Permutation_in _ (Permutation_sym fen_order_perm)); apply in_all_squares; exact E|]. rewrite N.eqb_refl. exact Fi.
      + destruct (existsb _ fen_order) eqn:X; [|reflexivity]. apply existsb_exists in X as [y [_ Hy]]. apply andb_prop in Hy as [Hy Y3]. apply andb_prop in Hy as [Y1 Y2]. apply N.eqb_eq in Y1. subst y. rewrite Y2, Y3 in Fi. discriminate Fi.
    - cbn [andb]. destruct (existsb _ fen_order) eqn:X; [|reflexivity]. apply existsb_exists in X as [y [Hy Hy2]]. apply andb_prop in Hy2 as [Hy2 _]. apply andb_prop in Hy2 as [Y1 _]. apply N.eqb_eq in Y1. subst y.
      apply (Permutation_in _ fen_order_perm) in Hy. apply in_all_squares in Hy. apply N.ltb_nlt in E. contradiction.
  Qed.

  Lemma zeros_testbit n k i : N.testbit (nthd (repeat 0 n) k 0) i = false.
  Proof. unfold nthd. generalize (N.to_nat k). induction n as [|n IH]; intros [|m]; cbn; rewrite ?N.bits_0; try reflexivity. apply IH. Qed.

  Lemma bb_of_fold (b kb cb : list N) : length kb = 7%nat -> length cb = 2%nat ->
    (forall k i, N.testbit (nthd kb k 0) i = N.testbit (nthd (repeat 0 7) k 0) i || existsb (fun sq => (sq =? i) && negb (nthd b sq 0 =? 0) && (pc_kind (nthd b sq 0) =? k)) fen_order) ->
    (forall c i, N.testbit (nthd cb c 0) i = N.testbit (nthd (repeat 0 2) c 0) i || existsb (fun sq => (sq =? i) && negb (nthd b sq 0 =? 0) && (pc_color (nthd b sq 0) =? c)) fen_order) ->
    fam_sound kb 7 b pc_kind /\ fam_sound cb 2 b pc_color.
  Proof.
    intros LK LC BK BC. split; (split; [assumption|]); intros k i _.
    - rewrite BK, zeros_testbit. cbn [orb]. rewrite (in_fen_order_existsb (fun sq => negb (nthd b sq 0 =? 0)) (fun sq => pc_kind (nthd b sq 0) =? k) i). reflexivity.
    - rewrite BC, zeros_testbit. cbn [orb]. rewrite (in_fen_order_existsb (fun sq => negb (nthd b sq 0 =? 0)) (fun sq => pc_color (nthd b sq 0) =? k) i). reflexivity.
  Qed.

  (* the constructor (Position::Position(fen) after parsing) establishes the invariant, for every board of 64 squares *)
  Theorem rep_of_position_key_inv (p : Rules.position) : length (Rules.brd p) = 64%nat -> key_inv zt (rep_of_position zt p).
  Proof.
    intro Hlen. unfold rep_of_position. cbv zeta.
    set (b := map piece_code (Rules.brd p)).
    change (fun (acc : list (list N) * list N * list N) (sq : N) => let '(ls, kb, cb) := acc in
              if nthd b sq 0 =? 0 then acc
              else (updN ls (nthd b sq 0) (nthd ls (nthd b sq 0) [] ++ [sq]),
                    updN kb (pc_kind (nthd b sq 0)) (N.lor (nthd kb (pc_kind (nthd b sq 0)) 0) (bit sq)),
                    updN cb (pc_color (nthd b sq 0)) (N.lor (nthd cb (pc_color (nthd b sq 0)) 0) (bit sq)))) with (place_fn b).
    assert (Hc : forall sq, In sq fen_order -> nthd b sq 0 < 13) by (intros sq _; apply codes_of_map).
    pose proof (fold_place b fen_order (repeat [] 13) (repeat 0 7) (repeat 0 2) eq_refl Hc) as HF. cbv zeta in HF.
    assert (Hnd : NoDup fen_order) by (apply (Permutation_NoDup (Permutation_sym fen_order_perm)); apply NoDup_all_squares).
    assert (Hinit : forall pc, 1 <= pc <= 12 -> NoDup (nthd (repeat [] 13) pc ([] : list N)) /\ forall sq, In sq (nthd (repeat [] 13) pc []) -> ~ In sq fen_order /\ nthd b sq 0 = pc).
    { intros pc Hpc. assert (Hnil : nthd (repeat [] 13) pc ([] : list N) = []) by (destruct (N12 pc Hpc) as [->|[->|[->|[->|[->|[->|[->|[->|[->|[->|[->| ->]]]]]]]]]]]; reflexivity).
      rewrite Hnil. split; [constructor|intros sq []]. }
    pose proof (fold_place_sound b fen_order Hnd (repeat [] 13) (repeat 0 7) (repeat 0 2) eq_refl Hc Hinit) as HS. cbv zeta in HS.
    pose proof (fold_place_bb_i b fen_order (repeat [] 13) (repeat 0 7) (repeat 0 2) eq_refl eq_refl) as HB. cbv zeta in HB.
    destruct (fold_left (place_fn b) fen_order (repeat [] 13, repeat 0 7, repeat 0 2)) as [[ls kb] cb]. cbn [fst] in HF, HS. unfold kb_of_i, cb_of_i in HB. cbn [fst snd] in HB.
    destruct HF as [A [B [C [D F]]]].
    assert (Hpk0 : pk zt (repeat [] 13) = 0) by reflexivity. assert (Hwk0 : wkp zt (repeat [] 13) = 0) by reflexivity.
    rewrite Hpk0, N.lxor_0_l in B. rewrite Hwk0, N.lxor_0_l in C.
    rewrite (SX_perm (cp zt) b _ _ fen_order_perm) in B. rewrite (SX_perm (cw zt) b _ _ fen_order_perm) in C.
    assert (Hb : length b = 64%nat) by (unfold b; rewrite map_length; exact Hlen).
    split.
    - unfold piece_inv, cover. cbn [set_meta r_board r_lists r_key].
      split; [exact Hb|]. split; [exact A|]. split; [intros sq _; apply codes_of_map|].
      split; [intros sq Hsq Hne; apply F; [|exact Hne]; apply (Permutation_in _ (Permutation_sym fen_order_perm)); apply in_all_squares; exact Hsq|].
      split; [reflexivity|]. split; [reflexivity|]. split; [exact B|]. split; [exact C|]. split.
      { intros pc Hpc. destruct (HS pc Hpc) as [S1 S2]. split; [exact S1|]. intros sq Hin. destruct (S2 sq Hin) as [E [X|X]].
      + split; [|exact E]. apply in_all_squares. apply (Permutation_in _ fen_order_perm). exact X.
      + exfalso. assert (Hnil : nthd (repeat [] 13) pc ([] : list N) = []) by (destruct (N12 pc Hpc) as [->|[->|[->|[->|[->|[->|[->|[->|[->|[->|[->| ->]]]]]]]]]]]; reflexivity).
        rewrite Hnil in X. destruct X. }
      (* the bitboards *)
      destruct HB as [LK [LC [BK BC]]]. exact (bb_of_fold b kb cb LK LC BK BC).
    - unfold scalar_inv. cbn [set_meta r_key r_ep r_castling r_side scratch_key k_ep k_castling k_color]. repeat split; reflexivity.
  Qed.

  (* ---- along any line of pseudo-legal moves through well-formed states ---- *)
  Fixpoint play_rep (s : rep) (ms : list Rules.move) : rep :=
    match ms with [] => s | m :: r => play_rep (fst (do_move zt s (enc m))) r end.
  Fixpoint line_ok (s : rep) (ms : list Rules.move) : Prop :=
    match ms with
    | [] => True
    | m :: r => RepRefineLegal.rep_ok s /\ Rules.pseudo_legal (rep_abs s) m = true /\ line_ok (fst (do_move zt s (enc m))) r
    end.
  Theorem key_inv_along_line ms : forall s, key_inv zt s -> line_ok s ms -> key_inv zt (play_rep s ms).
  Proof.
    induction ms as [|m r IH]; intros s Hk Hl; [exact Hk|]. destruct Hl as [Hok [Hpl Hr]]. cbn [play_rep].
    apply IH; [apply do_move_key_inv; assumption|exact Hr].
  Qed.

  (* two games from two FENs: equal (placement, side, rights, ep) at the end => equal keys *)
  Theorem transposition_same_key p1 p2 ms1 ms2 :
    length (Rules.brd p1) = 64%nat -> length (Rules.brd p2) = 64%nat ->
    line_ok (rep_of_position zt p1) ms1 -> line_ok (rep_of_position zt p2) ms2 ->
    let a := play_rep (rep_of_position zt p1) ms1 in let b := play_rep (rep_of_position zt p2) ms2 in
    r_board a = r_board b -> r_side a = r_side b -> r_castling a = r_castling b -> r_ep a = r_ep b ->
    get_key (r_key a) = get_key (r_key b) /\ k_pawn (r_key a) = k_pawn (r_key b).
  Proof.
    intros L1 L2 H1 H2 a b Eb Es Ec Ee.
    assert (Ka : key_inv zt a) by (apply key_inv_along_line; [apply rep_of_position_key_inv; exact L1|exact H1]).
    assert (Kb : key_inv zt b) by (apply key_inv_along_line; [apply rep_of_position_key_inv; exact L2|exact H2]).
    destruct (same_position_same_key zt a b Ka Kb Eb Es Ec Ee) as [E1 E2]. split; [exact E2|rewrite E1; reflexivity].
  Qed.
End I.
