(* The evaluator's only state: the pawn-structure cache (engine/hashmap.h HashMap<uint64_t, Score, 512*512>, used by
   PositionScorer::score_pawns and cleared by PositionScorer::clear / ucinewgame).  The table is a function from slot
   to (key, value); everything the evaluator computes without the cache is abstract (Section variables), so the purity
   theorem holds for every evaluation function.  No proofs in this file. *)
From Coq Require Import NArith ZArith List Bool.
Import ListNotations.
Local Open Scope N_scope.

Definition slots : N := 262144.           (* 512 * 512 *)
Definition slot (key : N) : N := N.land key (slots - 1).

Record entry (V : Type) := { e_key : N; e_val : V }.
Arguments e_key {V}. Arguments e_val {V}.

Section Table.
  Variable V : Type.
  Variable dflt : V.                      (* Value() : what clear() stores (Score{0,0}) and what a fresh table holds *)
  Definition table := N -> entry V.

  Definition t_init : table := fun _ => {| e_key := 0; e_val := dflt |}.
  Definition t_probe (t : table) (key : N) : bool * V := let e := t (slot key) in (e_key e =? key, e_val e).
  Definition t_insert (t : table) (key : N) (v : V) : table :=
    fun i => if i =? slot key then {| e_key := key; e_val := v |} else t i.
  (* clear(): data_[i].key = 0; data_[i].value = Value() *)
  Definition t_clear (t : table) : table := fun i => {| e_key := 0; e_val := dflt |}.
  (* the code before the repair: keys only *)
  Definition t_clear_keys_only (t : table) : table := fun i => {| e_key := 0; e_val := e_val (t i) |}.
End Table.

Section Evaluator.
  Variable pos : Type.
  Variable V R : Type.                   (* pawn-term type (Score) and final result type (Value) *)
  Variable dflt : V.
  Variable pawn_key : pos -> N.          (* Position::pawn_hash() *)
  Variable pawn_score : pos -> V.        (* score_pawns_for_side<WHITE> - score_pawns_for_side<BLACK> *)
  Variable finish : pos -> V -> R.       (* endgame short-cut, pieces, king, game phase, combine, side to move *)

  Definition score_pawns (t : table V) (p : pos) : V * table V :=
    let '(found, v) := t_probe V t (pawn_key p) in
    if found then (v, t) else let s := pawn_score p in (s, t_insert V t (pawn_key p) s).

  Definition eval (t : table V) (p : pos) : R * table V :=
    let '(v, t') := score_pawns t p in (finish p v, t').

  Definition pure_eval (p : pos) : R := finish p (pawn_score p).

  Inductive op := Eval (p : pos) | Clear.

  Definition step (clear : table V -> table V) (t : table V) (o : op) : table V :=
    match o with Eval p => snd (eval t p) | Clear => clear t end.
End Evaluator.
