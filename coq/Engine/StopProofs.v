From Coq Require Import List Arith Lia Bool.
From CV Require Import Engine.StopProtocol.
Import ListNotations.

Section Proofs.
  Variable max_frames max_moves : nat.

  Notation sstep := (sstep false max_frames max_moves).
  Notation gstep := (gstep false max_frames max_moves).
  Notation run := (run false max_frames max_moves).

  (* with no reset in go(), the search thread never clears the flag *)
  Lemma sstep_keeps_flag c p : forall p' f' b, sstep c p true = (p', f', b) -> f' = true.
  Proof.
    intros p' f' b H. destruct p as [| | |st| |]; cbn in H; try (injection H as _ <- _; reflexivity).
    destruct st as [|r rest]; [injection H as _ <- _; reflexivity|].
    destruct r; injection H as _ <- _; reflexivity.
  Qed.

  (* ... and every step with the flag set strictly decreases the distance to the bestmove *)
  Lemma sstep_decreases c p : p <> PDone -> forall p' f' b, sstep c p true = (p', f', b) -> measure p' < measure p.
  Proof.
    intros Hp p' f' b H. destruct p as [| | |st| |]; cbn in H; try (injection H as <- _ _; cbn; lia); [|congruence].
    destruct st as [|r rest]; [injection H as <- _ _; cbn; lia|].
    destruct r; injection H as <- _ _; cbn; lia.
  Qed.

  Lemma pdone_dec (p : spc) : {p = PDone} + {p <> PDone}.
  Proof. destruct p; (left; reflexivity) || (right; discriminate). Qed.

  Lemma sstep_done c f : sstep c PDone f = (PDone, f, false).
  Proof. reflexivity. Qed.

  (* bestmove is printed exactly when the thread moves from PPrint to PDone *)
  Lemma sstep_best c p f p' f' b : sstep c p f = (p', f', b) -> b = true -> p = PPrint /\ p' = PDone.
  Proof.
    intros H Hb. subst b. unfold StopProtocol.sstep in H.
    repeat match type of H with context [match ?x with _ => _ end] => destruct x end;
      inversion H; subst; split; reflexivity.
  Qed.

  (* invariant of every reachable state once a stop was sent: the flag is set *)
  Lemma run_flag_after_stop sched : forall g, g_flag g = true -> g_stop_sent g = true ->
    g_flag (run sched g) = true /\ g_stop_sent (run sched g) = true.
  Proof.
    induction sched as [|t sched IH]; intros g Hf Hs; [split; assumption|].
    cbn [StopProtocol.run fold_left]. apply IH.
    - destruct t as [|c]; [reflexivity|]. cbn. destruct (sstep c (g_pc g) (g_flag g)) as [[p f] b] eqn:E. cbn.
      rewrite Hf in E. eapply sstep_keeps_flag. exact E.
    - destruct t as [|c]; [reflexivity|]. cbn. destruct (sstep c (g_pc g) (g_flag g)) as [[p f] b]. cbn. exact Hs.
  Qed.

  (* C06 core: after the stop is delivered - at ANY point of the search thread's life, including before its first
     step - every continuation in which the search thread takes at least [measure] more steps has printed the
     bestmove, whatever the search does and however the two threads interleave *)
  Lemma run_reaches_done sched : forall g, g_flag g = true -> g_stop_sent g = true ->
    measure (g_pc g) <= searcher_steps sched -> g_pc (run sched g) = PDone.
  Proof.
    induction sched as [|t sched IH]; intros g Hf Hs Hm.
    - cbn in Hm. destruct (g_pc g) eqn:E; cbn in Hm; try lia. cbn. exact E.
    - cbn [StopProtocol.run fold_left]. destruct t as [|c].
      + apply IH; [reflexivity|reflexivity|]. cbn in *. exact Hm.
      + cbn. destruct (sstep c (g_pc g) (g_flag g)) as [[p f] b] eqn:E. rewrite Hf in E.
        apply IH; cbn.
        * eapply sstep_keeps_flag. exact E.
        * exact Hs.
        * assert (Hss : searcher_steps (Searcher c :: sched) = S (searcher_steps sched)) by reflexivity.
          rewrite Hss in Hm.
          destruct (pdone_dec (g_pc g)) as [Ed|Ed].
          -- rewrite Ed in E. rewrite sstep_done in E. injection E as <- _ _. cbn. lia.
          -- pose proof (sstep_decreases c (g_pc g) Ed p f b E). lia.
  Qed.

  (* ---- reachable stacks are bounded, hence so is the distance to the bestmove ---- *)
  Definition stack_ok (st : list nat) : Prop := length st <= S max_frames /\ Forall (fun r => r <= max_moves) st.
  Definition pc_ok (p : spc) : Prop := match p with PSearch st => stack_ok st | _ => True end.

  Lemma sstep_pc_ok (gr : bool) c p f : pc_ok p -> pc_ok (fst (fst (StopProtocol.sstep gr max_frames max_moves c p f))).
  Proof.
    intro H. destruct p as [| | |st| |]; try (cbn [StopProtocol.sstep fst pc_ok]; exact I).
    - (* PLoop *) cbn [StopProtocol.sstep]. destruct f; cbn [fst pc_ok]; [exact I|].
      split; cbn [length]; [lia|]. constructor; [apply Nat.le_min_l|constructor].
    - (* PSearch *) destruct st as [|r rest]; [cbn [StopProtocol.sstep fst pc_ok]; exact I|].
      destruct H as [Hl Hf]. cbn [length] in Hl. inversion Hf as [|x l Hr Hrest]; subst.
      assert (Hrest' : stack_ok rest) by (split; [lia|exact Hrest]).
      assert (Hdec : forall r', r = S r' -> stack_ok (r' :: rest)).
      { intros r' ->. split; cbn [length]; [lia|]. constructor; [lia|exact Hrest]. }
      cbn [StopProtocol.sstep]. destruct f.
      + destruct r; cbn [fst pc_ok]; [exact Hrest'|apply Hdec; reflexivity].
      + destruct c; cbn [fst pc_ok]; try exact Hrest'.
        destruct r; cbn [fst pc_ok]; [exact Hrest'|].
        destruct (length rest <? max_frames) eqn:E; cbn [fst pc_ok]; [|apply Hdec; reflexivity].
        apply Nat.ltb_lt in E. split; cbn [length]; [lia|]. constructor; [apply Nat.le_min_l|]. constructor; [lia|exact Hrest].
  Qed.

  Lemma sum_bound st : Forall (fun r => r <= max_moves) st -> fold_right (fun r acc => S r + acc) 0 st <= length st * S max_moves.
  Proof. induction 1 as [|r l Hr Hl IH]; cbn [fold_right length]; [lia|]. rewrite Nat.mul_succ_l. lia. Qed.

  Definition latency_bound : nat := 4 + S max_frames * S max_moves.

  Lemma measure_bound p : pc_ok p -> measure p <= latency_bound.
  Proof.
    unfold latency_bound. destruct p as [| | |st| |]; cbn [measure pc_ok]; intro H; try lia.
    destruct H as [Hl Hf]. pose proof (sum_bound st Hf) as Hs.
    pose proof (Nat.mul_le_mono_r _ _ (S max_moves) Hl) as Hm. lia.
  Qed.

  Lemma run_pc_ok (gr : bool) sched : forall g, pc_ok (g_pc g) -> pc_ok (g_pc (StopProtocol.run gr max_frames max_moves sched g)).
  Proof.
    induction sched as [|t sched IH]; intros g H; [exact H|]. cbn [StopProtocol.run fold_left]. apply IH.
    destruct t as [|c]; [exact H|]. cbn.
    pose proof (sstep_pc_ok gr c (g_pc g) (g_flag g) H) as K.
    destruct (StopProtocol.sstep gr max_frames max_moves c (g_pc g) (g_flag g)) as [[p f] b]. exact K.
  Qed.

  (* C06: a stop delivered after ANY prefix of ANY interleaving (empty prefix = before the search thread has run at
     all) is followed by the bestmove within [latency_bound] steps of the search thread *)
  Theorem stop_never_lost pre post :
    latency_bound <= searcher_steps post ->
    g_pc (run (pre ++ Reader :: post) (init)) = PDone.
  Proof.
    intro H. unfold StopProtocol.run. rewrite fold_left_app. cbn [fold_left].
    set (g := fold_left _ pre init).
    apply run_reaches_done; [reflexivity|reflexivity|].
    cbn. eapply Nat.le_trans; [|exact H]. apply measure_bound.
    apply (run_pc_ok false pre init). exact I.
  Qed.

  (* exactly one bestmove: the counter is 1 in the final state and never more *)
  Lemma best_invariant (gr : bool) sched : forall g,
    g_best g = (match g_pc g with PDone => 1 | _ => 0 end) ->
    g_best (StopProtocol.run gr max_frames max_moves sched g) =
    (match g_pc (StopProtocol.run gr max_frames max_moves sched g) with PDone => 1 | _ => 0 end).
  Proof.
    induction sched as [|t sched IH]; intros g H; [exact H|]. cbn [StopProtocol.run fold_left]. apply IH.
    destruct t as [|c]; [exact H|]. cbn.
    destruct (StopProtocol.sstep gr max_frames max_moves c (g_pc g) (g_flag g)) as [[p f] b] eqn:E. cbn. rewrite H.
    unfold StopProtocol.sstep in E.
    repeat match type of E with context [match ?x with _ => _ end] => destruct x end; inversion E; subst; reflexivity.
  Qed.

  Theorem one_bestmove pre post :
    latency_bound <= searcher_steps post -> g_best (run (pre ++ Reader :: post) init) = 1.
  Proof.
    intro H. rewrite (best_invariant false _ init eq_refl). rewrite (stop_never_lost pre post H). reflexivity.
  Qed.

  Theorem never_two_bestmoves (gr : bool) sched : g_best (StopProtocol.run gr max_frames max_moves sched init) <= 1.
  Proof. rewrite (best_invariant gr sched init eq_refl). destruct (g_pc _); lia. Qed.
End Proofs.

(* ---- the defect the fix removed: if go() resets the flag, a stop delivered before the reset is lost ---- *)
Lemma lost_stop_with_reset max_frames max_moves n :
  g_pc (run true max_frames max_moves (Reader :: Searcher Return :: Searcher Return :: repeat (Searcher Return) n) (init)) <> PDone.
Proof.
  cbn [run fold_left gstep sstep init g_pc g_flag].
  assert (H : forall n g, g_flag g = false -> (g_pc g = PLoop \/ (exists r, g_pc g = PSearch [r]) \/ g_pc g = PSearch []) ->
              g_pc (run true max_frames max_moves (repeat (Searcher Return) n) g) <> PDone).
  { clear n. induction n as [|n IH]; intros g Hf Hp.
    - cbn. destruct Hp as [->|[[r ->]| ->]]; discriminate.
    - cbn [repeat run fold_left]. apply IH.
      + cbn. destruct Hp as [E|[[r E]|E]]; rewrite E, Hf; cbn; reflexivity.
      + cbn. destruct Hp as [E|[[r E]|E]]; rewrite E, Hf; cbn; [right; left; eexists; reflexivity|right; right; reflexivity|left; reflexivity]. }
  apply H; cbn; [reflexivity|left; reflexivity].
Qed.

