(* C03: undo_move after do_move for every non-castling move (quiet, capture, promotion, promotion with capture, en passant):
   all observable scalars are restored.  Continues Engine/RepRoundTrip.v (which has the castling case and the shared lemmas). *)
From CV Require Import Engine.PositionRep Engine.EncodingProofs Engine.RepProofs Engine.RepRoundTrip.
From Coq Require Import Lia List Btauto.
Import ListNotations.
Local Open Scope N_scope.
Section N.
  Variable zt : zobrist.
  Hint Rewrite (tg_piece zt) (tg_pawn zt) (tg_ep zt) (tg_castling zt) (tg_color zt) (se_piece zt) (se_pawn zt) (se_ep zt) (se_castling zt) (se_color zt)
       (sc_piece zt) (sc_pawn zt) (sc_ep zt) (sc_castling zt) (sc_color zt) (fs_piece zt) (fs_pawn zt) (fs_ep zt) (fs_castling zt) (fs_color zt) : keyproj.
  Hint Rewrite sm_side sm_hmc sm_ply sm_castling sm_ep sm_key sm_hist sm_board
       (mp_side zt) (mp_hmc zt) (mp_ply zt) (mp_castling zt) (mp_ep zt) (mp_hist zt) (mp_board zt) (mp_key zt)
       (ap_side zt) (ap_hmc zt) (ap_ply zt) (ap_castling zt) (ap_ep zt) (ap_hist zt) (ap_board zt) (ap_key zt)
       (rp_side zt) (rp_hmc zt) (rp_ply zt) (rp_castling zt) (rp_ep zt) (rp_hist zt) (rp_board zt) (rp_key zt) : fields.
  Ltac xor_solve := apply N.bits_inj; intro; rewrite ?N.lxor_spec; btauto.
  Ltac len64 := repeat apply len_upd64; assumption.
  Ltac simp_nthd :=
    repeat first [ rewrite nthd_same64 by (first [len64 | lia])
                 | rewrite nthd_updN_other by (first [lia | congruence | discriminate]) ].

  Lemma pc_kind_lt8 pc : pc_kind pc < 8.
  Proof. unfold pc_kind. destruct (pc =? 0); [lia|]. pose proof (N.mod_lt (pc - 1) 6). lia. Qed.
  Lemma side_back x : x < 2 -> 1 - (1 - x) = x. Proof. lia. Qed.

  Definition is_ep_flag (s : rep) (from to : N) : bool :=
    (pc_kind (nthd (r_board s) from 0) =? PAWN) && match r_ep s with Some e => to =? e | None => false end.


  Lemma make_piece_kind0 c : make_piece c 0 = 0. Proof. reflexivity. Qed.

  (* every non-castling, non-en-passant move: quiet, capture, promotion, promotion with capture *)
  Theorem normal_roundtrip s from to promo cap :
    base_ok zt s -> from < 64 -> to < 64 -> from <> to -> promo < 8 ->
    nthd (r_board s) to 0 = cap -> make_piece (1 - r_side s) (pc_kind cap) = cap ->
    (promo <> 0 -> nthd (r_board s) from 0 = make_piece (r_side s) PAWN) ->
    is_ep_flag s from to = false ->
    let m := create_promotion from to promo in
    obs (undo_move zt (fst (do_move zt s m)) m (snd (do_move zt s m))) = obs s.
  Proof.
    intros [Hlen [Hside [Hhm [Hcr [Hep [Hkc Hke]]]]]] Hf Ht Hne Hp Hcap Hcc Hpromo Hnep m.
    destruct (decode_promotion from to promo Hf Ht Hp) as [Df [Dt [Dp Dc]]]. fold m in Df, Dt, Dp, Dc.
    unfold ep_key_ok in Hke. unfold is_ep_flag in Hnep.
    destruct (mi_fields (pc_kind cap) (r_castling s) (r_ep s) false (r_hmc s) (pc_kind_lt8 cap) Hcr Hep Hhm) as [M1 [M2 [M3 [M4 M5]]]].
    unfold do_move. cbv beta zeta. rewrite Dc, Df, Dt, Dp. change (negb (0 =? 0)) with false. cbv iota.
    autorewrite with fields. rewrite Hcap, Hnep.
    destruct (promo =? 0) eqn:Ep; destruct (cap =? 0) eqn:Ec; cbn [negb]; cbv beta iota zeta; cbn [fst snd];
      (lazymatch goal with |- obs (undo_move _ (set_meta _ _ ?hm _ ?cr ?ep _ _) _ _) = _ =>
         set (HM := hm); set (CR := cr); set (EP := ep); clearbody HM CR EP end);
      unfold undo_move; cbv beta zeta; rewrite Dc, Df, Dt, Dp, ?Ep; change (negb (0 =? 0)) with false; cbn [negb]; cbv iota;
      autorewrite with fields; rewrite M1, M2, M3, M4, M5, (side_back _ Hside), Hcc, Ec; cbn [negb]; cbv iota;
      unfold obs at 1; autorewrite with fields; simp_nthd; cbn [tl];
      replace (r_ply s + 1 - 1)%Z with (r_ply s) by lia;
      try (apply N.eqb_neq in Ep; rewrite (Hpromo Ep) in * );
      try (apply N.eqb_eq in Ec; subst cap);
      rewrite ?Hcap; unfold obs; repeat f_equal;
      try (apply nthd_ext; [len64|exact Hlen|]; intros i Hi;
           destruct (N.eq_dec i from) as [->|Nf]; [simp_nthd; try reflexivity; try (symmetry; apply Hpromo; assumption)|];
           destruct (N.eq_dec i to) as [->|Nt]; [simp_nthd; try reflexivity; try (symmetry; assumption)|];
           simp_nthd; reflexivity);
      try (apply hashkey_ext; destruct EP; autorewrite with keyproj; try xor_solve; try (symmetry; exact Hkc);
           rewrite Hke; destruct (r_ep s); reflexivity).
  Qed.

  Definition capsq (s : rep) (to : N) : N := if r_side s =? 0 then to - 8 else to + 8.

  Theorem ep_roundtrip s from to :
    base_ok zt s -> from < 64 -> to < 64 -> from <> to ->
    nthd (r_board s) to 0 = 0 -> is_ep_flag s from to = true ->
    capsq s to < 64 -> capsq s to <> from -> capsq s to <> to ->
    nthd (r_board s) (capsq s to) 0 = make_piece (1 - r_side s) PAWN ->
    let m := create_promotion from to 0 in
    obs (undo_move zt (fst (do_move zt s m)) m (snd (do_move zt s m))) = obs s.
  Proof.
    intros [Hlen [Hside [Hhm [Hcr [Hep [Hkc Hke]]]]]] Hf Ht Hne Hcap Hisep Hc1 Hc2 Hc3 Hpawn m.
    destruct (decode_promotion from to 0 Hf Ht ltac:(lia)) as [Df [Dt [Dp Dc]]]. fold m in Df, Dt, Dp, Dc.
    unfold ep_key_ok in Hke. unfold is_ep_flag in Hisep.
    destruct (mi_fields 0 (r_castling s) (r_ep s) true (r_hmc s) ltac:(lia) Hcr Hep Hhm) as [M1 [M2 [M3 [M4 M5]]]].
    unfold do_move. cbv beta zeta. rewrite Dc, Df, Dt, Dp. change (negb (0 =? 0)) with false. cbv iota.
    autorewrite with fields. rewrite Hcap, Hisep. change (pc_kind 0) with 0. cbv beta iota zeta. cbn [fst snd].
    fold (capsq s to).
    lazymatch goal with |- obs (undo_move _ (set_meta _ _ ?hm _ ?cr ?ep _ _) _ _) = _ =>
       set (HM := hm); set (EP := ep); clearbody HM EP end.
    unfold undo_move. cbv beta zeta. rewrite Dc, Df, Dt, Dp. change (negb (0 =? 0)) with false. cbv iota.
    autorewrite with fields. rewrite M1, M2, M3, M4, M5, (side_back _ Hside). fold (capsq s to).
    rewrite make_piece_kind0. change (negb (0 =? 0)) with false. cbv iota.
    unfold obs at 1. autorewrite with fields. simp_nthd. cbn [tl].
    replace (r_ply s + 1 - 1)%Z with (r_ply s) by lia.
    rewrite ?Hpawn. unfold obs. repeat f_equal.
    - apply nthd_ext; [len64|exact Hlen|]. intros i Hi.
      destruct (N.eq_dec i from) as [->|Nf]; [simp_nthd; reflexivity|].
      destruct (N.eq_dec i to) as [->|Nt]; [simp_nthd; symmetry; exact Hcap|].
      destruct (N.eq_dec i (capsq s to)) as [->|Nc]; [simp_nthd; symmetry; exact Hpawn|].
      simp_nthd. reflexivity.
    - apply hashkey_ext; destruct EP; autorewrite with keyproj; try xor_solve; try (symmetry; exact Hkc);
        rewrite Hke; destruct (r_ep s); reflexivity.
  Qed.
End N.
