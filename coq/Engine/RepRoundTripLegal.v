(* C03 for every pseudo-legal move: the shape hypotheses of castle_roundtrip / normal_roundtrip / ep_roundtrip follow
   from the rules' pseudo-legality on a well-formed state (RepRefineLegal.rep_ok) whose incremental key components for
   castling and en passant are in step with the fields (key_ok). *)
From CV Require Import Engine.PositionRep Engine.EncodingProofs Engine.RepProofs Engine.RepRoundTrip Engine.RepRoundTripNormal
     Engine.RepAbs Engine.RepRefine Engine.RepRefineLegal.
From Coq Require Import Lia List Bool ZArith.
Import ListNotations.
Local Open Scope N_scope.

Section L.
  Variable zt : zobrist.

  Lemma base_ok_of s : rep_ok s -> key_ok zt s -> base_ok zt s.
  Proof.
    intros [Hwf [Hc [Hr He]]] Hk. destruct Hwf as [Hlen [Hside [Hhm [Hcr Hply]]]].
    repeat split; try assumption; try lia.
    - intros e Hep. destruct (ep_inv s e Hc Hside He Hep) as [H _]. exact H.
    - apply Hk.
    - apply Hk.
  Qed.

  Theorem undo_do_legal s m : rep_ok s -> key_ok zt s -> pseudo_legal (rep_abs s) m = true ->
    obs (undo_move zt (fst (do_move zt s (enc m))) (enc m) (snd (do_move zt s (enc m)))) = obs s.
  Proof.
    intros Hok Hk H. pose proof (base_ok_of s Hok Hk) as Hb.
    destruct m as [from to promo|ks].
    - destruct (pseudo_legal_shape s from to promo Hok H) as [Hf [Ht [Hne [kf [Hkf [Hown [Hcap [Hpromo Hcase]]]]]]]].
      destruct Hok as [Hwf [Hc [Hr He]]]. pose proof Hwf as [_ [Hside _]].
      assert (Hpc : promo_code promo < 8) by (destruct promo as [[]|]; cbn; lia).
      destruct Hcase as [[Hflag Hshape]|[Hflag [-> [-> [Hep [Hto0 [Hclt [Hc1 [Hc2 [Hcp _]]]]]]]]]].
      + unfold enc. fold (promo_code promo).
        apply (normal_roundtrip zt s from to (promo_code promo) (nthd (r_board s) to 0) Hb Hf Ht Hne Hpc eq_refl).
        * destruct Hcap as [->|[kt [Hkt ->]]]; [reflexivity|]. rewrite (pc_kind_enemy _ _ Hside Hkt). reflexivity.
        * intro X. assert (promo <> None) by (destruct promo; [discriminate|contradiction X; reflexivity]).
          destruct (Hpromo H0) as [-> _]. exact Hown.
        * exact Hflag.
      + unfold enc. exact (ep_roundtrip zt s from to Hb Hf Ht Hne Hto0 Hflag Hclt Hc1 Hc2 Hcp).
    - destruct Hok as [Hwf [Hc [Hr He]]]. pose proof Hwf as [_ [Hside _]].
      cbn [pseudo_legal] in H. unfold castle_ok in H. cbn [brd stm rights rep_abs] in H.
      repeat (apply andb_prop in H; destruct H as [H ?]).
      assert (enc (Castle ks) = if ks then KING_CASTLING_MOVE else QUEEN_CASTLING_MOVE) as -> by (destruct ks; reflexivity).
      apply (castle_roundtrip zt s ks Hb);
        destruct (side_cases s Hside) as [E|E]; rewrite E in *; cbn [N.eqb Pos.eqb home_rank] in *; destruct ks;
        repeat match goal with K : _ && _ = true |- _ => apply andb_prop in K; destruct K end;
        match goal with |- nthd _ ?q 0 = 0 => let v := eval vm_compute in q in change q with v end;
        apply is_empty_inv; assumption.
  Qed.
End L.
