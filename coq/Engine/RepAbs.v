(* Relating the engine's representation to the rules-level position: the constructor
   (Position::Position(fen) after FEN parsing), the abstraction function, move encoding. *)
From CV Require Export Engine.PositionRep Chess.Rules Chess.Fen.
Local Open Scope N_scope.

Definition kind_code (k : kind) : N :=
  match k with Pawn => 1 | Knight => 2 | Bishop => 3 | Rook => 4 | Queen => 5 | King => 6 end.
Definition color_code (c : color) : N := match c with White => 0 | Black => 1 end.
Definition piece_code (o : option piece) : N :=
  match o with None => 0 | Some (c, k) => kind_code k + 6 * color_code c end.
Definition code_kind (n : N) : kind :=
  match n with 1 => Pawn | 2 => Knight | 3 => Bishop | 4 => Rook | 5 => Queen | _ => King end.
Definition code_piece (pc : N) : option piece :=
  if pc =? 0 then None
  else Some (if pc <? 7 then White else Black, code_kind (pc_kind pc)).

Definition rights_code (cr : castling) : N :=
  b2n (wk cr) + 2 * b2n (wq cr) + 4 * b2n (bk cr) + 8 * b2n (bq cr).
Definition code_rights (n : N) : castling :=
  {| wk := N.testbit n 0; wq := N.testbit n 1; bk := N.testbit n 2; bq := N.testbit n 3 |}.

(* the order in which the constructor meets the squares: a8..h8, a7..h7, ..., a1..h1 *)
Definition fen_order : list N :=
  flat_map (fun r => map (fun f => (7 - r) * 8 + f) (range 8)) (range 8).

Section WithTables.
  Variable zt : zobrist.

  Definition rep_of_position (p : position) : rep :=
    let b := map piece_code (brd p) in
    let place (acc : list (list N) * list N * list N) (sq : N) :=
        let '(ls, kb, cb) := acc in
        let pc := nthd b sq 0 in
        if pc =? 0 then acc
        else (updN ls pc (nthd ls pc [] ++ [sq]),
              updN kb (pc_kind pc) (N.lor (nthd kb (pc_kind pc) 0) (bit sq)),
              updN cb (pc_color pc) (N.lor (nthd cb (pc_color pc) 0) (bit sq))) in
    let '(ls, kb, cb) := fold_left place fen_order (repeat [] 13, repeat 0 7, repeat 0 2) in
    let side := color_code (stm p) in
    let s0 := {| r_side := side; r_hmc := u8 (Z.to_N (clock p));
                 r_ply := (2 * fullmove p - 1 + (if (side =? 1)%N then 1 else 0))%Z;
                 r_board := b; r_lists := ls; r_kind_bb := kb; r_color_bb := cb;
                 r_castling := rights_code (rights p); r_ep := ep p;
                 r_key := {| k_piece := 0; k_pawn := 0; k_ep := 0; k_castling := 0; k_color := 0 |};
                 r_hist := [] |} in
    let k := scratch_key zt s0 in
    set_meta s0 (r_side s0) (r_hmc s0) (r_ply s0) (r_castling s0) (r_ep s0) k [get_key k].

  Definition rep_abs (s : rep) : position :=
    {| brd := map code_piece (r_board s);
       stm := if r_side s =? 0 then White else Black;
       rights := code_rights (r_castling s);
       ep := r_ep s;
       clock := Z.of_N (r_hmc s);
       fullmove := ((r_ply s - 1) / 2 + 1)%Z |}.

  (* the engine's encoding of a rules-level move *)
  Definition enc (m : move) : N :=
    match m with
    | Castle true => KING_CASTLING_MOVE
    | Castle false => QUEEN_CASTLING_MOVE
    | Normal from to promo =>
      create_promotion from to (match promo with Some k => kind_code k | None => 0 end)
    end.

  (* Position::parse_uci on the representation *)
  Definition rep_parse_uci (s : rep) (str : string) : option N :=
    match str with
    | String a (String b (String c (String d rest))) =>
      match parse_square (String a (String b "")), parse_square (String c (String d "")) with
      | Some from, Some to =>
        let promo := match rest with
                     | EmptyString => Some 0
                     | String pc _ => match char_promo pc with Some k => Some (kind_code k) | None => None end
                     end in
        match promo with
        | None => None
        | Some pr =>
          let king_from := pc_kind (nthd (r_board s) from 0) =? KING in
          Some (if king_from && (((from =? 4) && (to =? 6)) || ((from =? 60) && (to =? 62))) then KING_CASTLING_MOVE
                else if king_from && (((from =? 4) && (to =? 2)) || ((from =? 60) && (to =? 58))) then QUEEN_CASTLING_MOVE
                else create_promotion from to pr)
        end
      | _, _ => None
      end
    | _ => None
    end.

  (* Position::fen() on the representation *)
  Definition rep_fen (s : rep) : string := fen_print (rep_abs s).
End WithTables.
