(* Two-thread model of the stop handshake (engine/uci.cpp go_command / stop_command, engine/search.cpp go /
   iter_search / search).  The search thread is a small-step machine over the shared flag; what the search does while
   the flag is clear is an ORACLE (descend, return, finish an iteration, hit a limit), so the theorems hold for every
   search behaviour.  The two facts the outcome depends on are parameters read from the source by the translators:
   does go() write the flag (the reset that used to erase an early stop), and is the flag atomic. *)
From Coq Require Import List Arith Lia Bool.
Import ListNotations.

(* search-thread control state; a frame of the search stack = number of child calls it may still make *)
Inductive spc :=
| PStart                       (* thread spawned, go() not entered *)
| PInit                        (* after init_search(), before the (optional) reset *)
| PLoop                        (* while (!stop_search) *)
| PSearch (stack : list nat)   (* inside search()/quiescence_search(): open frames, innermost first *)
| PPrint                       (* after iter_search(): about to print bestmove *)
| PDone.                       (* bestmove printed *)

(* what an unstopped search does next: an arbitrary choice *)
Inductive choice := Descend (moves : nat) | Return | FinishIteration | LimitHit.

Section Model.
  Variable go_resets : bool.        (* Gen: go_touches_stop_flag *)
  Variable max_frames max_moves : nat.

  (* one step of the search thread: reads (and possibly writes) the flag; returns new pc, new flag, bestmove printed? *)
  Definition sstep (c : choice) (p : spc) (flag : bool) : spc * bool * bool :=
    match p with
    | PStart => (PInit, flag, false)
    | PInit => (PLoop, if go_resets then false else flag, false)
    | PLoop => if flag then (PPrint, flag, false)
               else (PSearch [Nat.min max_moves (match c with Descend m => m | _ => 1 end)], flag, false)
    | PSearch [] => (PLoop, flag, false)           (* iteration complete (or unwound): back to the loop test *)
    | PSearch (r :: rest) =>
      if flag then
        (* node entry sees the flag: return 0; a frame continuing its move loop calls children that return at once *)
        match r with
        | O => (PSearch rest, flag, false)
        | S r' => (PSearch (r' :: rest), flag, false)
        end
      else
        match c with
        | Descend m => match r with
                       | O => (PSearch rest, flag, false)
                       | S r' => if length rest <? max_frames
                                 then (PSearch (Nat.min max_moves m :: r' :: rest), flag, false)
                                 else (PSearch (r' :: rest), flag, false)
                       end
        | Return => (PSearch rest, flag, false)
        | FinishIteration => (PSearch rest, flag, false)
        | LimitHit => (PSearch rest, true, false)          (* check_limits() sets the flag itself *)
        end
    | PPrint => (PDone, flag, true)
    | PDone => (PDone, flag, false)
    end.

  (* the reader thread: spawn already happened (the thread exists); it may deliver `stop` at any point *)
  Inductive tid := Reader | Searcher (c : choice).

  Record gstate := { g_pc : spc; g_flag : bool; g_stop_sent : bool; g_best : nat }.

  Definition gstep (t : tid) (g : gstate) : gstate :=
    match t with
    | Reader => {| g_pc := g_pc g; g_flag := true; g_stop_sent := true; g_best := g_best g |}       (* Search::stop() *)
    | Searcher c => let '(p, f, b) := sstep c (g_pc g) (g_flag g) in
                    {| g_pc := p; g_flag := f; g_stop_sent := g_stop_sent g; g_best := g_best g + (if b then 1 else 0) |}
    end.

  Definition run (sched : list tid) (g : gstate) : gstate := fold_left (fun g t => gstep t g) sched g.

  Definition init : gstate := {| g_pc := PStart; g_flag := false; g_stop_sent := false; g_best := 0 |}.

  (* distance to the bestmove once the flag is set and stays set *)
  Definition measure (p : spc) : nat :=
    match p with
    | PStart => 4
    | PInit => 3
    | PLoop => 2
    | PSearch st => 3 + fold_right (fun r acc => S r + acc) 0 st
    | PPrint => 1
    | PDone => 0
    end.

  Definition searcher_steps (sched : list tid) : nat :=
    length (filter (fun t => match t with Searcher _ => true | Reader => false end) sched).
End Model.
