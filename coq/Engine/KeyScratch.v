(* C04: the incrementally maintained key equals the key computed from scratch.

   scratch_key (HashKey::init) XORs the Zobrist randoms over the 13 piece LISTS; do_move maintains the key by toggles
   next to board / list updates (append, swap-remove, replace).  This file proves, for every Zobrist table, that
   add_piece / remove_piece / move_piece / set_meta preserve the invariant

       piece_inv s :  the lists cover the board  /\  k_piece (r_key s) = scratch piece key  /\  k_pawn = scratch pawn key

   whatever order the lists are in (swap-remove permutes them; XOR does not care). *)
From CV Require Import Engine.PositionRep Engine.RepProofs Engine.RepRoundTrip Base.NIter Base.Bits Chess.RulesFacts.
From Coq Require Import Lia List Btauto ZArith Bool.
Import ListNotations.
Local Open Scope N_scope.

Ltac xor_solve := apply N.bits_inj; intro xor_bit; rewrite ?N.lxor_spec, ?N.bits_0; btauto.

Section K.
  Variable zt : zobrist.

  Definition xl (pc : N) (l : list N) : N := fold_left (fun acc sq => N.lxor acc (z_piece zt pc sq)) l 0.

  Lemma xl_acc pc l a : fold_left (fun acc sq => N.lxor acc (z_piece zt pc sq)) l a = N.lxor a (xl pc l).
  Proof.
    unfold xl. revert a. induction l as [|h t IH]; intro a; cbn [fold_left].
    - rewrite N.lxor_0_r. reflexivity.
    - rewrite IH. rewrite (IH (N.lxor 0 _)). xor_solve.
  Qed.
  Lemma xl_cons pc h t : xl pc (h :: t) = N.lxor (z_piece zt pc h) (xl pc t).
  Proof. unfold xl at 1. cbn [fold_left]. rewrite xl_acc. xor_solve. Qed.
  Lemma xl_nil pc : xl pc [] = 0. Proof. reflexivity. Qed.
  Lemma xl_app pc l sq : xl pc (l ++ [sq]) = N.lxor (xl pc l) (z_piece zt pc sq).
  Proof. induction l as [|h t IH]; cbn [app]; rewrite ?xl_cons, ?xl_nil, ?IH; xor_solve. Qed.

  Lemma replace_first_notin l sq x : ~ In sq l -> replace_first l sq x = l.
  Proof.
    induction l as [|h t IH]; intro H; cbn [replace_first]; [reflexivity|].
    destruct (h =? sq) eqn:E; [apply N.eqb_eq in E; subst; exfalso; apply H; left; reflexivity|].
    f_equal. apply IH. intro K. apply H. right. exact K.
  Qed.
  Lemma xl_replace_first pc l from to : In from l ->
    xl pc (replace_first l from to) = N.lxor (N.lxor (xl pc l) (z_piece zt pc from)) (z_piece zt pc to).
  Proof.
    induction l as [|h t IH]; intro H; [destruct H|]. cbn [replace_first].
    destruct (h =? from) eqn:E.
    - apply N.eqb_eq in E. subst h. rewrite !xl_cons. xor_solve.
    - destruct H as [H|H]; [subst h; rewrite N.eqb_refl in E; discriminate E|].
      rewrite !xl_cons, (IH H). xor_solve.
  Qed.
  Lemma replace_first_in_other l sq y x : x <> sq -> In x l -> In x (replace_first l sq y).
  Proof.
    induction l as [|h t IH]; intros Hne H; [destruct H|]. cbn [replace_first].
    destruct (h =? sq) eqn:E.
    - apply N.eqb_eq in E. subst h. destruct H as [H|H]; [congruence|right; exact H].
    - destruct H as [H|H]; [left; exact H|right; apply IH; assumption].
  Qed.
  Lemma replace_first_in_new l sq y : In sq l -> In y (replace_first l sq y).
  Proof.
    induction l as [|h t IH]; intro H; [destruct H|]. cbn [replace_first].
    destruct (h =? sq) eqn:E; [left; reflexivity|].
    destruct H as [H|H]; [subst h; rewrite N.eqb_refl in E; discriminate E|right; apply IH; exact H].
  Qed.

  Lemma swap_remove_snoc init last sq : swap_remove (init ++ [last]) sq = replace_first init sq last.
  Proof. unfold swap_remove. rewrite rev_app_distr. cbn [rev app]. rewrite rev_involutive. reflexivity. Qed.
  Lemma list_snoc {A} (l : list A) : l = [] \/ exists init last, l = init ++ [last].
  Proof. destruct l as [|h t] using rev_ind; [left; reflexivity|right; eauto]. Qed.

  Lemma xl_swap_remove pc l sq : In sq l -> xl pc (swap_remove l sq) = N.lxor (xl pc l) (z_piece zt pc sq).
  Proof.
    intro H. destruct (list_snoc l) as [->|[init [last ->]]]; [destruct H|].
    rewrite swap_remove_snoc, xl_app.
    destruct (in_dec N.eq_dec sq init) as [Hi|Hi].
    - rewrite (xl_replace_first pc init sq last Hi). xor_solve.
    - rewrite (replace_first_notin init sq last Hi).
      apply in_app_or in H as [H|H]; [contradiction|]. destruct H as [->|[]]. xor_solve.
  Qed.
  Lemma swap_remove_in_other l sq x : In sq l -> x <> sq -> In x l -> In x (swap_remove l sq).
  Proof.
    intros Hs Hne Hx. destruct (list_snoc l) as [->|[init [last ->]]]; [destruct Hs|].
    rewrite swap_remove_snoc.
    apply in_app_or in Hx as [Hx|Hx]; [apply replace_first_in_other; assumption|].
    destruct Hx as [<-|[]].
    apply replace_first_in_new. apply in_app_or in Hs as [Hs|Hs]; [exact Hs|]. destruct Hs as [Hs|[]]. congruence.
  Qed.

  (* ---- the two piece components of the scratch key as functions of the 13 piece lists ---- *)
  Definition pk (ls : list (list N)) : N :=
    fold_left (fun acc pc => N.lxor acc (xl pc (nthd ls pc []))) [2; 3; 4; 5; 6; 8; 9; 10; 11; 12] 0.
  Definition wkp (ls : list (list N)) : N := N.lxor (xl 1 (nthd ls 1 [])) (xl 7 (nthd ls 7 [])).
  Lemma scratch_piece s : k_piece (scratch_key zt s) = pk (r_lists s). Proof. reflexivity. Qed.
  Lemma scratch_pawn s : k_pawn (scratch_key zt s) = wkp (r_lists s). Proof. reflexivity. Qed.

  Lemma lists13 {A} (ls : list A) : length ls = 13%nat ->
    exists a0 a1 a2 a3 a4 a5 a6 a7 a8 a9 a10 a11 a12, ls = [a0; a1; a2; a3; a4; a5; a6; a7; a8; a9; a10; a11; a12].
  Proof.
    intro H. do 13 (destruct ls as [|? ls]; [discriminate H|]). destruct ls; [|discriminate H].
    repeat eexists.
  Qed.

  Lemma N12 pc : 1 <= pc <= 12 -> pc = 1 \/ pc = 2 \/ pc = 3 \/ pc = 4 \/ pc = 5 \/ pc = 6 \/ pc = 7 \/ pc = 8 \/ pc = 9 \/ pc = 10 \/ pc = 11 \/ pc = 12.
  Proof. lia. Qed.

  Lemma keys_upd ls pc l' : length ls = 13%nat -> 1 <= pc <= 12 ->
    pk (updN ls pc l') = (if pc_kind pc =? PAWN then pk ls else N.lxor (N.lxor (pk ls) (xl pc (nthd ls pc []))) (xl pc l')) /\
    wkp (updN ls pc l') = (if pc_kind pc =? PAWN then N.lxor (N.lxor (wkp ls) (xl pc (nthd ls pc []))) (xl pc l') else wkp ls).
  Proof.
    intros H Hpc. destruct (lists13 ls H) as [a0 [a1 [a2 [a3 [a4 [a5 [a6 [a7 [a8 [a9 [a10 [a11 [a12 ->]]]]]]]]]]]]].
    apply N12 in Hpc.
    destruct Hpc as [->|[->|[->|[->|[->|[->|[->|[->|[->|[->|[->| ->]]]]]]]]]]];
      (split; unfold pk, wkp, nthd, updN; cbn [fold_left];
       repeat match goal with |- context [N.to_nat ?k] => let v := eval vm_compute in (N.to_nat k) in change (N.to_nat k) with v end;
       match goal with |- context [pc_kind ?k =? PAWN] => let v := eval vm_compute in (pc_kind k =? PAWN) in change (pc_kind k =? PAWN) with v end;
       cbn [nth upd fold_left]; cbv iota; xor_solve).
  Qed.

  (* ---- the same two components as functions of the BOARD alone (no lists, no history) ---- *)
  Definition cp (pc sq : N) : N := if (pc =? 0) || (pc_kind pc =? PAWN) then 0 else z_piece zt pc sq.
  Definition cw (pc sq : N) : N := if pc_kind pc =? PAWN then z_piece zt pc sq else 0.
  Definition SX (c : N -> N -> N) (b : list N) (L : list N) : N := fold_right (fun sq acc => N.lxor (c (nthd b sq 0) sq) acc) 0 L.
  Definition bkp (b : list N) : N := SX cp b all_squares.
  Definition bkw (b : list N) : N := SX cw b all_squares.

  Lemma SX_upd_notin c b L i x : ~ In i L -> SX c (updN b i x) L = SX c b L.
  Proof.
    induction L as [|h t IH]; intro H; cbn [SX fold_right]; [reflexivity|].
    fold (SX c (updN b i x) t). fold (SX c b t). rewrite IH by (intro K; apply H; right; exact K).
    rewrite nthd_updN_other by (intro K; apply H; left; symmetry; exact K). reflexivity.
  Qed.
  Lemma SX_upd c b L i x : NoDup L -> In i L -> (N.to_nat i < length b)%nat ->
    SX c (updN b i x) L = N.lxor (N.lxor (SX c b L) (c (nthd b i 0) i)) (c x i).
  Proof.
    intros Hnd Hin Hlen. induction L as [|h t IH]; [destruct Hin|]. inversion Hnd as [|? ? Hnot Hnd']; subst.
    cbn [SX fold_right]. fold (SX c (updN b i x) t). fold (SX c b t).
    destruct (N.eq_dec h i) as [->|Hne].
    - rewrite SX_upd_notin by exact Hnot. rewrite nthd_updN_same by exact Hlen. xor_solve.
    - destruct Hin as [Hin|Hin]; [contradiction|]. rewrite (IH Hnd' Hin). rewrite nthd_updN_other by congruence. xor_solve.
  Qed.
  Lemma bk_upd (b : list N) i x : length b = 64%nat -> i < 64 ->
    bkp (updN b i x) = N.lxor (N.lxor (bkp b) (cp (nthd b i 0) i)) (cp x i) /\
    bkw (updN b i x) = N.lxor (N.lxor (bkw b) (cw (nthd b i 0) i)) (cw x i).
  Proof.
    intros Hl Hi. split; apply SX_upd; try apply NoDup_all_squares; try (apply in_all_squares; exact Hi); lia.
  Qed.
  Lemma cp0 sq : cp 0 sq = 0. Proof. reflexivity. Qed.
  Lemma cw0 sq : cw 0 sq = 0. Proof. reflexivity. Qed.
  Lemma cp_toggle pc sq : pc <> 0 -> cp pc sq = (if pc_kind pc =? PAWN then 0 else z_piece zt pc sq).
  Proof. intro H. unfold cp. destruct (pc =? 0) eqn:E; [apply N.eqb_eq in E; contradiction|reflexivity]. Qed.

  (* ---- the invariant: the piece lists cover the board, the two piece components equal their scratch values ---- *)
  Definition cover (s : rep) : Prop :=
    forall sq, sq < 64 -> nthd (r_board s) sq 0 <> 0 -> In sq (nthd (r_lists s) (nthd (r_board s) sq 0) []).
  Lemma NoDup_snoc {A} (l : list A) x : NoDup l -> ~ In x l -> NoDup (l ++ [x]).
  Proof.
    induction l as [|h t IH]; intros Hnd Hx; [constructor; [intros []|constructor]|]. inversion Hnd; subst. cbn. constructor.
    - intro X. apply in_app_or in X as [X|[X|[]]]; [contradiction|subst; apply Hx; left; reflexivity].
    - apply IH; [assumption|intro X; apply Hx; right; exact X].
  Qed.

  (* every list entry is a square that holds that piece, once: with [cover] the lists ARE the board (C07: material counts) *)
  Definition lists_sound (s : rep) : Prop :=
    forall pc, 1 <= pc <= 12 -> NoDup (nthd (r_lists s) pc []) /\
      forall sq, In sq (nthd (r_lists s) pc []) -> sq < 64 /\ nthd (r_board s) sq 0 = pc.
  (* bitboards: bit i of entry k of a family says that square i holds a piece whose kind (colour) is k *)
  Definition bbf (b : list N) (proj : N -> N) (k i : N) : bool := (i <? 64) && negb (nthd b i 0 =? 0) && (proj (nthd b i 0) =? k).
  Definition fam_sound (F : list N) (n : nat) (b : list N) (proj : N -> N) : Prop :=
    length F = n /\ forall k i, (N.to_nat k < n)%nat -> N.testbit (nthd F k 0) i = bbf b proj k i.
  Definition bb_sound (s : rep) : Prop :=
    fam_sound (r_kind_bb s) 7 (r_board s) pc_kind /\ fam_sound (r_color_bb s) 2 (r_board s) pc_color.
  Definition piece_inv (s : rep) : Prop :=
    length (r_board s) = 64%nat /\ length (r_lists s) = 13%nat /\ (forall sq, sq < 64 -> nthd (r_board s) sq 0 < 13) /\
    cover s /\ k_piece (r_key s) = pk (r_lists s) /\ k_pawn (r_key s) = wkp (r_lists s) /\
    k_piece (r_key s) = bkp (r_board s) /\ k_pawn (r_key s) = bkw (r_board s) /\ lists_sound s /\ bb_sound s.

  (* list surgery keeps duplicates out and tells where the entries come from *)
  Lemma replace_first_spec l x y : NoDup l -> ~ In y l ->
    NoDup (replace_first l x y) /\ forall z, In z (replace_first l x y) -> z = y \/ (In z l /\ z <> x).
  Proof.
    induction l as [|h t IH]; intros Hnd Hy; [split; [constructor|intros z []]|].
    inversion Hnd as [|? ? Hh Ht]; subst. cbn [replace_first]. destruct (h =? x) eqn:E.
    - apply N.eqb_eq in E. subst h. split.
      + constructor; [intro X; apply Hy; right; exact X|exact Ht].
      + intros z [<-|Hz]; [left; reflexivity|]. right. split; [right; exact Hz|]. intro X. subst z. contradiction.
    - apply N.eqb_neq in E. destruct (IH Ht (fun X => Hy (or_intror X))) as [A B]. split.
      + constructor; [|exact A]. intro X. destruct (B h X) as [->|[X1 _]]; [apply Hy; left; reflexivity|contradiction].
      + intros z [<-|Hz]; [right; split; [left; reflexivity|exact E]|]. destruct (B z Hz) as [->|[Z1 Z2]]; [left; reflexivity|right; split; [right; exact Z1|exact Z2]].
  Qed.

  Lemma swap_remove_spec l sq : NoDup l -> NoDup (swap_remove l sq) /\ forall z, In z (swap_remove l sq) -> In z l /\ z <> sq.
  Proof.
    intro Hnd. destruct (list_snoc l) as [->|[init [last ->]]]; [split; [constructor|intros z []]|].
    rewrite swap_remove_snoc. assert (Hinit : NoDup init) by (apply NoDup_remove_1 in Hnd; rewrite app_nil_r in Hnd; exact Hnd).
    assert (Hlast : ~ In last init).
    { intro X. apply NoDup_remove_2 in Hnd. rewrite app_nil_r in Hnd. contradiction. }
    destruct (replace_first_spec init sq last Hinit Hlast) as [A B]. split; [exact A|].
    intros z Hz. destruct (N.eq_dec sq last) as [E|E].
    - subst sq. rewrite replace_first_notin in Hz by exact Hlast. split; [apply in_or_app; left; exact Hz|]. intro X. subst z. contradiction.
    - destruct (B z Hz) as [->|[Z1 Z2]]; [split; [apply in_or_app; right; left; reflexivity|congruence]|split; [apply in_or_app; left; exact Z1|exact Z2]].
  Qed.

  Lemma nthd_upd_board (b : list N) i j x : length b = 64%nat -> i < 64 ->
    nthd (updN b i x) j 0 = if j =? i then x else nthd b j 0.
  Proof.
    intros H Hi. destruct (j =? i) eqn:E.
    - apply N.eqb_eq in E. subst j. apply nthd_updN_same. lia.
    - apply N.eqb_neq in E. apply nthd_updN_other. congruence.
  Qed.
  Lemma nthd_upd_lists (ls : list (list N)) i j x : length ls = 13%nat -> i < 13 ->
    nthd (updN ls i x) j [] = if j =? i then x else nthd ls j [].
  Proof.
    intros H Hi. destruct (j =? i) eqn:E.
    - apply N.eqb_eq in E. subst j. apply nthd_updN_same. lia.
    - apply N.eqb_neq in E. apply nthd_updN_other. congruence.
  Qed.

  Lemma testbit_bit sq i : N.testbit (bit sq) i = (i =? sq).
  Proof. unfold bit. rewrite N.shiftl_1_l, N.pow2_bits_eqb. apply N.eqb_sym. Qed.
  Lemma nthd_upd_fam (F : list N) n j k x : length F = n -> (N.to_nat j < n)%nat -> nthd (updN F j x) k 0 = if k =? j then x else nthd F k 0.
  Proof.
    intros H Hj. destruct (k =? j) eqn:E.
    - apply N.eqb_eq in E. subst k. apply nthd_updN_same. lia.
    - apply N.eqb_neq in E. apply nthd_updN_other. congruence.
  Qed.
  Lemma pc_kind_lt7 pc : (N.to_nat (pc_kind pc) < 7)%nat.
  Proof. unfold pc_kind. destruct (pc =? 0); [cbn; lia|]. pose proof (N.mod_lt (pc - 1) 6). lia. Qed.
  Lemma pc_color_lt2 pc : (N.to_nat (pc_color pc) < 2)%nat.
  Proof. unfold pc_color. destruct (pc <? 7); cbn; lia. Qed.

  Ltac bfin := rewrite ?N.eqb_refl; cbn; rewrite ?N.eqb_refl, ?andb_false_r, ?andb_true_r, ?orb_true_r, ?orb_false_r, ?xorb_false_r, ?xorb_true_r; cbn; try reflexivity;
    repeat match goal with |- context [(?x <? 64)] => destruct (x <? 64) end; cbn; try reflexivity;
    repeat match goal with |- context [(?x =? ?y)] => destruct (x =? y) end; reflexivity.
  Section Fam.
    Variable proj : N -> N.
    Variable n : nat.
    Hypothesis proj_lt : forall pc, (N.to_nat (proj pc) < n)%nat.

    Lemma fam_add F b pc sq : fam_sound F n b proj -> length b = 64%nat -> sq < 64 -> nthd b sq 0 = 0 -> pc <> 0 ->
      fam_sound (updN F (proj pc) (N.lor (nthd F (proj pc) 0) (bit sq))) n (updN b sq pc) proj.
    Proof.
      intros [HF Hs] Hb Hsq He Hpc. split; [rewrite updN_length; exact HF|]. intros k i Hk.
      rewrite (nthd_upd_fam F n) by (first [exact HF|apply proj_lt]). unfold bbf. rewrite nthd_upd_board by assumption.
      destruct (k =? proj pc) eqn:E.
      - apply N.eqb_eq in E. subst k. rewrite N.lor_spec, testbit_bit, (Hs _ i Hk). unfold bbf.
        destruct (i =? sq) eqn:E2.
        + apply N.eqb_eq in E2. subst i. rewrite (proj2 (N.ltb_lt sq 64) Hsq), (proj2 (N.eqb_neq pc 0) Hpc), N.eqb_refl. bfin.
        + bfin.
      - rewrite (Hs _ i Hk). unfold bbf. destruct (i =? sq) eqn:E2; [|reflexivity].
        apply N.eqb_eq in E2. subst i. rewrite He. rewrite (N.eqb_sym (proj pc) k), E. bfin.
    Qed.

    Lemma fam_rem F b sq : fam_sound F n b proj -> length b = 64%nat -> sq < 64 -> nthd b sq 0 <> 0 ->
      fam_sound (updN F (proj (nthd b sq 0)) (N.lxor (nthd F (proj (nthd b sq 0)) 0) (bit sq))) n (updN b sq 0) proj.
    Proof.
      intros [HF Hs] Hb Hsq Hne. set (pc := nthd b sq 0) in *. split; [rewrite updN_length; exact HF|]. intros k i Hk.
      rewrite (nthd_upd_fam F n) by (first [exact HF|apply proj_lt]). unfold bbf. rewrite nthd_upd_board by assumption.
      destruct (k =? proj pc) eqn:E.
      - apply N.eqb_eq in E. subst k. rewrite N.lxor_spec, testbit_bit, (Hs _ i Hk). unfold bbf.
        destruct (i =? sq) eqn:E2.
        + apply N.eqb_eq in E2. subst i. fold pc. rewrite (proj2 (N.ltb_lt sq 64) Hsq), (proj2 (N.eqb_neq pc 0) Hne), N.eqb_refl. bfin.
        + bfin.
      - rewrite (Hs _ i Hk). unfold bbf. destruct (i =? sq) eqn:E2; [|reflexivity].
        apply N.eqb_eq in E2. subst i. fold pc. rewrite (N.eqb_sym (proj pc) k), E. bfin.
    Qed.

    Lemma fam_mov F b from to : fam_sound F n b proj -> length b = 64%nat -> from < 64 -> to < 64 -> from <> to ->
      nthd b from 0 <> 0 -> nthd b to 0 = 0 ->
      fam_sound (updN F (proj (nthd b from 0)) (N.lxor (nthd F (proj (nthd b from 0)) 0) (N.lor (bit from) (bit to)))) n
                (updN (updN b from 0) to (nthd b from 0)) proj.
    Proof.
      intros [HF Hs] Hb Hf Ht Hft Hne He. set (pc := nthd b from 0) in *. split; [rewrite updN_length; exact HF|]. intros k i Hk.
      assert (Hb1 : length (updN b from 0) = 64%nat) by (rewrite updN_length; exact Hb).
      rewrite (nthd_upd_fam F n) by (first [exact HF|apply proj_lt]). unfold bbf. rewrite !nthd_upd_board by assumption.
      destruct (k =? proj pc) eqn:E.
      - apply N.eqb_eq in E. subst k. rewrite N.lxor_spec, N.lor_spec, !testbit_bit, (Hs _ i Hk). unfold bbf.
        destruct (i =? to) eqn:E2.
        + apply N.eqb_eq in E2. subst i. rewrite He. rewrite (proj2 (N.ltb_lt to 64) Ht), (proj2 (N.eqb_neq pc 0) Hne), N.eqb_refl.
          bfin.
        + destruct (i =? from) eqn:E3.
          * apply N.eqb_eq in E3. subst i. fold pc. rewrite (proj2 (N.ltb_lt from 64) Hf), (proj2 (N.eqb_neq pc 0) Hne), N.eqb_refl. bfin.
          * bfin.
      - rewrite (Hs _ i Hk). unfold bbf. destruct (i =? to) eqn:E2.
        + apply N.eqb_eq in E2. subst i. rewrite He. rewrite (N.eqb_sym (proj pc) k), E. bfin.
        + destruct (i =? from) eqn:E3; [|reflexivity].
          apply N.eqb_eq in E3. subst i. fold pc. rewrite (N.eqb_sym (proj pc) k), E. bfin.
    Qed.
  End Fam.

  Lemma tgl_keys k pc sq :
    k_piece (toggle_piece zt k pc sq) = (if pc_kind pc =? PAWN then k_piece k else N.lxor (k_piece k) (z_piece zt pc sq)) /\
    k_pawn (toggle_piece zt k pc sq) = (if pc_kind pc =? PAWN then N.lxor (k_pawn k) (z_piece zt pc sq) else k_pawn k).
  Proof. unfold toggle_piece. destruct (pc_kind pc =? PAWN); split; reflexivity. Qed.

  Lemma add_piece_inv s pc sq : piece_inv s -> 1 <= pc <= 12 -> sq < 64 -> nthd (r_board s) sq 0 = 0 -> piece_inv (add_piece zt s pc sq).
  Proof.
    intros [Hb [Hl [Hc [Hcov [Hk [Hw [Hbk [Hbw [Hls Hbb]]]]]]]]] Hpc Hsq Hempty.
    assert (Hb' : length (updN (r_board s) sq pc) = 64%nat) by (rewrite updN_length; exact Hb).
    assert (Hl' : forall x, length (updN (r_lists s) pc x) = 13%nat) by (intro x; rewrite updN_length; exact Hl).
    unfold piece_inv, add_piece, with_board, cover. cbn [r_board r_lists r_key].
    split; [exact Hb'|]. split; [apply Hl'|]. split; [|split; [|split; [|split; [|split; [|split; [|split]]]]]].
    - intros i Hi. rewrite nthd_upd_board by assumption. destruct (i =? sq); [lia|apply Hc; exact Hi].
    - intros i Hi. rewrite nthd_upd_board by assumption. destruct (i =? sq) eqn:E.
      + apply N.eqb_eq in E. subst i. intros _. rewrite nthd_upd_lists by (first [assumption|lia]). rewrite N.eqb_refl.
        apply in_or_app. right. left. reflexivity.
      + intro Hne. rewrite nthd_upd_lists by (first [assumption|lia]).
        destruct (nthd (r_board s) i 0 =? pc) eqn:E2.
        * apply N.eqb_eq in E2. apply in_or_app. left. rewrite <- E2. apply Hcov; assumption.
        * apply Hcov; assumption.
    - destruct (keys_upd (r_lists s) pc (nthd (r_lists s) pc [] ++ [sq]) Hl Hpc) as [-> _].
      destruct (tgl_keys (r_key s) pc sq) as [-> _]. destruct (pc_kind pc =? PAWN); [exact Hk|].
      rewrite Hk, xl_app. xor_solve.
    - destruct (keys_upd (r_lists s) pc (nthd (r_lists s) pc [] ++ [sq]) Hl Hpc) as [_ ->].
      destruct (tgl_keys (r_key s) pc sq) as [_ ->]. destruct (pc_kind pc =? PAWN); [|exact Hw].
      rewrite Hw, xl_app. xor_solve.
    - destruct (bk_upd (r_board s) sq pc Hb Hsq) as [-> _]. destruct (tgl_keys (r_key s) pc sq) as [-> _].
      rewrite Hempty, cp0, (cp_toggle pc sq) by lia. rewrite Hbk. destruct (pc_kind pc =? PAWN); xor_solve.
    - destruct (bk_upd (r_board s) sq pc Hb Hsq) as [_ ->]. destruct (tgl_keys (r_key s) pc sq) as [_ ->].
      rewrite Hempty, cw0. unfold cw. rewrite Hbw. destruct (pc_kind pc =? PAWN); xor_solve.
    - unfold lists_sound. cbn [r_board r_lists]. intros pc' Hpc'. destruct (Hls pc' Hpc') as [Hnd Hel]. rewrite nthd_upd_lists by (first [assumption|lia]).
      destruct (pc' =? pc) eqn:E.
      + apply N.eqb_eq in E. subst pc'. split.
        * apply NoDup_snoc; [exact Hnd|]. intro X. destruct (Hel sq X) as [_ Y]. lia.
        * intros x Hx. apply in_app_or in Hx as [Hx|[<-|[]]].
          -- destruct (Hel x Hx) as [X1 X2]. split; [exact X1|]. rewrite nthd_upd_board by assumption.
             destruct (x =? sq) eqn:E2; [apply N.eqb_eq in E2; subst x; lia|exact X2].
          -- split; [exact Hsq|]. rewrite nthd_upd_board by assumption. rewrite N.eqb_refl. reflexivity.
      + apply N.eqb_neq in E. split; [exact Hnd|]. intros x Hx. destruct (Hel x Hx) as [X1 X2]. split; [exact X1|].
        rewrite nthd_upd_board by assumption. destruct (x =? sq) eqn:E2; [apply N.eqb_eq in E2; subst x; lia|exact X2].
    - destruct Hbb as [Hkb Hcb]. unfold bb_sound. cbn [r_board r_kind_bb r_color_bb].
      split; [apply (fam_add pc_kind 7 pc_kind_lt7)|apply (fam_add pc_color 2 pc_color_lt2)]; try assumption; lia.
  Qed.

  Lemma remove_piece_inv s sq : piece_inv s -> sq < 64 -> nthd (r_board s) sq 0 <> 0 -> piece_inv (remove_piece zt s sq).
  Proof.
    intros [Hb [Hl [Hc [Hcov [Hk [Hw [Hbk [Hbw [Hls Hbb]]]]]]]]] Hsq Hne.
    set (pc := nthd (r_board s) sq 0) in *.
    assert (Hpc : 1 <= pc <= 12) by (pose proof (Hc sq Hsq); fold pc in H; lia).
    pose proof (Hcov sq Hsq Hne) as Hin. fold pc in Hin.
    assert (Hb' : length (updN (r_board s) sq 0) = 64%nat) by (rewrite updN_length; exact Hb).
    unfold piece_inv, remove_piece, with_board, cover. cbn [r_board r_lists r_key]. fold pc. change NO_PIECE with 0.
    split; [exact Hb'|]. split; [rewrite updN_length; exact Hl|]. split; [|split; [|split; [|split; [|split; [|split; [|split]]]]]].
    - intros i Hi. rewrite nthd_upd_board by assumption. destruct (i =? sq); [lia|apply Hc; exact Hi].
    - intros i Hi. rewrite nthd_upd_board by assumption. destruct (i =? sq) eqn:E; [intro X; contradiction X; reflexivity|].
      apply N.eqb_neq in E. intro Hn. rewrite nthd_upd_lists by (first [assumption|lia]).
      destruct (nthd (r_board s) i 0 =? pc) eqn:E2.
      + apply N.eqb_eq in E2. apply swap_remove_in_other; [exact Hin|exact E|]. rewrite <- E2. apply Hcov; assumption.
      + apply Hcov; assumption.
    - destruct (keys_upd (r_lists s) pc (swap_remove (nthd (r_lists s) pc []) sq) Hl Hpc) as [-> _].
      destruct (tgl_keys (r_key s) pc sq) as [-> _]. destruct (pc_kind pc =? PAWN); [exact Hk|].
      rewrite Hk, (xl_swap_remove pc _ sq Hin). xor_solve.
    - destruct (keys_upd (r_lists s) pc (swap_remove (nthd (r_lists s) pc []) sq) Hl Hpc) as [_ ->].
      destruct (tgl_keys (r_key s) pc sq) as [_ ->]. destruct (pc_kind pc =? PAWN); [|exact Hw].
      rewrite Hw, (xl_swap_remove pc _ sq Hin). xor_solve.
    - destruct (bk_upd (r_board s) sq 0 Hb Hsq) as [-> _]. destruct (tgl_keys (r_key s) pc sq) as [-> _].
      fold pc. rewrite cp0, (cp_toggle pc sq) by lia. rewrite Hbk. destruct (pc_kind pc =? PAWN); xor_solve.
    - destruct (bk_upd (r_board s) sq 0 Hb Hsq) as [_ ->]. destruct (tgl_keys (r_key s) pc sq) as [_ ->].
      fold pc. rewrite cw0. unfold cw. rewrite Hbw. destruct (pc_kind pc =? PAWN); xor_solve.
    - unfold lists_sound. cbn [r_board r_lists]. intros pc' Hpc'. destruct (Hls pc' Hpc') as [Hnd Hel]. rewrite nthd_upd_lists by (first [assumption|lia]).
      destruct (pc' =? pc) eqn:E.
      + apply N.eqb_eq in E. subst pc'. destruct (swap_remove_spec (nthd (r_lists s) pc []) sq Hnd) as [A B]. split; [exact A|].
        intros x Hx. destruct (B x Hx) as [X1 X2]. destruct (Hel x X1) as [Y1 Y2]. split; [exact Y1|].
        rewrite nthd_upd_board by assumption. rewrite (proj2 (N.eqb_neq x sq) X2). exact Y2.
      + apply N.eqb_neq in E. split; [exact Hnd|]. intros x Hx. destruct (Hel x Hx) as [X1 X2]. split; [exact X1|].
        rewrite nthd_upd_board by assumption. destruct (x =? sq) eqn:E2; [apply N.eqb_eq in E2; subst x; fold pc in X2; congruence|exact X2].
    - destruct Hbb as [Hkb Hcb]. unfold bb_sound. cbn [r_board r_kind_bb r_color_bb]. fold pc.
      split; [apply (fam_rem pc_kind 7 pc_kind_lt7)|apply (fam_rem pc_color 2 pc_color_lt2)]; assumption.
  Qed.

  Lemma move_piece_inv s from to : piece_inv s -> from < 64 -> to < 64 -> from <> to -> nthd (r_board s) from 0 <> 0 ->
    nthd (r_board s) to 0 = 0 -> piece_inv (move_piece zt s from to).
  Proof.
    intros [Hb [Hl [Hc [Hcov [Hk [Hw [Hbk [Hbw [Hls Hbb]]]]]]]]] Hf Ht Hft Hne Hempty.
    set (pc := nthd (r_board s) from 0) in *.
    assert (Hpc : 1 <= pc <= 12) by (pose proof (Hc from Hf); fold pc in H; lia).
    pose proof (Hcov from Hf Hne) as Hin. fold pc in Hin.
    assert (Hb1 : length (updN (r_board s) from 0) = 64%nat) by (rewrite updN_length; exact Hb).
    unfold piece_inv, move_piece, with_board, cover. cbn [r_board r_lists r_key]. fold pc. change NO_PIECE with 0.
    split; [rewrite !updN_length; exact Hb|]. split; [rewrite updN_length; exact Hl|]. split; [|split; [|split; [|split; [|split; [|split; [|split]]]]]].
    - intros i Hi. rewrite !nthd_upd_board by assumption. destruct (i =? to); [lia|]. destruct (i =? from); [lia|apply Hc; exact Hi].
    - intros i Hi. rewrite !nthd_upd_board by assumption. destruct (i =? to) eqn:E.
      + apply N.eqb_eq in E. subst i. intros _. rewrite nthd_upd_lists by (first [assumption|lia]). rewrite N.eqb_refl.
        apply replace_first_in_new. exact Hin.
      + destruct (i =? from) eqn:E1; [intro X; contradiction X; reflexivity|]. apply N.eqb_neq in E1.
        intro Hn. rewrite nthd_upd_lists by (first [assumption|lia]).
        destruct (nthd (r_board s) i 0 =? pc) eqn:E2.
        * apply N.eqb_eq in E2. apply replace_first_in_other; [exact E1|]. rewrite <- E2. apply Hcov; assumption.
        * apply Hcov; assumption.
    - destruct (keys_upd (r_lists s) pc (replace_first (nthd (r_lists s) pc []) from to) Hl Hpc) as [-> _].
      destruct (tgl_keys (toggle_piece zt (r_key s) pc from) pc to) as [-> _]. destruct (tgl_keys (r_key s) pc from) as [-> _].
      destruct (pc_kind pc =? PAWN); [exact Hk|].
      rewrite Hk, (xl_replace_first pc _ from to Hin). xor_solve.
    - destruct (keys_upd (r_lists s) pc (replace_first (nthd (r_lists s) pc []) from to) Hl Hpc) as [_ ->].
      destruct (tgl_keys (toggle_piece zt (r_key s) pc from) pc to) as [_ ->]. destruct (tgl_keys (r_key s) pc from) as [_ ->].
      destruct (pc_kind pc =? PAWN); [|exact Hw].
      rewrite Hw, (xl_replace_first pc _ from to Hin). xor_solve.
    - destruct (bk_upd (updN (r_board s) from 0) to pc Hb1 Ht) as [-> _]. destruct (bk_upd (r_board s) from 0 Hb Hf) as [-> _].
      destruct (tgl_keys (toggle_piece zt (r_key s) pc from) pc to) as [-> _]. destruct (tgl_keys (r_key s) pc from) as [-> _].
      rewrite nthd_updN_other by congruence. fold pc. rewrite Hempty, !cp0, !cp_toggle by lia. rewrite Hbk.
      destruct (pc_kind pc =? PAWN); xor_solve.
    - destruct (bk_upd (updN (r_board s) from 0) to pc Hb1 Ht) as [_ ->]. destruct (bk_upd (r_board s) from 0 Hb Hf) as [_ ->].
      destruct (tgl_keys (toggle_piece zt (r_key s) pc from) pc to) as [_ ->]. destruct (tgl_keys (r_key s) pc from) as [_ ->].
      rewrite nthd_updN_other by congruence. fold pc. rewrite Hempty, !cw0. unfold cw. rewrite Hbw.
      destruct (pc_kind pc =? PAWN); xor_solve.
    - unfold lists_sound. cbn [r_board r_lists]. intros pc' Hpc'. destruct (Hls pc' Hpc') as [Hnd Hel]. rewrite nthd_upd_lists by (first [assumption|lia]).
      destruct (pc' =? pc) eqn:E.
      + apply N.eqb_eq in E. subst pc'.
        assert (Hto : ~ In to (nthd (r_lists s) pc [])) by (intro X; destruct (Hel to X) as [_ Y]; lia).
        destruct (replace_first_spec (nthd (r_lists s) pc []) from to Hnd Hto) as [A B]. split; [exact A|].
        intros x Hx. rewrite !nthd_upd_board by assumption. destruct (B x Hx) as [->|[X1 X2]].
        * split; [exact Ht|]. rewrite N.eqb_refl. reflexivity.
        * destruct (Hel x X1) as [Y1 Y2]. split; [exact Y1|].
          destruct (x =? to) eqn:E2; [apply N.eqb_eq in E2; subst x; lia|]. rewrite (proj2 (N.eqb_neq x from) X2). exact Y2.
      + apply N.eqb_neq in E. split; [exact Hnd|]. intros x Hx. destruct (Hel x Hx) as [X1 X2]. split; [exact X1|].
        rewrite !nthd_upd_board by assumption.
        destruct (x =? to) eqn:E2; [apply N.eqb_eq in E2; subst x; lia|].
        destruct (x =? from) eqn:E3; [apply N.eqb_eq in E3; subst x; fold pc in X2; congruence|exact X2].
    - destruct Hbb as [Hkb Hcb]. unfold bb_sound. cbn [r_board r_kind_bb r_color_bb]. fold pc.
      split; [apply (fam_mov pc_kind 7 pc_kind_lt7)|apply (fam_mov pc_color 2 pc_color_lt2)]; assumption.
  Qed.

  (* set_meta leaves board and lists alone: the invariant survives when the new key has the old piece components *)
  Lemma set_meta_inv s a b c d e k h : piece_inv s -> k_piece k = k_piece (r_key s) -> k_pawn k = k_pawn (r_key s) ->
    piece_inv (set_meta s a b c d e k h).
  Proof.
    intros [Hb [Hl [Hc [Hcov [Hk [Hw [Hbk [Hbw [Hls Hbb]]]]]]]]] E1 E2. unfold piece_inv, cover, set_meta. cbn [r_board r_lists r_key].
    split; [exact Hb|]. split; [exact Hl|]. split; [exact Hc|]. split; [exact Hcov|]. split; [congruence|]. split; [congruence|]. split; [congruence|]. split; [congruence|]. split; [exact Hls|exact Hbb].
  Qed.
End K.
