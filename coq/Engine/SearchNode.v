(* The node recursion of the search (Search::search / Search::quiescence_search in engine/search.cpp) reduced to what
   determines the principal variations: the per-ply pv slots of the Info stack and the control flow that writes them.
   EVERY value-dependent decision (stop and limit polls, draw exits, depth, table hits and their moves, null-move
   pruning, futility / quiet-move skipping, re-searches, alpha raises, cut-offs) is taken by an arbitrary oracle
   O : nat -> nat, consulted through a running counter - so a statement proved for all O holds for every evaluation
   function, table content (including adversarial entries), move order and limit behaviour.
   Fidelity kept where pvs depend on it: the slot is cleared at node entry; a table move is used only if it is in the
   generated list; the pv is assembled from the child's slot (ply + 1) right after the child's last search; internal
   iterative deepening runs on the node's OWN slot and leaves it uncleared; null-move and verification searches use
   slot ply + 1; with no best move the first generated move is the pv.  Fuel exhaustion behaves like a stop at node
   entry (the slot is cleared), which the real code can also do at any node. *)
From Coq Require Import List Arith Bool.
From CV Require Import Chess.Rules.
Import ListNotations.

Definition slots := nat -> list move.
Definition upd (s : slots) (i : nat) (l : list move) : slots := fun j => if Nat.eqb j i then l else s j.

Definition null_pos (p : position) : position :=
  {| brd := brd p; stm := opp (stm p); rights := rights p; ep := None; clock := (clock p + 1)%Z; fullmove := fullmove p |}.

Section Node.
  Variable orc : nat -> nat.
  Variable gen : position -> nat -> list move.     (* generated list: legal moves; at ply 0 the root list *)
  Definition bit (c : nat) : bool := Nat.odd (orc c).

  Definition state := (slots * nat)%type.

  (* the move loop shared by search and quiescence: for each move either skip it, or search the child up to three
     times on slot ply + 1 and, if alpha is raised, prepend the move to the child's pv; a cut-off ends the loop *)
  Fixpoint move_loop (child : position -> nat -> state -> state) (pos : position) (ply : nat)
           (ms : list move) (st : state) (found : bool) : state * bool :=
    match ms with
    | [] => (st, found)
    | m :: rest =>
      let '(s, c) := st in
      if bit c then move_loop child pos ply rest (s, S c) found              (* pruned / quiet move skipped *)
      else
        let q := make_move pos m in
        let st1 := child q (S ply) (s, S c) in
        let st2 := if bit (snd st1) then child q (S ply) (fst st1, S (snd st1)) else (fst st1, S (snd st1)) in
        let st3 := if bit (snd st2) then child q (S ply) (fst st2, S (snd st2)) else (fst st2, S (snd st2)) in
        let '(s3, c3) := st3 in
        if bit c3 then                                                        (* result > alpha *)
          let s4 := upd s3 ply (m :: s3 (S ply)) in
          if bit (S c3) then ((s4, S (S c3)), true)                           (* result >= beta: cut-off *)
          else move_loop child pos ply rest (s4, S (S c3)) true
        else move_loop child pos ply rest (s3, S c3) found
    end.

  Fixpoint qsearch (fuel : nat) (pos : position) (ply : nat) (st : state) : state :=
    let '(s, c) := st in
    let s := upd s ply [] in
    match fuel with
    | O => (s, c)
    | S f =>
      if bit c then (s, S c)                       (* stop / depth exhausted / draw / stand-pat cut-off *)
      else fst (move_loop (qsearch f) pos ply (gen pos ply) (s, S c) false)
    end.

  Fixpoint search (fuel : nat) (pos : position) (ply : nat) (st : state) : state :=
    let '(s, c) := st in
    let s := upd s ply [] in
    match fuel with
    | O => (s, c)
    | S f =>
      if bit c then (s, S c)                                            (* stop_search || check_limits() *)
      else
        match gen pos ply with
        | [] => (s, S c)                                                (* mate / stalemate *)
        | m0 :: _ =>
          if bit (S c) then (s, S (S c))                                (* repetition / rule draw *)
          else if bit (S (S c)) then qsearch f pos ply (s, S (S (S c))) (* depth 0 or ply cap: quiescence, same slot *)
          else
            let c := S (S (S c)) in
            (* internal iterative deepening on the node's own slot *)
            let st1 := if bit c then search f pos ply (s, S c) else (s, S c) in
            let '(s1, c1) := st1 in
            (* transposition table *)
            match Nat.modulo (orc c1) 3, nth_error (gen pos ply) (orc (S c1)) with
            | 1, Some tm => (upd s1 ply [tm], S (S c1))                 (* exact entry whose move is in the list *)
            | 2, _ => (s1, S (S c1))                                    (* bound cut-off: slot left as it is *)
            | _, _ =>
              let c2 := S (S c1) in
              (* null-move pruning *)
              let '(st3, ret) :=
                  if bit c2 then
                    let st' := search f (null_pos pos) (S ply) (s1, S c2) in
                    if bit (snd st') then ((fst st', S (snd st')), true)
                    else if bit (S (snd st')) then
                           let st'' := search f pos (S ply) (fst st', S (S (snd st'))) in
                           ((fst st'', S (snd st'')), bit (snd st''))
                         else ((fst st', S (S (snd st'))), false)
                  else ((s1, S c2), false) in
              if ret then st3
              else
                let '(st4, found) := move_loop (search f) pos ply (gen pos ply) st3 false in
                if found then st4 else (upd (fst st4) ply [m0], snd st4)  (* best_move == NO_MOVE -> begin[0] *)
            end
        end
    end.
End Node.
