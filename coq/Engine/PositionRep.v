(* Algorithmic model of engine::Position (position.cpp) and HashKey (zobrist_hash.cpp):
   the three redundant board representations, the five key components and the key history,
   updated exactly as the C++ updates them.  Zobrist tables are parameters: every theorem holds for
   every table content. *)
From CV Require Export Engine.Encoding.
Local Open Scope N_scope.

(* Piece codes of types.h: 0 none, 1..6 white P N B R Q K, 7..12 black *)
Definition NO_PIECE : N := 0.
Definition pc_kind (pc : N) : N := if pc =? 0 then 0 else (pc - 1) mod 6 + 1.   (* make_piece_kind *)
Definition pc_color (pc : N) : N := if pc <? 7 then 0 else 1.                    (* get_color: 0 white *)
Definition make_piece (side kind : N) : N := if kind =? 0 then 0 else kind + 6 * side.
Definition PAWN : N := 1.  Definition KNIGHT : N := 2.  Definition BISHOP : N := 3.
Definition ROOK : N := 4.  Definition QUEEN : N := 5.  Definition KING : N := 6.

Record zobrist := {
  z_piece : N -> N -> N;      (* PIECE_HASH[piece][square] *)
  z_castling : N -> N;        (* CASTLING_HASH[rights] *)
  z_side : N;                 (* SIDE_HASH *)
  z_ep : N -> N               (* ENPASSANT_HASH[file] *)
}.

Record hashkey := { k_piece : N; k_pawn : N; k_ep : N; k_castling : N; k_color : N }.
Definition get_key (k : hashkey) : N :=
  N.lxor (N.lxor (N.lxor (N.lxor (k_piece k) (k_pawn k)) (k_ep k)) (k_castling k)) (k_color k).

Record rep := {
  r_side : N;                  (* 0 white, 1 black *)
  r_hmc : N;                   (* uint8_t _half_move_counter *)
  r_ply : Z;                   (* _ply_counter *)
  r_board : list N;            (* _board[64] *)
  r_lists : list (list N);     (* _piece_position[13][0 .. _piece_count-1] *)
  r_kind_bb : list N;          (* _by_piece_kind_bb[7] *)
  r_color_bb : list N;         (* _by_color_bb[2] *)
  r_castling : N;
  r_ep : option N;             (* NO_SQUARE = None *)
  r_key : hashkey;
  r_hist : list N              (* _history[0 .. _history_counter-1], most recent first *)
}.

Definition nthd {A} (l : list A) (i : N) (d : A) : A := nth (N.to_nat i) l d.
Fixpoint upd {A} (l : list A) (n : nat) (x : A) : list A :=
  match l, n with
  | [], _ => []
  | _ :: t, O => x :: t
  | h :: t, S k => h :: upd t k x
  end.
Definition updN {A} (l : list A) (i : N) (x : A) : list A := upd l (N.to_nat i) x.

Section WithTables.
  Variable zt : zobrist.

  Definition toggle_piece (k : hashkey) (pc sq : N) : hashkey :=
    if pc_kind pc =? PAWN
    then {| k_piece := k_piece k; k_pawn := N.lxor (k_pawn k) (z_piece zt pc sq);
            k_ep := k_ep k; k_castling := k_castling k; k_color := k_color k |}
    else {| k_piece := N.lxor (k_piece k) (z_piece zt pc sq); k_pawn := k_pawn k;
            k_ep := k_ep k; k_castling := k_castling k; k_color := k_color k |}.
  Definition flip_side (k : hashkey) : hashkey :=
    {| k_piece := k_piece k; k_pawn := k_pawn k; k_ep := k_ep k; k_castling := k_castling k;
       k_color := N.lxor (k_color k) (z_side zt) |}.
  Definition key_set_ep (k : hashkey) (e : option N) : hashkey :=
    {| k_piece := k_piece k; k_pawn := k_pawn k;
       k_ep := match e with Some f => z_ep zt f | None => 0 end;
       k_castling := k_castling k; k_color := k_color k |}.
  Definition key_set_castling (k : hashkey) (c : N) : hashkey :=
    {| k_piece := k_piece k; k_pawn := k_pawn k; k_ep := k_ep k;
       k_castling := z_castling zt c; k_color := k_color k |}.

  (* field updates *)
  Definition with_board (s : rep) b l kb cb k : rep :=
    {| r_side := r_side s; r_hmc := r_hmc s; r_ply := r_ply s; r_board := b; r_lists := l;
       r_kind_bb := kb; r_color_bb := cb; r_castling := r_castling s; r_ep := r_ep s;
       r_key := k; r_hist := r_hist s |}.

  Definition add_piece (s : rep) (pc sq : N) : rep :=
    with_board s
      (updN (r_board s) sq pc)
      (updN (r_lists s) pc (nthd (r_lists s) pc [] ++ [sq]))
      (updN (r_kind_bb s) (pc_kind pc) (N.lor (nthd (r_kind_bb s) (pc_kind pc) 0) (bit sq)))
      (updN (r_color_bb s) (pc_color pc) (N.lor (nthd (r_color_bb s) (pc_color pc) 0) (bit sq)))
      (toggle_piece (r_key s) pc sq).

  (* the loop of remove_piece: among the first count-1 entries, the first one equal to [sq] is
     overwritten with the last entry; then the count drops by one *)
  Fixpoint replace_first (l : list N) (sq x : N) : list N :=
    match l with
    | [] => []
    | h :: t => if h =? sq then x :: t else h :: replace_first t sq x
    end.
  Definition swap_remove (l : list N) (sq : N) : list N :=
    match rev l with
    | [] => []
    | last :: rinit => replace_first (rev rinit) sq last
    end.

  Definition remove_piece (s : rep) (sq : N) : rep :=
    let pc := nthd (r_board s) sq 0 in
    with_board s
      (updN (r_board s) sq NO_PIECE)
      (updN (r_lists s) pc (swap_remove (nthd (r_lists s) pc []) sq))
      (updN (r_kind_bb s) (pc_kind pc) (N.lxor (nthd (r_kind_bb s) (pc_kind pc) 0) (bit sq)))
      (updN (r_color_bb s) (pc_color pc) (N.lxor (nthd (r_color_bb s) (pc_color pc) 0) (bit sq)))
      (toggle_piece (r_key s) pc sq).

  Definition move_piece (s : rep) (from to : N) : rep :=
    let pc := nthd (r_board s) from 0 in
    let change := N.lor (bit from) (bit to) in
    with_board s
      (updN (updN (r_board s) from NO_PIECE) to pc)
      (updN (r_lists s) pc (replace_first (nthd (r_lists s) pc []) from to))
      (updN (r_kind_bb s) (pc_kind pc) (N.lxor (nthd (r_kind_bb s) (pc_kind pc) 0) change))
      (updN (r_color_bb s) (pc_color pc) (N.lxor (nthd (r_color_bb s) (pc_color pc) 0) change))
      (toggle_piece (toggle_piece (r_key s) pc from) pc to).

  Definition set_meta (s : rep) side hmc ply castling ep key hist : rep :=
    {| r_side := side; r_hmc := hmc; r_ply := ply; r_board := r_board s; r_lists := r_lists s;
       r_kind_bb := r_kind_bb s; r_color_bb := r_color_bb s; r_castling := castling; r_ep := ep;
       r_key := key; r_hist := hist |}.

  Definition sq_at (rank file : N) : N := rank * 8 + file.
  Definition castling_rights_of (side : N) : N := if side =? 0 then 3 else 12.     (* W_CASTLING / B_CASTLING *)
  Definition ks_rook_sq (side : N) : N := if side =? 0 then 7 else 63.
  Definition qs_rook_sq (side : N) : N := if side =? 0 then 0 else 56.
  Definition cnot (c : N) : N := N.lxor c 15.     (* operator!(Castling) restricted to the 4 right bits *)
  Definition u8 (x : N) : N := x mod 256.

  (* Position::do_move; returns the new state and the MoveInfo word *)
  Definition do_move (s : rep) (move : N) : rep * N :=
    let side := r_side s in
    let prev_castling := r_castling s in
    let prev_ep := r_ep s in
    let hm := r_hmc s in
    (* change_current_side, ply++, clear_enpassant *)
    let key0 := key_set_ep (flip_side (r_key s)) None in
    let s0 := set_meta s (1 - side) hm (r_ply s + 1)%Z prev_castling prev_ep key0 (r_hist s) in
    if negb (mv_castling move =? 0) then
      let rank := if side =? 0 then 0 else 7 in
      let s1 := if mv_castling move =? KING_CASTLING
                then move_piece (move_piece s0 (sq_at rank 4) (sq_at rank 6)) (sq_at rank 7) (sq_at rank 5)
                else move_piece (move_piece s0 (sq_at rank 4) (sq_at rank 2)) (sq_at rank 0) (sq_at rank 3) in
      let cr := N.land prev_castling (cnot (castling_rights_of side)) in
      let key1 := key_set_castling (r_key s1) cr in
      let s2 := set_meta s1 (r_side s1) (u8 (hm + 1)) (r_ply s1) cr None key1 (get_key key1 :: r_hist s1) in
      (s2, create_moveinfo 0 prev_castling prev_ep false hm)
    else
      let from := mv_from move in
      let to := mv_to move in
      let moved := nthd (r_board s0) from 0 in
      let captured_pc := nthd (r_board s0) to 0 in
      let captured := pc_kind captured_pc in
      let hmc' := if negb (pc_kind moved =? PAWN) && (captured =? 0) then u8 (hm + 1) else 0 in
      let is_ep := (pc_kind moved =? PAWN) && (match prev_ep with Some e => to =? e | None => false end) in
      let '(s1, cr, key_after) :=
        if is_ep then
          let s1 := remove_piece (move_piece s0 from to) (if side =? 0 then to - 8 else to + 8) in
          (s1, prev_castling, r_key s1)
        else
          let s1 := if negb (captured_pc =? 0) then remove_piece s0 to else s0 in
          let s2 := if negb (mv_promotion move =? 0)
                    then add_piece (remove_piece s1 from) (make_piece side (mv_promotion move)) to
                    else move_piece s1 from to in
          let cr0 := prev_castling in
          let cr1 := if pc_kind moved =? KING then N.land cr0 (cnot (castling_rights_of side)) else cr0 in
          let cr2 := if (pc_kind moved =? ROOK) && (from =? ks_rook_sq side)
                     then N.land cr1 (cnot (N.land (castling_rights_of side) KING_CASTLING)) else cr1 in
          let cr3 := if (pc_kind moved =? ROOK) && (from =? qs_rook_sq side)
                     then N.land cr2 (cnot (N.land (castling_rights_of side) QUEEN_CASTLING)) else cr2 in
          let cr4 := if (captured =? ROOK) && (to =? ks_rook_sq (1 - side))
                     then N.land cr3 (cnot (N.land (castling_rights_of (1 - side)) KING_CASTLING)) else cr3 in
          let cr5 := if (captured =? ROOK) && (to =? qs_rook_sq (1 - side))
                     then N.land cr4 (cnot (N.land (castling_rights_of (1 - side)) QUEEN_CASTLING)) else cr4 in
          (s2, cr5, key_set_castling (r_key s2) cr5) in
      let ep_rank := if side =? 0 then 3 else 4 in
      let rank2 := if side =? 0 then 1 else 6 in
      let new_ep := if (pc_kind moved =? PAWN) && (from / 8 =? rank2) && (to / 8 =? ep_rank)
                    then Some (if side =? 0 then to - 8 else to + 8) else None in
      let key2 := match new_ep with Some e => key_set_ep key_after (Some (e mod 8)) | None => key_after end in
      let s3 := set_meta s1 (r_side s1) hmc' (r_ply s1) cr new_ep key2 (get_key key2 :: r_hist s1) in
      (s3, create_moveinfo captured prev_castling prev_ep is_ep hm).

  (* Position::undo_move *)
  Definition undo_move (s : rep) (move mi : N) : rep :=
    let side := 1 - r_side s in
    let cr := mi_castling mi in
    let e := mi_last_ep mi in
    let key0 := key_set_ep (key_set_castling (flip_side (r_key s)) cr)
                           (match e with Some x => Some (x mod 8) | None => None end) in
    let s0 := set_meta s side (mi_hmc mi) (r_ply s - 1)%Z cr e key0 (tl (r_hist s)) in
    if negb (mv_castling move =? 0) then
      let rank := if side =? 0 then 0 else 7 in
      if mv_castling move =? KING_CASTLING
      then move_piece (move_piece s0 (sq_at rank 6) (sq_at rank 4)) (sq_at rank 5) (sq_at rank 7)
      else move_piece (move_piece s0 (sq_at rank 2) (sq_at rank 4)) (sq_at rank 3) (sq_at rank 0)
    else
      let from := mv_from move in
      let to := mv_to move in
      let captured := make_piece (1 - side) (mi_captured mi) in
      let s1 := if mi_ep mi then add_piece s0 (make_piece (1 - side) PAWN) (if side =? 0 then to - 8 else to + 8)
                else s0 in
      let s2 := if negb (mv_promotion move =? 0)
                then remove_piece (add_piece s1 (make_piece side PAWN) from) to
                else move_piece s1 to from in
      if negb (captured =? 0) then add_piece s2 captured to else s2.

  (* do_null_move / undo_null_move *)
  Definition do_null_move (s : rep) : rep * N :=
    let key := key_set_ep (flip_side (r_key s)) None in
    (set_meta s (1 - r_side s) (u8 (r_hmc s + 1)) (r_ply s + 1)%Z (r_castling s) None key (r_hist s),
     create_moveinfo 0 0 (r_ep s) false 0).
  Definition undo_null_move (s : rep) (mi : N) : rep :=
    let e := mi_last_ep mi in
    let key0 := flip_side (r_key s) in
    let key := match e with Some x => key_set_ep key0 (Some (x mod 8)) | None => key0 end in
    set_meta s (1 - r_side s) (u8 (r_hmc s + 255)) (r_ply s - 1)%Z (r_castling s) e key (r_hist s).

  (* HashKey::init : keys from scratch out of the piece lists *)
  Definition scratch_key (s : rep) : hashkey :=
    let xor_list pc := fold_left (fun acc sq => N.lxor acc (z_piece zt pc sq)) (nthd (r_lists s) pc []) 0 in
    {| k_piece := fold_left (fun acc pc => N.lxor acc (xor_list pc)) [2; 3; 4; 5; 6; 8; 9; 10; 11; 12] 0;
       k_pawn := N.lxor (xor_list 1) (xor_list 7);
       k_ep := match r_ep s with Some e => z_ep zt (e mod 8) | None => 0 end;
       k_castling := z_castling zt (r_castling s);
       k_color := if r_side s =? 1 then z_side zt else 0 |}.

  (* predicates over the key history (position.cpp:188-227) *)
  Definition count_key (k : N) (l : list N) : nat := length (filter (N.eqb k) l).
  Definition is_repeated (s : rep) : bool := existsb (N.eqb (get_key (r_key s))) (tl (r_hist s)).
  Definition threefold (s : rep) : bool := (2 <=? count_key (get_key (r_key s)) (tl (r_hist s)))%nat.
  Definition rule50 (s : rep) : bool := 100 <=? r_hmc s.
  Definition piece_count (s : rep) (pc : N) : N := N.of_nat (length (nthd (r_lists s) pc [])).
  Definition enough_material (s : rep) : bool :=
    let c pc := piece_count s pc in
    let heavy := c 1 + c 4 + c 5 + c 7 + c 10 + c 11 in     (* pawns, rooks, queens *)
    let minors := c 2 + c 3 + c 8 + c 9 in
    negb ((heavy =? 0) && (minors <=? 1)).
End WithTables.
