(* A generic two-player reachability game with a win certificate.
   [Win] is the least fixed point "the attacker can force a terminal win"; a table [W] together with a
   rank function is a CERTIFICATE when a local check holds at every legal position; then W decides Win. *)
From Coq Require Import List Bool NArith Lia.
Import ListNotations.
Local Open Scope N_scope.

Section Game.
  Variable pos : Type.
  Variable legal : pos -> bool.
  Variable attacker_to_move : pos -> bool.
  Variable moves : pos -> list pos.
  Variable win_now : pos -> bool.     (* attacker to move: an immediately winning terminal move exists *)
  Variable save_now : pos -> bool.    (* defender to move: an immediately saving terminal move exists *)
  Variable mated : pos -> bool.       (* defender to move, no move, in check *)

  Hypothesis moves_legal : forall p q, legal p = true -> In q (moves p) -> legal q = true.

  Inductive Win : pos -> Prop :=
  | Win_now p : attacker_to_move p = true -> win_now p = true -> Win p
  | Win_move p q : attacker_to_move p = true -> In q (moves p) -> Win q -> Win p
  | Win_all p : attacker_to_move p = false -> save_now p = false ->
                (moves p <> [] \/ mated p = true) ->
                (forall q, In q (moves p) -> Win q) -> Win p.

  Variable W : pos -> bool.
  Variable rank : pos -> N.

  Definition no_moves (p : pos) : bool := match moves p with [] => true | _ => false end.

  Definition cert_at (p : pos) : bool :=
    if attacker_to_move p then
      if W p then win_now p || existsb (fun q => W q && (rank q <? rank p)) (moves p)
      else negb (win_now p) && forallb (fun q => negb (W q)) (moves p)
    else
      if W p then negb (save_now p) && (negb (no_moves p) || mated p)
                  && forallb (fun q => W q && (rank q <? rank p)) (moves p)
      else save_now p || (no_moves p && negb (mated p)) || existsb (fun q => negb (W q)) (moves p).

  Hypothesis cert : forall p, legal p = true -> cert_at p = true.

  Theorem cert_sound : forall p, legal p = true -> W p = true -> Win p.
  Proof.
    assert (H : forall n p, rank p < n -> legal p = true -> W p = true -> Win p).
    { induction n as [|n IH] using N.peano_ind; intros p Hr Hl Hw; [lia|].
      pose proof (cert p Hl) as C. unfold cert_at in C. rewrite Hw in C.
      destruct (attacker_to_move p) eqn:Ha.
      - apply orb_prop in C. destruct C as [C|C].
        + apply Win_now; assumption.
        + apply existsb_exists in C. destruct C as [q [Hq C]].
          apply andb_prop in C. destruct C as [Cw Cr]. apply N.ltb_lt in Cr.
          apply (Win_move p q); [assumption|assumption|].
          apply IH; [lia|eapply moves_legal; eassumption|assumption].
      - apply andb_prop in C. destruct C as [C Call].
        apply andb_prop in C. destruct C as [Cs Cm].
        apply Win_all; [assumption| | |].
        + destruct (save_now p); [discriminate|reflexivity].
        + apply orb_prop in Cm. destruct Cm as [Cm|Cm]; [|right; exact Cm].
          left. unfold no_moves in Cm. destruct (moves p); [discriminate|congruence].
        + intros q Hq. rewrite forallb_forall in Call. specialize (Call q Hq).
          apply andb_prop in Call. destruct Call as [Cw Cr]. apply N.ltb_lt in Cr.
          apply IH; [lia|eapply moves_legal; eassumption|assumption]. }
    intros p. apply (H (N.succ (rank p))). lia.
  Qed.

  Theorem cert_complete : forall p, Win p -> legal p = true -> W p = true.
  Proof.
    induction 1 as [p Ha Hw|p q Ha Hq Hwin IH|p Ha Hs Hm Hall IH]; intro Hl;
      pose proof (cert p Hl) as C; unfold cert_at in C; rewrite Ha in C;
      destruct (W p) eqn:Ew; try reflexivity; exfalso.
    - rewrite Hw in C. discriminate.
    - apply andb_prop in C. destruct C as [_ C]. rewrite forallb_forall in C.
      specialize (C q Hq). rewrite IH in C by (eapply moves_legal; eassumption). discriminate.
    - rewrite Hs in C. cbn [orb] in C. apply orb_prop in C. destruct C as [C|C].
      + apply andb_prop in C. destruct C as [C1 C2]. unfold no_moves in C1.
        destruct Hm as [Hm|Hm]; [destruct (moves p); [congruence|discriminate]|].
        rewrite Hm in C2. discriminate.
      + apply existsb_exists in C. destruct C as [q [Hq C]].
        rewrite IH in C by (assumption || eapply moves_legal; eassumption). discriminate.
  Qed.

  Corollary cert_decides : forall p, legal p = true -> (W p = true <-> Win p).
  Proof. intros p Hl. split; [apply cert_sound; exact Hl|intro H; apply cert_complete; assumption]. Qed.
End Game.
