(* The go-command parser, characterised on well-formed commands: a command is a sequence of parameter GROUPS
   (ponder | infinite | <numeric keyword> <integer> | searchmoves <moves>); parsing it applies the groups one after the
   other, and - when no keyword is repeated - the result does not depend on the ORDER of the groups.  In particular a
   searchmoves list may stand anywhere in the command (the defect repaired in /repo 93a3921 made every keyword after the
   list part of the list). *)
From Coq Require Import List String Ascii ZArith Bool Lia Permutation.
From CV Require Import Engine.GoParse.
Import ListNotations.
Local Open Scope string_scope.
Local Open Scope list_scope.

Inductive group := GPonder | GInfinite | GNum (f : field) (v : string) (z : Z) | GMoves (ms : list string).
Inductive gkey := KPonder | KInfinite | KNum (f : field) | KMoves.
Definition key (g : group) : gkey :=
  match g with GPonder => KPonder | GInfinite => KInfinite | GNum f _ _ => KNum f | GMoves _ => KMoves end.

Definition kw (f : field) : string :=
  match f with FWtime => "wtime" | FBtime => "btime" | FWinc => "winc" | FBinc => "binc" | FMovestogo => "movestogo"
             | FDepth => "depth" | FNodes => "nodes" | FMate => "mate" | FMovetime => "movetime" end.
Definition render (g : group) : list string :=
  match g with GPonder => ["ponder"] | GInfinite => ["infinite"] | GNum f v _ => [kw f; v] | GMoves ms => "searchmoves" :: ms end.
Definition wf (g : group) : Prop :=
  match g with GNum _ v z => parse_int v = Some z | GMoves ms => Forall (fun m => is_move m = true) ms | _ => True end.
Definition apply (g : group) (L : limits) : limits :=
  match g with GPonder => set_ponder L | GInfinite => set_infinite L | GNum f _ z => set_field f z L | GMoves ms => add_moves ms L end.

(* every group starts with a keyword, and no keyword looks like a move *)
Definition head_kw (g : group) : string := match render g with t :: _ => t | [] => "" end.
Lemma head_not_move g : is_move (head_kw g) = false.
Proof. destruct g as [| |f v z|ms]; try reflexivity. destruct f; reflexivity. Qed.
Lemma render_cons g : exists r, render g = head_kw g :: r.
Proof. destruct g; cbn; eauto. Qed.

Lemma take_moves_app ms rest : Forall (fun m => is_move m = true) ms ->
  (match rest with [] => True | t :: _ => is_move t = false end) -> take_moves (ms ++ rest) = (ms, rest).
Proof.
  induction 1 as [|m ms Hm Hms IH]; intro Hr; cbn [app].
  - destruct rest as [|t r]; [reflexivity|]. cbn [take_moves]. rewrite Hr. reflexivity.
  - cbn [take_moves]. rewrite Hm, (IH Hr). reflexivity.
Qed.

Lemma rest_head gs : match flat_map render gs with [] => True | t :: _ => is_move t = false end.
Proof.
  destruct gs as [|g gs]; cbn [flat_map]; [exact I|]. destruct (render_cons g) as [r ->]. cbn [app]. apply head_not_move.
Qed.

Lemma length_render_pos g : (1 <= List.length (render g))%nat.
Proof. destruct g; cbn; lia. Qed.

Theorem parse_groups gs : Forall wf gs -> forall fuel L, (List.length (flat_map render gs) < fuel)%nat ->
  parse_loop fuel (flat_map render gs) L = fold_left (fun L g => apply g L) gs L.
Proof.
  induction 1 as [|g gs Hg Hgs IH]; intros fuel L Hf.
  - cbn [flat_map fold_left]. destruct fuel; reflexivity.
  - change (flat_map render (g :: gs)) with (render g ++ flat_map render gs) in *. cbn [fold_left]. rewrite app_length in Hf.
    destruct fuel as [|k]; [lia|]. pose proof (length_render_pos g) as Hp.
    destruct g as [| |f v z|ms]; cbn [render app] in *.
    + cbn [parse_loop]. change (String.eqb "ponder" "ponder") with true. cbv iota. apply IH. cbn [List.length] in Hf. lia.
    + cbn [parse_loop]. change (String.eqb "infinite" "ponder") with false. change (String.eqb "infinite" "infinite") with true. cbv iota.
      apply IH. cbn [List.length] in Hf. lia.
    + cbn [wf] in Hg. cbn [parse_loop].
      assert (E1 : String.eqb (kw f) "ponder" = false) by (destruct f; reflexivity).
      assert (E2 : String.eqb (kw f) "infinite" = false) by (destruct f; reflexivity).
      assert (E3 : String.eqb (kw f) "searchmoves" = false) by (destruct f; reflexivity).
      assert (E4 : numeric_keyword (kw f) = Some f) by (destruct f; reflexivity).
      rewrite E1, E2, E3, E4, Hg. apply IH. cbn [List.length] in Hf. lia.
    + cbn [wf] in Hg. cbn [parse_loop]. change (String.eqb "searchmoves" "ponder") with false. change (String.eqb "searchmoves" "infinite") with false.
      change (String.eqb "searchmoves" "searchmoves") with true. cbv iota.
      rewrite (take_moves_app ms (flat_map render gs) Hg (rest_head gs)). apply IH. cbn [List.length] in Hf. lia.
Qed.

Corollary parse_go_groups gs : Forall wf gs -> parse_go (flat_map render gs) = fold_left (fun L g => apply g L) gs default_limits.
Proof. intro H. unfold parse_go. apply parse_groups; [exact H|lia]. Qed.

(* ---- groups with different keywords commute ---- *)
Lemma apply_comm g1 g2 L : key g1 <> key g2 -> apply g1 (apply g2 L) = apply g2 (apply g1 L).
Proof.
  destruct g1 as [| |f1 v1 z1|m1], g2 as [| |f2 v2 z2|m2]; cbn [key]; intro H; try congruence; try reflexivity;
    try (destruct f1; reflexivity); try (destruct f2; reflexivity).
  destruct f1, f2; try reflexivity; congruence.
Qed.

Lemma fold_apply_perm gs gs' : Permutation gs gs' -> NoDup (map key gs) -> forall L,
  fold_left (fun L g => apply g L) gs L = fold_left (fun L g => apply g L) gs' L.
Proof.
  induction 1 as [|g l l' Hp IH|g1 g2 l|l l' l'' H1 IH1 H2 IH2]; intros Hnd L.
  - reflexivity.
  - cbn [fold_left]. cbn [map] in Hnd. inversion Hnd; subst. apply IH. assumption.
  - cbn [fold_left]. cbn [map] in Hnd. inversion Hnd as [|? ? Hn _]; subst. rewrite apply_comm; [reflexivity|].
    intro E. apply Hn. left. exact E.
  - rewrite IH1 by exact Hnd. apply IH2. apply (Permutation_NoDup (Permutation_map key H1)). exact Hnd.
Qed.

Theorem go_parameter_order_is_irrelevant gs gs' :
  Permutation gs gs' -> NoDup (map key gs) -> Forall wf gs ->
  parse_go (flat_map render gs) = parse_go (flat_map render gs').
Proof.
  intros Hp Hnd Hwf. rewrite (parse_go_groups gs Hwf).
  rewrite (parse_go_groups gs'); [apply fold_apply_perm; assumption|].
  rewrite Forall_forall in *. intros g Hin. apply Hwf. apply (Permutation_in _ (Permutation_sym Hp)). exact Hin.
Qed.

(* the searchmoves list is exactly the list that was written, wherever it stands *)
Theorem searchmoves_anywhere pre post ms :
  Forall wf pre -> Forall wf post -> Forall (fun m => is_move m = true) ms ->
  ~ In KMoves (map key pre) -> ~ In KMoves (map key post) ->
  l_searchmoves (parse_go (flat_map render (pre ++ GMoves ms :: post))) = ms.
Proof.
  intros Hpre Hpost Hms Np Nq.
  rewrite parse_go_groups by (apply Forall_app; split; [exact Hpre|constructor; [exact Hms|exact Hpost]]).
  assert (K : forall gs L, ~ In KMoves (map key gs) -> l_searchmoves (fold_left (fun L g => apply g L) gs L) = l_searchmoves L).
  { induction gs as [|g gs IH]; intros L Hn; [reflexivity|]. cbn [fold_left]. rewrite IH by (intro X; apply Hn; right; exact X).
    destruct g as [| |f v z|m]; try reflexivity; [destruct f; reflexivity|]. exfalso. apply Hn. left. reflexivity. }
  rewrite fold_left_app. cbn [fold_left]. rewrite (K post _ Nq). cbn [apply add_moves l_searchmoves]. rewrite (K pre _ Np). reflexivity.
Qed.
