(* Untrusted certificate generator for KPK: computes, with primitive integers and arrays, a rank for
   every position the table marks as won.  Nothing proved here is used by the theorems: the rank function
   enters only through the boolean certificate check. *)
From Coq Require Import Uint63 PArray NArith List ZArith Bool.
Import ListNotations.
Local Open Scope bool_scope.
Local Open Scope uint63_scope.

(* index layout as KPK.index_of_kpk: wk | bk<<6 | btm<<12 | file<<13 | (rank-1)<<16 *)
Definition NIDX : int := 393216.

Definition fil (s : int) : int := s land 7.
Definition rnk (s : int) : int := s >> 3.
Definition absdiff (a b : int) : int := if a <? b then b - a else a - b.
Definition adj (a b : int) : bool := (absdiff (fil a) (fil b) <=? 1) && (absdiff (rnk a) (rnk b) <=? 1).
Definition patt (wp s : int) : bool := (rnk s =? rnk wp + 1) && (absdiff (fil s) (fil wp) =? 1).

Definition ktargets (s : int) : list int :=
  let f := fil s in let r := rnk s in
  let l := 0 <? f in let rt := f <? 7 in let d := 0 <? r in let u := r <? 7 in
  (if u then [s + 8] else []) ++ (if d then [s - 8] else []) ++
  (if rt then [s + 1] else []) ++ (if l then [s - 1] else []) ++
  (if u && rt then [s + 9] else []) ++ (if u && l then [s + 7] else []) ++
  (if d && rt then [s - 7] else []) ++ (if d && l then [s - 9] else []).

Definition mk (btm : bool) (wk wp bk : int) : int :=
  wk lor (bk << 6) lor ((if btm then 1 else 0) << 12) lor ((fil wp) << 13) lor ((rnk wp - 1) << 16).

Section Gen.
  Variable Wbit : int -> bool.        (* the table, on the 8-file index *)

  (* new rank for position i given the current ranks (0 = not ranked yet); 0 if not rankable now *)
  Definition rank_step (rk : array int) (i : int) : int :=
    let wk := i land 63 in let bk := (i >> 6) land 63 in
    let btm := ((i >> 12) land 1) =? 1 in
    let wp := ((i >> 13) land 7) + 8 * ((i >> 16) + 1) in
    if btm then
      (* all children must be ranked; rank = 1 + max *)
      let ts := filter (fun t => negb (adj t wk) && negb (patt wp t) && negb (t =? wp)) (ktargets bk) in
      match ts with
      | [] => 1      (* no moves: only acceptable to the checker if mated; harmless otherwise *)
      | _ =>
        fold_left (fun acc t =>
                     if acc =? 0 then 0 else
                     let r := rk.[mk false wk wp t] in
                     if r =? 0 then 0 else if acc <? r + 1 then r + 1 else acc) ts 1
      end
    else
      let t := wp + 8 in
      if (rnk wp =? 6) && negb (t =? wk) && negb (t =? bk) && negb (adj bk t && negb (adj wk t)) then 1
      else
        let kings := map (fun t => mk true t wp bk) (filter (fun t => negb (adj t bk) && negb (t =? wp)) (ktargets wk)) in
        let pawns :=
            if (rnk wp <? 6) && negb (t =? wk) && negb (t =? bk) then
              mk true wk t bk ::
              (let t2 := wp + 16 in
               if (rnk wp =? 1) && negb (t2 =? wk) && negb (t2 =? bk) then [mk true wk t2 bk] else [])
            else [] in
        (* 1 + the smallest rank among ranked winning children *)
        let best := fold_left (fun acc q => let r := rk.[q] in
                                 if (r =? 0) || negb (Wbit q) then acc
                                 else if (acc =? 0) || (r <? acc) then r else acc) (kings ++ pawns) 0 in
        if best =? 0 then 0 else best + 1.

  Definition pass (rk : array int) : array int * bool :=
    let '(_, rk', ch) :=
        N.iter 393216 (fun st => let '(i, rk, ch) := st in
                             if Wbit i && (rk.[i] =? 0) then
                               let r := rank_step rk i in
                               if r =? 0 then (i + 1, rk, ch) else (i + 1, rk.[i <- r], true)
                             else (i + 1, rk, ch)) (0, rk, false) in
    (rk', ch).

  Fixpoint passes (n : nat) (rk : array int) : array int :=
    match n with
    | O => rk
    | S k => let '(rk', ch) := pass rk in if ch then passes k rk' else rk'
    end.

  Definition gen_ranks : array int := passes 100 (PArray.make NIDX 0).
End Gen.
