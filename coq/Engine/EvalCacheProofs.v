From Coq Require Import NArith ZArith List Bool Lia.
From CV Require Import Engine.EvalCache.
Import ListNotations.
Local Open Scope N_scope.

Section Proofs.
  Variable pos : Type.
  Variable V R : Type.
  Variable dflt : V.
  Variable pawn_key : pos -> N.
  Variable pawn_score : pos -> V.
  Variable finish : pos -> V -> R.

  (* the cached term is a function of the key (no 64-bit pawn-key collision between structures with different
     scores, AND the term reads nothing but what the key covers) ... *)
  Hypothesis key_determines_score : forall p q, pawn_key p = pawn_key q -> pawn_score p = pawn_score q.
  (* ... and key 0 (the empty pawn structure) has the default score 0 - 0 *)
  Hypothesis key0_default : forall p, pawn_key p = 0 -> pawn_score p = dflt.

  Notation eval := (eval pos V R pawn_key pawn_score finish).
  Notation pure_eval := (pure_eval pos V R pawn_score finish).
  Notation step := (step pos V R pawn_key pawn_score finish).

  (* every stored (key, value) pair is the true score of every position with that key *)
  Definition cache_ok (t : table V) : Prop := forall i p, e_key (t i) = pawn_key p -> e_val (t i) = pawn_score p.

  Lemma init_ok : cache_ok (t_init V dflt).
  Proof. intros i p H. cbn in *. symmetry. apply key0_default. symmetry. exact H. Qed.

  Lemma clear_ok t : cache_ok (t_clear V dflt t).
  Proof. intros i p H. cbn in *. symmetry. apply key0_default. symmetry. exact H. Qed.

  Lemma eval_ok t p : cache_ok t -> fst (eval t p) = pure_eval p /\ cache_ok (snd (eval t p)).
  Proof.
    intro H. unfold EvalCache.eval, score_pawns, t_probe, EvalCache.pure_eval.
    destruct (e_key (t (slot (pawn_key p))) =? pawn_key p) eqn:E; cbn.
    - apply N.eqb_eq in E. split; [|exact H]. f_equal. apply H. exact E.
    - split; [reflexivity|]. intros i q Hq. unfold t_insert in *.
      destruct (i =? slot (pawn_key p)); cbn in *; [apply key_determines_score; exact Hq|apply H; exact Hq].
  Qed.

  Lemma steps_ok ops : forall t, cache_ok t -> cache_ok (fold_left (step (t_clear V dflt)) ops t).
  Proof.
    induction ops as [|o ops IH]; intros t H; [exact H|]. cbn [fold_left]. apply IH.
    destruct o as [p|]; cbn; [apply eval_ok; exact H|apply clear_ok].
  Qed.

  (* C14 (purity): after ANY sequence of earlier evaluations and clears on the same evaluator, evaluating p gives what
     a fresh evaluator gives *)
  Theorem eval_pure ops p :
    fst (eval (fold_left (step (t_clear V dflt)) ops (t_init V dflt)) p) = pure_eval p.
  Proof. apply eval_ok. apply steps_ok. apply init_ok. Qed.
End Proofs.

(* The defect the repair removed: clear() that zeroes only the keys breaks the invariant.  Concrete instance:
   positions = naturals, key 0 = "no pawns" (score 0), structure 1 has a key whose slot is 0 ... *)
Example clear_keys_only_is_impure :
  let pawn_key (p : nat) : N := match p with O => 0 | _ => slots end in     (* slot (slots) = 0 = slot 0 *)
  let pawn_score (p : nat) : Z := match p with O => 0%Z | _ => 77%Z end in
  let finish (_ : nat) (v : Z) := v in
  let st := fold_left (step nat Z Z pawn_key pawn_score finish (t_clear_keys_only Z)) [Eval nat 1%nat; Clear nat] (t_init Z 0%Z) in
  fst (eval nat Z Z pawn_key pawn_score finish st 0%nat) = 77%Z /\ pure_eval nat Z Z pawn_score finish 0%nat = 0%Z.
Proof. vm_compute. split; reflexivity. Qed.
