(* C09 / C05: the text of a `go` command -> Limits (Uci::go_command, engine/uci.cpp).

   The loop reads one token at a time; a numeric keyword consumes the next token as its value (a missing or malformed
   value puts the stream into the failed state, which ends the loop); `searchmoves` consumes tokens as long as they
   look like long-algebraic moves and hands the first token that does not back to the keyword dispatch.  Moves are
   kept as text here (parse_uci is the subject of C16). *)
From Coq Require Import List String Ascii ZArith Bool.
Import ListNotations.
Local Open Scope string_scope.
Local Open Scope Z_scope.

Record limits := {
  l_ponder : bool; l_wtime : Z; l_btime : Z; l_winc : Z; l_binc : Z; l_movestogo : Z;
  l_depth : Z; l_nodes : Z; l_mate : option Z; l_movetime : Z; l_infinite : bool;
  l_searchmoves : list string;
  l_clock : bool                 (* Limits::clock: a wtime / btime value was given *)
}.
Definition default_limits : limits :=
  {| l_ponder := false; l_wtime := 0; l_btime := 0; l_winc := 0; l_binc := 0; l_movestogo := 0;
     l_depth := 0; l_nodes := 0; l_mate := None; l_movetime := 0; l_infinite := false; l_searchmoves := []; l_clock := false |}.

(* ---- tokens ---- *)
Definition in_range (lo hi : nat) (c : ascii) : bool := (Nat.leb lo (nat_of_ascii c) && Nat.leb (nat_of_ascii c) hi)%bool.
Definition is_file (c : ascii) : bool := in_range 97 104 c.      (* a..h *)
Definition is_rank (c : ascii) : bool := in_range 49 56 c.       (* 1..8 *)
Definition is_digit (c : ascii) : bool := in_range 48 57 c.
Definition is_move (t : string) : bool :=
  match t with
  | String a (String b (String c (String d rest))) =>
    (is_file a && is_rank b && is_file c && is_rank d && match rest with EmptyString | String _ EmptyString => true | _ => false end)%bool
  | _ => false
  end.

Fixpoint digits_val (s : string) (acc : Z) : option Z :=
  match s with
  | EmptyString => Some acc
  | String c r => if is_digit c then digits_val r (acc * 10 + Z.of_nat (nat_of_ascii c - 48)) else None
  end.
(* a decimal integer token: optional sign, at least one digit (istream >> int on anything else fails) *)
Definition parse_int (t : string) : option Z :=
  match t with
  | String "-" (String c r) => option_map Z.opp (digits_val (String c r) 0)
  | String "+" (String c r) => digits_val (String c r) 0
  | String _ _ => digits_val t 0
  | EmptyString => None
  end.

Inductive field := FWtime | FBtime | FWinc | FBinc | FMovestogo | FDepth | FNodes | FMate | FMovetime.
Definition numeric_keyword (t : string) : option field :=
  if String.eqb t "wtime" then Some FWtime else if String.eqb t "btime" then Some FBtime else
  if String.eqb t "winc" then Some FWinc else if String.eqb t "binc" then Some FBinc else
  if String.eqb t "movestogo" then Some FMovestogo else if String.eqb t "depth" then Some FDepth else
  if String.eqb t "nodes" then Some FNodes else if String.eqb t "mate" then Some FMate else
  if String.eqb t "movetime" then Some FMovetime else None.

Definition set_field (f : field) (v : Z) (L : limits) : limits :=
  match f with
  | FWtime => {| l_ponder := l_ponder L; l_wtime := v; l_btime := l_btime L; l_winc := l_winc L; l_binc := l_binc L; l_movestogo := l_movestogo L; l_depth := l_depth L; l_nodes := l_nodes L; l_mate := l_mate L; l_movetime := l_movetime L; l_infinite := l_infinite L; l_searchmoves := l_searchmoves L; l_clock := true |}
  | FBtime => {| l_ponder := l_ponder L; l_wtime := l_wtime L; l_btime := v; l_winc := l_winc L; l_binc := l_binc L; l_movestogo := l_movestogo L; l_depth := l_depth L; l_nodes := l_nodes L; l_mate := l_mate L; l_movetime := l_movetime L; l_infinite := l_infinite L; l_searchmoves := l_searchmoves L; l_clock := true |}
  | FWinc => {| l_ponder := l_ponder L; l_wtime := l_wtime L; l_btime := l_btime L; l_winc := v; l_binc := l_binc L; l_movestogo := l_movestogo L; l_depth := l_depth L; l_nodes := l_nodes L; l_mate := l_mate L; l_movetime := l_movetime L; l_infinite := l_infinite L; l_searchmoves := l_searchmoves L; l_clock := l_clock L |}
  | FBinc => {| l_ponder := l_ponder L; l_wtime := l_wtime L; l_btime := l_btime L; l_winc := l_winc L; l_binc := v; l_movestogo := l_movestogo L; l_depth := l_depth L; l_nodes := l_nodes L; l_mate := l_mate L; l_movetime := l_movetime L; l_infinite := l_infinite L; l_searchmoves := l_searchmoves L; l_clock := l_clock L |}
  | FMovestogo => {| l_ponder := l_ponder L; l_wtime := l_wtime L; l_btime := l_btime L; l_winc := l_winc L; l_binc := l_binc L; l_movestogo := v; l_depth := l_depth L; l_nodes := l_nodes L; l_mate := l_mate L; l_movetime := l_movetime L; l_infinite := l_infinite L; l_searchmoves := l_searchmoves L; l_clock := l_clock L |}
  | FDepth => {| l_ponder := l_ponder L; l_wtime := l_wtime L; l_btime := l_btime L; l_winc := l_winc L; l_binc := l_binc L; l_movestogo := l_movestogo L; l_depth := v; l_nodes := l_nodes L; l_mate := l_mate L; l_movetime := l_movetime L; l_infinite := l_infinite L; l_searchmoves := l_searchmoves L; l_clock := l_clock L |}
  | FNodes => {| l_ponder := l_ponder L; l_wtime := l_wtime L; l_btime := l_btime L; l_winc := l_winc L; l_binc := l_binc L; l_movestogo := l_movestogo L; l_depth := l_depth L; l_nodes := v; l_mate := l_mate L; l_movetime := l_movetime L; l_infinite := l_infinite L; l_searchmoves := l_searchmoves L; l_clock := l_clock L |}
  | FMate => {| l_ponder := l_ponder L; l_wtime := l_wtime L; l_btime := l_btime L; l_winc := l_winc L; l_binc := l_binc L; l_movestogo := l_movestogo L; l_depth := l_depth L; l_nodes := l_nodes L; l_mate := Some v; l_movetime := l_movetime L; l_infinite := l_infinite L; l_searchmoves := l_searchmoves L; l_clock := l_clock L |}
  | FMovetime => {| l_ponder := l_ponder L; l_wtime := l_wtime L; l_btime := l_btime L; l_winc := l_winc L; l_binc := l_binc L; l_movestogo := l_movestogo L; l_depth := l_depth L; l_nodes := l_nodes L; l_mate := l_mate L; l_movetime := v; l_infinite := l_infinite L; l_searchmoves := l_searchmoves L; l_clock := l_clock L |}
  end.
Definition set_ponder (L : limits) : limits :=
  {| l_ponder := true; l_wtime := l_wtime L; l_btime := l_btime L; l_winc := l_winc L; l_binc := l_binc L; l_movestogo := l_movestogo L; l_depth := l_depth L; l_nodes := l_nodes L; l_mate := l_mate L; l_movetime := l_movetime L; l_infinite := l_infinite L; l_searchmoves := l_searchmoves L; l_clock := l_clock L |}.
Definition set_infinite (L : limits) : limits :=
  {| l_ponder := l_ponder L; l_wtime := l_wtime L; l_btime := l_btime L; l_winc := l_winc L; l_binc := l_binc L; l_movestogo := l_movestogo L; l_depth := l_depth L; l_nodes := l_nodes L; l_mate := l_mate L; l_movetime := l_movetime L; l_infinite := true; l_searchmoves := l_searchmoves L; l_clock := l_clock L |}.
Definition set_clock (L : limits) : limits :=
  {| l_ponder := l_ponder L; l_wtime := l_wtime L; l_btime := l_btime L; l_winc := l_winc L; l_binc := l_binc L; l_movestogo := l_movestogo L; l_depth := l_depth L; l_nodes := l_nodes L; l_mate := l_mate L; l_movetime := l_movetime L; l_infinite := l_infinite L; l_searchmoves := l_searchmoves L; l_clock := true |}.
Definition add_moves (ms : list string) (L : limits) : limits :=
  {| l_ponder := l_ponder L; l_wtime := l_wtime L; l_btime := l_btime L; l_winc := l_winc L; l_binc := l_binc L; l_movestogo := l_movestogo L; l_depth := l_depth L; l_nodes := l_nodes L; l_mate := l_mate L; l_movetime := l_movetime L; l_infinite := l_infinite L; l_searchmoves := l_searchmoves L ++ ms; l_clock := l_clock L |}.

(* the longest prefix of move-shaped tokens *)
Fixpoint take_moves (ts : list string) : list string * list string :=
  match ts with
  | t :: r => if is_move t then let '(ms, rest) := take_moves r in (t :: ms, rest) else ([], ts)
  | [] => ([], [])
  end.

(* the loop, on fuel (one unit per token is enough: every round consumes at least one) *)
Fixpoint parse_loop (fuel : nat) (ts : list string) (L : limits) : limits :=
  match fuel with
  | O => L
  | S k =>
    match ts with
    | [] => L
    | t :: r =>
      if String.eqb t "ponder" then parse_loop k r (set_ponder L)
      else if String.eqb t "infinite" then parse_loop k r (set_infinite L)
      else if String.eqb t "searchmoves" then let '(ms, rest) := take_moves r in parse_loop k rest (add_moves ms L)
      else match numeric_keyword t with
           | Some f =>
             match r with
             | v :: r' => match parse_int v with
                          | Some z => parse_loop k r' (set_field f z L)
                          | None => set_field f 0 L                (* failed extraction stores 0 and ends the loop *)
                          end
             | [] => match f with FWtime | FBtime => set_clock L | _ => L end    (* nothing to read: stream failed, value untouched (the clock flag is set all the same) *)
             end
           | None => parse_loop k r L                               (* unknown tokens are skipped *)
           end
    end
  end.
Definition parse_go (ts : list string) : limits := parse_loop (S (List.length ts)) ts default_limits.
