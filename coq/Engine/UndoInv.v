(* C03, the piece lists and the bitboards: undo_move after do_move keeps the list / key invariant (KeyScratch.piece_inv), so - the board being restored
   (RepRoundTripLegal.undo_do_legal) - every piece list comes back as a duplicate-free enumeration of the same squares: a permutation of
   what it was (swap-remove reorders, nothing is lost or invented). *)
From CV Require Import Engine.PositionRep Engine.EncodingProofs Engine.RepProofs Engine.RepRoundTrip Engine.RepRoundTripNormal
     Engine.RepAbs Engine.RepRefine Engine.RepRefineLegal Engine.RepRoundTripLegal Engine.KeyScratch Engine.KeyScratchMove.
From Coq Require Import Lia List Bool ZArith Btauto Permutation.
Import ListNotations.
Local Open Scope N_scope.

Section U.
  Variable zt : zobrist.
  Hint Rewrite sm_side sm_hmc sm_ply sm_castling sm_ep sm_key sm_hist sm_board
       (mp_side zt) (mp_hmc zt) (mp_ply zt) (mp_castling zt) (mp_ep zt) (mp_hist zt) (mp_board zt) (mp_key zt)
       (ap_side zt) (ap_hmc zt) (ap_ply zt) (ap_castling zt) (ap_ep zt) (ap_hist zt) (ap_board zt) (ap_key zt)
       (rp_side zt) (rp_hmc zt) (rp_ply zt) (rp_castling zt) (rp_ep zt) (rp_hist zt) (rp_board zt) (rp_key zt) : fields.
  Hint Rewrite (tg_ep zt) (tg_castling zt) (tg_color zt) (se_ep zt) (se_castling zt) (se_color zt) (se_piece zt) (se_pawn zt)
       (sc_ep zt) (sc_castling zt) (sc_color zt) (sc_piece zt) (sc_pawn zt) (fs_ep zt) (fs_piece zt) (fs_pawn zt) : keys.
  Ltac len64 := repeat apply len_upd64; assumption.
  Ltac simp_nthd :=
    repeat first [ rewrite nthd_same64 by (first [len64 | lia])
                 | rewrite nthd_updN_other by (first [lia | congruence | discriminate]) ].

  Ltac keyside EP := try destruct EP; autorewrite with fields keys; autorewrite with fields keys; reflexivity.

  (* set_meta with a key whose piece components are those of the old key *)
  Lemma sm_inv s a b c d e k h : piece_inv zt s -> k_piece k = k_piece (r_key s) -> k_pawn k = k_pawn (r_key s) -> piece_inv zt (set_meta s a b c d e k h).
  Proof. apply set_meta_inv. Qed.

  Theorem normal_undo_inv s from to promo cap kf :
    base_ok zt s -> piece_inv zt s -> from < 64 -> to < 64 -> from <> to -> promo < 8 -> kind_ok kf ->
    nthd (r_board s) from 0 = make_piece (r_side s) kf ->
    nthd (r_board s) to 0 = cap -> make_piece (1 - r_side s) (pc_kind cap) = cap ->
    (promo <> 0 -> kf = PAWN /\ kind_ok promo) ->
    is_ep_flag s from to = false ->
    let m := create_promotion from to promo in
    piece_inv zt (undo_move zt (fst (do_move zt s m)) m (snd (do_move zt s m))).
  Proof.
    intros [Hlen [Hside [Hhm [Hcr [Hep [Hkc Hke]]]]]] Hp Hf Ht Hne Hpr Hkf Hown Hcap Hcc Hpromo Hnep m.
    destruct (decode_promotion from to promo Hf Ht Hpr) as [Df [Dt [Dp Dc]]]. fold m in Df, Dt, Dp, Dc.
    unfold is_ep_flag in Hnep.
    destruct (mi_fields (pc_kind cap) (r_castling s) (r_ep s) false (r_hmc s) (pc_kind_lt8 cap) Hcr Hep Hhm) as [M1 [M2 [M3 [M4 M5]]]].
    assert (Hown0 : nthd (r_board s) from 0 <> 0) by (rewrite Hown; pose proof (make_piece_range _ _ Hside Hkf); lia).
    unfold do_move. cbv beta zeta. rewrite Dc, Df, Dt, Dp. change (negb (0 =? 0)) with false. cbv iota.
    autorewrite with fields. rewrite Hcap, Hnep.
    destruct (promo =? 0) eqn:Ep; destruct (cap =? 0) eqn:Ec; cbn [negb]; cbv beta iota zeta; cbn [fst snd];
      (lazymatch goal with |- piece_inv _ (undo_move _ (set_meta _ _ ?hm _ ?cr ?ep _ _) _ _) =>
         set (HM := hm); set (CR := cr); set (EP := ep); clearbody HM CR EP end);
      unfold undo_move; cbv beta zeta; rewrite Dc, Df, Dt, Dp, ?Ep; change (negb (0 =? 0)) with false; cbn [negb]; cbv iota;
      autorewrite with fields; rewrite M1, M2, M3, M4, M5, (side_back _ Hside), Hcc, Ec; cbn [negb]; cbv iota.
    all: try (apply N.eqb_eq in Ec; assert (Hto0 : nthd (r_board s) to 0 = 0) by congruence). all: try (apply N.eqb_neq in Ec; assert (Hto1 : nthd (r_board s) to 0 <> 0) by congruence).
    all: try (apply N.eqb_neq in Ep; destruct (Hpromo Ep) as [Ekf Hkp]; rewrite Ekf in * ).
    all: assert (Hp0 : piece_inv zt (set_meta s (1 - r_side s) (r_hmc s) (r_ply s + 1)%Z (r_castling s) (r_ep s) (key_set_ep zt (flip_side zt (r_key s)) None) (r_hist s))) by (apply piece_inv_s0; exact Hp).
    - (* quiet *)
      apply move_piece_inv; [|exact Ht|exact Hf|congruence| |].
      + apply set_meta_inv; [|keyside EP|keyside EP].
        apply set_meta_inv; [|keyside EP|keyside EP].
        apply move_piece_inv; [exact Hp0|exact Hf|exact Ht|exact Hne|exact Hown0|exact Hto0].
      + autorewrite with fields. simp_nthd. exact Hown0.
      + autorewrite with fields. simp_nthd. reflexivity.
    - (* capture *)
      assert (Hcr13 : 1 <= cap <= 12) by (destruct Hp as [_ [_ [Hc13 _]]]; pose proof (Hc13 to Ht); lia).
      apply add_piece_inv; [|exact Hcr13|exact Ht|autorewrite with fields; simp_nthd; reflexivity].
      apply move_piece_inv; [|exact Ht|exact Hf|congruence| |].
      + apply set_meta_inv; [|keyside EP|keyside EP]. apply set_meta_inv; [|keyside EP|keyside EP].
        apply move_piece_inv; [apply remove_piece_inv; [exact Hp0|exact Ht|exact Hto1]|exact Hf|exact Ht|exact Hne| |].
        * autorewrite with fields. simp_nthd. exact Hown0.
        * autorewrite with fields. simp_nthd. reflexivity.
      + autorewrite with fields. simp_nthd. exact Hown0.
      + autorewrite with fields. simp_nthd. reflexivity.
    - (* promotion *)
      assert (Hpp : 1 <= make_piece (r_side s) promo <= 12) by (apply make_piece_range; assumption).
      assert (Hpw : 1 <= make_piece (r_side s) PAWN <= 12) by (apply make_piece_range; [assumption|unfold kind_ok, PAWN; lia]).
      apply remove_piece_inv; [|exact Ht|autorewrite with fields; simp_nthd; lia].
      apply add_piece_inv; [|exact Hpw|exact Hf|autorewrite with fields; simp_nthd; reflexivity].
      apply set_meta_inv; [|keyside EP|keyside EP]. apply set_meta_inv; [|keyside EP|keyside EP].
      apply add_piece_inv; [apply remove_piece_inv; [exact Hp0|exact Hf|exact Hown0]|exact Hpp|exact Ht|autorewrite with fields; simp_nthd; exact Hto0].
    - (* promotion with capture *)
      assert (Hcr13 : 1 <= cap <= 12) by (destruct Hp as [_ [_ [Hc13 _]]]; pose proof (Hc13 to Ht); lia).
      assert (Hpp : 1 <= make_piece (r_side s) promo <= 12) by (apply make_piece_range; assumption).
      assert (Hpw : 1 <= make_piece (r_side s) PAWN <= 12) by (apply make_piece_range; [assumption|unfold kind_ok, PAWN; lia]).
      apply add_piece_inv; [|exact Hcr13|exact Ht|autorewrite with fields; simp_nthd; reflexivity].
      apply remove_piece_inv; [|exact Ht|autorewrite with fields; simp_nthd; lia].
      apply add_piece_inv; [|exact Hpw|exact Hf|autorewrite with fields; simp_nthd; reflexivity].
      apply set_meta_inv; [|keyside EP|keyside EP]. apply set_meta_inv; [|keyside EP|keyside EP].
      apply add_piece_inv; [|exact Hpp|exact Ht|autorewrite with fields; simp_nthd; reflexivity].
      apply remove_piece_inv; [apply remove_piece_inv; [exact Hp0|exact Ht|exact Hto1]|exact Hf|autorewrite with fields; simp_nthd; exact Hown0].
  Qed.
  Theorem ep_undo_inv s from to :
    base_ok zt s -> piece_inv zt s -> from < 64 -> to < 64 -> from <> to ->
    nthd (r_board s) from 0 = make_piece (r_side s) PAWN ->
    nthd (r_board s) to 0 = 0 -> is_ep_flag s from to = true ->
    capsq s to < 64 -> capsq s to <> from -> capsq s to <> to ->
    nthd (r_board s) (capsq s to) 0 = make_piece (1 - r_side s) PAWN ->
    let m := create_promotion from to 0 in
    piece_inv zt (undo_move zt (fst (do_move zt s m)) m (snd (do_move zt s m))).
  Proof.
    intros [Hlen [Hside [Hhm [Hcr [Hep [Hkc Hke]]]]]] Hp Hf Ht Hne Hown Hcap Hisep Hc1 Hc2 Hc3 Hpawn m.
    destruct (decode_promotion from to 0 Hf Ht ltac:(lia)) as [Df [Dt [Dp Dc]]]. fold m in Df, Dt, Dp, Dc.
    unfold is_ep_flag in Hisep.
    destruct (mi_fields 0 (r_castling s) (r_ep s) true (r_hmc s) ltac:(lia) Hcr Hep Hhm) as [M1 [M2 [M3 [M4 M5]]]].
    assert (Hkp : kind_ok PAWN) by (unfold kind_ok, PAWN; lia).
    assert (Hown0 : nthd (r_board s) from 0 <> 0) by (rewrite Hown; pose proof (make_piece_range _ _ Hside Hkp); lia).
    assert (Hpw : 1 <= make_piece (1 - r_side s) PAWN <= 12) by (apply make_piece_range; [lia|exact Hkp]).
    assert (Hcap0 : nthd (r_board s) (capsq s to) 0 <> 0) by (rewrite Hpawn; lia).
    unfold do_move. cbv beta zeta. rewrite Dc, Df, Dt, Dp. change (negb (0 =? 0)) with false. cbv iota.
    autorewrite with fields. rewrite Hcap, Hisep. change (pc_kind 0) with 0. cbv beta iota zeta. cbn [fst snd].
    fold (capsq s to).
    lazymatch goal with |- piece_inv _ (undo_move _ (set_meta _ _ ?hm _ ?cr ?ep _ _) _ _) =>
       set (HM := hm); set (EP := ep); clearbody HM EP end.
    unfold undo_move. cbv beta zeta. rewrite Dc, Df, Dt, Dp. change (negb (0 =? 0)) with false. cbv iota.
    autorewrite with fields. rewrite M1, M2, M3, M4, M5, (side_back _ Hside). fold (capsq s to).
    rewrite make_piece_kind0. change (negb (0 =? 0)) with false. cbv iota.
    assert (Hp0 : piece_inv zt (set_meta s (1 - r_side s) (r_hmc s) (r_ply s + 1)%Z (r_castling s) (r_ep s) (key_set_ep zt (flip_side zt (r_key s)) None) (r_hist s))) by (apply piece_inv_s0; exact Hp).
    apply move_piece_inv; [|exact Ht|exact Hf|congruence| |].
    - apply add_piece_inv; [|exact Hpw|exact Hc1|autorewrite with fields; simp_nthd; reflexivity].
      apply set_meta_inv; [|keyside EP|keyside EP]. apply set_meta_inv; [|keyside EP|keyside EP].
      apply remove_piece_inv; [apply move_piece_inv; [exact Hp0|exact Hf|exact Ht|exact Hne|exact Hown0|exact Hcap]|exact Hc1|].
      autorewrite with fields. simp_nthd. exact Hcap0.
    - autorewrite with fields. simp_nthd. exact Hown0.
    - autorewrite with fields. simp_nthd. reflexivity.
  Qed.
  Theorem castle_undo_inv s (ks : bool) :
    base_ok zt s -> piece_inv zt s ->
    let rank := if r_side s =? 0 then 0 else 7 in
    nthd (r_board s) (sq_at rank 4) 0 <> 0 -> nthd (r_board s) (sq_at rank (if ks then 7 else 0)) 0 <> 0 ->
    nthd (r_board s) (sq_at rank (if ks then 6 else 2)) 0 = 0 ->
    nthd (r_board s) (sq_at rank (if ks then 5 else 3)) 0 = 0 ->
    let m := if ks then KING_CASTLING_MOVE else QUEEN_CASTLING_MOVE in
    piece_inv zt (undo_move zt (fst (do_move zt s m)) m (snd (do_move zt s m))).
  Proof.
    intros [Hlen [Hside [Hhm [Hcr [Hep [Hkc Hke]]]]]] Hp rank HK HR H1 H2 m.
    destruct (mi_fields 0 (r_castling s) (r_ep s) false (r_hmc s) ltac:(lia) Hcr Hep Hhm) as [M1 [M2 [M3 [M4 M5]]]].
    assert (Hp0 : piece_inv zt (set_meta s (1 - r_side s) (r_hmc s) (r_ply s + 1)%Z (r_castling s) (r_ep s) (key_set_ep zt (flip_side zt (r_key s)) None) (r_hist s))) by (apply piece_inv_s0; exact Hp).
    destruct (side_cases s Hside) as [Es|Es]; destruct ks; subst m rank; rewrite Es in HK, HR, H1, H2;
      cbn [N.eqb Pos.eqb] in HK, HR, H1, H2;
      unfold do_move; cbv beta zeta;
      [ change (mv_castling KING_CASTLING_MOVE) with 5 | change (mv_castling QUEEN_CASTLING_MOVE) with 10
      | change (mv_castling KING_CASTLING_MOVE) with 5 | change (mv_castling QUEEN_CASTLING_MOVE) with 10 ];
      try change (negb (5 =? 0)) with true; try change (negb (10 =? 0)) with true;
      try change (5 =? KING_CASTLING) with true; try change (10 =? KING_CASTLING) with false;
      cbv iota; rewrite Es; cbn [N.eqb Pos.eqb]; cbv iota; cbn [fst snd];
      unfold undo_move; cbv beta zeta;
      [ change (mv_castling KING_CASTLING_MOVE) with 5 | change (mv_castling QUEEN_CASTLING_MOVE) with 10
      | change (mv_castling KING_CASTLING_MOVE) with 5 | change (mv_castling QUEEN_CASTLING_MOVE) with 10 ];
      try change (negb (5 =? 0)) with true; try change (negb (10 =? 0)) with true;
      try change (5 =? KING_CASTLING) with true; try change (10 =? KING_CASTLING) with false;
      cbv iota; autorewrite with fields; rewrite ?M2, ?M3, ?M5;
      try change (1 - (1 - 0)) with 0; try change (1 - (1 - 1)) with 1; cbn [N.eqb Pos.eqb]; cbv iota;
      rewrite Es in Hp0;
      repeat match goal with |- context [sq_at ?r ?f] => let v := eval vm_compute in (sq_at r f) in change (sq_at r f) with v end;
      repeat match type of HK with context [sq_at ?r ?f] => let v := eval vm_compute in (sq_at r f) in change (sq_at r f) with v in HK end;
      repeat match type of HR with context [sq_at ?r ?f] => let v := eval vm_compute in (sq_at r f) in change (sq_at r f) with v in HR end;
      repeat match type of H1 with context [sq_at ?r ?f] => let v := eval vm_compute in (sq_at r f) in change (sq_at r f) with v in H1 end;
      repeat match type of H2 with context [sq_at ?r ?f] => let v := eval vm_compute in (sq_at r f) in change (sq_at r f) with v in H2 end.
    all: (apply move_piece_inv; [|vm_compute; reflexivity|vm_compute; reflexivity|discriminate| |]);
      [ apply move_piece_inv; [|vm_compute; reflexivity|vm_compute; reflexivity|discriminate| |];
        [ apply set_meta_inv; [|autorewrite with fields keys; autorewrite with fields keys; reflexivity|autorewrite with fields keys; autorewrite with fields keys; reflexivity];
          apply set_meta_inv; [|autorewrite with fields keys; autorewrite with fields keys; reflexivity|autorewrite with fields keys; autorewrite with fields keys; reflexivity];
          apply move_piece_inv; [|vm_compute; reflexivity|vm_compute; reflexivity|discriminate| |];
          [ apply move_piece_inv; [exact Hp0|vm_compute; reflexivity|vm_compute; reflexivity|discriminate|exact HK|exact H1]
          | autorewrite with fields; simp_nthd; exact HR
          | autorewrite with fields; simp_nthd; exact H2 ]
        | autorewrite with fields; simp_nthd; exact HK
        | autorewrite with fields; simp_nthd; reflexivity ]
      | autorewrite with fields; simp_nthd; exact HR
      | autorewrite with fields; simp_nthd; reflexivity ].
  Qed.
  Theorem undo_do_piece_inv s m : rep_ok s -> key_inv zt s -> pseudo_legal (rep_abs s) m = true ->
    piece_inv zt (undo_move zt (fst (do_move zt s (enc m))) (enc m) (snd (do_move zt s (enc m)))).
  Proof.
    intros Hok Hki H. destruct (Hki) as [Hp [Hke [Hkc _]]].
    assert (Hk : key_ok zt s) by (split; [exact Hkc|exact Hke]).
    pose proof (base_ok_of zt s Hok Hk) as Hb.
    destruct m as [from to promo|ks].
    - destruct (pseudo_legal_shape s from to promo Hok H) as [Hf [Ht [Hne [kf [Hkf [Hown [Hcap [Hpromo Hcase]]]]]]]].
      destruct Hok as [Hwf [Hc [Hr He]]]. pose proof Hwf as [_ [Hside _]].
      assert (Hpc : promo_code promo < 8) by (destruct promo as [[]|]; cbn; lia).
      destruct Hcase as [[Hflag Hshape]|[Hflag [-> [-> [Hep [Hto0 [Hclt [Hc1 [Hc2 [Hcp _]]]]]]]]]].
      + unfold enc. fold (promo_code promo).
        apply (normal_undo_inv s from to (promo_code promo) (nthd (r_board s) to 0) kf Hb Hp Hf Ht Hne Hpc Hkf Hown eq_refl).
        * destruct Hcap as [->|[kt [Hkt ->]]]; [reflexivity|]. rewrite (pc_kind_enemy _ _ Hside Hkt). reflexivity.
        * intro X. assert (Hpn : promo <> None) by (destruct promo; [discriminate|contradiction X; reflexivity]).
          destruct (Hpromo Hpn) as [-> Hok']. split; [reflexivity|]. destruct promo as [[]|]; try discriminate Hok'; unfold kind_ok; cbn; lia.
        * exact Hflag.
      + unfold enc. exact (ep_undo_inv s from to Hb Hp Hf Ht Hne Hown Hto0 Hflag Hclt Hc1 Hc2 Hcp).
    - destruct Hok as [Hwf [Hc [Hr He]]]. pose proof Hwf as [_ [Hside _]].
      cbn [pseudo_legal] in H. unfold castle_ok in H. cbn [brd stm rights rep_abs] in H.
      repeat (apply andb_prop in H; destruct H as [H ?]).
      change (if r_side s =? 0 then White else Black) with (col (r_side s)) in *.
      assert (Hkk : kind_ok (kind_code King)) by apply kind_code_ok.
      assert (Hkr : kind_ok (kind_code Rook)) by apply kind_code_ok.
      assert (enc (Castle ks) = if ks then KING_CASTLING_MOVE else QUEEN_CASTLING_MOVE) as -> by (destruct ks; reflexivity).
      apply (castle_undo_inv s ks Hb Hp).
      + destruct (side_cases s Hside) as [E|E]; rewrite E in *; cbn [N.eqb Pos.eqb];
          match goal with K : is_piece _ _ _ King = true |- _ => apply is_piece_inv in K; [|apply Hc; vm_compute; reflexivity|lia] end;
          match goal with K : nthd _ _ 0 = make_piece ?sd ?kk |- _ =>
            intro X; pose proof (make_piece_range sd kk ltac:(lia) Hkk) as R; rewrite <- K in R; unfold sq_at in X; cbn in X, R; lia end.
      + destruct (side_cases s Hside) as [E|E]; rewrite E in *; cbn [N.eqb Pos.eqb]; destruct ks;
          match goal with K : is_piece _ _ _ Rook = true |- _ => apply is_piece_inv in K; [|apply Hc; vm_compute; reflexivity|lia] end;
          match goal with K : nthd _ _ 0 = make_piece ?sd ?kk |- _ =>
            intro X; pose proof (make_piece_range sd kk ltac:(lia) Hkr) as R; rewrite <- K in R; unfold sq_at in X; cbn in X, R; lia end.
      + destruct (side_cases s Hside) as [E|E]; rewrite E in *; cbn [N.eqb Pos.eqb home_rank col] in *; destruct ks;
          repeat match goal with K : _ && _ = true |- _ => apply andb_prop in K; destruct K end;
          match goal with |- nthd _ ?q 0 = 0 => let v := eval vm_compute in q in change q with v end;
          apply is_empty_inv; assumption.
      + destruct (side_cases s Hside) as [E|E]; rewrite E in *; cbn [N.eqb Pos.eqb home_rank col] in *; destruct ks;
          repeat match goal with K : _ && _ = true |- _ => apply andb_prop in K; destruct K end;
          match goal with |- nthd _ ?q 0 = 0 => let v := eval vm_compute in q in change q with v end;
          apply is_empty_inv; assumption.
  Qed.

  (* projections of an equation between observations, stated for variables: [injection] on the instance with the unfolded undo_move term
     takes minutes *)
  Lemma obs_fields a b : obs a = obs b ->
    r_side a = r_side b /\ r_hmc a = r_hmc b /\ r_ply a = r_ply b /\ r_board a = r_board b /\ r_castling a = r_castling b /\
    r_ep a = r_ep b /\ r_key a = r_key b /\ r_hist a = r_hist b.
  Proof. unfold obs. intro H. injection H as H1 H2 H3 H4 H5 H6 H7 H8. repeat split; assumption. Qed.

  (* two states with the list invariant and the same board have the same piece lists up to order *)
  Lemma lists_perm s1 s2 pc : piece_inv zt s1 -> piece_inv zt s2 -> r_board s1 = r_board s2 -> 1 <= pc <= 12 ->
    Permutation (nthd (r_lists s1) pc []) (nthd (r_lists s2) pc []).
  Proof.
    intros [_ [_ [_ [Hcov1 [_ [_ [_ [_ [Hls1 _]]]]]]]]] [_ [_ [_ [Hcov2 [_ [_ [_ [_ [Hls2 _]]]]]]]]] Eb Hpc.
    destruct (Hls1 pc Hpc) as [N1 E1]. destruct (Hls2 pc Hpc) as [N2 E2].
    apply NoDup_Permutation; [exact N1|exact N2|]. intro x. split; intro Hin.
    - destruct (E1 x Hin) as [A B]. rewrite Eb in B. rewrite <- B. apply Hcov2; [exact A|lia].
    - destruct (E2 x Hin) as [A B]. rewrite <- Eb in B. rewrite <- B. apply Hcov1; [exact A|lia].
  Qed.

  (* C03 for the piece lists: taking a move back restores every list as a set, duplicate-free *)
  Theorem undo_do_lists s m pc : rep_ok s -> key_inv zt s -> pseudo_legal (rep_abs s) m = true -> 1 <= pc <= 12 ->
    Permutation (nthd (r_lists (undo_move zt (fst (do_move zt s (enc m))) (enc m) (snd (do_move zt s (enc m))))) pc []) (nthd (r_lists s) pc []).
  Proof.
    intros Hok Hki H Hpc. destruct (Hki) as [Hp [Hke [Hkc _]]].
    assert (Hk : key_ok zt s) by (split; [exact Hkc|exact Hke]).
    pose proof (undo_do_legal zt s m Hok Hk H) as Hobs.
    apply lists_perm; [apply undo_do_piece_inv; assumption|exact Hp| |exact Hpc].
    exact (proj1 (proj2 (proj2 (proj2 (obs_fields _ _ Hobs))))).
  Qed.
  (* the bitboards are functions of the board: two states with the invariant and the same board have the same two families *)
  Lemma fam_eq (F1 F2 : list N) n b proj : fam_sound F1 n b proj -> fam_sound F2 n b proj -> F1 = F2.
  Proof.
    intros [L1 S1] [L2 S2]. apply (nth_ext F1 F2 0 0); [congruence|]. intros j Hj. rewrite L1 in Hj.
    apply N.bits_inj. intro i. pose proof (S1 (N.of_nat j) i) as A. pose proof (S2 (N.of_nat j) i) as B.
    unfold nthd in A, B. rewrite Nat2N.id in A, B. rewrite A, B by exact Hj. reflexivity.
  Qed.

  Lemma bitboards_eq s1 s2 : piece_inv zt s1 -> piece_inv zt s2 -> r_board s1 = r_board s2 ->
    r_kind_bb s1 = r_kind_bb s2 /\ r_color_bb s1 = r_color_bb s2.
  Proof.
    intros [_ [_ [_ [_ [_ [_ [_ [_ [_ [K1 C1]]]]]]]]]] [_ [_ [_ [_ [_ [_ [_ [_ [_ [K2 C2]]]]]]]]]] Eb. rewrite Eb in K1, C1.
    split; [exact (fam_eq _ _ _ _ _ K1 K2)|exact (fam_eq _ _ _ _ _ C1 C2)].
  Qed.

  (* C03 for the bitboards: taking a move back restores both families exactly *)
  Theorem undo_do_bitboards s m : rep_ok s -> key_inv zt s -> pseudo_legal (rep_abs s) m = true ->
    let s' := undo_move zt (fst (do_move zt s (enc m))) (enc m) (snd (do_move zt s (enc m))) in
    r_kind_bb s' = r_kind_bb s /\ r_color_bb s' = r_color_bb s.
  Proof.
    intros Hok Hki H s'. destruct (Hki) as [Hp [Hke [Hkc _]]].
    assert (Hk : key_ok zt s) by (split; [exact Hkc|exact Hke]).
    pose proof (undo_do_legal zt s m Hok Hk H) as Hobs.
    apply bitboards_eq; [apply undo_do_piece_inv; assumption|exact Hp|].
    exact (proj1 (proj2 (proj2 (proj2 (obs_fields _ _ Hobs))))).
  Qed.
  (* ... and with it the whole key invariant: after a take-back the key is again the scratch key and the closed function of the position *)
  Theorem undo_do_key_inv s m : rep_ok s -> key_inv zt s -> pseudo_legal (rep_abs s) m = true ->
    key_inv zt (undo_move zt (fst (do_move zt s (enc m))) (enc m) (snd (do_move zt s (enc m)))).
  Proof.
    intros Hok Hki H. destruct (Hki) as [Hp [Hke [Hkc Hcol]]].
    assert (Hk : key_ok zt s) by (split; [exact Hkc|exact Hke]).
    pose proof (undo_do_legal zt s m Hok Hk H) as Hobs. destruct (obs_fields _ _ Hobs) as [Es [_ [_ [_ [Ec [Ee [Ekey _]]]]]]].
    split; [apply undo_do_piece_inv; assumption|]. unfold scalar_inv. rewrite Ekey, Ee, Ec, Es. split; [exact Hke|split; [exact Hkc|exact Hcol]].
  Qed.
End U.
