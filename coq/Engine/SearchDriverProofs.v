(* Theorems about the iteration driver, for ALL oracles (root-search results, limit polls). *)
From Coq Require Import ZArith List Bool Lia.
From CV Require Import Gen.Consts Engine.SearchDriver.
Import ListNotations.
Local Open Scope Z_scope.

Definition zseq (n : nat) : list Z := map Z.of_nat (seq 1 n).

Lemma zseq_S n : zseq (S n) = zseq n ++ [Z.of_nat (S n)].
Proof. unfold zseq. rewrite seq_S, map_app. reflexivity. Qed.

Lemma info_depths_app a b : info_depths (a ++ b) = info_depths a ++ info_depths b.
Proof. unfold info_depths. apply flat_map_app. Qed.
Lemma call_depths_app a b : call_depths (a ++ b) = call_depths a ++ call_depths b.
Proof. unfold call_depths. apply flat_map_app. Qed.

Definition pv_ok (root_moves : list Z) (o : option Z) : Prop :=
  match o with Some m => In m root_moves | None => True end.

(* ---- the aspiration loop only adds calls at the current depth, consumes oracles, and its pv head is
        the pv head of one of the root results *)
Lemma aspire_spec fuel : forall d mn mx delta roots brk ev o,
  aspire fuel d mn mx delta roots brk ev = Some o ->
  (exists calls, ao_ev o = ev ++ calls /\ info_depths calls = [] /\ Forall (fun x => x = d) (call_depths calls)) /\
  (exists r used, roots = used ++ ao_roots o /\ In r used /\ ao_pv0 o = r_pv0 r /\ ao_val o = r_val r).
Proof.
  induction fuel as [|f IH]; intros d mn mx delta roots brk ev o H; [discriminate|].
  cbn [aspire] in H. destruct roots as [|r roots']; [discriminate|].
  assert (Hfin : forall mn' mx' stop brk',
             Some {| ao_val := r_val r; ao_pv0 := r_pv0 r; ao_stop := stop; ao_min := mn'; ao_max := mx';
                     ao_roots := roots'; ao_brk := brk'; ao_ev := ev ++ [ECall d mn mx] |} = Some o ->
             (exists calls, ao_ev o = ev ++ calls /\ info_depths calls = [] /\ Forall (fun x => x = d) (call_depths calls)) /\
             (exists r0 used, r :: roots' = used ++ ao_roots o /\ In r0 used /\ ao_pv0 o = r_pv0 r0 /\ ao_val o = r_val r0)).
  { intros mn' mx' stop brk' E. injection E as <-. cbn. split.
    - exists [ECall d mn mx]. split; [reflexivity|]. split; [reflexivity|]. cbn. constructor; [reflexivity|constructor].
    - exists r, [r]. cbn. split; [reflexivity|]. split; [left; reflexivity|]. split; reflexivity. }
  assert (Hnext : forall mn' mx',
             (if r_stop r then Some {| ao_val := r_val r; ao_pv0 := r_pv0 r; ao_stop := true; ao_min := mn'; ao_max := mx';
                                       ao_roots := roots'; ao_brk := brk; ao_ev := ev ++ [ECall d mn mx] |}
              else match brk with
                   | [] => None
                   | b :: brk' => if b then Some {| ao_val := r_val r; ao_pv0 := r_pv0 r; ao_stop := true; ao_min := mn'; ao_max := mx';
                                                    ao_roots := roots'; ao_brk := brk'; ao_ev := ev ++ [ECall d mn mx] |}
                                  else aspire f d mn' mx' (widen delta) roots' brk' (ev ++ [ECall d mn mx])
                   end) = Some o ->
             (exists calls, ao_ev o = ev ++ calls /\ info_depths calls = [] /\ Forall (fun x => x = d) (call_depths calls)) /\
             (exists r0 used, r :: roots' = used ++ ao_roots o /\ In r0 used /\ ao_pv0 o = r_pv0 r0 /\ ao_val o = r_val r0)).
  { intros mn' mx' E. destruct (r_stop r); [eapply Hfin; exact E|].
    destruct brk as [|b brk']; [discriminate|]. destruct b; [eapply Hfin; exact E|].
    apply IH in E. destruct E as [[calls [E1 [E2 E3]]] [r0 [used [U1 [U2 [U3 U4]]]]]]. split.
    - exists (ECall d mn mx :: calls). rewrite E1, <- app_assoc. split; [reflexivity|]. split; [exact E2|].
      cbn. constructor; [reflexivity|exact E3].
    - exists r0, (r :: used). cbn. rewrite U1. split; [reflexivity|]. split; [right; exact U2|]. split; assumption. }
  destruct (r_val r <=? mn); [eapply Hnext; exact H|].
  destruct (mx <=? r_val r); [eapply Hnext; exact H|].
  eapply Hfin; exact H.
Qed.

Section Driver.
  Variable search_depth : Z.
  Variable asp_fuel : nat.
  Variable P : option Z -> Prop.       (* any property of root pv heads, e.g. membership in the root move list *)

  Notation iterate := (iterate search_depth asp_fuel).

  (* C09: iterations are reported 1, 2, ... consecutively and never beyond the limit;
     C05/C09: the remembered best move is the head of a root pv *)
  Lemma iterate_spec fuel : forall n prev_score prevs mn mx best roots brk tbrk ev best' ev',
    iterate fuel (Z.of_nat n) prev_score prevs mn mx best roots brk tbrk ev = Some (best', ev') ->
    info_depths ev = zseq n ->
    Forall (fun d => 1 <= d <= Z.max search_depth 1) (call_depths ev) ->
    (Z.of_nat n < Z.max search_depth 1) ->
    Forall (fun r => P (r_pv0 r)) roots ->
    P best ->
    (exists k, info_depths ev' = zseq k /\ (n <= k)%nat /\ Z.of_nat k <= Z.max search_depth 1) /\
    Forall (fun d => 1 <= d <= Z.max search_depth 1) (call_depths ev') /\
    P best'.
  Proof.
    induction fuel as [|f IH]; intros n prev_score prevs mn mx best roots brk tbrk ev best' ev' H Hinfo Hcalls Hn Hroots Hbest;
      [discriminate|].
    cbn [SearchDriver.iterate] in H.
    set (cur := Z.of_nat n + 1) in *.
    assert (Ecur : cur = Z.of_nat (S n)) by (unfold cur; lia).
    destruct (aspire asp_fuel cur _ _ _ roots brk ev) as [o|] eqn:Easp; [|discriminate].
    apply aspire_spec in Easp. destruct Easp as [[calls [E1 [E2 E3]]] [r0 [used [U1 [U2 [U3 U4]]]]]].
    assert (Hpv : P (ao_pv0 o)).
    { rewrite U3. rewrite Forall_forall in Hroots. apply Hroots. rewrite U1. apply in_or_app. left. exact U2. }
    assert (Hroots' : Forall (fun r => P (r_pv0 r)) (ao_roots o)).
    { rewrite U1 in Hroots. apply Forall_app in Hroots. tauto. }
    assert (Hcalls' : Forall (fun d => 1 <= d <= Z.max search_depth 1) (call_depths (ao_ev o))).
    { rewrite E1, call_depths_app. apply Forall_app. split; [exact Hcalls|].
      eapply Forall_impl; [|exact E3]. cbn. intros a ->. lia. }
    assert (Hinfo0 : info_depths (ao_ev o) = zseq n).
    { rewrite E1, info_depths_app, E2, app_nil_r. exact Hinfo. }
    assert (Hinfo1 : info_depths (ao_ev o ++ [EInfo cur (ao_val o) (ao_pv0 o)]) = zseq (S n)).
    { rewrite info_depths_app, Hinfo0, zseq_S. cbn. rewrite Ecur. reflexivity. }
    assert (Hcalls1 : Forall (fun d => 1 <= d <= Z.max search_depth 1) (call_depths (ao_ev o ++ [EInfo cur (ao_val o) (ao_pv0 o)]))).
    { rewrite call_depths_app. cbn. rewrite app_nil_r. exact Hcalls'. }
    destruct (ao_stop o) eqn:Estop.
    { injection H as <- <-. repeat split; [|exact Hcalls'|exact Hbest].
      exists n. repeat split; [exact Hinfo0|lia|lia]. }
    assert (Hdone : (exists k, info_depths (ao_ev o ++ [EInfo cur (ao_val o) (ao_pv0 o)]) = zseq k /\ (n <= k)%nat /\
                               Z.of_nat k <= Z.max search_depth 1)).
    { exists (S n). repeat split; [exact Hinfo1|lia|lia]. }
    destruct (is_mate (ao_val o)).
    { injection H as <- <-. repeat split; assumption. }
    destruct (search_depth <=? cur) eqn:Ed.
    { injection H as <- <-. repeat split; assumption. }
    apply Z.leb_gt in Ed.
    destruct tbrk as [|b tbrk']; [discriminate|]. destruct b.
    { injection H as <- <-. repeat split; assumption. }
    rewrite Ecur in H, Hinfo1, Hcalls1.
    specialize (IH (S n) _ _ _ _ _ _ _ _ _ _ _ H Hinfo1 Hcalls1 ltac:(lia) Hroots' Hpv).
    destruct IH as [[k [K1 [K2 K3]]] [K4 K5]].
    repeat split; [|exact K4|exact K5]. exists k. repeat split; [exact K1|lia|exact K3].
  Qed.
End Driver.

(* ---- the statements about Search::go ---- *)
Section Go.
  Variable search_depth : Z.
  Variable asp_fuel fuel : nat.
  Variable root_moves : list Z.
  Variable stop0 : bool.
  Variables (roots : list rres) (brk tbrk : list bool).

  Lemma go_spec (P : option Z -> Prop) best ev :
    go search_depth asp_fuel fuel root_moves stop0 roots brk tbrk = Some (best, ev) ->
    Forall (fun r => P (r_pv0 r)) roots -> P None ->
    (exists k, info_depths ev = zseq k /\ Z.of_nat k <= Z.max search_depth 1) /\
    Forall (fun d => 1 <= d <= Z.max search_depth 1) (call_depths ev) /\
    (exists b0, P b0 /\ best = match b0 with Some m => Some m | None => hd_error root_moves end).
  Proof.
    unfold go. intros H Hroots HP. destruct stop0.
    - injection H as <- <-. split; [exists 0%nat; cbn; split; [reflexivity|lia]|]. split; [constructor|].
      exists None. split; [exact HP|reflexivity].
    - destruct (iterate _ _ _ _ _ _ _ _ _ _ _ _ _) as [[b e]|] eqn:E; [|discriminate].
      injection H as <- <-.
      change 0 with (Z.of_nat 0) in E at 1.
      pose proof (iterate_spec search_depth asp_fuel P fuel 0%nat _ _ _ _ _ _ _ _ _ _ _ E) as S.
      assert (S' := S eq_refl (Forall_nil _) ltac:(cbn; lia) Hroots HP). clear S.
      destruct S' as [[k [K1 [_ K3]]] [K4 K5]]. split; [exists k; split; assumption|]. split; [exact K4|].
      exists b. split; [exact K5|reflexivity].
  Qed.

  (* C09: the reported iterations are exactly 1, 2, ..., k with k <= the depth limit; no root call is deeper *)
  Theorem go_depth_sequence best ev :
    go search_depth asp_fuel fuel root_moves stop0 roots brk tbrk = Some (best, ev) ->
    exists k, info_depths ev = zseq k /\ Z.of_nat k <= Z.max search_depth 1 /\
              Forall (fun d => 1 <= d <= Z.max search_depth 1) (call_depths ev).
  Proof.
    intro H. destruct (go_spec (fun _ => True) best ev H) as [[k [K1 K2]] [K3 _]]; [|exact I|].
    - clear. induction roots as [|r l IH]; constructor; [exact I|exact IH].
    - exists k. repeat split; assumption.
  Qed.

  (* C05 / C09 searchmoves: the single answer is a root move (the search-moves list when one was given), provided
     the head of every root pv is a root move (Lemma about the root node, tied by the replay) *)
  Theorem go_bestmove_member best ev :
    root_moves <> [] ->
    Forall (fun r => pv_ok root_moves (r_pv0 r)) roots ->
    go search_depth asp_fuel fuel root_moves stop0 roots brk tbrk = Some (best, ev) ->
    exists m, best = Some m /\ In m root_moves.
  Proof.
    intros Hne Hroots H. destruct (go_spec (pv_ok root_moves) best ev H Hroots I) as [_ [_ [b0 [B1 B2]]]].
    destruct b0 as [m|]; cbn in *.
    - exists m. split; assumption.
    - destruct root_moves as [|x l]; [congruence|]. exists x. cbn in B2. split; [exact B2|left; reflexivity].
  Qed.
End Go.

(* depth limits chosen by Search::Search never exceed MAX_DEPTH, and a positive depth limit d is honoured *)
Lemma search_depth_of_le infinite depth movetime timeleft :
  search_depth_of infinite depth movetime timeleft <= MAX_DEPTH.
Proof.
  unfold search_depth_of. destruct infinite; [lia|]. destruct (depth =? 0); cbn; [|lia].
  destruct (movetime =? 0); cbn; [|lia]. destruct (timeleft =? 0); cbn; [|lia]. unfold MAX_DEPTH. lia.
Qed.

Lemma search_depth_of_depth depth movetime timeleft :
  1 <= depth -> search_depth_of false depth movetime timeleft = Z.min depth MAX_DEPTH.
Proof. intro H. unfold search_depth_of. destruct (depth =? 0) eqn:E; [apply Z.eqb_eq in E; lia|reflexivity]. Qed.
