(* C02, closing the gap between the shape hypotheses of RepRefine.v and the rules: for EVERY representation state that
   is well formed (sizes, piece codes below 13, u8 clock below 255, castling mask and en-passant square consistent
   with the board - the two conditions Rules.valid_position puts on them) and EVERY pseudo-legal move of the rules
   (hence every legal one), Position::do_move on the engine's encoding of the move yields a state whose abstraction
   is exactly Rules.make_move. *)
From CV Require Import Engine.PositionRep Engine.EncodingProofs Engine.RepProofs Engine.RepRoundTrip Engine.RepRoundTripNormal
     Engine.RepAbs Engine.RepRefine Base.NIter Base.Geom Base.FileRank.
From Coq Require Import Lia List Bool ZArith.
Import ListNotations.
Local Open Scope N_scope.
Ltac Zify.zify_post_hook ::= Z.div_mod_to_equations.

Definition codes_ok (s : rep) : Prop := forall i, i < 64 -> nthd (r_board s) i 0 < 13.

Definition rep_ok (s : rep) : Prop :=
  wf_scalars s /\ codes_ok s /\
  rights_consistent (brd (rep_abs s)) (rights (rep_abs s)) = true /\ ep_consistent (rep_abs s) = true.

(* ---- inverting the piece codes ---- *)
Lemma N13 x : x < 13 -> x = 0 \/ x = 1 \/ x = 2 \/ x = 3 \/ x = 4 \/ x = 5 \/ x = 6 \/ x = 7 \/ x = 8 \/ x = 9 \/ x = 10 \/ x = 11 \/ x = 12.
Proof. lia. Qed.

Ltac cases13 H := apply N13 in H; destruct H as [H|[H|[H|[H|[H|[H|[H|[H|[H|[H|[H|[H|H]]]]]]]]]]]]; rewrite H in *.

Lemma code_inv x c k : x < 13 -> code_piece x = Some (c, k) -> x = make_piece (color_code c) (kind_code k).
Proof. intros H E. cases13 H; vm_compute in E; try discriminate E; injection E as <- <-; reflexivity. Qed.

Lemma col_code c : col (color_code c) = c. Proof. destruct c; reflexivity. Qed.
Lemma code_col side : side < 2 -> color_code (col side) = side.
Proof. intro H. assert (side = 0 \/ side = 1) as [-> | ->] by lia; reflexivity. Qed.
Lemma kind_code_ok k : kind_ok (kind_code k). Proof. destruct k; unfold kind_ok; cbn; lia. Qed.
Lemma code_kind_code k : code_kind (kind_code k) = k. Proof. destruct k; reflexivity. Qed.
Lemma color_eqb_eq a b : color_eqb a b = true -> a = b. Proof. destruct a, b; cbn; congruence. Qed.
Lemma kind_eqb_eq a b : kind_eqb a b = true -> a = b. Proof. destruct a, b; cbn; congruence. Qed.

Lemma is_piece_inv (b : list N) i side k : nthd b i 0 < 13 -> side < 2 ->
  is_piece (map code_piece b) i (col side) k = true -> nthd b i 0 = make_piece side (kind_code k).
Proof.
  intros Hx Hs H. rewrite is_piece_abs in H. destruct (code_piece (nthd b i 0)) as [[c' k']|] eqn:E; [|discriminate H].
  apply andb_prop in H as [Hc Hk]. apply color_eqb_eq in Hc. apply kind_eqb_eq in Hk. subst c' k'.
  apply code_inv in E; [|exact Hx]. rewrite (code_col side Hs) in E. exact E.
Qed.

Lemma is_empty_inv (b : list N) i : is_empty (map code_piece b) i = true -> nthd b i 0 = 0.
Proof.
  unfold is_empty. rewrite bget_abs. unfold code_piece. destruct (nthd b i 0 =? 0) eqn:E; [apply N.eqb_eq in E; auto|discriminate].
Qed.

Lemma tgt_inv (b : list N) i side : nthd b i 0 < 13 -> side < 2 -> is_color (map code_piece b) i (col side) = false ->
  nthd b i 0 = 0 \/ exists kt, kind_ok kt /\ nthd b i 0 = make_piece (1 - side) kt.
Proof.
  intros Hx Hs H. unfold is_color in H. rewrite bget_abs in H. set (x := nthd b i 0) in *. clearbody x.
  assert (side = 0 \/ side = 1) as [-> | ->] by lia; cases13 Hx; vm_compute in H; try discriminate H;
    first [ left; reflexivity
          | match goal with |- _ \/ (exists kt, _ /\ ?x = _) =>
              let v := eval vm_compute in (pc_kind x) in right; exists v; split; [unfold kind_ok; lia | reflexivity] end ].
Qed.

Lemma own_not_target (b : list N) side kf from to : side < 2 -> kind_ok kf -> nthd b from 0 = make_piece side kf ->
  (nthd b to 0 = 0 \/ exists kt, kind_ok kt /\ nthd b to 0 = make_piece (1 - side) kt) -> from <> to.
Proof.
  intros Hs Hk Hown Ht E. subst to. rewrite Hown in Ht. rewrite (make_piece_val side kf Hk) in Ht. destruct Hk as [K1 K2].
  destruct Ht as [Ht|[kt [[T1 T2] Ht]]]; [lia|]. rewrite (make_piece_val (1 - side) kt) in Ht by (unfold kind_ok; lia). lia.
Qed.

(* ---- castling mask consistent with the board ---- *)
Lemma cons_of s : codes_ok s -> rights_consistent (map code_piece (r_board s)) (code_rights (r_castling s)) = true -> castling_cons s.
Proof.
  intros Hc H. unfold rights_consistent in H.
  repeat (apply andb_prop in H; destruct H as [H ?]).
  assert (P : forall i side k, i < 64 -> side < 2 -> is_piece (map code_piece (r_board s)) i (col side) k = true ->
                               nthd (r_board s) i 0 = make_piece side (kind_code k)).
  { intros i side k Hi Hs Hp. apply is_piece_inv; [apply Hc; exact Hi|exact Hs|exact Hp]. }
  unfold castling_cons. cbv zeta.
  split; [|split; [|split]]; intro R; rewrite ?R, ?orb_true_r in *; cbn [negb orb] in *; (split;
    match goal with
    | |- nthd _ ?i 0 = ?v =>
      first [ apply (P i 0 King ltac:(lia) ltac:(lia)); assumption | apply (P i 0 Rook ltac:(lia) ltac:(lia)); assumption
            | apply (P i 1 King ltac:(lia) ltac:(lia)); assumption | apply (P i 1 Rook ltac:(lia) ltac:(lia)); assumption ]
    end).
Qed.

Section L.
  Variable zt : zobrist.

  (* ---- castling ---- *)
  Lemma castle_legal_refines s ks : rep_ok s -> pseudo_legal (rep_abs s) (Castle ks) = true ->
    rep_abs (fst (do_move zt s (enc (Castle ks)))) = make_move (rep_abs s) (Castle ks).
  Proof.
    intros [Hwf [Hc [Hr He]]] H. pose proof Hwf as [Hlen [Hside _]].
    cbn [pseudo_legal] in H. unfold castle_ok in H. cbn [brd stm rights rep_abs] in H.
    repeat (apply andb_prop in H; destruct H as [H ?]).
    change (if r_side s =? 0 then White else Black) with (col (r_side s)) in *.
    apply castle_refines; [exact Hwf| |].
    - destruct (side_cases s Hside) as [E|E]; rewrite E in *; cbn [N.eqb Pos.eqb];
        match goal with K : is_piece _ _ _ King = true |- _ => apply is_piece_inv in K; [exact K|apply Hc; vm_compute; reflexivity|lia] end.
    - destruct (side_cases s Hside) as [E|E]; rewrite E in *; cbn [N.eqb Pos.eqb]; destruct ks;
        match goal with K : is_piece _ _ _ Rook = true |- _ => apply is_piece_inv in K; [exact K|apply Hc; vm_compute; reflexivity|lia] end.
  Qed.

  (* ---- what a pseudo-legal pawn move looks like ---- *)
  Lemma pawn_ok_inv p c from to promo : pawn_move_ok p c from to promo = true ->
    let df := (file_of to - file_of from)%Z in
    let dr := (rank_of to - rank_of from)%Z in
    let d := pawn_dir c in
    (if (rank_of to =? match c with White => 7 | Black => 0 end)%Z then promo_ok promo = true else promo = None) /\
    ( (df = 0 /\ dr = d)%Z \/
      (df = 0 /\ dr = 2 * d /\ rank_of from = match c with White => 1 | Black => 6 end)%Z \/
      ((Z.abs df = 1)%Z /\ dr = d /\ (is_color (brd p) to (opp c) = true \/ ep p = Some to)) ).
  Proof.
    unfold pawn_move_ok. cbv zeta. intro H. apply andb_prop in H as [Hp H]. split.
    - destruct (rank_of to =? _)%Z; [exact Hp|]. destruct promo; [discriminate Hp|reflexivity].
    - apply orb_prop in H as [H|H]; [apply orb_prop in H as [H|H]|].
      + left. repeat (apply andb_prop in H; destruct H as [H ?]). split; apply Z.eqb_eq; assumption.
      + right; left. repeat (apply andb_prop in H; destruct H as [H ?]). repeat split; apply Z.eqb_eq; assumption.
      + right; right. apply andb_prop in H as [H Hc]. apply andb_prop in H as [H1 H2]. repeat split; try (apply Z.eqb_eq; assumption).
        apply orb_prop in Hc as [Hc|Hc]; [left; exact Hc|right].
        destruct (ep p) as [e|]; [|discriminate Hc]. apply N.eqb_eq in Hc. subst e. reflexivity.
  Qed.

  (* ---- what a consistent en-passant square looks like on the representation ---- *)
  Lemma ep_inv s e : codes_ok s -> r_side s < 2 -> ep_consistent (rep_abs s) = true -> r_ep s = Some e ->
    e < 64 /\ rank_of e = (if r_side s =? 0 then 5%Z else 2%Z) /\ nthd (r_board s) e 0 = 0 /\
    capsq s e < 64 /\ nthd (r_board s) (capsq s e) 0 = make_piece (1 - r_side s) PAWN.
  Proof.
    intros Hc Hside H Hep. unfold ep_consistent in H. cbn [ep brd stm rep_abs] in H. rewrite Hep in H. cbv zeta in H.
    repeat (apply andb_prop in H; destruct H as [H ?]).
    match goal with K : (e <? 64) = true |- _ => apply N.ltb_lt in K end.
    match goal with K : is_empty _ e = true |- _ => apply is_empty_inv in K end.
    assert (Hrank : rank_of e = (if r_side s =? 0 then 5%Z else 2%Z)).
    { match goal with K : (rank_of e =? _)%Z = true |- _ => apply Z.eqb_eq in K; rewrite K end.
      destruct (side_cases s Hside) as [E|E]; rewrite E; reflexivity. }
    assert (Hsq : sq_of (file_of e) (rank_of e + pawn_dir (opp (if r_side s =? 0 then White else Black))) = capsq s e).
    { unfold capsq, sq_of. rewrite Hrank. rewrite file_of_mod. rewrite rank_of_div in Hrank.
      destruct (side_cases s Hside) as [E|E]; rewrite E in *; cbn [N.eqb Pos.eqb opp pawn_dir] in *; lia. }
    assert (Hlt : capsq s e < 64).
    { unfold capsq. rewrite rank_of_div in Hrank. destruct (side_cases s Hside) as [E|E]; rewrite E in *; cbn [N.eqb Pos.eqb] in *; lia. }
    repeat split; try assumption.
    match goal with K : is_piece _ _ _ Pawn = true |- _ => rewrite Hsq in K; change (if r_side s =? 0 then White else Black) with (col (r_side s)) in K;
      rewrite <- (col_opp (r_side s) Hside) in K; apply is_piece_inv in K; [exact K|apply Hc; exact Hlt|lia] end.
  Qed.

  (* ---- the shape of a pseudo-legal non-castling move, read off the representation ---- *)
  Definition ep_shape (s : rep) (from to : N) : Prop :=
    r_ep s = Some to /\ nthd (r_board s) to 0 = 0 /\
    capsq s to < 64 /\ capsq s to <> from /\ capsq s to <> to /\
    nthd (r_board s) (capsq s to) 0 = make_piece (1 - r_side s) PAWN /\
    sq_of (file_of to) (rank_of from) = capsq s to /\ file_of from <> file_of to /\
    (Z.abs (rank_of to - rank_of from) = 1)%Z /\
    (from / 8 =? (if r_side s =? 0 then 1 else 6)) = false /\
    (forall c, In c [0; 7; 56; 63] -> from <> c /\ to <> c).

  Definition normal_shape (s : rep) (from to : N) (promo : option kind) : Prop :=
    from < 64 /\ to < 64 /\ from <> to /\
    exists kf, kind_ok kf /\ nthd (r_board s) from 0 = make_piece (r_side s) kf /\
      (nthd (r_board s) to 0 = 0 \/ exists kt, kind_ok kt /\ nthd (r_board s) to 0 = make_piece (1 - r_side s) kt) /\
      (promo <> None -> kf = PAWN /\ promo_ok promo = true) /\
      ( (is_ep_flag s from to = false /\
         (kf = PAWN -> (Z.abs (rank_of to - rank_of from) = 2)%Z ->
          from / 8 = (if r_side s =? 0 then 1 else 6) /\ to / 8 = (if r_side s =? 0 then 3 else 4) /\ file_of from = file_of to))
        \/ (is_ep_flag s from to = true /\ kf = PAWN /\ promo = None /\ ep_shape s from to) ).

  Lemma pseudo_legal_shape s from to promo : rep_ok s -> pseudo_legal (rep_abs s) (Normal from to promo) = true ->
    normal_shape s from to promo.
  Proof.
    intros [Hwf [Hc [Hr He]]] H. pose proof Hwf as [Hlen [Hside _]].
    cbn [pseudo_legal] in H. cbn [brd stm rep_abs] in H.
    apply andb_prop in H as [H Hk]. apply andb_prop in H as [Hf Ht]. apply N.ltb_lt in Hf, Ht.
    rewrite bget_abs in Hk. destruct (code_piece (nthd (r_board s) from 0)) as [[c k]|] eqn:Ecode; [|discriminate Hk].
    apply andb_prop in Hk as [Hk Hkind]. apply andb_prop in Hk as [Hcol Hnot].
    change (if r_side s =? 0 then White else Black) with (col (r_side s)) in *.
    apply color_eqb_eq in Hcol. subst c.
    apply code_inv in Ecode; [|apply Hc; exact Hf]. rewrite code_col in Ecode by exact Hside.
    pose proof (kind_code_ok k) as Hkf.
    apply negb_true_iff in Hnot.
    pose proof (tgt_inv (r_board s) to (r_side s) (Hc to Ht) Hside Hnot) as Hcap.
    pose proof (own_not_target (r_board s) (r_side s) (kind_code k) from to Hside Hkf Ecode Hcap) as Hne.
    split; [exact Hf|]. split; [exact Ht|]. split; [exact Hne|].
    exists (kind_code k). split; [exact Hkf|]. split; [exact Ecode|]. split; [exact Hcap|].
    assert (Hflag_k : k <> Pawn -> is_ep_flag s from to = false).
    { intro Hk. unfold is_ep_flag. rewrite Ecode, (kind_make _ _ Hside Hkf). destruct k; try reflexivity. congruence. }
    assert (Hnonpawn : k <> Pawn -> (match promo with None => true | _ => false end) && piece_attacks (map code_piece (r_board s)) (col (r_side s)) k from to = true ->
            (promo <> None -> kind_code k = PAWN /\ promo_ok promo = true) /\
            ( (is_ep_flag s from to = false /\
               (kind_code k = PAWN -> (Z.abs (rank_of to - rank_of from) = 2)%Z ->
                from / 8 = (if r_side s =? 0 then 1 else 6) /\ to / 8 = (if r_side s =? 0 then 3 else 4) /\ file_of from = file_of to))
              \/ (is_ep_flag s from to = true /\ kind_code k = PAWN /\ promo = None /\ ep_shape s from to) )).
    { intros Hk Hpa. apply andb_prop in Hpa as [Hp _]. destruct promo; [discriminate Hp|].
      split; [intro X; congruence|]. left. split; [apply Hflag_k; exact Hk|].
      intro X. destruct k; try discriminate X. congruence. }
    destruct k; try (apply Hnonpawn; [discriminate|exact Hkind]). clear Hnonpawn Hflag_k.
    (* pawn moves *)
    apply pawn_ok_inv in Hkind. cbv zeta in Hkind. destruct Hkind as [Hpromo Halt]. cbn [brd ep rep_abs] in Halt.
    change (kind_code Pawn) with PAWN in *.
    split.
    { intro X. split; [reflexivity|]. destruct (rank_of to =? _)%Z; [exact Hpromo|congruence]. }
    destruct (is_ep_flag s from to) eqn:Hflag; [right|left].
    - (* the target is the en-passant square *)
      unfold is_ep_flag in Hflag. apply andb_prop in Hflag as [_ Hflag].
      destruct (r_ep s) as [e|] eqn:Hep; [|discriminate Hflag]. apply N.eqb_eq in Hflag. subst e.
      destruct (ep_inv s to Hc Hside He Hep) as [_ [Hrank [Hto0 [Hclt Hcpawn]]]].
      assert (Hpn : promo = None).
      { destruct (side_cases s Hside) as [E|E]; rewrite E in *; cbn [col N.eqb Pos.eqb] in *; rewrite Hrank in Hpromo; exact Hpromo. }
      subst promo.
      pose proof (rank_of_div from) as Rf. pose proof (rank_of_div to) as Rt.
      pose proof (file_of_mod from) as Ff. pose proof (file_of_mod to) as Ft.
      assert (Hcs : capsq s to = sq_of (file_of to) (rank_of to + (if r_side s =? 0 then (-1)%Z else 1%Z))).
      { unfold capsq, sq_of. destruct (side_cases s Hside) as [E|E]; rewrite E in *; cbn [N.eqb Pos.eqb] in *; lia. }
      split; [reflexivity|]. split; [reflexivity|]. split; [reflexivity|].
      destruct Halt as [[Hdf Hdr]|[[Hdf [Hdr Hst]]|[Hdf [Hdr _]]]].
      + (* a straight push onto the en-passant square: that square's neighbour holds the enemy pawn, not ours *)
        exfalso. assert (from = capsq s to).
        { rewrite Hcs. rewrite <- (sq_of_file_rank from). f_equal; [lia|].
          destruct (side_cases s Hside) as [E|E]; rewrite E in *; cbn [col N.eqb Pos.eqb pawn_dir] in *; lia. }
        subst from. rewrite Ecode in Hcpawn.
        rewrite !make_piece_val in Hcpawn by (unfold kind_ok, PAWN; lia). lia.
      + exfalso. destruct (side_cases s Hside) as [E|E]; rewrite E in *; cbn [col N.eqb Pos.eqb pawn_dir] in *; lia.
      + unfold ep_shape. split; [exact Hep|]. split; [exact Hto0|]. split; [exact Hclt|]. repeat split.
        * intro X. rewrite Hcs in X. unfold sq_of in X.
          destruct (side_cases s Hside) as [E|E]; rewrite E in *; cbn [col N.eqb Pos.eqb pawn_dir] in *; lia.
        * unfold capsq. destruct (side_cases s Hside) as [E|E]; rewrite E in *; cbn [col N.eqb Pos.eqb pawn_dir] in *; lia.
        * exact Hcpawn.
        * rewrite Hcs. f_equal. destruct (side_cases s Hside) as [E|E]; rewrite E in *; cbn [col N.eqb Pos.eqb pawn_dir] in *; lia.
        * intro X. rewrite X in Hdf. lia.
        * destruct (side_cases s Hside) as [E|E]; rewrite E in *; cbn [col N.eqb Pos.eqb pawn_dir] in *; lia.
        * apply N.eqb_neq. destruct (side_cases s Hside) as [E|E]; rewrite E in *; cbn [col N.eqb Pos.eqb pawn_dir] in *; lia.
        * cbn [In] in H. destruct (side_cases s Hside) as [E|E]; rewrite E in *; cbn [col N.eqb Pos.eqb pawn_dir] in *; lia.
        * cbn [In] in H. destruct (side_cases s Hside) as [E|E]; rewrite E in *; cbn [col N.eqb Pos.eqb pawn_dir] in *; lia.
    - (* not en passant *)
      split; [reflexivity|].
      intros _ Habs.
      pose proof (rank_of_div from) as Rf. pose proof (rank_of_div to) as Rt.
      destruct Halt as [[Hdf Hdr]|[[Hdf [Hdr Hst]]|[Hdf [Hdr _]]]];
        destruct (side_cases s Hside) as [E|E]; rewrite E in *; cbn [col N.eqb Pos.eqb pawn_dir] in *; try lia.
      all: repeat split; lia.
  Qed.

  Lemma normal_legal_refines s from to promo : rep_ok s -> pseudo_legal (rep_abs s) (Normal from to promo) = true ->
    rep_abs (fst (do_move zt s (enc (Normal from to promo)))) = make_move (rep_abs s) (Normal from to promo).
  Proof.
    intros Hok H. destruct (pseudo_legal_shape s from to promo Hok H) as [Hf [Ht [Hne [kf [Hkf [Hown [Hcap [Hpromo Hcase]]]]]]]].
    destruct Hok as [Hwf [Hc [Hr He]]]. pose proof (cons_of s Hc Hr) as Hcons.
    destruct Hcase as [[Hflag Hshape]|[Hflag [-> [-> [Hep [Hto0 [Hclt [Hc1 [Hc2 [Hcp [Hsq [Hfile [Hrank [Hr2 Hcorner]]]]]]]]]]]]]].
    - exact (normal_refines zt s from to kf (nthd (r_board s) to 0) promo Hwf Hcons Hf Ht Hne Hkf Hown eq_refl Hcap Hpromo Hflag Hshape).
    - exact (ep_refines_move zt s from to Hwf Hf Ht Hne Hown Hep Hto0 Hclt Hc1 Hc2 Hcp Hsq Hfile Hrank Hr2 Hcorner).
  Qed.

  (* C02: every pseudo-legal move (hence every legal move) of every well-formed state *)
  Theorem do_move_refines s m : rep_ok s -> pseudo_legal (rep_abs s) m = true ->
    rep_abs (fst (do_move zt s (enc m))) = make_move (rep_abs s) m.
  Proof. intros Hs H. destruct m as [from to promo|ks]; [apply normal_legal_refines|apply castle_legal_refines]; assumption. Qed.

  Corollary do_move_refines_legal s m : rep_ok s -> legal (rep_abs s) m = true ->
    rep_abs (fst (do_move zt s (enc m))) = make_move (rep_abs s) m.
  Proof. intros Hs H. unfold legal in H. apply andb_prop in H as [H _]. apply do_move_refines; assumption. Qed.
End L.
