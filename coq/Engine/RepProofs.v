(* Proofs about the algorithmic model of Position: key algebra, null-move round trip,
   (later sections) make/unmake and refinement to the rules. *)
From CV Require Import Engine.PositionRep Engine.EncodingProofs.
From Coq Require Import Lia.
Local Open Scope N_scope.

Section Proofs.
  Variable zt : zobrist.

  Lemma lxor_cancel (a b : N) : N.lxor (N.lxor a b) b = a.
  Proof. rewrite N.lxor_assoc, N.lxor_nilpotent, N.lxor_0_r. reflexivity. Qed.

  Lemma hashkey_eta (k : hashkey) :
    {| k_piece := k_piece k; k_pawn := k_pawn k; k_ep := k_ep k; k_castling := k_castling k; k_color := k_color k |} = k.
  Proof. destruct k; reflexivity. Qed.

  Lemma toggle_toggle (k : hashkey) (pc sq : N) : toggle_piece zt (toggle_piece zt k pc sq) pc sq = k.
  Proof.
    unfold toggle_piece. destruct (pc_kind pc =? PAWN); cbn; rewrite lxor_cancel; apply hashkey_eta.
  Qed.

  Lemma flip_flip (k : hashkey) : flip_side zt (flip_side zt k) = k.
  Proof. unfold flip_side. cbn. rewrite lxor_cancel. apply hashkey_eta. Qed.

  (* the key consistent with the en-passant field: what every reachable state satisfies *)
  Definition ep_key_ok (s : rep) : Prop :=
    k_ep (r_key s) = match r_ep s with Some e => z_ep zt (e mod 8) | None => 0 end.

  Lemma u8_inc_dec (x : N) : x < 255 -> u8 (u8 (x + 1) + 255) = x.
  Proof. intro H. unfold u8. rewrite (N.mod_small (x + 1)) by lia.
         replace (x + 1 + 255) with (x + 1 * 256) by lia. rewrite N.mod_add by lia. apply N.mod_small. lia. Qed.

  Lemma rep_eta (s : rep) :
    {| r_side := r_side s; r_hmc := r_hmc s; r_ply := r_ply s; r_board := r_board s; r_lists := r_lists s;
       r_kind_bb := r_kind_bb s; r_color_bb := r_color_bb s; r_castling := r_castling s; r_ep := r_ep s;
       r_key := r_key s; r_hist := r_hist s |} = s.
  Proof. destruct s; reflexivity. Qed.

  (* C03 (null move): do_null_move followed by undo_null_move restores the ENTIRE state. *)
  Theorem null_move_roundtrip (s : rep) :
    r_side s < 2 -> r_hmc s < 255 -> (forall e, r_ep s = Some e -> e < 64) -> ep_key_ok s ->
    undo_null_move zt (fst (do_null_move zt s)) (snd (do_null_move zt s)) = s.
  Proof.
    intros Hside Hh He Hk. unfold do_null_move, undo_null_move. cbn [fst snd].
    assert (Hmi : mi_last_ep (create_moveinfo 0 0 (r_ep s) false 0) = r_ep s).
    { destruct (decode_moveinfo 0 0 (r_ep s) false 0) as [_ [_ [H _]]]; try lia; auto. }
    rewrite Hmi. unfold set_meta.
    cbn [r_side r_hmc r_ply r_board r_lists r_kind_bb r_color_bb r_castling r_ep r_key r_hist].
    rewrite u8_inc_dec by exact Hh.
    replace (1 - (1 - r_side s)) with (r_side s) by lia.
    replace (r_ply s + 1 - 1)%Z with (r_ply s) by lia.
    assert (Hkey : match r_ep s with
                   | Some x => key_set_ep zt (flip_side zt (key_set_ep zt (flip_side zt (r_key s)) None)) (Some (x mod 8))
                   | None => flip_side zt (key_set_ep zt (flip_side zt (r_key s)) None)
                   end = r_key s).
    { unfold ep_key_ok in Hk. destruct (r_ep s) as [e|].
      - unfold key_set_ep, flip_side. cbn. rewrite lxor_cancel. rewrite <- Hk. apply hashkey_eta.
      - unfold key_set_ep, flip_side. cbn. rewrite lxor_cancel. rewrite <- Hk. apply hashkey_eta. }
    rewrite Hkey. apply rep_eta.
  Qed.

  (* get_key is a function of the five components only *)
  Lemma get_key_components (k1 k2 : hashkey) :
    k_piece k1 = k_piece k2 -> k_pawn k1 = k_pawn k2 -> k_ep k1 = k_ep k2 ->
    k_castling k1 = k_castling k2 -> k_color k1 = k_color k2 -> get_key k1 = get_key k2.
  Proof. unfold get_key. intros -> -> -> -> ->. reflexivity. Qed.
End Proofs.
