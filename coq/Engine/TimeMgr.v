(* Model of engine/time_manager.cpp (TimeManager::calculateTime, computeTimeForFixedLength), generic in
   the floating-point structure F so that the same definition is (a) instantiated with the reals and
   rounding operators for the proofs and (b) extracted and run with native binary64 operations for
   the correspondence.  No proofs in this file. *)
From Coq Require Import ZArith.
Local Open Scope Z_scope.

Section Calc.
  Variable F : Type.
  Variable ofint : Z -> F.        (* static_cast<double>(int / int64) *)
  Variable mul add div : F -> F -> F.
  Variable trunc : F -> Z.        (* Duration(double): truncation toward zero *)
  Variable imp : Z -> F.          (* importance(double(x)) : libm pow/exp, an oracle *)
  Variable zero c07 : F.          (* 0.0 and the literal 0.7 *)

  (* restImportance: for (i = 1; i < movesToGo; ++i) rest += importance(ply + 2*i) *)
  Fixpoint rest_from (ply i : Z) (n : nat) (acc : F) : F :=
    match n with
    | O => acc
    | S n' => rest_from ply (i + 1) n' (add acc (imp (ply + 2 * i)))
    end.

  Definition ratio (ply k : Z) : F :=
    let mi := imp ply in
    div mi (add mi (rest_from ply 1 (Z.to_nat (k - 1)) zero)).

  (* computeTimeForFixedLength(totalTime, movesToGo = k, ply) *)
  Definition fixed_length (total k ply : Z) : Z := trunc (mul (ofint total) (ratio ply k)).

  (* for (movesToGo = 1; movesToGo < maxMovesToGo; ++movesToGo) time = min(time, t) *)
  Fixpoint loop (T inc ply k : Z) (n : nat) (time : Z) : Z :=
    match n with
    | O => time
    | S n' => loop T inc ply (k + 1) n' (Z.min time (fixed_length (T + inc * (k - 1)) k ply))
    end.

  Definition time_max (T : Z) : Z := trunc (mul c07 (ofint T)).

  Definition calculate (T inc mtg ply : Z) : Z :=
    let M := if mtg =? 0 then 50 else mtg in
    Z.min (loop T inc ply 1 (Z.to_nat (M - 1)) T) (time_max T).
End Calc.
