(* C07, insufficient material: Position::enough_material counts pieces through the piece LISTS; the rules count them on the board.
   With the list invariant of KeyScratch.piece_inv (the lists cover the board, every entry is a square holding that piece, once) the two
   counts are equal, so the engine's answer is the property's definition (bare kings or a single minor piece) of the position represented. *)
From CV Require Import Chess.Rules Chess.RulesFacts Chess.History Engine.PositionRep Engine.RepAbs Engine.RepRefine Engine.RepRefineLegal
  Engine.KeyScratch Engine.KeyScratchMove.
From Coq Require Import List NArith ZArith Lia Bool Permutation.
Import ListNotations.
Local Open Scope N_scope.

Section M.
  Variable zt : zobrist.

  Lemma code_match x c k : x < 13 ->
    (match code_piece x with Some (c', k') => color_eqb c c' && kind_eqb k k' | None => false end) = (x =? piece_code (Some (c, k))).
  Proof. intro H. cases13 H; destruct c, k; reflexivity. Qed.

  (* a list is as long as the number of squares that hold its piece *)
  Lemma list_count s pc : piece_inv zt s -> 1 <= pc <= 12 ->
    length (nthd (r_lists s) pc []) = length (filter (fun sq => nthd (r_board s) sq 0 =? pc) all_squares).
  Proof.
    intros [_ [_ [_ [Hcov [_ [_ [_ [_ [Hls _]]]]]]]]] Hpc. destruct (Hls pc Hpc) as [Hnd Hel].
    apply Permutation_length. apply NoDup_Permutation; [exact Hnd|apply NoDup_filter; apply NoDup_all_squares|].
    intro x. rewrite filter_In, <- in_all_squares. split.
    - intro Hin. destruct (Hel x Hin) as [A B]. split; [exact A|apply N.eqb_eq; exact B].
    - intros [A B]. apply N.eqb_eq in B. rewrite <- B. apply Hcov; [exact A|lia].
  Qed.

  Lemma count_piece_abs s c k : piece_inv zt s ->
    count_piece (brd (rep_abs s)) c k = length (nthd (r_lists s) (piece_code (Some (c, k))) []).
  Proof.
    intro Hp. rewrite (list_count s _ Hp) by (destruct c, k; cbn; lia).
    destruct Hp as [_ [_ [Hc _]]]. unfold count_piece. cbn [brd rep_abs]. f_equal. apply filter_ext_in. intros sq Hin. apply in_all_squares in Hin.
    rewrite is_piece_abs. apply code_match. apply Hc. exact Hin.
  Qed.

  Theorem enough_material_refines s : piece_inv zt s -> enough_material s = negb (insufficient_material (brd (rep_abs s))).
  Proof.
    intro Hp. unfold enough_material, insufficient_material, count_kind, piece_count. cbv zeta.
    rewrite !(count_piece_abs s _ _ Hp).
    repeat match goal with |- context [piece_code (Some (?c, ?k))] => let v := eval vm_compute in (piece_code (Some (c, k))) in change (piece_code (Some (c, k))) with v end.
    f_equal.
    set (a1 := length (nthd (r_lists s) 1 [])). set (a2 := length (nthd (r_lists s) 2 [])). set (a3 := length (nthd (r_lists s) 3 [])).
    set (a4 := length (nthd (r_lists s) 4 [])). set (a5 := length (nthd (r_lists s) 5 [])). set (a7 := length (nthd (r_lists s) 7 [])).
    set (a8 := length (nthd (r_lists s) 8 [])). set (a9 := length (nthd (r_lists s) 9 [])). set (a10 := length (nthd (r_lists s) 10 [])).
    set (a11 := length (nthd (r_lists s) 11 [])).
    destruct (N.eqb_spec (N.of_nat a1 + N.of_nat a4 + N.of_nat a5 + N.of_nat a7 + N.of_nat a10 + N.of_nat a11) 0) as [E|E];
      destruct (Nat.eqb_spec (a1 + a7 + (a4 + a10) + (a5 + a11)) 0) as [F|F]; try (exfalso; lia); cbn [andb]; [|reflexivity].
    destruct (N.leb_spec (N.of_nat a2 + N.of_nat a3 + N.of_nat a8 + N.of_nat a9) 1) as [G|G];
      destruct (Nat.leb_spec (a2 + a8 + (a3 + a9)) 1) as [K|K]; try reflexivity; exfalso; lia.
  Qed.
End M.
