(* Colour symmetry and range of the endgame evaluators (model of engine/endgame.cpp). *)
From Coq Require Import ZArith NArith List Bool Lia.
From CV Require Import Base.Geom Base.NIter Chess.Rules Engine.KPK Engine.Magic Gen.Consts Gen.EvalConsts Engine.EndgameModel.
Import ListNotations.
Local Open Scope Z_scope.

(* the mirrored position as the endgame module sees it: colours swapped, every square flipped vertically *)
Definition mirror (p : egp) : egp :=
  {| e_stm := opp (e_stm p); e_list := fun c k => map flip_v (e_list p (opp c) k) |}.

Definition wf (p : egp) : Prop :=
  (forall c k s, In s (e_list p c k) -> (s < 64)%N) /\ (forall c, length (e_list p c King) = 1%nat).

(* ---- geometry of the vertical flip, by a sweep over the 64 squares ---- *)
Definition sq_facts (s : N) : bool :=
  (flip_v s <? 64)%N && (flip_v (flip_v s) =? s)%N && (file_of (flip_v s) =? file_of s) && (rank_of (flip_v s) =? 7 - rank_of s)
  && Bool.eqb (sq_white (flip_v s)) (negb (sq_white s)) && (edge (flip_v s) =? edge s)
  && (0 <=? file_of s) && (file_of s <=? 7) && (0 <=? rank_of s) && (rank_of s <=? 7)
  && (0 <=? edge s) && (edge s <=? 100) && (0 <=? corner s) && (corner s <=? 100).
Lemma sq_facts_all : forallN 64 sq_facts = true.
Proof. vm_compute. reflexivity. Qed.

Lemma sqf s : (s < 64)%N -> sq_facts s = true.
Proof. intro H. exact (forallN_spec 64 sq_facts sq_facts_all s H). Qed.

Ltac sq_split H :=
  unfold sq_facts in H; repeat (apply andb_prop in H; let H2 := fresh "F" in destruct H as [H H2]).

Lemma flip_lt s : (s < 64)%N -> (flip_v s < 64)%N.
Proof. intro H. pose proof (sqf s H) as F. sq_split F. apply N.ltb_lt. exact F. Qed.
Lemma flip_flip s : (s < 64)%N -> flip_v (flip_v s) = s.
Proof. intro H. pose proof (sqf s H) as F. sq_split F. apply N.eqb_eq. assumption. Qed.
Lemma file_flip s : (s < 64)%N -> file_of (flip_v s) = file_of s.
Proof. intro H. pose proof (sqf s H) as F. sq_split F. apply Z.eqb_eq. assumption. Qed.
Lemma rank_flip s : (s < 64)%N -> rank_of (flip_v s) = 7 - rank_of s.
Proof. intro H. pose proof (sqf s H) as F. sq_split F. apply Z.eqb_eq. assumption. Qed.
Lemma white_flip s : (s < 64)%N -> sq_white (flip_v s) = negb (sq_white s).
Proof. intro H. pose proof (sqf s H) as F. sq_split F. apply Bool.eqb_prop. assumption. Qed.
Lemma edge_flip s : (s < 64)%N -> edge (flip_v s) = edge s.
Proof. intro H. pose proof (sqf s H) as F. sq_split F. apply Z.eqb_eq. assumption. Qed.
Lemma cheb_flip a b : (a < 64)%N -> (b < 64)%N -> cheb (flip_v a) (flip_v b) = cheb a b.
Proof. intros Ha Hb. unfold cheb. rewrite !file_flip, !rank_flip by assumption. f_equal. lia. Qed.
Lemma norm_mirror s c : (s < 64)%N -> norm (flip_v s) (opp c) = norm s c.
Proof. intro H. destruct c; cbn; [apply flip_flip; exact H|reflexivity]. Qed.
Lemma sq_range s : (s < 64)%N -> 0 <= file_of s <= 7 /\ 0 <= rank_of s <= 7 /\ 0 <= edge s <= 100 /\ 0 <= corner s <= 100.
Proof. intro H. pose proof (sqf s H) as F. sq_split F.
       repeat match goal with E : (_ <=? _) = true |- _ => apply Z.leb_le in E end. lia. Qed.

(* ---- the mirrored position ---- *)
Lemma opp_opp c : opp (opp c) = c. Proof. destruct c; reflexivity. Qed.
Lemma cnt_mirror p c k : cnt (mirror p) c k = cnt p (opp c) k.
Proof. unfold cnt, mirror. cbn. rewrite map_length. reflexivity. Qed.
Lemma counts_mirror p c : counts (mirror p) c = counts p (opp c).
Proof. unfold counts. rewrite !cnt_mirror. reflexivity. Qed.
Lemma nonpawns_mirror p c : no_nonpawns (mirror p) c = no_nonpawns p (opp c).
Proof. unfold no_nonpawns. rewrite !cnt_mirror. reflexivity. Qed.

(* the applicability tests only count pieces: they commute with the mirror *)
Theorem applies_mirror t c p : applies t (opp c) (mirror p) = applies t c p.
Proof.
  unfold applies. rewrite !counts_mirror, !nonpawns_mirror, !cnt_mirror, !opp_opp. reflexivity.
Qed.

Lemma first_mirror p c k : e_list p (opp c) k <> [] -> first (mirror p) c k = flip_v (first p (opp c) k).
Proof. unfold first, mirror. cbn. destruct (e_list p (opp c) k); [congruence|reflexivity]. Qed.

Lemma first_in p c k : e_list p c k <> [] -> In (first p c k) (e_list p c k).
Proof. unfold first. destruct (e_list p c k); [congruence|left; reflexivity]. Qed.

Lemma king_nonempty p c : wf p -> e_list p c King <> [].
Proof. intros [_ H]. specialize (H c). destruct (e_list p c King); [discriminate|discriminate]. Qed.

Lemma cnt1_nonempty p c k : cnt p c k = 1 -> e_list p c k <> [].
Proof. unfold cnt. destruct (e_list p c k); cbn; [lia|discriminate]. Qed.

(* classes whose value reads single squares only *)
Definition simple (t : egtype) : bool :=
  match t with KPK | KQKR | KNBK | KRNKR | KRBKR | KXK | KRKB | KRKN | KNNK | KQKP | KRKP => true | _ => false end.

Lemma zlist_eqb_cons a l b m : zlist_eqb (a :: l) (b :: m) = true -> a = b /\ zlist_eqb l m = true.
Proof.
  unfold zlist_eqb. cbn [length combine forallb fst snd]. intro H. apply andb_prop in H. destruct H as [Hl H].
  apply andb_prop in H. destruct H as [Ha Hr]. apply Z.eqb_eq in Ha. split; [exact Ha|].
  apply andb_true_intro. split; [|exact Hr]. apply Nat.eqb_eq in Hl. apply Nat.eqb_eq. cbn in Hl. lia.
Qed.

Section Sym.
  Variable word : N -> N.

  (* facts about the piece lists that the applicability test of a simple class gives *)
  Lemma applies_counts t c p s w : pcv_of t = Some (s, w) -> applies t c p = true ->
    counts p c = s /\ counts p (opp c) = w.
  Proof.
    intros Hp Ha. unfold applies in Ha. rewrite Hp in Ha. apply andb_prop in Ha. destruct Ha as [A B].
    assert (E : forall a b, length a = 5%nat -> length b = 5%nat -> zlist_eqb a b = true -> a = b).
    { intros a b La Lb H.
      destruct a as [|a1 [|a2 [|a3 [|a4 [|a5 [|]]]]]]; try discriminate La.
      destruct b as [|b1 [|b2 [|b3 [|b4 [|b5 [|]]]]]]; try discriminate Lb.
      repeat (apply zlist_eqb_cons in H; destruct H as [? H]). subst. reflexivity. }
    split; apply E; try reflexivity; try assumption;
      destruct t; cbn in Hp; inversion Hp; reflexivity.
  Qed.

  Theorem score_mirror_simple t c p :
    simple t = true -> wf p -> applies t c p = true ->
    strong_score word t (opp c) (mirror p) = strong_score word t c p.
  Proof.
    intros Hs Hwf Ha. destruct Hwf as [Hsq Hk].
    assert (Hwf : wf p) by (split; assumption).
    assert (Ksk : forall c', (first p c' King < 64)%N) by (intro c'; apply (Hsq c' King); apply first_in; apply king_nonempty; exact Hwf).
    assert (Fk : forall c', first (mirror p) c' King = flip_v (first p (opp c') King)) by (intro c'; apply first_mirror; apply king_nonempty; exact Hwf).
    destruct t; try discriminate Hs; unfold strong_score; rewrite ?opp_opp, ?Fk, ?cnt_mirror, ?opp_opp.
    - (* KPK *)
      destruct (applies_counts KPK c p _ _ eq_refl Ha) as [Cs _]. unfold counts in Cs. injection Cs as Cp _ _ _ _.
      pose proof (cnt1_nonempty p c Pawn Cp) as Np.
      assert (Hp : (first p c Pawn < 64)%N) by (apply (Hsq c Pawn); apply first_in; exact Np).
      rewrite (first_mirror p (opp c) Pawn) by (rewrite opp_opp; exact Np). rewrite opp_opp.
      rewrite norm_mirror by exact Hp.
      assert (Hb : negb (color_eqb (e_stm (mirror p)) (opp c)) = negb (color_eqb (e_stm p) c)) by (cbn; destruct (e_stm p), c; reflexivity).
      rewrite Hb. f_equal.
      destruct c; cbn [opp]; unfold engine_W_black; rewrite ?flip_flip by (apply Ksk || exact Hp); reflexivity.
    - (* KRKB *) rewrite norm_mirror by apply Ksk. reflexivity.
    - (* KRKN *)
      destruct (applies_counts KRKN c p _ _ eq_refl Ha) as [_ Cw]. unfold counts in Cw. injection Cw as _ Cn _ _ _.
      pose proof (cnt1_nonempty p (opp c) Knight Cn) as Nn.
      assert (Hn : (first p (opp c) Knight < 64)%N) by (apply (Hsq (opp c) Knight); apply first_in; exact Nn).
      rewrite (first_mirror p c Knight) by exact Nn.
      rewrite !norm_mirror by (apply Ksk || exact Hn). reflexivity.
    - (* KNNK *) reflexivity.
    - (* KQKR *) rewrite edge_flip, cheb_flip by apply Ksk. reflexivity.
    - (* KNBK *)
      destruct (applies_counts KNBK c p _ _ eq_refl Ha) as [Cs _]. unfold counts in Cs. injection Cs as _ _ Cb _ _.
      pose proof (cnt1_nonempty p c Bishop Cb) as Nb.
      assert (Hb : (first p c Bishop < 64)%N) by (apply (Hsq c Bishop); apply first_in; exact Nb).
      rewrite (first_mirror p (opp c) Bishop) by (rewrite opp_opp; exact Nb). rewrite opp_opp.
      rewrite white_flip by exact Hb. rewrite flip_flip by apply Ksk.
      destruct (sq_white (first p c Bishop)); reflexivity.
    - (* KRNKR *) rewrite edge_flip by apply Ksk. reflexivity.
    - (* KRBKR *) rewrite edge_flip by apply Ksk. reflexivity.
    - (* KRKP *)
      destruct (applies_counts KRKP c p _ _ eq_refl Ha) as [_ Cw]. unfold counts in Cw. injection Cw as Cp _ _ _ _.
      pose proof (cnt1_nonempty p (opp c) Pawn Cp) as Np.
      assert (Hp : (first p (opp c) Pawn < 64)%N) by (apply (Hsq (opp c) Pawn); apply first_in; exact Np).
      rewrite (first_mirror p c Pawn) by exact Np.
      rewrite !norm_mirror by (apply Ksk || exact Hp). reflexivity.
    - (* KQKP *)
      destruct (applies_counts KQKP c p _ _ eq_refl Ha) as [_ Cw]. unfold counts in Cw. injection Cw as Cp _ _ _ _.
      pose proof (cnt1_nonempty p (opp c) Pawn Cp) as Np.
      assert (Hp : (first p (opp c) Pawn < 64)%N) by (apply (Hsq (opp c) Pawn); apply first_in; exact Np).
      rewrite (first_mirror p c Pawn) by exact Np.
      rewrite !norm_mirror by (apply Ksk || exact Hp). rewrite file_flip by exact Hp. reflexivity.
    - (* KXK *) rewrite edge_flip, cheb_flip by apply Ksk. reflexivity.
  Qed.

  (* C13 on the specialised endgames: if the class found for p is a simple one and the mirrored position finds the
     same class for the other colour, the value from the side to move's point of view is identical *)
  Theorem eg_score_mirror t c p :
    wf p -> simple t = true ->
    eg_find p = Some (t, c) -> eg_find (mirror p) = Some (t, opp c) ->
    eg_score word (mirror p) = eg_score word p.
  Proof.
    intros Hwf Hs E1 E2. unfold eg_score. rewrite E1, E2.
    assert (Ha : applies t c p = true).
    { unfold eg_find in E1. apply find_some in E1. destruct E1 as [_ H]. exact H. }
    rewrite (score_mirror_simple t c p Hs Hwf Ha).
    assert (Hc : color_eqb (e_stm (mirror p)) (opp c) = color_eqb (e_stm p) c) by (cbn; destruct (e_stm p), c; reflexivity).
    rewrite Hc. reflexivity.
  Qed.
End Sym.

(* ---- range: every endgame value lies strictly inside the non-mate range (C14, endgame part) ---- *)
Definition counts_ok (p : egp) : Prop :=
  forall c, cnt p c Pawn <= 8 /\ cnt p c Knight <= 10 /\ cnt p c Bishop <= 10 /\ cnt p c Rook <= 10 /\ cnt p c Queen <= 10.

Lemma tab_bound (t : list Z) lo hi : Forall (fun x => lo <= x <= hi) t -> lo <= 0 <= hi -> forall i, lo <= tab t i <= hi.
Proof.
  intros Hf H0 i. unfold tab. destruct (nth_in_or_default (Z.to_nat i) t 0) as [Hin|Hd]; [|rewrite Hd; exact H0].
  rewrite Forall_forall in Hf. apply Hf. exact Hin.
Qed.
Lemma edge_bound s : 0 <= edge s <= 100.
Proof. apply tab_bound; [|lia]. unfold push_to_edge. repeat constructor; lia. Qed.
Lemma corner_bound s : 0 <= corner s <= 100.
Proof. apply tab_bound; [|lia]. unfold push_to_color_corner. repeat constructor; lia. Qed.
Lemma close_bound d : 0 <= close d <= 7.
Proof. apply tab_bound; [|lia]. unfold push_close. repeat constructor; lia. Qed.

Definition small_facts (s : N) : bool := (0 <=? rank_of s) && (rank_of s <=? 15) && (0 <=? file_of s) && (file_of s <=? 7) && (flip_v s <? 128)%N.
Lemma small_all : forallN 128 small_facts = true. Proof. vm_compute. reflexivity. Qed.
Lemma rank_small s : (s < 128)%N -> 0 <= rank_of s <= 15.
Proof. intro H. pose proof (forallN_spec 128 small_facts small_all s H) as F. unfold small_facts in F.
       repeat (apply andb_prop in F; destruct F as [F ?]). repeat match goal with E : (_ <=? _) = true |- _ => apply Z.leb_le in E end. lia. Qed.
Lemma norm_small s c : (s < 128)%N -> (norm s c < 128)%N.
Proof. intro H. destruct c; cbn; [exact H|]. pose proof (forallN_spec 128 small_facts small_all s H) as F. unfold small_facts in F.
       repeat (apply andb_prop in F; destruct F as [F ?]). apply N.ltb_lt. assumption. Qed.
Lemma cheb_nonneg a b : 0 <= cheb a b. Proof. unfold cheb. lia. Qed.
Lemma cheb_small a b : (a < 128)%N -> (b < 128)%N -> cheb a b <= 15.
Proof.
  intros Ha Hb. unfold cheb.
  pose proof (forallN_spec 128 small_facts small_all a Ha) as F. pose proof (forallN_spec 128 small_facts small_all b Hb) as G.
  unfold small_facts in F, G. repeat (apply andb_prop in F; destruct F as [F ?]). repeat (apply andb_prop in G; destruct G as [G ?]).
  repeat match goal with E : (_ <=? _) = true |- _ => apply Z.leb_le in E end. lia.
Qed.

Lemma fold_min_le l : forall a, (a <= 64)%N -> (fold_left N.min l a <= 64)%N.
Proof. induction l as [|x l IH]; intros a H; cbn; [exact H|]. apply IH. lia. Qed.
Lemma fold_max_lt l : Forall (fun s => (s < 64)%N) l -> forall a, (a < 64)%N -> (fold_left N.max l a < 64)%N.
Proof. induction 1 as [|x l Hx _ IH]; intros a H; cbn; [exact H|]. apply IH. lia. Qed.
Lemma most_advanced_small l side : Forall (fun s => (s < 64)%N) l -> (most_advanced l side < 128)%N.
Proof.
  intro H. destruct side; cbn.
  - pose proof (fold_max_lt l H 0%N ltac:(lia)). unfold max_sq. lia.
  - pose proof (fold_min_le l 64%N ltac:(lia)). unfold min_sq. lia.
Qed.

Lemma first_small p c k : wf p -> (first p c k < 128)%N.
Proof. intros [H _]. unfold first. destruct (e_list p c k) as [|x l] eqn:E; cbn; [lia|]. assert (x < 64)%N by (apply (H c k); rewrite E; left; reflexivity). lia. Qed.
Lemma second_small p c k : wf p -> (second p c k < 128)%N.
Proof. intros [H _]. unfold second. destruct (nth_in_or_default 1 (e_list p c k) 0%N) as [Hin|Hd]; [|rewrite Hd; lia].
       assert (nth 1 (e_list p c k) 0 < 64)%N by (apply (H c k); exact Hin). lia. Qed.
Lemma list_small p c k : wf p -> Forall (fun s => (s < 64)%N) (e_list p c k).
Proof. intros [H _]. apply Forall_forall. intros s Hs. apply (H c k). exact Hs. Qed.
Lemma filter_small (f : N -> bool) l : Forall (fun s => (s < 64)%N) l -> Forall (fun s => (s < 64)%N) (filter f l).
Proof. intro H. apply Forall_forall. intros s Hs. apply filter_In in Hs. rewrite Forall_forall in H. apply H. tauto. Qed.

Lemma pv_values : pv Pawn = 370 /\ pv Knight = 880 /\ pv Bishop = 950 /\ pv Rook = 1550 /\ pv Queen = 2800.
Proof. vm_compute. repeat split; reflexivity. Qed.
Lemma value_consts : VALUE_KNOWN_WIN = 439360 /\ VALUE_POSITIVE_DRAW = 10 /\ VALUE_DRAW = 0 /\ VALUE_MATE = 640000 /\
                     WIN_IN_MAX_DEPTH = 639960 /\ LOST_IN_MAX_DEPTH = -639960.
Proof. vm_compute. repeat split; reflexivity. Qed.

Ltac pose_bounds :=
  repeat match goal with
         | |- context [edge ?x] => lazymatch goal with H : 0 <= edge x <= 100 |- _ => fail | _ => pose proof (edge_bound x) end
         | |- context [corner ?x] => lazymatch goal with H : 0 <= corner x <= 100 |- _ => fail | _ => pose proof (corner_bound x) end
         | |- context [close ?x] => lazymatch goal with H : 0 <= close x <= 7 |- _ => fail | _ => pose proof (close_bound x) end
         end.

Theorem endgame_value_bounded word t c p :
  wf p -> counts_ok p -> LOST_IN_MAX_DEPTH < strong_score word t c p < WIN_IN_MAX_DEPTH.
Proof.
  intros Hwf Hc.
  destruct pv_values as [P1 [P2 [P3 [P4 P5]]]]. destruct value_consts as [V1 [V2 [V3 [V4 [V5 V6]]]]].
  pose proof (Hc c) as [C1 [C2 [C3 [C4 C5]]]]. pose proof (Hc (opp c)) as [D1 [D2 [D3 [D4 D5]]]].
  assert (N1 : forall c' k, 0 <= cnt p c' k) by (intros; unfold cnt; lia).
  pose proof (N1 c Pawn); pose proof (N1 c Knight); pose proof (N1 c Bishop); pose proof (N1 c Rook); pose proof (N1 c Queen);
  pose proof (N1 (opp c) Pawn).
  assert (R1 : forall c' k side, 0 <= rank_of (norm (first p c' k) side) <= 15)
    by (intros; apply rank_small; apply norm_small; apply first_small; exact Hwf).
  assert (R2 : forall c' k f side side', 0 <= rank_of (norm (most_advanced (filter f (e_list p c' k)) side) side') <= 15)
    by (intros; apply rank_small; apply norm_small; apply most_advanced_small; apply filter_small; apply list_small; exact Hwf).
  assert (R3 : forall c' k side side', 0 <= rank_of (norm (most_advanced (e_list p c' k) side) side') <= 15)
    by (intros; apply rank_small; apply norm_small; apply most_advanced_small; apply list_small; exact Hwf).
  rewrite V5, V6.
  destruct t; unfold strong_score, capped; rewrite ?P1, ?P2, ?P3, ?P4, ?P5, ?V1, ?V2, ?V3, ?V4; pose_bounds.
  - (* KPK *) pose proof (R1 c Pawn c). destruct (match c with White => _ | Black => _ end); lia.
  - (* KPsK *) pose proof (R3 c Pawn c c). destruct (_ && _); lia.
  - (* KRKB *) lia.
  - (* KRKN *)
    pose proof (cheb_nonneg (norm (first p (opp c) King) c) (norm (first p (opp c) Knight) c)).
    pose proof (cheb_small (norm (first p (opp c) King) c) (norm (first p (opp c) Knight) c)
                           ltac:(apply norm_small; apply first_small; exact Hwf) ltac:(apply norm_small; apply first_small; exact Hwf)). lia.
  - (* KNNK *) lia.
  - (* KNNKP *) pose proof (R1 (opp c) Pawn c). lia.
  - (* KQKR *) lia.
  - (* KNBK *) destruct (sq_white _); pose_bounds; lia.
  - (* KRNKR *) lia.
  - (* KRBKR *) lia.
  - (* KBPsK *) pose proof (R3 c Pawn c c). destruct (_ && _); lia.
  - (* KBPsKB *)
    pose proof (R3 c Pawn c c) as Q.
    repeat match goal with |- context [if ?b then _ else _] => destruct b end; lia.
  - (* KRKP *)
    pose proof (R1 (opp c) Pawn c).
    repeat match goal with |- context [if ?b then _ else _] => destruct b end; lia.
  - (* KQKP *) destruct (_ && _); lia.
  - (* KQKRPs *) pose proof (R3 (opp c) Pawn (opp c) c). destruct (_ && _); lia.
  - (* KmmKm *) repeat match goal with |- context [if ?b then _ else _] => destruct b end; lia.
  - (* KXK *) lia.
Qed.
