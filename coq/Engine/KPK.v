(* King and pawn versus king: the game (spec), the engine's classification (bitbase.cpp: normalize,
   getIndex, check over the dumped BITBASE) and the certificate instance. *)
From CV Require Export Base.Geom Engine.Game.
Local Open Scope N_scope.

(* White owns the pawn.  btm = black to move. *)
Record kpk := { k_btm : bool; k_wk : N; k_wp : N; k_bk : N }.

Definition adjacent (a b : N) : bool := (cheb a b <=? 1)%Z.           (* includes a = b *)
Definition pawn_attacks_sq (wp s : N) : bool :=
  (rank_of s =? rank_of wp + 1)%Z && (Z.abs (file_of s - file_of wp) =? 1)%Z.

Definition kpk_legal (p : kpk) : bool :=
  (k_wk p <? 64) && (k_wp p <? 64) && (k_bk p <? 64) &&
  (1 <=? rank_of (k_wp p))%Z && (rank_of (k_wp p) <=? 6)%Z &&
  negb (k_wk p =? k_wp p) && negb (k_bk p =? k_wp p) &&
  negb (adjacent (k_wk p) (k_bk p)) &&
  (k_btm p || negb (pawn_attacks_sq (k_wp p) (k_bk p))).     (* the side not to move is not in check *)

Definition king_targets (s : N) : list N :=
  flat_map (fun d => let f := (file_of s + fst d)%Z in let r := (rank_of s + snd d)%Z in
                     if on_board f r then [sq_of f r] else []) king_offs.

Definition kpk_moves (p : kpk) : list kpk :=
  let wk := k_wk p in let wp := k_wp p in let bk := k_bk p in
  if k_btm p then
    (* black king: not next to the white king, not onto a square the pawn attacks; taking the pawn is
       the terminal [save_now], not a move of this game *)
    map (fun t => {| k_btm := false; k_wk := wk; k_wp := wp; k_bk := t |})
        (filter (fun t => negb (adjacent t wk) && negb (pawn_attacks_sq wp t) && negb (t =? wp)) (king_targets bk))
  else
    map (fun t => {| k_btm := true; k_wk := t; k_wp := wp; k_bk := bk |})
        (filter (fun t => negb (adjacent t bk) && negb (t =? wp)) (king_targets wk))
    ++ (let t1 := wp + 8 in
        if (rank_of wp <? 6)%Z && negb (t1 =? wk) && negb (t1 =? bk) then
          {| k_btm := true; k_wk := wk; k_wp := t1; k_bk := bk |} ::
          (let t2 := wp + 16 in
           if (rank_of wp =? 1)%Z && negb (t2 =? wk) && negb (t2 =? bk)
           then [{| k_btm := true; k_wk := wk; k_wp := t2; k_bk := bk |}] else [])
        else []).

(* White promotes and the new piece cannot be taken: K+Q (or K+R) v K follows.  [trusted chess fact:
   that ending is won; see DESIGN.md] *)
Definition kpk_win_now (p : kpk) : bool :=
  let t := k_wp p + 8 in
  negb (k_btm p) && (rank_of (k_wp p) =? 6)%Z && negb (t =? k_wk p) && negb (t =? k_bk p) &&
  negb (adjacent (k_bk p) t && negb (adjacent (k_wk p) t)).
(* Black takes the undefended pawn: K v K *)
Definition kpk_save_now (p : kpk) : bool :=
  k_btm p && adjacent (k_bk p) (k_wp p) && negb (adjacent (k_wk p) (k_wp p)).
Definition kpk_mated (p : kpk) : bool :=
  k_btm p && pawn_attacks_sq (k_wp p) (k_bk p) && negb (kpk_save_now p) &&
  match kpk_moves p with [] => true | _ => false end.

Definition kpk_attacker_to_move (p : kpk) : bool := negb (k_btm p).

Definition KpkWin : kpk -> Prop :=
  Win kpk kpk_attacker_to_move kpk_moves kpk_win_now kpk_save_now kpk_mated.

(* ---- the engine's classification: bitbase::normalize (white is the strong side), getIndex, check ---- *)
Definition flip_h (s : N) : N := N.lxor s 7.
Definition flip_v (s : N) : N := N.lxor s 56.

Section Engine.
  Variable word : N -> N.      (* BITBASE[i] *)

  Definition get_index (btm : bool) (wk wp bk : N) : N :=
    N.lor (N.lor (N.lor (N.lor wk (N.shiftl bk 6)) (N.shiftl (if btm then 1 else 0) 12))
                 (N.shiftl (N.land wp 7) 13)) (N.shiftl (N.shiftr wp 3 - 1) 15).
  Definition bb_check (btm : bool) (wk wp bk : N) : bool :=
    let idx := get_index btm wk wp bk in
    N.testbit (word (N.shiftr idx 5)) (N.land idx 31).

  (* strong side White *)
  Definition engine_W (p : kpk) : bool :=
    if 3 <? N.land (k_wp p) 7
    then bb_check (k_btm p) (flip_h (k_wk p)) (flip_h (k_wp p)) (flip_h (k_bk p))
    else bb_check (k_btm p) (k_wk p) (k_wp p) (k_bk p).

  (* strong side Black: given in real board coordinates (black pawn moving down); the engine flips
     everything vertically and swaps the side to move, then proceeds as for White *)
  Definition engine_W_black (white_to_move : bool) (bk_strong bp wk_weak : N) : bool :=
    engine_W {| k_btm := white_to_move; k_wk := flip_v bk_strong; k_wp := flip_v bp; k_bk := flip_v wk_weak |}.
End Engine.

(* ---- enumeration of the domain: 2 x 64 x 48 x 64 placements, by pawn file ---- *)
Definition kpk_of_index (i : N) : kpk :=
  {| k_wk := N.land i 63; k_bk := N.land (N.shiftr i 6) 63; k_btm := N.testbit i 12;
     k_wp := N.land (N.shiftr i 13) 7 + 8 * (N.shiftr i 16 + 1) |}.
Definition index_of_kpk (p : kpk) : N :=
  k_wk p + 64 * k_bk p + (if k_btm p then 4096 else 0) + 8192 * N.land (k_wp p) 7 + 65536 * (N.shiftr (k_wp p) 3 - 1).
