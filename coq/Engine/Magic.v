(* Algorithmic model of move_bitboards.cpp: run-time tables, magic initialisation, slider_attack<>.
   Source data (magics, index widths) are parameters; they are instantiated with Gen/MagicData.v,
   which the translator regenerates from /repo on every run. *)
From CV Require Export Base.Geom.
From Coq Require Import FMapPositive.
Local Open Scope N_scope.

Definition nthN (l : list N) (i : N) : N := nth (N.to_nat i) l 0.

(* ---- init_rays: repeated shift<dir> until the bitboard is empty ---- *)
Fixpoint ray_loop (d : dir) (field acc : N) (fuel : nat) : N :=
  match fuel with
  | O => acc
  | S k => if field =? 0 then acc else ray_loop d (shift d field) (N.lor acc field) k
  end.
Definition ray_dir_of (i : N) : dir :=
  match i with 0 => DNW | 1 => DN | 2 => DNE | 3 => DE | 4 => DSE | 5 => DS | 6 => DSW | _ => DW end.
Definition rays_alg (ray sq : N) : N :=
  let d := ray_dir_of ray in ray_loop d (shift d (bit sq)) 0 8.

(* ---- init_knight_mask / init_king_mask ---- *)
Definition knight_mask_alg (sq : N) : N :=
  let b := bit sq in
  lor_list [ shift DN (shift DN (shift DE b)); shift DN (shift DN (shift DW b));
             shift DS (shift DS (shift DE b)); shift DS (shift DS (shift DW b));
             shift DE (shift DE (shift DN b)); shift DE (shift DE (shift DS b));
             shift DW (shift DW (shift DN b)); shift DW (shift DW (shift DS b)) ].
Definition king_mask_alg (sq : N) : N :=
  let b := bit sq in
  lor_list [shift DN b; shift DS b; shift DE b; shift DW b; shift DNE b; shift DNW b; shift DSE b; shift DSW b].

(* ---- init_bishop_mask / init_rook_mask ---- *)
Definition rank8_bb : N := rank_bb 7.
Definition edges_bb : N := N.lor (N.lor fileA_bb fileH_bb) (N.lor rank1_bb rank8_bb).
Definition bishop_mask_alg (sq : N) : N :=
  andn (lor_list [rays_alg 0 sq; rays_alg 2 sq; rays_alg 4 sq; rays_alg 6 sq]) edges_bb.
Definition rook_mask_alg (sq : N) : N :=
  lor_list [ andn (rays_alg 1 sq) rank8_bb; andn (rays_alg 3 sq) fileH_bb;
             andn (rays_alg 5 sq) rank1_bb; andn (rays_alg 7 sq) fileA_bb ].

(* ---- get_attack_in_ray (also movegen.cpp:attack_in_ray) ---- *)
Definition attack_in_ray (sq ray blockers : N) : N :=
  let r := rays_alg ray sq in
  let masked := N.land blockers r in
  if masked =? 0 then r
  else
    let blocker := if ray <? 4 then lsb masked else msb masked in
    andn r (rays_alg ray blocker).
Definition bishop_attacks_alg (sq blockers : N) : N :=
  lor_list [attack_in_ray sq 0 blockers; attack_in_ray sq 2 blockers;
            attack_in_ray sq 6 blockers; attack_in_ray sq 4 blockers].
Definition rook_attacks_alg (sq blockers : N) : N :=
  lor_list [attack_in_ray sq 1 blockers; attack_in_ray sq 3 blockers;
            attack_in_ray sq 5 blockers; attack_in_ray sq 7 blockers].

(* ---- get_blockers_from_index: deposit the low bits of [index] on the set bits of the mask ---- *)
Fixpoint pdep (i : N) (l : list N) : N :=
  match l with
  | [] => 0
  | s :: r => N.lor (if N.odd i then bit s else 0) (pdep (N.div2 i) r)
  end.
Fixpoint pext (occ : N) (l : list N) : N :=
  match l with
  | [] => 0
  | s :: r => (if N.testbit occ s then 1 else 0) + 2 * pext occ r
  end.
Definition mask_of (l : list N) : N := lor_list (map bit l).
Definition blockers_from_index (index mask : N) : N := pdep index (bits_of mask).

Section Tables.
  Variable magics : list N.      (* BISHOP_MAGICS or ROOK_MAGICS *)
  Variable widths : list N.      (* *_INDEX_BITS *)
  Variable mask : N -> N.        (* *_MASK[sq] *)
  Variable attacks : N -> N -> N. (* get_*_attacks *)

  Definition key (sq blockers : N) : N :=
    N.shiftr (mul64 blockers (nthN magics sq)) (64 - nthN widths sq).

  Definition tbl := PositiveMap.t N.
  Definition tfind (k : N) (t : tbl) : N :=
    match PositiveMap.find (N.succ_pos k) t with Some v => v | None => all64 end.

  (* one iteration of the init loop: first write wins over the all_squares sentinel
     (the assert on a differing second write is compiled out in release builds) *)
  Definition fill_step (sq : N) (t : tbl) (index : N) : tbl :=
    let b := blockers_from_index index (mask sq) in
    let k := key sq b in
    if tfind k t =? all64 then PositiveMap.add (N.succ_pos k) (attacks sq b) t else t.

  Definition indices (sq : N) : list N := range (N.to_nat (2 ^ nthN widths sq)).
  Definition fill (sq : N) : tbl := fold_left (fill_step sq) (indices sq) (PositiveMap.empty N).

  (* slider_attack<>(sq, blockers) *)
  Definition lookup_in (t : tbl) (sq occ : N) : N := tfind (key sq (N.land occ (mask sq))) t.
  Definition slider_lookup (sq occ : N) : N := lookup_in (fill sq) sq occ.

  (* the finite obligation: every enumerated blocker set reads back the spec's attack set *)
  Variable spec : N -> N -> N.    (* occ -> sq -> attack set *)
  Definition sweep_sq (sq : N) : bool :=
    let t := fill sq in
    forallb (fun i => let b := blockers_from_index i (mask sq) in lookup_in t sq b =? spec b sq) (indices sq).
End Tables.

(* ---- init_lines_bitboards ---- *)
Definition dir_step (i : N) : Z :=
  match i with 0%N => 7 | 1%N => 8 | 2%N => 9 | 3%N => 1 | 4%N => -7 | 5%N => -8 | 6%N => -9 | _ => -1 end%Z.
(* walk from [from] in ray i: LINES[from][to] = squares from..to; returns the assoc list (to, bb) *)
Fixpoint lines_loop (d : dir) (step : Z) (to : Z) (to_bb bb : N) (fuel : nat) : list (N * N) :=
  match fuel with
  | O => []
  | S k => if to_bb =? 0 then []
           else (Z.to_N to, bb) :: lines_loop d step (to + step)%Z (shift d to_bb) (N.lor bb (shift d bb)) k
  end.
Definition lines_from (from : N) : list (N * N) :=
  flat_map (fun i => lines_loop (ray_dir_of i) (dir_step i) (Z.of_N from) (bit from) (bit from) 9) (range 8).
(* later writes overwrite earlier ones: the last binding for [to] counts (only to = from repeats) *)
Definition lines_alg (from to : N) : N :=
  fold_left (fun acc p => if fst p =? to then snd p else acc) (lines_from from) 0.

(* ---- init_full_lines_bitboards ---- *)
Definition diag_squares (pred : Z -> Z -> bool) : N :=
  lor_list (map (fun s => if pred (file_of s) (rank_of s) then bit s else 0) all_squares).
Definition full_lines_alg (from to : N) : N :=
  let rf := rank_of from in let ff := file_of from in
  let rt := rank_of to in let ft := file_of to in
  if from =? to then 0
  else if (rf =? rt)%Z then rank_bb (Z.to_N rf)
  else if (ff =? ft)%Z then file_bb (Z.to_N ff)
  else if (rf + ff =? rt + ft)%Z then diag_squares (fun f r => (r + f =? rf + ff)%Z)
  else if (rf - ff =? rt - ft)%Z then diag_squares (fun f r => (r - f =? rf - ff)%Z)
  else 0.

(* ---- pawn_attacks<side>(bb) ---- *)
Definition pawn_attacks_alg (white : bool) (bb : N) : N :=
  if white then N.lor (shift DNW bb) (shift DNE bb) else N.lor (shift DSW bb) (shift DSE bb).
