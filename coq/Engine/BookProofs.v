From CV Require Import Engine.Book.
From Coq Require Import Lia.
Local Open Scope N_scope.

(* ---- reader: exactly the complete 16-byte records, in order ---- *)
Fixpoint chunks16 (n : nat) (bytes : list N) : list (list N) :=
  match n with
  | O => []
  | S k => firstn 16 bytes :: chunks16 k (skipn 16 bytes)
  end.

Lemma read_loop_spec (fuel : nat) :
  forall bytes, (length bytes < fuel)%nat ->
    read_loop fuel bytes = map decode_entry (chunks16 (length bytes / 16) bytes).
Proof.
  induction fuel as [|k IH]; intros bytes Hlt; [lia|].
  cbn [read_loop].
  destruct (Nat.ltb_spec (length bytes) 16) as [Hs|Hs].
  - rewrite firstn_length. rewrite Nat.min_r by lia.
    destruct (Nat.eqb_spec (length bytes) 16) as [E|E]; [lia|].
    rewrite Nat.div_small by lia. reflexivity.
  - rewrite firstn_length. rewrite Nat.min_l by lia. rewrite Nat.eqb_refl.
    assert (Hd : (length bytes / 16 = S ((length bytes - 16) / 16))%nat).
    { replace (length bytes) with ((length bytes - 16) + 1 * 16)%nat at 1 by lia.
      rewrite Nat.div_add by lia. lia. }
    rewrite Hd. cbn [chunks16 map]. f_equal.
    rewrite <- (skipn_length 16 bytes).
    apply IH. rewrite skipn_length. lia.
Qed.

Theorem read_book_spec (bytes : list N) :
  read_book bytes = map decode_entry (chunks16 (length bytes / 16) bytes).
Proof. unfold read_book. apply read_loop_spec. lia. Qed.

Lemma chunks16_length n bytes : length (chunks16 n bytes) = n.
Proof. revert bytes. induction n; intro; cbn; [reflexivity|]. rewrite IHn. reflexivity. Qed.

Theorem read_book_count (bytes : list N) : length (read_book bytes) = (length bytes / 16)%nat.
Proof. rewrite read_book_spec, map_length. apply chunks16_length. Qed.

Lemma chunks16_nth n : forall bytes i, (i < n)%nat ->
  nth i (chunks16 n bytes) [] = firstn 16 (skipn (16 * i) bytes).
Proof.
  induction n as [|k IH]; intros bytes i Hi; [lia|].
  destruct i as [|j]; cbn [chunks16 nth].
  - reflexivity.
  - rewrite IH by lia. f_equal.
    replace (16 * S j)%nat with (16 + 16 * j)%nat by lia.
    generalize (16 * j)%nat as m. intro m. generalize 16%nat as a. intro a.
    revert bytes. induction a as [|a IHa]; intro bytes; [reflexivity|].
    destruct bytes as [|x t]; cbn [skipn plus].
    + destruct m; reflexivity.
    + apply IHa.
Qed.

(* record i of the book is the decoding of bytes 16i .. 16i+15: none dropped, duplicated or invented *)
Theorem read_book_nth (bytes : list N) (i : nat) :
  (i < length bytes / 16)%nat ->
  nth_error (read_book bytes) i = Some (decode_entry (firstn 16 (skipn (16 * i) bytes))).
Proof.
  intro Hi. rewrite read_book_spec.
  rewrite nth_error_map.
  rewrite (nth_error_nth' _ []) by (rewrite chunks16_length; exact Hi).
  cbn. rewrite chunks16_nth by exact Hi. reflexivity.
Qed.

(* ---- random policy: the cumulative walk lands on the entry whose interval contains the sample ---- *)
Definition weights_before (l : list (N * N)) (i : nat) : N := sum_weights (firstn i l).

Lemma pick_loop_spec (l : list (N * N)) :
  forall w sample i0,
    w <= sample -> sample < w + sum_weights l ->
    exists j, pick_loop l w sample i0 = (i0 + j)%nat /\ (j < length l)%nat /\
              w + weights_before l j <= sample /\
              sample < w + weights_before l j + snd (nth j l (0, 0)).
Proof.
  induction l as [|mw t IH]; intros w sample i0 Hle Hlt.
  - cbn in Hlt. lia.
  - cbn [pick_loop]. cbn [sum_weights fold_right] in Hlt. fold (sum_weights t) in Hlt.
    destruct (N.leb_spec (w + snd mw) sample) as [Hc|Hc].
    + destruct (IH (w + snd mw) sample (S i0) Hc) as [j [Hj [Hjl [Ha Hb]]]]; [lia|].
      exists (S j). unfold weights_before in *. cbn [firstn sum_weights fold_right nth length].
      fold (sum_weights (firstn j t)). repeat split; lia.
    + exists O. unfold weights_before. cbn [firstn sum_weights fold_right nth length].
      repeat split; lia.
Qed.

Theorem random_index_spec (l : list (N * N)) (draw : N) :
  sum_weights l <> 0 ->
  exists j, random_index l draw = Some j /\ (j < length l)%nat /\
            weights_before l j <= draw mod sum_weights l < weights_before l j + snd (nth j l (0, 0)).
Proof.
  intro Hs. unfold random_index.
  destruct (N.eqb_spec (sum_weights l) 0) as [E|_]; [contradiction|].
  assert (H1 : 0 <= draw mod sum_weights l) by apply N.le_0_l.
  assert (H2 : draw mod sum_weights l < 0 + sum_weights l) by (rewrite N.add_0_l; apply N.mod_lt; exact Hs).
  destruct (pick_loop_spec l 0 (draw mod sum_weights l) 0 H1 H2) as [j [Hj [Hjl [Ha Hb]]]].
  exists j. rewrite Hj. rewrite !N.add_0_l in *. repeat split; assumption.
Qed.

(* never a move of weight zero *)
Corollary random_never_zero_weight (l : list (N * N)) (draw : N) (j : nat) :
  random_index l draw = Some j -> snd (nth j l (0, 0)) <> 0.
Proof.
  intro H. unfold random_index in H.
  destruct (N.eqb_spec (sum_weights l) 0) as [E|Hs]; [discriminate|].
  destruct (random_index_spec l draw Hs) as [j' [Hj' [_ [Ha Hb]]]].
  unfold random_index in Hj'. destruct (N.eqb_spec (sum_weights l) 0); [contradiction|].
  assert (j = j') by congruence. subst j'. lia.
Qed.

(* each entry is chosen by exactly weight-many of the sum-many residues: proportional to weight *)
Theorem random_proportional (l : list (N * N)) (j : nat) (s : N) :
  sum_weights l <> 0 -> s < sum_weights l ->
  (random_index l s = Some j <->
   ((j < length l)%nat /\ weights_before l j <= s < weights_before l j + snd (nth j l (0, 0)))).
Proof.
  intros Hs Hlt.
  destruct (random_index_spec l s Hs) as [j' [Hj' [Hl' [Ha Hb]]]].
  rewrite N.mod_small in Ha, Hb by exact Hlt.
  split.
  - intro H. assert (j = j') by congruence. subst. auto.
  - intros [Hl [Hc Hd]]. rewrite Hj'. f_equal.
    (* intervals of different indices are disjoint *)
    assert (Hmono : forall a b, (a < b)%nat -> (b <= length l)%nat ->
                    weights_before l a + snd (nth a l (0, 0)) <= weights_before l b).
    { clear. intros a b Hab. revert a Hab. unfold weights_before.
      revert l. induction b as [|b IH]; intros l a Hab Hb; [lia|].
      destruct l as [|x t]; [cbn in Hb; lia|].
      destruct a as [|a]; cbn [firstn sum_weights fold_right nth].
      - fold (sum_weights (firstn b t)). lia.
      - fold (sum_weights (firstn a t)). fold (sum_weights (firstn b t)).
        cbn in Hb. specialize (IH t a). lia. }
    destruct (Nat.lt_trichotomy j j') as [H|[H|H]]; [|congruence|].
    + specialize (Hmono j j' H). lia.
    + specialize (Hmono j' j H). lia.
Qed.

(* ---- best policy ---- *)
Definition wt (l : list (N * N)) (k : nat) : N := snd (nth k l (0, 0)).

Lemma best_index_from_spec (l : list (N * N)) :
  forall i bi bw, (bi < i)%nat ->
    exists rw, let r := best_index_from l i bi bw in
      ((r = bi /\ rw = bw) \/ ((i <= r < i + length l)%nat /\ rw = wt l (r - i))) /\
      bw <= rw /\ (forall k, (k < length l)%nat -> wt l k <= rw).
Proof.
  induction l as [|mw t IH]; intros i bi bw Hbi; cbn [best_index_from].
  - exists bw. cbv zeta. split; [left; split; reflexivity|]. split; [lia|]. intros k Hk. cbn in Hk. lia.
  - destruct (N.ltb_spec bw (snd mw)) as [Hc|Hc].
    + destruct (IH (S i) i (snd mw)) as [rw [Hpos [Hle Hall]]]; [lia|].
      exists rw. cbv zeta in *. split; [|split].
      * right. destruct Hpos as [[Hr Hw]|[Hr Hw]].
        -- rewrite Hr. split; [cbn [length]; lia|]. rewrite Nat.sub_diag. unfold wt. cbn [nth]. exact Hw.
        -- split; [cbn [length]; lia|]. rewrite Hw. unfold wt.
           replace (best_index_from t (S i) i (snd mw) - i)%nat with (S (best_index_from t (S i) i (snd mw) - S i)) by lia.
           reflexivity.
      * lia.
      * intros k Hk. destruct k as [|k]; unfold wt; cbn [nth]; [exact Hle|]. apply Hall. cbn in Hk. lia.
    + destruct (IH (S i) bi bw) as [rw [Hpos [Hle Hall]]]; [lia|].
      exists rw. cbv zeta in *. split; [|split].
      * destruct Hpos as [[Hr Hw]|[Hr Hw]].
        -- left. split; assumption.
        -- right. split; [cbn [length]; lia|]. rewrite Hw. unfold wt.
           replace (best_index_from t (S i) bi bw - i)%nat with (S (best_index_from t (S i) bi bw - S i)) by lia.
           reflexivity.
      * exact Hle.
      * intros k Hk. destruct k as [|k]; unfold wt; cbn [nth]; [lia|]. apply Hall. cbn in Hk. lia.
Qed.

(* the best policy returns a recorded move of maximal weight *)
Theorem best_index_spec (l : list (N * N)) :
  l <> [] ->
  (best_index l < length l)%nat /\ forall k, (k < length l)%nat -> wt l k <= wt l (best_index l).
Proof.
  destruct l as [|mw t]; [congruence|]. intros _. unfold best_index.
  destruct (best_index_from_spec t 1 0 (snd mw)) as [rw [Hpos [Hle Hall]]]; [lia|].
  cbv zeta in *.
  assert (Hrw : (best_index_from t 1 0 (snd mw) < length (mw :: t))%nat /\ rw = wt (mw :: t) (best_index_from t 1 0 (snd mw))).
  { destruct Hpos as [[Hr Hw]|[Hr Hw]].
    - rewrite Hr. split; [cbn; lia|]. unfold wt. cbn [nth]. exact Hw.
    - split; [cbn [length]; lia|]. rewrite Hw. unfold wt.
      replace (best_index_from t 1 0 (snd mw)) with (S (best_index_from t 1 0 (snd mw) - 1)) at 2 by lia.
      reflexivity. }
  destruct Hrw as [Hlt Hrw]. split; [exact Hlt|].
  intros k Hk. rewrite <- Hrw. destruct k as [|k]; unfold wt; cbn [nth]; [exact Hle|].
  apply Hall. cbn in Hk. lia.
Qed.
