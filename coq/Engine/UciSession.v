(* The state of the UCI front end (Uci::position_command, moves_command, ucinewgame_command in engine/uci.cpp) as a state
   machine over the rules: the only state is the current position.

       position <root> [moves L]   state := play root L            (whatever came before)
       moves L                     state := play state L           (the engine's own incremental command)
       ucinewgame                  state := the start position

   Move TEXT is resolved against the position it is played in (uci_parse, C16); a word that does not parse ends the
   command there.  The statements below are what every caching / incremental implementation of these commands has to
   satisfy; the extracted [usession] is run next to the real binary by tools/uciglue.py. *)
From Coq Require Import List String.
From CV Require Import Chess.Rules Chess.Fen.
Import ListNotations.

Inductive ucmd :=
| CPosition (root : option position) (ms : list string)      (* None: startpos *)
| CMoves (ms : list string)
| CNewGame.

(* play move text from p, stopping at the first word that is not a move of the position reached *)
Fixpoint play_text (p : position) (ms : list string) : position :=
  match ms with
  | [] => p
  | w :: r => match uci_parse p w with Some m => play_text (make_move p m) r | None => p end
  end.

Definition root_of (r : option position) : position := match r with Some p => p | None => initial_position end.

Definition ustep (s : position) (c : ucmd) : position :=
  match c with
  | CPosition r ms => play_text (root_of r) ms
  | CMoves ms => play_text s ms
  | CNewGame => initial_position
  end.

Definition usession (cs : list ucmd) : list position :=
  (fix go (s : position) (cs : list ucmd) : list position :=
     match cs with [] => [] | c :: r => let s' := ustep s c in s' :: go s' r end) initial_position cs.

Definition ufinal (s : position) (cs : list ucmd) : position := fold_left ustep cs s.

(* a position command forgets everything that came before *)
Theorem position_forgets_history : forall (s s' : position) r ms, ustep s (CPosition r ms) = ustep s' (CPosition r ms).
Proof. reflexivity. Qed.

Theorem position_after_any_history : forall (s : position) (before : list ucmd) r ms,
  ufinal s (before ++ [CPosition r ms]) = play_text (root_of r) ms.
Proof. intros. unfold ufinal. rewrite fold_left_app. reflexivity. Qed.

Theorem newgame_after_any_history : forall (s : position) (before : list ucmd), ufinal s (before ++ [CNewGame]) = initial_position.
Proof. intros. unfold ufinal. rewrite fold_left_app. reflexivity. Qed.

(* well-formed move lists (every word parses where it is played) *)
Fixpoint text_ok (p : position) (ms : list string) : bool :=
  match ms with
  | [] => true
  | w :: r => match uci_parse p w with Some m => text_ok (make_move p m) r | None => false end
  end.

Lemma play_text_app p l1 l2 : text_ok p l1 = true -> play_text p (l1 ++ l2) = play_text (play_text p l1) l2.
Proof.
  revert p. induction l1 as [|w r IH]; intros p H; [reflexivity|]. cbn [app play_text text_ok] in *.
  destruct (uci_parse p w) as [m|]; [apply IH; exact H|discriminate H].
Qed.

(* `moves L` after `position R moves L0` is `position R moves L0 L`; so is re-sending the longer position line *)
Theorem moves_extends_position : forall (s : position) r l0 l,
  text_ok (root_of r) l0 = true ->
  ustep (ustep s (CPosition r l0)) (CMoves l) = ustep s (CPosition r (l0 ++ l)).
Proof. intros s r l0 l H. cbn [ustep]. symmetry. apply play_text_app. exact H. Qed.

(* a take-back is just the shorter line: the state does not remember the longer one *)
Theorem take_back_is_shorter_line : forall (s : position) r l0 l,
  ustep (ustep s (CPosition r (l0 ++ l))) (CPosition r l0) = ustep s (CPosition r l0).
Proof. reflexivity. Qed.
