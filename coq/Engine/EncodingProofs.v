From CV Require Import Engine.Encoding.
From Coq Require Import Lia ZifyN ZifyBool.
Local Open Scope N_scope.
Ltac Zify.zify_post_hook ::= Z.div_mod_to_equations.

(* disjoint bit fields: or is addition *)
Lemma land_shiftl_low (a b k : N) : b < 2 ^ k -> N.land (N.shiftl a k) b = 0.
Proof.
  intro H. apply N.bits_inj. intro n. rewrite N.land_spec, N.bits_0.
  destruct (N.ltb_spec n k) as [Hlt|Hge].
  - rewrite N.shiftl_spec_low by exact Hlt. reflexivity.
  - destruct (N.eq_dec b 0) as [->|Hb]; [rewrite N.bits_0; apply andb_false_r|].
    rewrite (N.bits_above_log2 b n); [apply andb_false_r|].
    apply N.log2_lt_pow2 in H; lia.
Qed.

Lemma lor_shiftl_add (a b k : N) : b < 2 ^ k -> N.lor (N.shiftl a k) b = a * 2 ^ k + b.
Proof.
  intro H. rewrite <- N.lxor_lor by (apply land_shiftl_low; exact H).
  rewrite <- N.add_nocarry_lxor by (apply land_shiftl_low; exact H).
  rewrite N.shiftl_mul_pow2. reflexivity.
Qed.

Lemma land_mask (x k : N) : N.land x (N.ones k) = x mod 2 ^ k.
Proof. apply N.land_ones. Qed.

Lemma land_63 x : N.land x 0x3F = x mod 64. Proof. apply (N.land_ones x 6). Qed.
Lemma land_7 x : N.land x 0x7 = x mod 8. Proof. apply (N.land_ones x 3). Qed.
Lemma land_3 x : N.land x 0x3 = x mod 4. Proof. apply (N.land_ones x 2). Qed.
Lemma land_15 x : N.land x 0xF = x mod 16. Proof. apply (N.land_ones x 4). Qed.
Lemma land_255 x : N.land x 0xFF = x mod 256. Proof. apply (N.land_ones x 8). Qed.
Lemma land_1 x : N.land x 1 = x mod 2. Proof. apply (N.land_ones x 1). Qed.

Ltac to_arith := rewrite ?land_63, ?land_7, ?land_3, ?land_15, ?land_255, ?land_1, ?N.shiftr_div_pow2.

Lemma promo_code (from to promo : N) :
  from < 64 -> to < 64 -> promo < 8 ->
  create_promotion from to promo = promo * 4096 + to * 64 + from.
Proof.
  intros Hf Ht Hp. unfold create_promotion.
  replace (N.lor (N.lor (N.shiftl promo 12) (N.shiftl to 6)) from)
    with (N.lor (N.shiftl (N.lor (N.shiftl promo 6) to) 6) from).
  2:{ rewrite !N.shiftl_lor, !N.shiftl_shiftl. reflexivity. }
  rewrite !lor_shiftl_add; cbn [N.pow]; try lia.
Qed.

Theorem decode_promotion (from to promo : N) :
  from < 64 -> to < 64 -> promo < 8 ->
  let m := create_promotion from to promo in
  mv_from m = from /\ mv_to m = to /\ mv_promotion m = promo /\ mv_castling m = 0.
Proof.
  intros Hf Ht Hp m. unfold m. rewrite promo_code by assumption.
  unfold mv_from, mv_to, mv_promotion, mv_castling. cbv zeta. to_arith.
  change (2 ^ 6) with 64. change (2 ^ 12) with 4096. change (2 ^ 15) with 32768.
  change (2 ^ 3) with 8. change (2 ^ 2) with 4.
  repeat split; try lia.
  replace ((promo * 4096 + to * 64 + from) / 32768 mod 4) with 0 by lia. reflexivity.
Qed.

Lemma create_move_promo0 (from to : N) : create_move from to = create_promotion from to 0.
Proof. unfold create_move, create_promotion. rewrite N.shiftl_0_l, N.lor_0_l. reflexivity. Qed.

Theorem decode_move (from to : N) :
  from < 64 -> to < 64 ->
  let m := create_move from to in
  mv_from m = from /\ mv_to m = to /\ mv_promotion m = 0 /\ mv_castling m = 0.
Proof. intros Hf Ht. rewrite create_move_promo0. apply decode_promotion; lia. Qed.

Theorem decode_castling :
  mv_castling (create_castling KING_CASTLING) = KING_CASTLING /\
  mv_castling (create_castling QUEEN_CASTLING) = QUEEN_CASTLING /\
  mv_from (create_castling KING_CASTLING) = 0 /\ mv_to (create_castling KING_CASTLING) = 0 /\
  mv_from (create_castling QUEEN_CASTLING) = 0 /\ mv_to (create_castling QUEEN_CASTLING) = 0 /\
  mv_promotion (create_castling KING_CASTLING) = 0 /\ mv_promotion (create_castling QUEEN_CASTLING) = 0.
Proof. vm_compute. repeat split; reflexivity. Qed.

(* distinct field tuples give distinct codes (the encoding is injective on its domain) *)
Theorem promotion_code_injective (f t p f' t' p' : N) :
  f < 64 -> t < 64 -> p < 8 -> f' < 64 -> t' < 64 -> p' < 8 ->
  create_promotion f t p = create_promotion f' t' p' -> f = f' /\ t = t' /\ p = p'.
Proof. intros. rewrite !promo_code in * by assumption. lia. Qed.

Theorem castling_codes_not_normal (f t p : N) :
  f < 64 -> t < 64 -> p < 8 ->
  create_promotion f t p <> KING_CASTLING_MOVE /\ create_promotion f t p <> QUEEN_CASTLING_MOVE.
Proof.
  intros. rewrite promo_code by assumption.
  change KING_CASTLING_MOVE with 32768. change QUEEN_CASTLING_MOVE with 65536. lia.
Qed.

(* MoveInfo *)
Lemma moveinfo_code (captured castling : N) (last_ep : option N) (ep : bool) (hmc : N) :
  captured < 8 -> castling < 16 -> (forall s, last_ep = Some s -> s < 64) -> hmc < 256 ->
  create_moveinfo captured castling last_ep ep hmc =
    hmc * 32768 + b2n ep * 16384 + (match last_ep with Some s => 8192 + s * 128 | None => 0 end)
    + castling * 8 + captured.
Proof.
  intros Hc Hr He Hh. unfold create_moveinfo.
  assert (Hb : b2n ep < 2) by (destruct ep; cbn; lia).
  destruct last_ep as [s|].
  - specialize (He s eq_refl).
    replace (N.lor (N.lor (N.lor (N.lor (N.lor (N.shiftl hmc 15) (N.shiftl (b2n ep) 14)) (N.shiftl 1 13))
                        (N.shiftl s 7)) (N.shiftl castling 3)) captured)
      with (N.lor (N.shiftl (N.lor (N.shiftl (N.lor (N.shiftl (N.lor (N.shiftl (N.lor (N.shiftl hmc 1) (b2n ep)) 1) 1) 6) s) 4) castling) 3) captured).
    2:{ rewrite !N.shiftl_lor, !N.shiftl_shiftl. reflexivity. }
    rewrite !lor_shiftl_add; cbn [N.pow]; try lia.
  - replace (N.lor (N.lor (N.lor (N.shiftl hmc 15) (N.shiftl (b2n ep) 14)) (N.shiftl castling 3)) captured)
      with (N.lor (N.shiftl (N.lor (N.shiftl (N.lor (N.shiftl hmc 1) (b2n ep)) 11) castling) 3) captured).
    2:{ rewrite !N.shiftl_lor, !N.shiftl_shiftl. reflexivity. }
    rewrite !lor_shiftl_add; cbn [N.pow]; try lia.
Qed.

Theorem decode_moveinfo (captured castling : N) (last_ep : option N) (ep : bool) (hmc : N) :
  captured < 8 -> castling < 16 -> (forall s, last_ep = Some s -> s < 64) -> hmc < 256 ->
  let mi := create_moveinfo captured castling last_ep ep hmc in
  mi_captured mi = captured /\ mi_castling mi = castling /\ mi_last_ep mi = last_ep /\
  mi_ep mi = ep /\ mi_hmc mi = hmc.
Proof.
  intros Hc Hr He Hh mi. unfold mi. rewrite moveinfo_code by assumption.
  assert (Hb : b2n ep < 2) by (destruct ep; cbn; lia).
  unfold mi_captured, mi_castling, mi_last_ep, mi_ep, mi_hmc. to_arith.
  change (2 ^ 3) with 8. change (2 ^ 4) with 16. change (2 ^ 13) with 8192. change (2 ^ 1) with 2.
  change (2 ^ 7) with 128. change (2 ^ 6) with 64. change (2 ^ 14) with 16384. change (2 ^ 15) with 32768.
  change (2 ^ 8) with 256.
  destruct last_ep as [s|].
  - specialize (He s eq_refl). repeat split; try lia.
    + replace ((hmc * 32768 + b2n ep * 16384 + (8192 + s * 128) + castling * 8 + captured) / 8192 mod 2) with 1 by lia.
      change (1 =? 1) with true. cbv iota. f_equal. lia.
    + destruct ep; cbn [b2n] in *.
      * replace ((hmc * 32768 + 1 * 16384 + (8192 + s * 128) + castling * 8 + captured) / 16384 mod 2) with 1 by lia. reflexivity.
      * replace ((hmc * 32768 + 0 * 16384 + (8192 + s * 128) + castling * 8 + captured) / 16384 mod 2) with 0 by lia. reflexivity.
  - repeat split; try lia.
    + replace ((hmc * 32768 + b2n ep * 16384 + 0 + castling * 8 + captured) / 8192 mod 2) with 0 by lia. reflexivity.
    + destruct ep; cbn [b2n] in *.
      * replace ((hmc * 32768 + 1 * 16384 + 0 + castling * 8 + captured) / 16384 mod 2) with 1 by lia. reflexivity.
      * replace ((hmc * 32768 + 0 * 16384 + 0 + castling * 8 + captured) / 16384 mod 2) with 0 by lia. reflexivity.
Qed.
