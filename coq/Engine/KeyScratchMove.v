(* C04: do_move keeps the incremental key equal to the scratch key - for every Zobrist table, every well-formed state
   whose key is in step (key_inv: the piece lists cover the board and all five key components equal their from-scratch
   values) and every pseudo-legal move of the rules. *)
From CV Require Import Engine.PositionRep Engine.EncodingProofs Engine.RepProofs Engine.RepRoundTrip Engine.RepRoundTripNormal
     Engine.RepAbs Engine.RepRefine Engine.RepRefineLegal Engine.KeyScratch.
From Coq Require Import Lia List Bool ZArith Btauto.
Import ListNotations.
Local Open Scope N_scope.

Section M.
  Variable zt : zobrist.
  Hint Rewrite sm_side sm_hmc sm_ply sm_castling sm_ep sm_key sm_hist sm_board
       (mp_side zt) (mp_hmc zt) (mp_ply zt) (mp_castling zt) (mp_ep zt) (mp_hist zt) (mp_board zt) (mp_key zt)
       (ap_side zt) (ap_hmc zt) (ap_ply zt) (ap_castling zt) (ap_ep zt) (ap_hist zt) (ap_board zt) (ap_key zt)
       (rp_side zt) (rp_hmc zt) (rp_ply zt) (rp_castling zt) (rp_ep zt) (rp_hist zt) (rp_board zt) (rp_key zt) : fields.
  Hint Rewrite (tg_ep zt) (tg_castling zt) (tg_color zt) (se_ep zt) (se_castling zt) (se_color zt) (se_piece zt) (se_pawn zt)
       (sc_ep zt) (sc_castling zt) (sc_color zt) (sc_piece zt) (sc_pawn zt) (fs_ep zt) (fs_piece zt) (fs_pawn zt) : keys.

  Ltac len64 := repeat apply len_upd64; assumption.
  Ltac simp_nthd :=
    repeat first [ rewrite nthd_same64 by (first [len64 | lia])
                 | rewrite nthd_updN_other by (first [lia | congruence | discriminate]) ].

  (* the three scalar components *)
  Definition scalar_inv (s : rep) : Prop :=
    k_ep (r_key s) = (match r_ep s with Some e => z_ep zt (e mod 8) | None => 0 end) /\
    k_castling (r_key s) = z_castling zt (r_castling s) /\
    k_color (r_key s) = (if r_side s =? 1 then z_side zt else 0).

  Definition key_inv (s : rep) : Prop := piece_inv zt s /\ scalar_inv s.

  Theorem key_inv_scratch s : key_inv s -> r_key s = scratch_key zt s.
  Proof.
    intros [[_ [_ [_ [_ [Hk [Hw _]]]]]] [He [Hc Hs]]]. apply hashkey_ext; cbn [scratch_key k_piece k_pawn k_ep k_castling k_color]; try assumption.
  Qed.

  Lemma fs_castling k : k_castling (flip_side zt k) = k_castling k. Proof. reflexivity. Qed.
  Lemma fs_color k : k_color (flip_side zt k) = N.lxor (k_color k) (z_side zt). Proof. reflexivity. Qed.

  Lemma color_flip s : r_side s < 2 -> k_color (r_key s) = (if r_side s =? 1 then z_side zt else 0) ->
    N.lxor (k_color (r_key s)) (z_side zt) = (if 1 - r_side s =? 1 then z_side zt else 0).
  Proof.
    intros Hs ->. assert (r_side s = 0 \/ r_side s = 1) as [-> | ->] by lia; cbn [N.eqb N.sub Pos.eqb].
    - apply N.lxor_0_l.
    - apply N.lxor_nilpotent.
  Qed.

  Lemma piece_inv_s0 s a b c d e h : piece_inv zt s ->
    piece_inv zt (set_meta s a b c d e (key_set_ep zt (flip_side zt (r_key s)) None) h).
  Proof. intro H. apply set_meta_inv; [exact H|reflexivity|reflexivity]. Qed.

  Theorem castle_key_inv s (ks : bool) : key_inv s -> r_side s < 2 ->
    let rank := if r_side s =? 0 then 0 else 7 in
    nthd (r_board s) (sq_at rank 4) 0 <> 0 -> nthd (r_board s) (sq_at rank (if ks then 7 else 0)) 0 <> 0 ->
    nthd (r_board s) (sq_at rank (if ks then 6 else 2)) 0 = 0 -> nthd (r_board s) (sq_at rank (if ks then 5 else 3)) 0 = 0 ->
    key_inv (fst (do_move zt s (enc (Castle ks)))).
  Proof.
    intros [Hp [He [Hc Hcol]]] Hside rank HK HR HE1 HE2. pose proof Hp as [Hlen _].
    assert (r_side s = 0 \/ r_side s = 1) as [Es|Es] by lia; destruct ks; subst rank; rewrite Es in HK, HR, HE1, HE2; cbn [N.eqb Pos.eqb] in HK, HR, HE1, HE2;
      unfold enc, do_move; cbv beta zeta;
      [ change (mv_castling KING_CASTLING_MOVE) with 5 | change (mv_castling QUEEN_CASTLING_MOVE) with 10
      | change (mv_castling KING_CASTLING_MOVE) with 5 | change (mv_castling QUEEN_CASTLING_MOVE) with 10 ];
      try change (negb (5 =? 0)) with true; try change (negb (10 =? 0)) with true; cbv iota;
      try change (5 =? KING_CASTLING) with true; try change (10 =? KING_CASTLING) with false; cbv iota; rewrite Es; cbn [N.eqb Pos.eqb fst];
      (split;
       [ apply set_meta_inv; [|reflexivity|reflexivity];
         apply move_piece_inv;
         [ apply move_piece_inv;
           [ apply piece_inv_s0; exact Hp | vm_compute; reflexivity | vm_compute; reflexivity | discriminate
           | autorewrite with fields; exact HK | autorewrite with fields; exact HE1 ]
         | vm_compute; reflexivity | vm_compute; reflexivity | discriminate
         | autorewrite with fields; unfold sq_at in HR |- *; cbn [N.mul N.add Pos.mul Pos.add] in HR |- *; simp_nthd; exact HR
         | autorewrite with fields; unfold sq_at in HE2 |- *; cbn [N.mul N.add Pos.mul Pos.add] in HE2 |- *; simp_nthd; exact HE2 ]
       | unfold scalar_inv; autorewrite with fields; autorewrite with keys; autorewrite with fields; autorewrite with keys;
         split; [reflexivity|]; split; [reflexivity|];
         rewrite fs_color, Hcol, Es; change (1 - 0) with 1; change (1 - 1) with 0; cbn [N.eqb Pos.eqb];
         first [apply N.lxor_0_l | apply N.lxor_nilpotent] ]).
  Qed.

  Lemma make_piece_range side k : side < 2 -> kind_ok k -> 1 <= make_piece side k <= 12.
  Proof. intros Hs Hk. rewrite (make_piece_val side k Hk). destruct Hk. lia. Qed.

  Theorem normal_key_inv s from to kf capc (promo : option kind) :
    key_inv s -> r_side s < 2 -> from < 64 -> to < 64 -> from <> to -> kind_ok kf ->
    nthd (r_board s) from 0 = make_piece (r_side s) kf -> nthd (r_board s) to 0 = capc ->
    (promo <> None -> kf = PAWN /\ promo_ok promo = true) ->
    is_ep_flag s from to = false ->
    key_inv (fst (do_move zt s (enc (Normal from to promo)))).
  Proof.
    intros [Hp [He [Hc Hcol]]] Hside Hf Ht Hne Hkf Hown Htgt Hpromo Hnep. pose proof Hp as [Hlen _].
    assert (Hpc : promo_code promo < 8) by (destruct promo as [[]|]; cbn; lia).
    unfold enc. fold (promo_code promo).
    set (m := create_promotion from to (promo_code promo)).
    destruct (decode_promotion from to (promo_code promo) Hf Ht Hpc) as [Df [Dt [Dp Dc]]]. fold m in Df, Dt, Dp, Dc.
    assert (Hkm : pc_kind (make_piece (r_side s) kf) = kf) by (apply kind_make; assumption).
    assert (Hown0 : nthd (r_board s) from 0 <> 0) by (rewrite Hown; pose proof (make_piece_range _ _ Hside Hkf); lia).
    unfold is_ep_flag in Hnep. rewrite Hown, Hkm in Hnep.
    unfold do_move. cbv beta zeta. rewrite Dc, Df, Dt, Dp. change (negb (0 =? 0)) with false. cbv iota.
    autorewrite with fields. rewrite Htgt, Hown, Hkm, Hnep. cbv beta iota zeta.
    set (s0 := set_meta s (1 - r_side s) (r_hmc s) (r_ply s + 1)%Z (r_castling s) (r_ep s) (key_set_ep zt (flip_side zt (r_key s)) None) (r_hist s)).
    assert (Hp0 : piece_inv zt s0) by (apply piece_inv_s0; exact Hp).
    assert (Hb0 : r_board s0 = r_board s) by reflexivity.
    assert (Hcolor : N.lxor (k_color (r_key s)) (z_side zt) = (if 1 - r_side s =? 1 then z_side zt else 0)) by (apply color_flip; assumption).
    destruct (promo_code promo =? 0) eqn:Ep; destruct (capc =? 0) eqn:Ec; cbn [negb]; cbv iota; cbn [fst].
    all: split;
      [ apply set_meta_inv;
        [ | match goal with |- context [if ?c then Some _ else None] => destruct c end; reflexivity
          | match goal with |- context [if ?c then Some _ else None] => destruct c end; reflexivity ]
      | unfold scalar_inv; autorewrite with fields;
        match goal with |- context [if ?c then Some _ else None] => destruct c end;
        autorewrite with keys fields; autorewrite with keys fields; repeat split; try reflexivity; subst s0; autorewrite with fields keys; try exact Hcolor ].
    - apply N.eqb_eq in Ec. apply move_piece_inv; try assumption. rewrite Hb0, Htgt. exact Ec.
    - apply N.eqb_neq in Ec.
      assert (Hr : piece_inv zt (remove_piece zt s0 to)) by (apply remove_piece_inv; [exact Hp0|exact Ht|rewrite Hb0, Htgt; exact Ec]).
      apply move_piece_inv; try assumption; autorewrite with fields; rewrite ?Hb0; simp_nthd; [exact Hown0|reflexivity].
    - apply N.eqb_neq in Ep.
      assert (Hpn : promo <> None) by (intro X; subst promo; apply Ep; reflexivity).
      destruct (Hpromo Hpn) as [_ Hok].
      assert (Hk : kind_ok (promo_code promo)) by (destruct promo as [[]|]; try discriminate Hok; unfold kind_ok; cbn; lia).
      apply N.eqb_eq in Ec.
      apply add_piece_inv; [|apply make_piece_range; assumption|exact Ht|autorewrite with fields; rewrite Hb0; simp_nthd; rewrite Htgt; exact Ec].
      apply remove_piece_inv; [exact Hp0|exact Hf|rewrite Hb0; exact Hown0].
    - apply N.eqb_neq in Ep. apply N.eqb_neq in Ec.
      assert (Hpn : promo <> None) by (intro X; subst promo; apply Ep; reflexivity).
      destruct (Hpromo Hpn) as [_ Hok].
      assert (Hk : kind_ok (promo_code promo)) by (destruct promo as [[]|]; try discriminate Hok; unfold kind_ok; cbn; lia).
      assert (Hr : piece_inv zt (remove_piece zt s0 to)) by (apply remove_piece_inv; [exact Hp0|exact Ht|rewrite Hb0, Htgt; exact Ec]).
      apply add_piece_inv; [|apply make_piece_range; assumption|exact Ht|autorewrite with fields; rewrite Hb0; simp_nthd; reflexivity].
      apply remove_piece_inv; [exact Hr|exact Hf|]. autorewrite with fields. rewrite Hb0. simp_nthd. exact Hown0.
  Qed.

  Theorem ep_key_inv s from to :
    key_inv s -> r_side s < 2 -> from < 64 -> to < 64 -> from <> to ->
    nthd (r_board s) from 0 = make_piece (r_side s) PAWN -> r_ep s = Some to -> nthd (r_board s) to 0 = 0 ->
    capsq s to < 64 -> capsq s to <> from -> capsq s to <> to ->
    nthd (r_board s) (capsq s to) 0 = make_piece (1 - r_side s) PAWN ->
    key_inv (fst (do_move zt s (enc (Normal from to None)))).
  Proof.
    intros [Hp [He [Hc Hcol]]] Hside Hf Ht Hne Hown Hep Hto0 Hc1 Hc2 Hc3 Hcap. pose proof Hp as [Hlen _].
    unfold enc. cbn [promo_code].
    set (m := create_promotion from to 0).
    destruct (decode_promotion from to 0 Hf Ht ltac:(lia)) as [Df [Dt [Dp Dc]]]. fold m in Df, Dt, Dp, Dc.
    assert (Hkp : kind_ok PAWN) by (unfold kind_ok, PAWN; lia).
    assert (Hkm : pc_kind (make_piece (r_side s) PAWN) = PAWN) by (apply kind_make; assumption).
    assert (Hown0 : nthd (r_board s) from 0 <> 0) by (rewrite Hown; pose proof (make_piece_range _ _ Hside Hkp); lia).
    assert (Hcap0 : nthd (r_board s) (capsq s to) 0 <> 0).
    { rewrite Hcap. pose proof (make_piece_range (1 - r_side s) PAWN ltac:(lia) Hkp). lia. }
    unfold do_move. cbv beta zeta. rewrite Dc, Df, Dt, Dp. change (negb (0 =? 0)) with false. cbv iota.
    autorewrite with fields. rewrite Hown, Hkm, Hep. change (PAWN =? PAWN) with true. cbn [andb negb]. cbv beta iota zeta. rewrite !N.eqb_refl. cbv beta iota zeta.
    fold (capsq s to).
    set (s0 := set_meta s (1 - r_side s) (r_hmc s) (r_ply s + 1)%Z (r_castling s) (Some to) (key_set_ep zt (flip_side zt (r_key s)) None) (r_hist s)).
    assert (Hp0 : piece_inv zt s0) by (apply piece_inv_s0; exact Hp).
    assert (Hb0 : r_board s0 = r_board s) by reflexivity.
    assert (Hcolor : N.lxor (k_color (r_key s)) (z_side zt) = (if 1 - r_side s =? 1 then z_side zt else 0)) by (apply color_flip; assumption).
    cbn [fst]. split.
    - apply set_meta_inv;
        [ | match goal with |- context [if ?c then Some _ else None] => destruct c end; subst s0; autorewrite with fields keys; rewrite ?Hown; reflexivity
          | match goal with |- context [if ?c then Some _ else None] => destruct c end; subst s0; autorewrite with fields keys; rewrite ?Hown; reflexivity ].
      apply remove_piece_inv; [apply move_piece_inv; try assumption; rewrite Hb0; exact Hto0|exact Hc1|].
      autorewrite with fields. rewrite Hb0. simp_nthd. exact Hcap0.
    - unfold scalar_inv; autorewrite with fields;
        match goal with |- context [if ?c then Some _ else None] => destruct c end;
        autorewrite with keys fields; autorewrite with keys fields; repeat split; try reflexivity; subst s0; autorewrite with fields keys; try exact Hcolor; try exact Hc.
  Qed.

  (* ---- C04: for every pseudo-legal move of every well-formed state the incremental key stays equal to the scratch key ---- *)
  Theorem do_move_key_inv s m : rep_ok s -> key_inv s -> pseudo_legal (rep_abs s) m = true ->
    key_inv (fst (do_move zt s (enc m))).
  Proof.
    intros Hok Hk H. destruct m as [from to promo|ks].
    - destruct (pseudo_legal_shape s from to promo Hok H) as [Hf [Ht [Hne [kf [Hkf [Hown [Hcap [Hpromo Hcase]]]]]]]].
      destruct Hok as [Hwf [Hc [Hr He]]]. pose proof Hwf as [_ [Hside _]].
      destruct Hcase as [[Hflag Hshape]|[Hflag [-> [-> [Hep [Hto0 [Hclt [Hc1 [Hc2 [Hcp _]]]]]]]]]].
      + exact (normal_key_inv s from to kf (nthd (r_board s) to 0) promo Hk Hside Hf Ht Hne Hkf Hown eq_refl Hpromo Hflag).
      + exact (ep_key_inv s from to Hk Hside Hf Ht Hne Hown Hep Hto0 Hclt Hc1 Hc2 Hcp).
    - destruct Hok as [Hwf [Hc [Hr He]]]. pose proof Hwf as [_ [Hside _]].
      cbn [pseudo_legal] in H. unfold castle_ok in H. cbn [brd stm rights rep_abs] in H.
      repeat (apply andb_prop in H; destruct H as [H ?]).
      change (if r_side s =? 0 then White else Black) with (col (r_side s)) in *.
      assert (Hkk : kind_ok (kind_code King)) by apply kind_code_ok.
      assert (Hkr : kind_ok (kind_code Rook)) by apply kind_code_ok.
      apply castle_key_inv; [exact Hk|exact Hside| | | |].
      + destruct (side_cases s Hside) as [E|E]; rewrite E in *; cbn [N.eqb Pos.eqb];
          match goal with K : is_piece _ _ _ King = true |- _ => apply is_piece_inv in K; [|apply Hc; vm_compute; reflexivity|lia] end;
          match goal with K : nthd _ _ 0 = make_piece ?sd ?kk |- _ =>
            intro X; pose proof (make_piece_range sd kk ltac:(lia) Hkk) as R; rewrite <- K in R; unfold sq_at in X; cbn in X, R; lia end.
      + destruct (side_cases s Hside) as [E|E]; rewrite E in *; cbn [N.eqb Pos.eqb]; destruct ks;
          match goal with K : is_piece _ _ _ Rook = true |- _ => apply is_piece_inv in K; [|apply Hc; vm_compute; reflexivity|lia] end;
          match goal with K : nthd _ _ 0 = make_piece ?sd ?kk |- _ =>
            intro X; pose proof (make_piece_range sd kk ltac:(lia) Hkr) as R; rewrite <- K in R; unfold sq_at in X; cbn in X, R; lia end.
      + destruct (side_cases s Hside) as [E|E]; rewrite E in *; cbn [N.eqb Pos.eqb home_rank col] in *; destruct ks;
          repeat match goal with K : _ && _ = true |- _ => apply andb_prop in K; destruct K end;
          match goal with |- nthd _ ?q 0 = 0 => let v := eval vm_compute in q in change q with v end;
          apply is_empty_inv; assumption.
      + destruct (side_cases s Hside) as [E|E]; rewrite E in *; cbn [N.eqb Pos.eqb home_rank col] in *; destruct ks;
          repeat match goal with K : _ && _ = true |- _ => apply andb_prop in K; destruct K end;
          match goal with |- nthd _ ?q 0 = 0 => let v := eval vm_compute in q in change q with v end;
          apply is_empty_inv; assumption.
  Qed.

  Corollary do_move_key_scratch s m : rep_ok s -> key_inv s -> pseudo_legal (rep_abs s) m = true ->
    r_key (fst (do_move zt s (enc m))) = scratch_key zt (fst (do_move zt s (enc m))).
  Proof. intros. apply key_inv_scratch. apply do_move_key_inv; assumption. Qed.

  (* ---- the key is a function of (placement, side, rights, ep): no lists, no history ---- *)
  Definition position_key (b : list N) (side cr : N) (e : option N) : hashkey :=
    {| k_piece := bkp zt b; k_pawn := bkw zt b;
       k_ep := match e with Some x => z_ep zt (x mod 8) | None => 0 end;
       k_castling := z_castling zt cr;
       k_color := if side =? 1 then z_side zt else 0 |}.

  Theorem key_function_of_position s : key_inv s -> r_key s = position_key (r_board s) (r_side s) (r_castling s) (r_ep s).
  Proof.
    intros [[_ [_ [_ [_ [_ [_ [Hbk [Hbw _]]]]]]]] [He [Hc Hs]]]. apply hashkey_ext; cbn [position_key k_piece k_pawn k_ep k_castling k_color]; assumption.
  Qed.

  Corollary same_position_same_key s1 s2 : key_inv s1 -> key_inv s2 ->
    r_board s1 = r_board s2 -> r_side s1 = r_side s2 -> r_castling s1 = r_castling s2 -> r_ep s1 = r_ep s2 ->
    r_key s1 = r_key s2 /\ get_key (r_key s1) = get_key (r_key s2).
  Proof.
    intros H1 H2 Eb Es Ec Ee. rewrite (key_function_of_position s1 H1), (key_function_of_position s2 H2), Eb, Es, Ec, Ee. split; reflexivity.
  Qed.

  (* the pawn key depends on pawn placement only *)
  Definition pawn_part (x : N) : N := if pc_kind x =? PAWN then x else 0.
  Lemma cw_pawn_part x sq : cw zt x sq = cw zt (pawn_part x) sq.
  Proof. unfold cw, pawn_part. destruct (pc_kind x =? PAWN) eqn:E; [rewrite E; reflexivity|reflexivity]. Qed.
  Lemma SX_ext c (b1 b2 : list N) L : (forall sq, In sq L -> c (nthd b1 sq 0) sq = c (nthd b2 sq 0) sq) -> SX c b1 L = SX c b2 L.
  Proof.
    induction L as [|h t IH]; intro H; cbn [SX fold_right]; [reflexivity|]. fold (SX c b1 t). fold (SX c b2 t).
    rewrite (H h (or_introl eq_refl)), IH; [reflexivity|]. intros sq Hin. apply H. right. exact Hin.
  Qed.
  Theorem pawn_key_depends_on_pawns_only b1 b2 :
    (forall sq, sq < 64 -> pawn_part (nthd b1 sq 0) = pawn_part (nthd b2 sq 0)) -> bkw zt b1 = bkw zt b2.
  Proof.
    intro H. unfold bkw. apply SX_ext. intros sq Hin. apply Chess.RulesFacts.in_all_squares in Hin.
    rewrite (cw_pawn_part (nthd b1 sq 0)), (cw_pawn_part (nthd b2 sq 0)), (H sq Hin). reflexivity.
  Qed.
End M.
