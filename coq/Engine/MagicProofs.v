(* Lifting the finite magic-table sweep to every occupancy. *)
From CV Require Import Engine.Magic.
From Coq Require Import Lia.
Local Open Scope N_scope.

(* ---- every masked occupancy is one of the enumerated blocker sets ---- *)

Lemma odd_b_2x (b : bool) (x : N) : N.odd ((if b then 1 else 0) + 2 * x) = b.
Proof.
  destruct b.
  - rewrite N.odd_add_mul_2. reflexivity.
  - rewrite N.add_0_l. rewrite N.odd_mul, N.odd_2. reflexivity.
Qed.

Lemma div2_b_2x (b : bool) (x : N) : N.div2 ((if b then 1 else 0) + 2 * x) = x.
Proof.
  destruct b.
  - replace (1 + 2 * x) with (N.succ_double x) by (rewrite N.succ_double_spec; lia).
    apply N.div2_succ_double.
  - rewrite N.add_0_l. replace (2 * x) with (N.double x) by (rewrite N.double_spec; lia).
    apply N.div2_double.
Qed.

Lemma land_bit (occ s : N) : N.land occ (bit s) = if N.testbit occ s then bit s else 0.
Proof.
  unfold bit. apply N.bits_inj. intro n.
  rewrite N.land_spec. rewrite N.shiftl_1_l.
  destruct (N.eq_dec n s) as [->|Hne].
  - rewrite N.pow2_bits_true. destruct (N.testbit occ s).
    + rewrite N.pow2_bits_true. reflexivity.
    + rewrite N.bits_0. reflexivity.
  - rewrite N.pow2_bits_false by congruence. rewrite andb_false_r.
    destruct (N.testbit occ s).
    + rewrite N.pow2_bits_false by congruence. reflexivity.
    + rewrite N.bits_0. reflexivity.
Qed.

Lemma pdep_pext (occ : N) (l : list N) : pdep (pext occ l) l = N.land occ (mask_of l).
Proof.
  induction l as [|s r IH].
  - cbn. rewrite N.land_0_r. reflexivity.
  - cbn [pdep pext]. rewrite odd_b_2x, div2_b_2x, IH.
    unfold mask_of. cbn [map lor_list fold_right]. fold (lor_list (map bit r)). fold (mask_of r).
    rewrite N.land_lor_distr_r. rewrite land_bit. reflexivity.
Qed.

Lemma pext_bound (occ : N) (l : list N) : pext occ l < 2 ^ N.of_nat (length l).
Proof.
  induction l as [|s r IH].
  - cbn. lia.
  - cbn [pext length]. rewrite Nat2N.inj_succ, N.pow_succ_r'.
    destruct (N.testbit occ s); lia.
Qed.

Lemma in_range (n : nat) (x : N) : x < N.of_nat n -> In x (range n).
Proof.
  intro H. unfold range. apply in_map_iff. exists (N.to_nat x). split.
  - apply N2Nat.id.
  - apply in_seq. lia.
Qed.

(* ---- the spec walk does not look at the last square of a ray ---- *)

Fixpoint walk_deps (f r df dr : Z) (fuel : nat) : list N :=
  match fuel with
  | O => []
  | S k =>
    let f' := (f + df)%Z in
    let r' := (r + dr)%Z in
    if on_board f' r' then
      (if on_board (f' + df) (r' + dr) then [sq_of f' r'] else []) ++ walk_deps f' r' df dr k
    else []
  end.

Lemma walk_off (occ : N) (f r df dr : Z) (k : nat) :
  on_board (f + df) (r + dr) = false -> walk occ f r df dr k = 0.
Proof. destruct k; cbn; [reflexivity|]. intros ->. reflexivity. Qed.

Lemma walk_ext (occ occ' : N) (df dr : Z) (fuel : nat) :
  forall f r,
    (forall s, In s (walk_deps f r df dr fuel) -> N.testbit occ s = N.testbit occ' s) ->
    walk occ f r df dr fuel = walk occ' f r df dr fuel.
Proof.
  induction fuel as [|k IH]; intros f r H; [reflexivity|].
  cbn [walk walk_deps] in *.
  destruct (on_board (f + df) (r + dr)) eqn:Hb; [|reflexivity].
  f_equal.
  destruct (on_board (f + df + df) (r + dr + dr)) eqn:Hn.
  - rewrite <- (H (sq_of (f + df) (r + dr))) by (cbn; left; reflexivity).
    destruct (N.testbit occ (sq_of (f + df) (r + dr))); [reflexivity|].
    apply IH. intros s Hs. apply H. cbn. right. exact Hs.
  - rewrite !(walk_off _ _ _ _ _ _ Hn). destruct (N.testbit occ _), (N.testbit occ' _); reflexivity.
Qed.

Definition spec_deps (dirs : list (Z * Z)) (s : N) : list N :=
  flat_map (fun d => walk_deps (file_of s) (rank_of s) (fst d) (snd d) 7) dirs.

Lemma walk_dirs_ext (dirs : list (Z * Z)) (occ occ' s : N) :
  (forall x, In x (spec_deps dirs s) -> N.testbit occ x = N.testbit occ' x) ->
  walk_dirs dirs occ s = walk_dirs dirs occ' s.
Proof.
  unfold walk_dirs, spec_deps. induction dirs as [|d ds IH]; intro H; [reflexivity|].
  cbn [map lor_list fold_right flat_map] in *. f_equal.
  - apply walk_ext. intros x Hx. apply H. apply in_or_app. left. exact Hx.
  - apply IH. intros x Hx. apply H. apply in_or_app. right. exact Hx.
Qed.

Lemma walk_dirs_mask (dirs : list (Z * Z)) (occ m s : N) :
  forallb (fun x => N.testbit m x) (spec_deps dirs s) = true ->
  walk_dirs dirs (N.land occ m) s = walk_dirs dirs occ s.
Proof.
  intro H. apply walk_dirs_ext. intros x Hx.
  rewrite N.land_spec. rewrite forallb_forall in H. rewrite (H x Hx). apply andb_true_r.
Qed.

(* ---- the lifting theorem ---- *)
Section Lift.
  Variable magics widths : list N.
  Variable mask : N -> N.
  Variable attacks : N -> N -> N.
  Variable dirs : list (Z * Z).

  (* side conditions, all decidable per square *)
  Definition side_ok (sq : N) : bool :=
    (mask_of (bits_of (mask sq)) =? mask sq)
    && (N.of_nat (length (bits_of (mask sq))) <=? nthN widths sq)
    && forallb (fun x => N.testbit (mask sq) x) (spec_deps dirs sq).

  Theorem lookup_exact (sq : N) :
    side_ok sq = true ->
    sweep_sq magics widths mask attacks (walk_dirs dirs) sq = true ->
    forall occ, slider_lookup magics widths mask attacks sq occ = walk_dirs dirs occ sq.
  Proof.
    unfold side_ok. intros Hside Hsweep occ.
    apply andb_prop in Hside. destruct Hside as [Hside Hdeps].
    apply andb_prop in Hside. destruct Hside as [Hmask Hlen].
    apply N.eqb_eq in Hmask. apply N.leb_le in Hlen.
    unfold sweep_sq in Hsweep. rewrite forallb_forall in Hsweep.
    set (i := pext occ (bits_of (mask sq))).
    assert (Hin : In i (indices widths sq)).
    { unfold indices. apply in_range. rewrite N2Nat.id.
      eapply N.lt_le_trans; [apply pext_bound|]. apply N.pow_le_mono_r; [lia|exact Hlen]. }
    specialize (Hsweep i Hin). cbv zeta in Hsweep. apply N.eqb_eq in Hsweep.
    assert (Hb : blockers_from_index i (mask sq) = N.land occ (mask sq)).
    { unfold blockers_from_index, i. rewrite pdep_pext, Hmask. reflexivity. }
    rewrite Hb in Hsweep.
    unfold slider_lookup. unfold lookup_in in *.
    rewrite <- N.land_assoc, N.land_diag in Hsweep.
    rewrite Hsweep. apply walk_dirs_mask. exact Hdeps.
  Qed.
End Lift.
