(* `position <fen> moves <line>` on text: printing a legal position as FEN and a legal line as UCI move words, and feeding both to the
   front-end model, reaches exactly the position the rules give for that line. *)
From Coq Require Import List String ZArith.
From CV Require Import Chess.Rules Chess.Fen Chess.TextProofs Chess.FenProofs Engine.UciSession.
Import ListNotations.

Fixpoint text_of_line (p : position) (ms : list move) : list string :=
  match ms with [] => [] | m :: r => uci_print p m :: text_of_line (make_move p m) r end.

Theorem play_text_of_line (ms : list move) : forall p, legal_line p ms = true -> play_text p (text_of_line p ms) = play p ms.
Proof.
  induction ms as [|m r IH]; intros p H; [reflexivity|]. cbn [legal_line] in H. apply andb_prop in H as [H1 H2].
  cbn [text_of_line play_text play]. rewrite (uci_roundtrip p m H1). apply IH. exact H2.
Qed.

Theorem position_command_on_text (s p0 : position) (ms : list move) :
  List.length (brd p0) = 64%nat -> (forall e, ep p0 = Some e -> (e < 64)%N) -> (0 <= clock p0)%Z -> (0 <= fullmove p0)%Z ->
  legal_line p0 ms = true ->
  ustep s (CPosition (fen_parse (fen_print p0)) (text_of_line p0 ms)) = play p0 ms.
Proof.
  intros Hb He Hc Hf Hl. rewrite (fen_roundtrip p0 Hb He Hc Hf). cbn [ustep root_of]. apply play_text_of_line. exact Hl.
Qed.
