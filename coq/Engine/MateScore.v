(* Mate scores: win_in / lost_in, is_mate, the one-ply adjustment of the search, and score2str (engine/value.h,
   engine/search.cpp), with the constants re-extracted from the source (Gen/Consts.v). *)
From Coq Require Import ZArith Bool Lia.
From CV Require Import Gen.Consts Engine.SearchDriver.
Local Open Scope Z_scope.

Definition win_in (ply : Z) : Z := VALUE_MATE - ply.
Definition lost_in (ply : Z) : Z := - win_in ply.

(* what the search does with a child's result on the way up: result += result > VALUE_DRAW ? -1 : 1 when is_mate *)
Definition adjust (v : Z) : Z := if is_mate v then (if 0 <? v then v - 1 else v + 1) else v.

Inductive uci_score := Cp (n : Z) | Mate (n : Z) | MateNeg (n : Z).     (* "cp n" / "mate n" / "mate -n" *)

Definition score2str (v : Z) : uci_score :=
  if v <=? LOST_IN_MAX_DEPTH then MateNeg ((VALUE_MATE + v + 1) / 2)
  else if WIN_IN_MAX_DEPTH <=? v then Mate ((VALUE_MATE - v + 1) / 2)
  else Cp (Z.quot (v * 100) PAWN_VALUE_EG).

(* ---- facts ---- *)
Lemma consts_ok : WIN_IN_MAX_DEPTH = win_in MAX_DEPTH /\ LOST_IN_MAX_DEPTH = lost_in MAX_DEPTH /\ 0 < MAX_DEPTH /\
                  VALUE_MATE < VALUE_INFINITE /\ MAX_DEPTH < VALUE_MATE.
Proof. vm_compute. repeat split; reflexivity. Qed.

(* a mate delivered on the p-th ply from now is announced as ceil(p/2) MOVES *)
Lemma score2str_win p : 0 <= p <= MAX_DEPTH -> score2str (win_in p) = Mate ((p + 1) / 2).
Proof.
  intro H. unfold score2str, win_in. destruct consts_ok as [Hw [Hl [H0 [H1 H2]]]].
  replace (VALUE_MATE - p <=? LOST_IN_MAX_DEPTH) with false
    by (symmetry; apply Z.leb_gt; rewrite Hl; unfold lost_in, win_in; lia).
  replace (WIN_IN_MAX_DEPTH <=? VALUE_MATE - p) with true
    by (symmetry; apply Z.leb_le; rewrite Hw; unfold win_in; lia).
  f_equal. f_equal. lia.
Qed.

Lemma score2str_loss p : 0 <= p <= MAX_DEPTH -> score2str (lost_in p) = MateNeg ((p + 1) / 2).
Proof.
  intro H. unfold score2str, lost_in, win_in. destruct consts_ok as [Hw [Hl [H0 [H1 H2]]]].
  replace (- (VALUE_MATE - p) <=? LOST_IN_MAX_DEPTH) with true
    by (symmetry; apply Z.leb_le; rewrite Hl; unfold lost_in, win_in; lia).
  f_equal. f_equal. lia.
Qed.

(* values strictly inside the mate thresholds are printed as centipawns *)
Lemma score2str_cp v : LOST_IN_MAX_DEPTH < v < WIN_IN_MAX_DEPTH -> exists n, score2str v = Cp n.
Proof.
  intro H. unfold score2str.
  replace (v <=? LOST_IN_MAX_DEPTH) with false by (symmetry; apply Z.leb_gt; lia).
  replace (WIN_IN_MAX_DEPTH <=? v) with false by (symmetry; apply Z.leb_gt; lia).
  eexists. reflexivity.
Qed.

(* one ply up: "the child is mated in k plies" becomes "I mate in k+1 plies", and conversely *)
Lemma adjust_negate_loss k : 0 <= k < MAX_DEPTH -> adjust (- lost_in k) = win_in (k + 1).
Proof.
  intro H. unfold adjust, is_mate, lost_in, win_in. destruct consts_ok as [Hw [Hl [H0 [H1 H2]]]].
  rewrite Hw, Hl. unfold lost_in, win_in.
  replace (WIN_IN_MAX_DEPTH) with (VALUE_MATE - MAX_DEPTH) in * by (rewrite Hw; reflexivity).
  destruct (- - (VALUE_MATE - k) <=? - (VALUE_MATE - MAX_DEPTH)) eqn:E1;
  destruct (VALUE_MATE - MAX_DEPTH <=? - - (VALUE_MATE - k)) eqn:E2; cbn [orb];
    try (apply Z.leb_le in E1); try (apply Z.leb_gt in E1); try (apply Z.leb_le in E2); try (apply Z.leb_gt in E2); try lia;
    (destruct (0 <? - - (VALUE_MATE - k)) eqn:E3; [lia|apply Z.ltb_ge in E3; lia]).
Qed.

Lemma adjust_negate_win k : 0 <= k < MAX_DEPTH -> adjust (- win_in k) = lost_in (k + 1).
Proof.
  intro H. unfold adjust, is_mate, lost_in, win_in. destruct consts_ok as [Hw [Hl [H0 [H1 H2]]]].
  rewrite Hw, Hl. unfold lost_in, win_in.
  destruct (- (VALUE_MATE - k) <=? - (VALUE_MATE - MAX_DEPTH)) eqn:E1;
  destruct (VALUE_MATE - MAX_DEPTH <=? - (VALUE_MATE - k)) eqn:E2; cbn [orb];
    try (apply Z.leb_le in E1); try (apply Z.leb_gt in E1); try (apply Z.leb_le in E2); try (apply Z.leb_gt in E2); try lia;
    (destruct (0 <? - (VALUE_MATE - k)) eqn:E3; [apply Z.ltb_lt in E3; lia|lia]).
Qed.

(* values outside the mate range are passed up unchanged *)
Lemma adjust_nonmate v : LOST_IN_MAX_DEPTH < v < WIN_IN_MAX_DEPTH -> adjust v = v.
Proof.
  intro H. unfold adjust, is_mate.
  replace (v <=? LOST_IN_MAX_DEPTH) with false by (symmetry; apply Z.leb_gt; lia).
  replace (WIN_IN_MAX_DEPTH <=? v) with false by (symmetry; apply Z.leb_gt; lia).
  reflexivity.
Qed.
