(* Polyglot book files: reader loop, record decoding, selection policies, castling decoding
   (polyglot.cpp:327-454), as coded after the repairs of D18/D19/D20. *)
From CV Require Export Engine.Encoding.
From Coq Require Import Lia.
Local Open Scope N_scope.

Definition be (bytes : list N) : N := fold_left (fun acc b => acc * 256 + b) bytes 0.

Record entry := { e_key : N; e_move : N; e_weight : N }.

(* one 16-byte record: key (8, big endian), move (2), weight (2), learn (4, ignored) *)
Definition decode_entry (c : list N) : entry :=
  let key := be (firstn 8 c) in
  let mc := be (firstn 2 (skipn 8 c)) in
  let from_rank := N.land (N.shiftr mc 9) 7 in
  let from_file := N.land (N.shiftr mc 6) 7 in
  let to_rank := N.land (N.shiftr mc 3) 7 in
  let to_file := N.land mc 7 in
  let pcode := N.land (N.shiftr mc 12) 7 in
  let promotion := if pcode =? 0 then 0 else 1 + pcode in        (* PAWN + code *)
  {| e_key := key;
     e_move := create_promotion (from_rank * 8 + from_file) (to_rank * 8 + to_file) promotion;
     e_weight := be (firstn 2 (skipn 10 c)) |}.

(* while (stream.read(entry, 16)) insert: a short read ends the loop without inserting *)
Fixpoint read_loop (fuel : nat) (bytes : list N) : list entry :=
  match fuel with
  | O => []
  | S k =>
    let c := firstn 16 bytes in
    if (length c =? 16)%nat then decode_entry c :: read_loop k (skipn 16 bytes) else []
  end.
Definition read_book (bytes : list N) : list entry := read_loop (S (length bytes)) bytes.

(* _hashmap[key]: the moves recorded for a key, in file order *)
Definition lookup (b : list entry) (key : N) : list (N * N) :=
  map (fun e => (e_move e, e_weight e)) (filter (fun e => e_key e =? key) b).
Definition contains (b : list entry) (key : N) : bool := existsb (fun e => e_key e =? key) b.

Definition sum_weights (l : list (N * N)) : N := fold_right (fun mw acc => snd mw + acc) 0 l.

(* the cumulative-weight walk of get_random_move *)
Fixpoint pick_loop (l : list (N * N)) (w sample : N) (i : nat) : nat :=
  match l with
  | [] => i
  | mw :: t => if w + snd mw <=? sample then pick_loop t (w + snd mw) sample (S i) else i
  end.
(* draw = _dist(_gen); None = no playable move (all weights zero) *)
Definition random_index (l : list (N * N)) (draw : N) : option nat :=
  let sum := sum_weights l in
  if sum =? 0 then None else Some (pick_loop l 0 (draw mod sum) 0).

(* std::max_element with operator< on the weight: the FIRST entry of maximal weight *)
Fixpoint best_index_from (l : list (N * N)) (i : nat) (bi : nat) (bw : N) : nat :=
  match l with
  | [] => bi
  | mw :: t => if bw <? snd mw then best_index_from t (S i) i (snd mw) else best_index_from t (S i) bi bw
  end.
Definition best_index (l : list (N * N)) : nat :=
  match l with [] => O | mw :: t => best_index_from t 1 0 (snd mw) end.

(* decode_move: castling is stored as king-takes-rook (e1h1 ...); also accept the king's two-square move *)
Definition W_KING_CODE : N := 6.
Definition B_KING_CODE : N := 12.
Definition decode_move (mv : N) (piece_at : N -> N) : N :=
  let f := mv_from mv in let t := mv_to mv in
  if (f =? 4) && ((t =? 7) || (t =? 6)) && (piece_at f =? W_KING_CODE) then KING_CASTLING_MOVE
  else if (f =? 4) && ((t =? 0) || (t =? 2)) && (piece_at f =? W_KING_CODE) then QUEEN_CASTLING_MOVE
  else if (f =? 60) && ((t =? 63) || (t =? 62)) && (piece_at f =? B_KING_CODE) then KING_CASTLING_MOVE
  else if (f =? 60) && ((t =? 56) || (t =? 58)) && (piece_at f =? B_KING_CODE) then QUEEN_CASTLING_MOVE
  else mv.
