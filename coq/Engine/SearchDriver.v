(* Model of the iteration driver of the search: Search::Search (depth selection), Search::go,
   Search::iter_search with its aspiration loop (engine/search.cpp).  The root call of Search::search and
   the two limit polls are ORACLES consumed from lists, so the same function (a) is quantified over all
   oracles in the theorems and (b) replays the calls recorded from the real engine (hooks) in the
   correspondence.  No proofs in this file. *)
From Coq Require Import ZArith List Bool.
From CV Require Import Gen.Consts.
Import ListNotations.
Local Open Scope Z_scope.

Definition INF : Z := VALUE_INFINITE.
Definition is_mate (v : Z) : bool := (v <=? LOST_IN_MAX_DEPTH) || (WIN_IN_MAX_DEPTH <=? v).

(* what one root call of Search::search leaves behind: return value, head of the root pv (None = empty
   list), and the stop flag after the call *)
Record rres := { r_val : Z; r_pv0 : option Z; r_stop : bool }.

Inductive event :=
| ECall (d a b : Z)                      (* search(_position, d, a, b, info + 1) *)
| EInfo (d v : Z) (pv0 : option Z).      (* print_info *)

Definition omove_eqb (a b : option Z) : bool :=
  match a, b with Some x, Some y => x =? y | None, None => true | _, _ => false end.

(* compute_search_delta: number of consecutive equal entries previous_moves[cur-1], [cur-2], ... ;
   the list holds previous_moves most recent first *)
Fixpoint repeats (l : list (option Z)) : nat :=
  match l with
  | a :: ((b :: _) as t) => if omove_eqb a b then S (repeats t) else O
  | _ => O
  end.
Definition delta_of (prevs : list (option Z)) : Z := nth (repeats prevs) delta_table 6.
(* delta = min((Value)(max((float)delta, 100.0f) * 1.25f), VALUE_INFINITE) *)
Definition widen (delta : Z) : Z := Z.min (Z.max delta 100 * 5 / 4) INF.

Record asp_out := { ao_val : Z; ao_pv0 : option Z; ao_stop : bool; ao_min : Z; ao_max : Z;
                    ao_roots : list rres; ao_brk : list bool; ao_ev : list event }.

(* the while(true) aspiration loop of one iteration; None = oracle list or fuel exhausted *)
Fixpoint aspire (fuel : nat) (d mn mx delta : Z) (roots : list rres) (brk : list bool) (ev : list event) : option asp_out :=
  match fuel with
  | O => None
  | S f =>
    match roots with
    | [] => None
    | r :: roots' =>
      let ev' := ev ++ [ECall d mn mx] in
      let v := r_val r in
      let fin mn' mx' stop brk' := Some {| ao_val := v; ao_pv0 := r_pv0 r; ao_stop := stop; ao_min := mn'; ao_max := mx';
                                           ao_roots := roots'; ao_brk := brk'; ao_ev := ev' |} in
      let next mn' mx' :=
        if r_stop r then fin mn' mx' true brk
        else match brk with
             | [] => None
             | b :: brk' => if b then fin mn' mx' true brk'          (* check_limits() fired: it sets the flag *)
                            else aspire f d mn' mx' (widen delta) roots' brk' ev'
             end in
      if v <=? mn then next (Z.max (mn - delta) (- INF)) (Z.min (v + 1) INF)
      else if mx <=? v then next (Z.max (v - 1) (- INF)) (Z.min (mx + delta) INF)
      else fin mn mx (r_stop r) brk
    end
  end.

Section Driver.
  Variable search_depth : Z.            (* _search_depth *)
  Variable asp_fuel : nat.

  (* the while (!stop_search) loop; [cur] = _current_depth before the increment *)
  Fixpoint iterate (fuel : nat) (cur prev_score : Z) (prevs : list (option Z)) (mn mx : Z) (best : option Z)
           (roots : list rres) (brk tbrk : list bool) (ev : list event) : option (option Z * list event) :=
    match fuel with
    | O => None
    | S f =>
      let cur := cur + 1 in
      let delta := delta_of prevs in
      let mn1 := if 2 <? cur then Z.max (prev_score - delta) (- INF) else mn in
      let mx1 := if 2 <? cur then Z.min (prev_score + delta) INF else mx in
      match aspire asp_fuel cur mn1 mx1 delta roots brk ev with
      | None => None
      | Some o =>
        let v := ao_val o in
        let best' := if ao_stop o then best else ao_pv0 o in
        let ev' := if ao_stop o then ao_ev o else ao_ev o ++ [EInfo cur v (ao_pv0 o)] in
        if ao_stop o then Some (best', ev')
        else if is_mate v then Some (best', ev')
        else if search_depth <=? cur then Some (best', ev')
        else match tbrk with
             | [] => None
             | b :: tbrk' => if b then Some (best', ev')
                             else iterate f cur v (best' :: prevs) (ao_min o) (ao_max o) best' (ao_roots o) (ao_brk o) tbrk' ev'
             end
      end
    end.

  (* Search::go (after init): iter_search, then the answer *)
  Definition go (fuel : nat) (root_moves : list Z) (stop0 : bool) (roots : list rres) (brk tbrk : list bool)
    : option (option Z * list event) :=
    let res := if stop0 then Some (None, [])        (* while (!stop_search) never entered *)
               else iterate fuel 0 0 [None] (- INF) INF None roots brk tbrk [] in
    match res with
    | None => None
    | Some (best, ev) => Some (match best with Some m => Some m | None => hd_error root_moves end, ev)
    end.
End Driver.

(* Search::Search: which depth limit a go command gets *)
Definition search_depth_of (infinite : bool) (depth movetime timeleft : Z) : Z :=
  if infinite then MAX_DEPTH
  else if negb (depth =? 0) then Z.min depth MAX_DEPTH
  else if negb (movetime =? 0) then MAX_DEPTH
  else if negb (timeleft =? 0) then MAX_DEPTH
  else 7.

Definition info_depths (ev : list event) : list Z :=
  flat_map (fun e => match e with EInfo d _ _ => [d] | _ => [] end) ev.
Definition call_depths (ev : list event) : list Z :=
  flat_map (fun e => match e with ECall d _ _ => [d] | _ => [] end) ev.
