(* types.h / types.cpp: the packed Move and MoveInfo words, as coded. *)
From CV Require Export Base.Bits.
Local Open Scope N_scope.

(* Move: 0-5 from, 6-11 to, 12-14 promotion, 15-16 castling *)
Definition create_move (from to : N) : N := N.lor (N.shiftl to 6) from.
Definition create_promotion (from to promo : N) : N :=
  N.lor (N.lor (N.shiftl promo 12) (N.shiftl to 6)) from.
Definition KING_CASTLING : N := 5.     (* W_OO | B_OO *)
Definition QUEEN_CASTLING : N := 10.   (* W_OOO | B_OOO *)
Definition create_castling (c : N) : N := N.shiftl (if c =? KING_CASTLING then 1 else 2) 15.

Definition mv_from (m : N) : N := N.land m 0x3F.
Definition mv_to (m : N) : N := N.land (N.shiftr m 6) 0x3F.
Definition mv_promotion (m : N) : N := N.land (N.shiftr m 12) 0x7.
Definition mv_castling (m : N) : N :=
  let p := N.land (N.shiftr m 15) 0x3 in
  if p =? 0 then 0 else if p =? 1 then KING_CASTLING else QUEEN_CASTLING.

Definition NO_MOVE : N := 0.
Definition KING_CASTLING_MOVE : N := create_castling KING_CASTLING.
Definition QUEEN_CASTLING_MOVE : N := create_castling QUEEN_CASTLING.

(* MoveInfo: 0-2 captured, 3-6 last castling rights, 7-12 last ep square, 13 last ep present,
   14 ep capture, 15-22 half-move counter.  NO_SQUARE (64) is modelled as [None]. *)
Definition b2n (b : bool) : N := if b then 1 else 0.
Definition create_moveinfo (captured castling : N) (last_ep : option N) (ep : bool) (hmc : N) : N :=
  match last_ep with
  | Some s =>
    N.lor (N.lor (N.lor (N.lor (N.lor (N.shiftl hmc 15) (N.shiftl (b2n ep) 14)) (N.shiftl 1 13))
                        (N.shiftl s 7)) (N.shiftl castling 3)) captured
  | None =>
    N.lor (N.lor (N.lor (N.shiftl hmc 15) (N.shiftl (b2n ep) 14)) (N.shiftl castling 3)) captured
  end.
Definition mi_captured (mi : N) : N := N.land mi 0x7.
Definition mi_castling (mi : N) : N := N.land (N.shiftr mi 3) 0xF.
Definition mi_last_ep (mi : N) : option N :=
  if N.land (N.shiftr mi 13) 1 =? 1 then Some (N.land (N.shiftr mi 7) 0x3F) else None.
Definition mi_ep (mi : N) : bool := N.land (N.shiftr mi 14) 1 =? 1.
Definition mi_hmc (mi : N) : N := N.land (N.shiftr mi 15) 0xFF.
