(* C18: PolyglotBook::hash as coded (engine_hash: XOR over the piece LISTS, castling bits, the en-passant test on the two
   bitboard families, side to move) equals the published definition (spec_hash) on the state the constructor builds from
   ANY position with a 64-square board - for any tables that agree with the published Random64 array the way Properties_C18's
   table_check states (re-checked against the working tree's tables on every run). *)
From CV Require Import Engine.PositionRep Engine.RepProofs Engine.RepRoundTrip Engine.RepAbs Engine.RepRefine Engine.RepRefineLegal
     Engine.KeyScratch Engine.KeyScratchMove Engine.KeyScratchInit Engine.Polyglot Engine.Magic Engine.MagicProofs
     Base.NIter Base.Bits Base.Geom Base.FileRank Chess.RulesFacts.
From Coq Require Import Lia List Bool ZArith Btauto Permutation.
Import ListNotations.
Local Open Scope N_scope.

(* ---- bits ---- *)
Lemma testbit_bit q i : N.testbit (bit q) i = (q =? i).
Proof. unfold bit. rewrite N.shiftl_1_l. apply N.pow2_bits_eqb. Qed.

Lemma land_bit q p : N.land (bit q) p = if N.testbit p q then bit q else 0.
Proof.
  apply N.bits_inj. intro i. rewrite N.land_spec, testbit_bit.
  destruct (N.testbit p q) eqn:E.
  - rewrite testbit_bit. destruct (q =? i) eqn:Q; [apply N.eqb_eq in Q; subst i; rewrite E; reflexivity|reflexivity].
  - rewrite N.bits_0. destruct (q =? i) eqn:Q; [apply N.eqb_eq in Q; subst i; rewrite E; reflexivity|reflexivity].
Qed.
Lemma bit_nonzero q : bit q <> 0.
Proof. intro H. assert (K : N.testbit (bit q) q = true) by (rewrite testbit_bit; apply N.eqb_refl). rewrite H, N.bits_0 in K. discriminate. Qed.

(* ---- the two bitboard families after the constructor's fold ---- *)
Definition kb_of (acc : list (list N) * list N * list N) : list N := snd (fst acc).
Definition cb_of (acc : list (list N) * list N * list N) : list N := snd acc.

Lemma nthd_upd7 (l : list N) i j x : length l = 7%nat -> i < 7 -> nthd (updN l i x) j 0 = if j =? i then x else nthd l j 0.
Proof.
  intros H Hi. destruct (j =? i) eqn:E.
  - apply N.eqb_eq in E. subst j. apply nthd_updN_same. lia.
  - apply N.eqb_neq in E. apply nthd_updN_other. congruence.
Qed.
Lemma nthd_upd2 (l : list N) i j x : length l = 2%nat -> i < 2 -> nthd (updN l i x) j 0 = if j =? i then x else nthd l j 0.
Proof.
  intros H Hi. destruct (j =? i) eqn:E.
  - apply N.eqb_eq in E. subst j. apply nthd_updN_same. lia.
  - apply N.eqb_neq in E. apply nthd_updN_other. congruence.
Qed.
Lemma pc_kind_lt7 pc : pc_kind pc < 7.
Proof. unfold pc_kind. destruct (pc =? 0); [lia|]. pose proof (N.mod_lt (pc - 1) 6 ltac:(lia)). lia. Qed.
Lemma pc_color_lt2 pc : pc_color pc < 2.
Proof. unfold pc_color. destruct (pc <? 7); lia. Qed.

Lemma fold_place_bb b L : forall ls kb cb, length kb = 7%nat -> length cb = 2%nat ->
  let acc := fold_left (place_fn b) L (ls, kb, cb) in
  length (kb_of acc) = 7%nat /\ length (cb_of acc) = 2%nat /\
  (forall k i, N.testbit (nthd (kb_of acc) k 0) i = N.testbit (nthd kb k 0) i || existsb (fun sq => (sq =? i) && negb (nthd b sq 0 =? 0) && (pc_kind (nthd b sq 0) =? k)) L) /\
  (forall c i, N.testbit (nthd (cb_of acc) c 0) i = N.testbit (nthd cb c 0) i || existsb (fun sq => (sq =? i) && negb (nthd b sq 0 =? 0) && (pc_color (nthd b sq 0) =? c)) L).
Proof.
  induction L as [|h t IH]; intros ls kb cb Hk Hc; cbn [fold_left].
  - cbv zeta. unfold kb_of, cb_of. cbn [fst snd existsb]. repeat split; try assumption; intros; rewrite orb_false_r; reflexivity.
  - rewrite place_fn_eq. destruct (nthd b h 0 =? 0) eqn:E0.
    + destruct (IH ls kb cb Hk Hc) as [A [B [C D]]]. cbv zeta in *. split; [exact A|]. split; [exact B|]. split.
      * intros k i. rewrite C. cbn [existsb]. rewrite E0. cbn [negb andb]. rewrite andb_false_r. reflexivity.
      * intros c i. rewrite D. cbn [existsb]. rewrite E0. cbn [negb andb]. rewrite andb_false_r. reflexivity.
    + set (pc := nthd b h 0) in *.
      match goal with |- context [fold_left (place_fn b) t (?a, ?k, ?c)] =>
        destruct (IH a k c ltac:(rewrite updN_length; exact Hk) ltac:(rewrite updN_length; exact Hc)) as [A [B [C D]]] end.
      cbv zeta in *. split; [exact A|]. split; [exact B|]. split.
      * intros k i. rewrite C. rewrite (nthd_upd7 kb (pc_kind pc) k _ Hk (pc_kind_lt7 pc)). cbn [existsb]. fold pc. rewrite E0. cbn [negb].
        destruct (k =? pc_kind pc) eqn:Ek.
        -- apply N.eqb_eq in Ek. subst k. rewrite N.lor_spec, testbit_bit, N.eqb_refl. rewrite andb_true_r. btauto.
        -- rewrite (N.eqb_sym (pc_kind pc) k), Ek. rewrite andb_false_r. reflexivity.
      * intros c i. rewrite D. rewrite (nthd_upd2 cb (pc_color pc) c _ Hc (pc_color_lt2 pc)). cbn [existsb]. fold pc. rewrite E0. cbn [negb].
        destruct (c =? pc_color pc) eqn:Ec.
        -- apply N.eqb_eq in Ec. subst c. rewrite N.lor_spec, testbit_bit, N.eqb_refl. rewrite andb_true_r. btauto.
        -- rewrite (N.eqb_sym (pc_color pc) c), Ec. rewrite andb_false_r. reflexivity.
Qed.
Section P.
  Variable T : N -> N -> N.
  Definition ztT : zobrist := {| z_piece := T; z_castling := fun _ => 0; z_side := 0; z_ep := fun _ => 0 |}.

  Lemma engine_pieces_eq s : length (r_lists s) = 13%nat ->
    engine_pieces T s = N.lxor (pk ztT (r_lists s)) (wkp ztT (r_lists s)).
  Proof.
    intro H. destruct (lists13 (r_lists s) H) as [a0 [a1 [a2 [a3 [a4 [a5 [a6 [a7 [a8 [a9 [a10 [a11 [a12 E]]]]]]]]]]]]].
    unfold engine_pieces, pk, wkp. rewrite E. unfold nthd. cbn [fold_left].
    repeat match goal with |- context [N.to_nat ?k] => let v := eval vm_compute in (N.to_nat k) in change (N.to_nat k) with v end.
    cbn [nth].
    change (fun (k sq : N) => N.lxor k (T ?pc sq)) with (fun (k sq : N) => N.lxor k (z_piece ztT pc sq)).
    repeat rewrite (xl_acc ztT). xor_solve.
  Qed.
End P.

Lemma code_piece_code o : code_piece (piece_code o) = o.
Proof. destruct o as [[[] []]|]; reflexivity. Qed.
Lemma piece_code_zero o : piece_code o = 0 -> o = None.
Proof. destruct o as [[[] []]|]; cbn; intro H; try discriminate H; reflexivity. Qed.
Lemma piece_code_range o : o <> None -> 1 <= piece_code o <= 12.
Proof. destruct o as [[[] []]|]; cbn; intro H; try lia. contradiction H; reflexivity. Qed.

Lemma SX_add c1 c2 b L : N.lxor (SX c1 b L) (SX c2 b L) = SX (fun pc sq => N.lxor (c1 pc sq) (c2 pc sq)) b L.
Proof. induction L as [|h t IH]; [reflexivity|]. rewrite !SX_cons, <- IH. xor_solve. Qed.

Lemma xor_list_acc l a : fold_left N.lxor l a = N.lxor a (fold_right N.lxor 0 l).
Proof. revert a. induction l as [|h t IH]; intro a; cbn [fold_left fold_right]; [rewrite N.lxor_0_r; reflexivity|]. rewrite IH. xor_solve. Qed.
Lemma xor_list_right l : xor_list l = fold_right N.lxor 0 l.
Proof. unfold xor_list. rewrite xor_list_acc. apply N.lxor_0_l. Qed.

Section H.
  Variable zt : zobrist.
  Variables (R : N -> N) (T : N -> N -> N) (C : N -> N) (E : N -> N) (TURN : N).
  Hypothesis HT : forall pc sq, 1 <= pc <= 12 -> sq < 64 -> T pc sq = R (code_offset pc sq).
  Hypothesis HC : forall i, i < 4 -> C i = R (768 + i).
  Hypothesis HE : forall f, f < 8 -> E f = R (772 + f).
  Hypothesis HTURN : TURN = R 780.

  (* pieces *)
  Lemma piece_term (bd : Rules.board) sq : sq < 64 ->
    N.lxor (cp (ztT T) (nthd (map piece_code bd) sq 0) sq) (cw (ztT T) (nthd (map piece_code bd) sq 0) sq) =
    match bget bd sq with Some pc => R (pg_offset pc sq) | None => 0 end.
  Proof.
    intro Hsq. assert (Hn : nthd (map piece_code bd) sq 0 = piece_code (bget bd sq)).
    { unfold nthd, bget. change 0 with (piece_code None). apply map_nth. }
    rewrite Hn. destruct (bget bd sq) as [pc|] eqn:Eb; [|reflexivity].
    pose proof (piece_code_range (Some pc) ltac:(discriminate)) as Hr.
    unfold cp, cw. cbn [z_piece ztT].
    destruct (piece_code (Some pc) =? 0) eqn:E0; [apply N.eqb_eq in E0; lia|]. cbn [orb].
    assert (HTpc : T (piece_code (Some pc)) sq = R (pg_offset pc sq)).
    { rewrite (HT _ _ Hr Hsq). unfold code_offset. rewrite code_piece_code. reflexivity. }
    destruct (pc_kind (piece_code (Some pc)) =? PAWN); rewrite HTpc; [apply N.lxor_0_l|apply N.lxor_0_r].
  Qed.

  Lemma pieces_eq_gen (bd : Rules.board) L : (forall sq, In sq L -> sq < 64) ->
    SX (fun pc sq => N.lxor (cp (ztT T) pc sq) (cw (ztT T) pc sq)) (map piece_code bd) L =
    fold_right N.lxor 0 (map (fun sq => match bget bd sq with Some pc => R (pg_offset pc sq) | None => 0 end) L).
  Proof.
    induction L as [|h t IH]; intro H; [reflexivity|]. rewrite SX_cons. cbn [map fold_right].
    rewrite IH by (intros sq Hin; apply H; right; exact Hin). rewrite piece_term by (apply H; left; reflexivity). reflexivity.
  Qed.

  Lemma pieces_eq (bd : Rules.board) :
    SX (fun pc sq => N.lxor (cp (ztT T) pc sq) (cw (ztT T) pc sq)) (map piece_code bd) all_squares = spec_pieces R bd.
  Proof. unfold spec_pieces. rewrite xor_list_right. apply pieces_eq_gen. intros sq Hin. apply in_all_squares. exact Hin. Qed.

  (* castling *)
  Lemma castle_eq (cr : castling) k0 :
    let n := rights_code cr in
    let k1 := if N.testbit n 0 then N.lxor k0 (C 0) else k0 in
    let k2 := if N.testbit n 1 then N.lxor k1 (C 1) else k1 in
    let k3 := if N.testbit n 2 then N.lxor k2 (C 2) else k2 in
    (if N.testbit n 3 then N.lxor k3 (C 3) else k3) = N.lxor k0 (spec_castle R cr).
  Proof.
    cbv zeta. unfold spec_castle. rewrite xor_list_right. cbn [fold_right].
    rewrite (HC 0), (HC 1), (HC 2), (HC 3) by lia. change (768 + 0) with 768. change (768 + 1) with 769. change (768 + 2) with 770. change (768 + 3) with 771.
    destruct cr as [[] [] [] []]; cbn [wk wq bk bq]; vm_compute (N.testbit _ _); cbv iota; xor_solve.
  Qed.

  (* en passant *)
  Lemma existsb_pick (f : N -> bool) i L : existsb (fun sq => (sq =? i) && f sq) L = existsb (N.eqb i) L && f i.
  Proof.
    induction L as [|h t IH]; [reflexivity|]. cbn [existsb]. rewrite IH. rewrite (N.eqb_sym i h).
    destruct (h =? i) eqn:Eh; [apply N.eqb_eq in Eh; subst h; cbn [andb orb]; destruct (f i); [reflexivity|cbn; rewrite andb_false_r; reflexivity]|reflexivity].
  Qed.
  Lemma existsb_pick2 (f g : N -> bool) i L : existsb (fun sq => (sq =? i) && f sq && g sq) L = existsb (N.eqb i) L && f i && g i.
  Proof.
    rewrite <- andb_assoc. rewrite <- (existsb_pick (fun sq => f sq && g sq)).
    induction L as [|h t IH]; [reflexivity|]. cbn [existsb]. rewrite IH, andb_assoc. reflexivity.
  Qed.
  Lemma in_fen_order i : existsb (N.eqb i) fen_order = (i <? 64).
  Proof.
    destruct (i <? 64) eqn:Ei.
    - apply N.ltb_lt in Ei. assert (H : forallN 64 (fun x => existsb (N.eqb x) fen_order) = true) by (vm_compute; reflexivity).
      exact (forallN_spec _ _ H i Ei).
    - apply N.ltb_ge in Ei. destruct (existsb (N.eqb i) fen_order) eqn:X; [|reflexivity]. exfalso.
      apply existsb_exists in X as [y [Hy Ey]]. apply N.eqb_eq in Ey. subst y.
      assert (H : forallb (fun x => x <? 64) fen_order = true) by (vm_compute; reflexivity).
      rewrite forallb_forall in H. specialize (H i Hy). apply N.ltb_lt in H. lia.
  Qed.
  Lemma nthd_repeat0 n k : nthd (repeat 0 n) k 0 = 0.
  Proof. unfold nthd. generalize (N.to_nat k). induction n as [|n IH]; intros [|m]; cbn; auto. Qed.

  (* the pawn-of-the-mover bit, read off the two bitboard families the constructor builds *)
  Lemma own_pawn_bit (bd : Rules.board) (c : color) kbv cbv i :
    (forall j, N.testbit kbv j = (j <? 64) && negb (nthd (map piece_code bd) j 0 =? 0) && (pc_kind (nthd (map piece_code bd) j 0) =? PAWN)) ->
    (forall j, N.testbit cbv j = (j <? 64) && negb (nthd (map piece_code bd) j 0 =? 0) && (pc_color (nthd (map piece_code bd) j 0) =? color_code c)) ->
    i < 64 -> N.testbit (N.land cbv kbv) i = is_piece bd i c Pawn.
  Proof.
    intros Hk Hc Hi. rewrite N.land_spec, Hk, Hc. apply N.ltb_lt in Hi. rewrite Hi. cbn [andb].
    assert (Hn : nthd (map piece_code bd) i 0 = piece_code (bget bd i)).
    { unfold nthd, bget. change 0 with (piece_code None). apply map_nth. }
    rewrite Hn. unfold is_piece. destruct (bget bd i) as [[[] []]|]; destruct c; reflexivity.
  Qed.

  Lemma pawn_attacks_sq white sq : sq < 64 -> pawn_attacks_alg white (bit sq) = pawn_attack_spec white sq.
  Proof.
    intro H.
    assert (K : forallN 64 (fun sq => (pawn_attacks_alg true (bit sq) =? pawn_attack_spec true sq) &&
                                      (pawn_attacks_alg false (bit sq) =? pawn_attack_spec false sq)) = true) by (vm_compute; reflexivity).
    pose proof (forallN_spec _ _ K sq H) as X. cbv beta in X. apply andb_prop in X as [X1 X2]. apply N.eqb_eq in X1, X2. destruct white; assumption.
  Qed.

  Lemma land_opt_bit (ob : bool) q P : (N.land (if ob then bit q else 0) P =? 0) = negb (ob && N.testbit P q).
  Proof.
    destruct ob; cbn [andb]; [|reflexivity]. rewrite land_bit. destruct (N.testbit P q); cbn [negb]; [|reflexivity].
    apply N.eqb_neq. apply bit_nonzero.
  Qed.

  Lemma ep_eq (bd : Rules.board) (c : color) (e : N) (P k4 : N) :
    e < 64 -> (forall i, i < 64 -> N.testbit P i = is_piece bd i c Pawn) ->
    (if negb (N.land (pawn_attacks_alg (negb (color_code c =? 0)) (bit e)) P =? 0) then N.lxor k4 (E (e mod 8)) else k4) =
    N.lxor k4 (let r := (rank_of e - pawn_dir c)%Z in
               let has f := on_board f r && is_piece bd (sq_of f r) c Pawn in
               if has (file_of e - 1)%Z || has (file_of e + 1)%Z then R (772 + Z.to_N (file_of e)) else 0).
  Proof.
    intros He HP. cbv zeta.
    assert (Hf : Z.to_N (file_of e) = e mod 8).
    { rewrite file_of_mod. rewrite <- (N2Z.id (e mod 8)). f_equal. rewrite N2Z.inj_mod by lia. reflexivity. }
    rewrite pawn_attacks_sq by exact He. unfold pawn_attack_spec, leaper_spec, lor_list.
    assert (Hcase : forall d : Z, (d = 1 \/ d = -1)%Z ->
      negb (N.land (fold_right N.lor 0 (map (fun dd : Z * Z => if on_board (file_of e + fst dd) (rank_of e + snd dd) then bit (sq_of (file_of e + fst dd) (rank_of e + snd dd)) else 0) [((-1)%Z, d); (1%Z, d)])) P =? 0) =
      (on_board (file_of e - 1) (rank_of e + d) && is_piece bd (sq_of (file_of e - 1) (rank_of e + d)) c Pawn) ||
      (on_board (file_of e + 1) (rank_of e + d) && is_piece bd (sq_of (file_of e + 1) (rank_of e + d)) c Pawn)).
    { intros d _. cbn [map fold_right fst snd]. rewrite N.lor_0_r.
      change (file_of e + -1)%Z with (file_of e - 1)%Z.
      rewrite N.land_lor_distr_l.
      set (A := N.land (if on_board (file_of e - 1) (rank_of e + d) then bit (sq_of (file_of e - 1) (rank_of e + d)) else 0) P).
      set (B := N.land (if on_board (file_of e + 1) (rank_of e + d) then bit (sq_of (file_of e + 1) (rank_of e + d)) else 0) P).
      assert (HA : (A =? 0) = negb (on_board (file_of e - 1) (rank_of e + d) && N.testbit P (sq_of (file_of e - 1) (rank_of e + d)))) by apply land_opt_bit.
      assert (HB : (B =? 0) = negb (on_board (file_of e + 1) (rank_of e + d) && N.testbit P (sq_of (file_of e + 1) (rank_of e + d)))) by apply land_opt_bit.
      assert (HAB : (N.lor A B =? 0) = (A =? 0) && (B =? 0)).
      { destruct (A =? 0) eqn:EA, (B =? 0) eqn:EB; cbn [andb].
        - apply N.eqb_eq in EA, EB. rewrite EA, EB. reflexivity.
        - apply N.eqb_eq in EA. rewrite EA, N.lor_0_l. exact EB.
        - apply N.eqb_neq. intro X. apply N.lor_eq_0_iff in X as [X _]. apply N.eqb_neq in EA. contradiction.
        - apply N.eqb_neq. intro X. apply N.lor_eq_0_iff in X as [X _]. apply N.eqb_neq in EA. contradiction. }
      rewrite HAB, HA, HB.
      destruct (on_board (file_of e - 1) (rank_of e + d)) eqn:O1; destruct (on_board (file_of e + 1) (rank_of e + d)) eqn:O2; cbn [andb negb orb];
        rewrite ?HP by (apply on_board_sq_lt; assumption);
        repeat match goal with |- context [is_piece bd ?q c Pawn] => destruct (is_piece bd q c Pawn) end; reflexivity. }
    destruct c; cbn [color_code N.eqb negb pawn_dir].
    - change (rank_of e - 1)%Z with (rank_of e + -1)%Z. rewrite (Hcase (-1)%Z) by (right; reflexivity).
      rewrite Hf. match goal with |- context [if ?b then _ else _] => destruct b end; [rewrite HE by (apply N.mod_lt; lia); reflexivity|rewrite N.lxor_0_r; reflexivity].
    - change (rank_of e - -1)%Z with (rank_of e + 1)%Z. rewrite (Hcase 1%Z) by (left; reflexivity).
      rewrite Hf. match goal with |- context [if ?b then _ else _] => destruct b end; [rewrite HE by (apply N.mod_lt; lia); reflexivity|rewrite N.lxor_0_r; reflexivity].
  Qed.

  (* ---- C18: the engine's book key of the position the constructor builds = the published key ---- *)
  Theorem engine_hash_is_spec_hash (p : Rules.position) :
    length (Rules.brd p) = 64%nat -> (forall e, Rules.ep p = Some e -> e < 64) ->
    engine_hash T C E TURN (rep_of_position zt p) = spec_hash R p.
  Proof.
    intros Hlen Hep. unfold rep_of_position. cbv zeta.
    set (b := map piece_code (Rules.brd p)).
    change (fun (acc : list (list N) * list N * list N) (sq : N) => let '(ls, kb, cb) := acc in
              if nthd b sq 0 =? 0 then acc
              else (updN ls (nthd b sq 0) (nthd ls (nthd b sq 0) [] ++ [sq]),
                    updN kb (pc_kind (nthd b sq 0)) (N.lor (nthd kb (pc_kind (nthd b sq 0)) 0) (bit sq)),
                    updN cb (pc_color (nthd b sq 0)) (N.lor (nthd cb (pc_color (nthd b sq 0)) 0) (bit sq)))) with (place_fn b).
    assert (Hc : forall sq, In sq fen_order -> nthd b sq 0 < 13) by (intros sq _; apply codes_of_map).
    pose proof (fold_place (ztT T) b fen_order (repeat [] 13) (repeat 0 7) (repeat 0 2) eq_refl Hc) as HF. cbv zeta in HF.
    pose proof (fold_place_bb b fen_order (repeat [] 13) (repeat 0 7) (repeat 0 2) eq_refl eq_refl) as HB. cbv zeta in HB.
    destruct (fold_left (place_fn b) fen_order (repeat [] 13, repeat 0 7, repeat 0 2)) as [[ls kb] cb].
    unfold kb_of, cb_of in HB. cbn [fst snd] in HF, HB.
    destruct HF as [A [B [Cw _]]]. destruct HB as [_ [_ [HK HCb]]].
    assert (Hpk0 : pk (ztT T) (repeat [] 13) = 0) by reflexivity. assert (Hwk0 : wkp (ztT T) (repeat [] 13) = 0) by reflexivity.
    rewrite Hpk0, N.lxor_0_l in B. rewrite Hwk0, N.lxor_0_l in Cw.
    rewrite (SX_perm (cp (ztT T)) b _ _ fen_order_perm) in B. rewrite (SX_perm (cw (ztT T)) b _ _ fen_order_perm) in Cw.
    (* the fields of the constructed state *)
    unfold engine_hash. cbn [set_meta r_lists r_castling r_ep r_side r_color_bb r_kind_bb]. cbv zeta.
    (* pieces *)
    match goal with |- context [engine_pieces T ?s] =>
      assert (HP : engine_pieces T s = spec_pieces R (Rules.brd p));
        [rewrite (engine_pieces_eq T s) by exact A; cbn [set_meta r_lists]; rewrite B, Cw; unfold bkp, bkw; rewrite SX_add; apply pieces_eq|]
    end.
    rewrite HP. clear HP.
    (* castling *)
    rewrite (castle_eq (Rules.rights p) (spec_pieces R (Rules.brd p))).
    unfold spec_hash.
    (* en passant and turn *)
    assert (Hturn : forall k, (if color_code (Rules.stm p) =? 0 then N.lxor k TURN else k) = N.lxor k (spec_turn R p)).
    { intro k. unfold spec_turn. destruct (Rules.stm p); cbn [color_code N.eqb]; [rewrite HTURN; reflexivity|rewrite N.lxor_0_r; reflexivity]. }
    rewrite Hturn. f_equal.
    unfold spec_ep. destruct (Rules.ep p) as [e|] eqn:Ee; [|rewrite N.lxor_0_r; reflexivity].
    apply ep_eq; [apply Hep; reflexivity|].
    intros i Hi. apply own_pawn_bit; [| |exact Hi].
    - intro j. rewrite HK. rewrite nthd_repeat0, N.bits_0. cbn [orb]. rewrite existsb_pick2, in_fen_order. reflexivity.
    - intro j. rewrite HCb. rewrite nthd_repeat0, N.bits_0. cbn [orb]. rewrite existsb_pick2, in_fen_order. reflexivity.
  Qed.
End H.
