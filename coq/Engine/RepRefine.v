(* C02: Position::do_move REFINES the rules of chess.

   rep_abs (RepAbs.v) reads a rules-level position off the engine's representation (board array, side, castling
   mask, en-passant square, half-move clock, ply).  The theorems below state, for EVERY Zobrist table, every
   representation state and every move of the given shape, that

        rep_abs (do_move s (enc m))  =  Rules.make_move (rep_abs s) m

   i.e. the algorithmic model of Position::do_move (PositionRep.do_move - itself tied to the C++ by the field-by-field
   correspondence of checks/c02.py) computes exactly the board, side to move, castling rights, en-passant square,
   half-move clock and move number that the FIDE-level specification prescribes:
     castle_refines     both castlings, both colours
     normal_refines     quiet moves, captures, promotions, promotion-captures, double steps (not en passant)
     ep_refines_move    en-passant captures
   The hypotheses are the shape facts a pseudo-legal move has (own piece on from, empty/enemy piece on to, ...) and the
   representation invariants wf_scalars (sizes, u8 clock below 255) and castling_cons (castling mask consistent with king/rook
   home squares).  No proof in this file depends on the values of the Zobrist tables. *)
From CV Require Import Engine.PositionRep Engine.EncodingProofs Engine.RepProofs Engine.RepRoundTrip Engine.RepRoundTripNormal Engine.RepAbs Base.NIter.
From Coq Require Import Lia List Btauto ZArith.
Import ListNotations.
Local Open Scope N_scope.
Section R.
  Variable zt : zobrist.
  Hint Rewrite sm_side sm_hmc sm_ply sm_castling sm_ep sm_key sm_hist sm_board
       (mp_side zt) (mp_hmc zt) (mp_ply zt) (mp_castling zt) (mp_ep zt) (mp_hist zt) (mp_board zt) (mp_key zt)
       (ap_side zt) (ap_hmc zt) (ap_ply zt) (ap_castling zt) (ap_ep zt) (ap_hist zt) (ap_board zt) (ap_key zt)
       (rp_side zt) (rp_hmc zt) (rp_ply zt) (rp_castling zt) (rp_ep zt) (rp_hist zt) (rp_board zt) (rp_key zt) : fields.

  Ltac len64 := repeat apply len_upd64; assumption.
  Ltac simp_nthd :=
    repeat first [ rewrite nthd_same64 by (first [len64 | lia])
                 | rewrite nthd_updN_other by (first [lia | congruence | discriminate]) ].

  Lemma map_upd {A B} (f : A -> B) l n x : map f (upd l n x) = set_nth (map f l) n (f x).
  Proof. revert n. induction l as [|h t IH]; intros [|n]; cbn; auto. f_equal. apply IH. Qed.
  Lemma set_nth_comm {A} (l : list A) n m x y : n <> m -> set_nth (set_nth l n x) m y = set_nth (set_nth l m y) n x.
  Proof. revert n m. induction l as [|h t IH]; intros [|n] [|m] H; cbn; auto; try congruence. f_equal. apply IH. congruence. Qed.
  Lemma set_comm (l : board) (a b : N) x y : a <> b -> set (set l a x) b y = set (set l b y) a x.
  Proof. intro H. unfold set. apply set_nth_comm. intro E. apply H. apply N2Nat.inj. exact E. Qed.
  Lemma map_updN (l : list N) i x : map code_piece (updN l i x) = set (map code_piece l) i (code_piece x).
  Proof. apply map_upd. Qed.

  (* rights: code_rights (cr & ~mask) clears exactly the mask's bits *)
  Definition rights_and (cr m : N) : bool :=
    let r := code_rights (N.land cr (cnot m)) in let c := code_rights cr in let k := code_rights m in
    Bool.eqb (wk r) (wk c && negb (wk k)) && Bool.eqb (wq r) (wq c && negb (wq k)) &&
    Bool.eqb (bk r) (bk c && negb (bk k)) && Bool.eqb (bq r) (bq c && negb (bq k)).
  Lemma rights_and_all : forallN 16 (fun cr => forallN 16 (fun m => rights_and cr m)) = true.
  Proof. vm_compute. reflexivity. Qed.
  Lemma rights_land cr m : cr < 16 -> m < 16 ->
    code_rights (N.land cr (cnot m)) =
    {| wk := wk (code_rights cr) && negb (wk (code_rights m)); wq := wq (code_rights cr) && negb (wq (code_rights m));
       bk := bk (code_rights cr) && negb (bk (code_rights m)); bq := bq (code_rights cr) && negb (bq (code_rights m)) |}.
  Proof.
    intros Hc Hm. pose proof (forallN_spec _ _ (forallN_spec _ _ rights_and_all cr Hc) m Hm) as H. cbv beta in H.
    unfold rights_and in H. cbv zeta in H. repeat (apply andb_prop in H; destruct H as [H ?]).
    repeat match goal with E : Bool.eqb _ _ = true |- _ => apply Bool.eqb_prop in E end.
    destruct (code_rights (N.land cr (cnot m))) as [a b c d]. cbn in *. congruence.
  Qed.

  Definition ply_ok (s : rep) : Prop := exists F : Z, (1 <= F)%Z /\ r_ply s = (2 * F - 1 + Z.of_N (r_side s))%Z.

  Lemma fullmove_white s : r_side s = 0 -> ply_ok s -> ((r_ply s + 1 - 1) / 2 + 1 = (r_ply s - 1) / 2 + 1)%Z.
  Proof.
    intros E [F [HF Hp]]. rewrite Hp, E. cbn [Z.of_N].
    replace (2 * F - 1 + 0 + 1 - 1)%Z with (1 + (F - 1) * 2)%Z by lia. replace (2 * F - 1 + 0 - 1)%Z with ((F - 1) * 2)%Z by lia.
    rewrite Z.div_add by lia. rewrite Z.div_mul by lia. reflexivity.
  Qed.
  Lemma fullmove_black s : r_side s = 1 -> ply_ok s -> ((r_ply s + 1 - 1) / 2 + 1 = (r_ply s - 1) / 2 + 1 + 1)%Z.
  Proof.
    intros E [F [HF Hp]]. rewrite Hp, E. cbn [Z.of_N].
    replace (2 * F - 1 + 1 + 1 - 1)%Z with (F * 2)%Z by lia. replace (2 * F - 1 + 1 - 1)%Z with (1 + (F - 1) * 2)%Z by lia.
    rewrite Z.div_mul by lia. rewrite Z.div_add by lia. change (1 / 2)%Z with 0%Z. lia.
  Qed.

  Lemma u8_succ x : x < 255 -> Z.of_N (u8 (x + 1)) = (Z.of_N x + 1)%Z.
  Proof. intro H. unfold u8. rewrite N.mod_small by lia. lia. Qed.

  Definition wf_scalars (s : rep) : Prop :=
    length (r_board s) = 64%nat /\ r_side s < 2 /\ r_hmc s < 255 /\ r_castling s < 16 /\ ply_ok s.

  Theorem castle_refines s (ks : bool) :
    wf_scalars s ->
    let rank := if r_side s =? 0 then 0 else 7 in
    nthd (r_board s) (sq_at rank 4) 0 = make_piece (r_side s) KING ->
    nthd (r_board s) (sq_at rank (if ks then 7 else 0)) 0 = make_piece (r_side s) ROOK ->
    rep_abs (fst (do_move zt s (enc (Castle ks)))) = make_move (rep_abs s) (Castle ks).
  Proof.
    intros [Hlen [Hside [Hhm [Hcr Hply]]]] rank HK HR.
    destruct (side_cases s Hside) as [Es|Es]; destruct ks; subst rank; rewrite Es in HK, HR; cbn [N.eqb Pos.eqb] in HK, HR;
      unfold enc, do_move; cbv beta zeta;
      [ change (mv_castling KING_CASTLING_MOVE) with 5 | change (mv_castling QUEEN_CASTLING_MOVE) with 10
      | change (mv_castling KING_CASTLING_MOVE) with 5 | change (mv_castling QUEEN_CASTLING_MOVE) with 10 ];
      try change (negb (5 =? 0)) with true; try change (negb (10 =? 0)) with true;
      try change (5 =? KING_CASTLING) with true; try change (10 =? KING_CASTLING) with false;
      cbv iota; rewrite Es; cbn [N.eqb Pos.eqb]; cbv iota; cbn [fst snd];
      unfold rep_abs, make_move; autorewrite with fields;
      repeat match goal with |- context [sq_at ?r ?f] => let v := eval vm_compute in (sq_at r f) in change (sq_at r f) with v end;
      repeat match type of HK with context [sq_at ?r ?f] => let v := eval vm_compute in (sq_at r f) in change (sq_at r f) with v in HK end;
      repeat match type of HR with context [sq_at ?r ?f] => let v := eval vm_compute in (sq_at r f) in change (sq_at r f) with v in HR end;
      cbn [brd stm rights ep clock fullmove]; rewrite Es; cbn [N.eqb Pos.eqb];
      (f_equal;
       match goal with
       | |- map _ _ = _ =>
         rewrite !map_updN; simp_nthd; rewrite ?HK, ?HR; unfold move_board; cbn [brd stm]; reflexivity
       | |- code_rights _ = _ =>
         rewrite rights_land by (first [assumption | vm_compute; reflexivity]);
         unfold move_rights; cbn [rights stm brd touches color_eqb andb orb negb]; cbn;
         destruct (code_rights (r_castling s)) as [a b c d]; cbn; rewrite ?Bool.andb_true_r, ?Bool.andb_false_r; reflexivity
       | |- Z.of_N _ = _ => unfold resets_clock; rewrite u8_succ by assumption; reflexivity
       | |- _ => first [ apply fullmove_white; assumption | apply fullmove_black; assumption | reflexivity ]
       end).
  Qed.

  (* the five conditional revocations of do_move, as a function of the conditions *)
  Definition cr5 (cr side : N) (b1 b2 b3 b4 b5 : bool) : N :=
    let cr1 := if b1 then N.land cr (cnot (castling_rights_of side)) else cr in
    let cr2 := if b2 then N.land cr1 (cnot (N.land (castling_rights_of side) KING_CASTLING)) else cr1 in
    let cr3 := if b3 then N.land cr2 (cnot (N.land (castling_rights_of side) QUEEN_CASTLING)) else cr2 in
    let cr4 := if b4 then N.land cr3 (cnot (N.land (castling_rights_of (1 - side)) KING_CASTLING)) else cr3 in
    if b5 then N.land cr4 (cnot (N.land (castling_rights_of (1 - side)) QUEEN_CASTLING)) else cr4.

  Definition cr5_spec (cr side : N) (b1 b2 b3 b4 b5 : bool) : castling :=
    let w := side =? 0 in let c := code_rights cr in
    {| wk := wk c && negb ((w && (b1 || b2)) || (negb w && b4));
       wq := wq c && negb ((w && (b1 || b3)) || (negb w && b5));
       bk := bk c && negb ((negb w && (b1 || b2)) || (w && b4));
       bq := bq c && negb ((negb w && (b1 || b3)) || (w && b5)) |}.

  Definition castling_eqb (a b : castling) : bool :=
    Bool.eqb (wk a) (wk b) && Bool.eqb (wq a) (wq b) && Bool.eqb (bk a) (bk b) && Bool.eqb (bq a) (bq b).
  Lemma castling_eqb_eq a b : castling_eqb a b = true -> a = b.
  Proof.
    unfold castling_eqb. intro H. repeat (apply andb_prop in H; destruct H as [H ?]).
    repeat match goal with E : Bool.eqb _ _ = true |- _ => apply Bool.eqb_prop in E end.
    destruct a, b; cbn in *; congruence.
  Qed.
  Definition all_bools (f : bool -> bool) : bool := f true && f false.
  Lemma cr5_sweep : forallN 16 (fun cr => forallN 2 (fun side =>
      all_bools (fun b1 => all_bools (fun b2 => all_bools (fun b3 => all_bools (fun b4 => all_bools (fun b5 =>
        castling_eqb (code_rights (cr5 cr side b1 b2 b3 b4 b5)) (cr5_spec cr side b1 b2 b3 b4 b5)))))))) = true.
  Proof. vm_compute. reflexivity. Qed.
  Lemma cr5_ok cr side b1 b2 b3 b4 b5 : cr < 16 -> side < 2 ->
    code_rights (cr5 cr side b1 b2 b3 b4 b5) = cr5_spec cr side b1 b2 b3 b4 b5.
  Proof.
    intros Hc Hs. pose proof (forallN_spec _ _ (forallN_spec _ _ cr5_sweep cr Hc) side Hs) as H. cbv beta in H.
    unfold all_bools in H. apply castling_eqb_eq.
    repeat match goal with H : _ && _ = true |- _ => apply andb_prop in H; destruct H end.
    destruct b1, b2, b3, b4, b5; assumption.
  Qed.

  (* ---- codes and the rules-level board ---- *)
  Definition col (side : N) : color := if side =? 0 then White else Black.
  Lemma bget_abs (b : list N) i : bget (map code_piece b) i = code_piece (nthd b i 0).
  Proof. unfold bget, nthd. change None with (code_piece 0). apply map_nth. Qed.

  Definition kind_ok (k : N) : Prop := 1 <= k <= 6.
  Lemma code_make side k : side < 2 -> kind_ok k -> code_piece (make_piece side k) = Some (col side, code_kind k).
  Proof.
    intros Hs [H1 H2]. assert (side = 0 \/ side = 1) as [->| ->] by lia;
      assert (k = 1 \/ k = 2 \/ k = 3 \/ k = 4 \/ k = 5 \/ k = 6) as [->|[->|[->|[->|[->| ->]]]]] by lia; reflexivity.
  Qed.
  Lemma kind_make side k : side < 2 -> kind_ok k -> pc_kind (make_piece side k) = k.
  Proof.
    intros Hs [H1 H2]. assert (side = 0 \/ side = 1) as [->| ->] by lia;
      assert (k = 1 \/ k = 2 \/ k = 3 \/ k = 4 \/ k = 5 \/ k = 6) as [->|[->|[->|[->|[->| ->]]]]] by lia; reflexivity.
  Qed.
  Lemma col_opp side : side < 2 -> col (1 - side) = opp (col side).
  Proof. intro H. assert (side = 0 \/ side = 1) as [->| ->] by lia; reflexivity. Qed.

  Lemma is_piece_abs (b : list N) i c k : is_piece (map code_piece b) i c k =
    match code_piece (nthd b i 0) with Some (c', k') => color_eqb c c' && kind_eqb k k' | None => false end.
  Proof. unfold is_piece. rewrite bget_abs. reflexivity. Qed.

  Lemma kind_eqb_code k k' : kind_ok k -> kind_ok k' -> kind_eqb (code_kind k) (code_kind k') = (k =? k').
  Proof.
    intros [A1 A2] [B1 B2].
    assert (k = 1 \/ k = 2 \/ k = 3 \/ k = 4 \/ k = 5 \/ k = 6) as [->|[->|[->|[->|[->| ->]]]]] by lia;
    assert (k' = 1 \/ k' = 2 \/ k' = 3 \/ k' = 4 \/ k' = 5 \/ k' = 6) as [->|[->|[->|[->|[->| ->]]]]] by lia; reflexivity.
  Qed.
  Lemma color_eqb_refl c : color_eqb c c = true. Proof. destruct c; reflexivity. Qed.
  Lemma color_eqb_opp c : color_eqb c (opp c) = false. Proof. destruct c; reflexivity. Qed.

  (* the mover's piece on [from], seen from both sides *)
  Lemma own_is_piece (b : list N) from side kf k : side < 2 -> kind_ok kf -> kind_ok k ->
    nthd b from 0 = make_piece side kf ->
    is_piece (map code_piece b) from (col side) (code_kind k) = (kf =? k).
  Proof.
    intros Hs Hkf Hk Hown. rewrite is_piece_abs, Hown, code_make by assumption.
    rewrite color_eqb_refl. cbn [andb]. rewrite kind_eqb_code by assumption. apply N.eqb_sym.
  Qed.

  (* ---- en-passant square after a double step: engine formula vs rules formula, by a sweep over all squares ---- *)
  Definition eng_ep (side from to : N) : option N :=
    if (from / 8 =? (if side =? 0 then 1 else 6)) && (to / 8 =? (if side =? 0 then 3 else 4))
    then Some (if side =? 0 then to - 8 else to + 8) else None.
  Definition spec_ep (from to : N) : option N :=
    if (Z.abs (rank_of to - rank_of from) =? 2)%Z then Some (sq_of (file_of from) ((rank_of from + rank_of to) / 2)) else None.
  Definition opt_eqb (a b : option N) : bool := match a, b with Some x, Some y => x =? y | None, None => true | _, _ => false end.
  Definition ep_check (side from to : N) : bool :=
    (* a double step is only played from the start rank straight ahead (legality); then both formulas agree *)
    let dbl := (Z.abs (rank_of to - rank_of from) =? 2)%Z in
    let shape := (from / 8 =? (if side =? 0 then 1 else 6)) && (to / 8 =? (if side =? 0 then 3 else 4)) in
    (if shape then dbl else true) &&
    (if dbl && shape && (file_of from =? file_of to)%Z then opt_eqb (eng_ep side from to) (spec_ep from to) else true).
  Lemma ep_sweep : forallN 2 (fun side => forallN 64 (fun from => forallN 64 (fun to => ep_check side from to))) = true.
  Proof. vm_compute. reflexivity. Qed.

  Lemma ep_refines side from to : side < 2 -> from < 64 -> to < 64 ->
    ((Z.abs (rank_of to - rank_of from) = 2)%Z ->
       from / 8 = (if side =? 0 then 1 else 6) /\ to / 8 = (if side =? 0 then 3 else 4) /\ file_of from = file_of to) ->
    eng_ep side from to = spec_ep from to.
  Proof.
    intros Hs Hf Ht Hleg.
    pose proof (forallN_spec _ _ (forallN_spec _ _ (forallN_spec _ _ ep_sweep side Hs) from Hf) to Ht) as H. cbv beta in H.
    unfold ep_check in H. cbv zeta in H. apply andb_prop in H. destruct H as [H1 H2].
    unfold eng_ep, spec_ep in *.
    destruct (Z.abs (rank_of to - rank_of from) =? 2)%Z eqn:Ed.
    - apply Z.eqb_eq in Ed. destruct (Hleg Ed) as [A [B C]]. rewrite A, B, !N.eqb_refl in *. cbn [andb] in *.
      rewrite C, Z.eqb_refl in H2. unfold opt_eqb in H2. apply N.eqb_eq in H2. f_equal. rewrite C. exact H2.
    - destruct ((from / 8 =? (if side =? 0 then 1 else 6)) && (to / 8 =? (if side =? 0 then 3 else 4))); [discriminate|reflexivity].
  Qed.

  (* ---- castling rights ---- *)
  Definition castling_cons (s : rep) : Prop :=
    let b := r_board s in let c := code_rights (r_castling s) in
    (wk c = true -> nthd b 4 0 = 6 /\ nthd b 7 0 = 4) /\ (wq c = true -> nthd b 4 0 = 6 /\ nthd b 0 0 = 4) /\
    (bk c = true -> nthd b 60 0 = 12 /\ nthd b 63 0 = 10) /\ (bq c = true -> nthd b 60 0 = 12 /\ nthd b 56 0 = 10).

  Lemma make_piece_val side k : kind_ok k -> make_piece side k = k + 6 * side.
  Proof. intros [H1 H2]. unfold make_piece. destruct (k =? 0) eqn:E; [apply N.eqb_eq in E; lia|reflexivity]. Qed.

  Lemma pc_kind_enemy side kt : side < 2 -> kind_ok kt -> pc_kind (make_piece (1 - side) kt) = kt.
  Proof. intros Hs Hk. apply kind_make; [lia|exact Hk]. Qed.

  Theorem rights_refines s from to kf capc promo :
    wf_scalars s -> castling_cons s -> from < 64 -> to < 64 -> kind_ok kf ->
    nthd (r_board s) from 0 = make_piece (r_side s) kf ->
    nthd (r_board s) to 0 = capc ->
    (capc = 0 \/ exists kt, kind_ok kt /\ capc = make_piece (1 - r_side s) kt) ->
    code_rights (cr5 (r_castling s) (r_side s)
                     (kf =? KING) ((kf =? ROOK) && (from =? ks_rook_sq (r_side s))) ((kf =? ROOK) && (from =? qs_rook_sq (r_side s)))
                     ((pc_kind capc =? ROOK) && (to =? ks_rook_sq (1 - r_side s))) ((pc_kind capc =? ROOK) && (to =? qs_rook_sq (1 - r_side s))))
    = move_rights (rep_abs s) (Normal from to promo).
  Proof.
    intros [Hlen [Hside [Hhm [Hcr Hply]]]] [C1 [C2 [C3 C4]]] Hf Ht Hkf Hown Htgt Hcap.
    rewrite cr5_ok by assumption. unfold cr5_spec, move_rights. cbv zeta.
    cbn [rights stm brd rep_abs touches].
    assert (Hking : is_piece (map code_piece (r_board s)) from (if r_side s =? 0 then White else Black) King = (kf =? KING)).
    { change King with (code_kind 6). change (if r_side s =? 0 then White else Black) with (col (r_side s)).
      apply own_is_piece; try assumption. unfold kind_ok, KING. lia. }
    rewrite Hking.
    assert (Hmv : nthd (r_board s) from 0 = kf + 6 * r_side s) by (rewrite Hown; apply make_piece_val; exact Hkf).
    assert (Hcp : capc = 0 \/ exists kt, kind_ok kt /\ capc = kt + 6 * (1 - r_side s) /\ pc_kind capc = kt).
    { destruct Hcap as [->|[kt [Hk ->]]]; [left; reflexivity|right]. exists kt. split; [exact Hk|]. split; [apply make_piece_val; exact Hk|].
      apply pc_kind_enemy; assumption. }
    clear Hcap Hown Hking.
    destruct (code_rights (r_castling s)) as [cwk cwq cbk cbq] eqn:Ecr. cbn [wk wq bk bq] in *.
    unfold kind_ok in Hkf. unfold ks_rook_sq, qs_rook_sq, KING, ROOK.
    destruct (side_cases s Hside) as [Es|Es]; rewrite Es in *;
      try change (1 - 0) with 1 in *; try change (1 - 1) with 0 in *; try change (6 * 0) with 0 in *; try change (6 * 1) with 6 in *;
      cbn [N.eqb Pos.eqb negb andb orb color_eqb home_rank];
      repeat match goal with |- context [sq_of ?f ?r] => let v := eval vm_compute in (sq_of f r) in change (sq_of f r) with v end;
      (destruct Hcp as [Hc0|[kt [[Hk1 Hk2] [Hc1 Hc2]]]];
       [subst capc; change (pc_kind 0) with 0; cbn [N.eqb Pos.eqb andb] | rewrite Hc2]);
      f_equal.
    all: match goal with |- ?x && _ = ?x && _ => destruct x; [|reflexivity] end; cbn [andb]; f_equal.
    all: repeat match goal with H : true = true -> _ |- _ => specialize (H eq_refl) end.
    all: repeat match goal with H : _ /\ _ |- _ => destruct H end.
    all: repeat match goal with |- context [?a =? ?b] => let E := fresh "E" in destruct (a =? b) eqn:E;
                                 [apply N.eqb_eq in E|apply N.eqb_neq in E] end;
         cbn [andb orb negb]; try reflexivity; exfalso;
         try subst from; try subst to; try lia.
  Qed.

  Lemma own_pawn (b : list N) from side kf : side < 2 -> kind_ok kf -> nthd b from 0 = make_piece side kf ->
    is_piece (map code_piece b) from (if side =? 0 then White else Black) Pawn = (kf =? PAWN).
  Proof.
    intros. change (if side =? 0 then White else Black) with (col side). change Pawn with (code_kind 1). change PAWN with 1.
    apply own_is_piece; try assumption. unfold kind_ok. lia.
  Qed.

  Lemma newep_refines s from to kf promo :
    wf_scalars s -> from < 64 -> to < 64 -> kind_ok kf -> nthd (r_board s) from 0 = make_piece (r_side s) kf ->
    (kf = PAWN -> (Z.abs (rank_of to - rank_of from) = 2)%Z ->
       from / 8 = (if r_side s =? 0 then 1 else 6) /\ to / 8 = (if r_side s =? 0 then 3 else 4) /\ file_of from = file_of to) ->
    (if (kf =? PAWN) && (from / 8 =? (if r_side s =? 0 then 1 else 6)) && (to / 8 =? (if r_side s =? 0 then 3 else 4))
     then Some (if r_side s =? 0 then to - 8 else to + 8) else None) = move_ep (rep_abs s) (Normal from to promo).
  Proof.
    intros [Hlen [Hside _]] Hf Ht Hkf Hown Hshape. unfold move_ep. cbn [brd stm rep_abs].
    rewrite (own_pawn (r_board s) from (r_side s) kf Hside Hkf Hown).
    destruct (kf =? PAWN) eqn:E; cbn [andb]; [|reflexivity].
    apply N.eqb_eq in E. exact (ep_refines (r_side s) from to Hside Hf Ht (Hshape E)).
  Qed.

  Lemma clock_refines s from to kf capc promo :
    wf_scalars s -> kind_ok kf -> nthd (r_board s) from 0 = make_piece (r_side s) kf -> nthd (r_board s) to 0 = capc ->
    (capc = 0 \/ exists kt, kind_ok kt /\ capc = make_piece (1 - r_side s) kt) ->
    is_ep_capture (rep_abs s) from to = false ->
    Z.of_N (if negb (kf =? PAWN) && (pc_kind capc =? 0) then u8 (r_hmc s + 1) else 0) =
    (if resets_clock (rep_abs s) (Normal from to promo) then 0 else clock (rep_abs s) + 1)%Z.
  Proof.
    intros [Hlen [Hside [Hhm _]]] Hkf Hown Htgt Hcap Hnoep. unfold resets_clock, is_capture. rewrite Hnoep.
    cbn [brd stm clock rep_abs]. rewrite (own_pawn (r_board s) from (r_side s) kf Hside Hkf Hown).
    assert (Hemp : is_empty (map code_piece (r_board s)) to = (pc_kind capc =? 0)).
    { unfold is_empty. rewrite bget_abs, Htgt. destruct Hcap as [->|[kt [Hk ->]]]; [reflexivity|].
      rewrite code_make by (first [lia | assumption]). rewrite pc_kind_enemy by assumption.
      destruct Hk as [K1 K2]. destruct (kt =? 0) eqn:E; [apply N.eqb_eq in E; lia|reflexivity]. }
    rewrite Hemp. destruct (kf =? PAWN); cbn [negb andb orb]; [reflexivity|].
    destruct (pc_kind capc =? 0); cbn [negb orb]; [apply u8_succ; exact Hhm|reflexivity].
  Qed.

  Definition promo_code (promo : option kind) : N := match promo with Some k => kind_code k | None => 0 end.

  Lemma shadow (b : list N) from to x y z : from <> to ->
    updN (updN (updN b to x) from y) to z = updN (updN b from y) to z.
  Proof. intro H. rewrite (updN_comm b to from x y) by congruence. apply updN_updN_same. Qed.

  Lemma board_refines s from to kf (promo : option kind) :
    r_side s < 2 -> kind_ok kf -> nthd (r_board s) from 0 = make_piece (r_side s) kf ->
    is_ep_capture (rep_abs s) from to = false ->
    (promo <> None -> promo_ok promo = true) ->
    map code_piece (updN (updN (r_board s) from 0) to
                         (match promo with None => make_piece (r_side s) kf | Some k => make_piece (r_side s) (kind_code k) end))
    = move_board (rep_abs s) (Normal from to promo).
  Proof.
    intros Hside Hkf Hown Hnoep Hp. unfold move_board. rewrite Hnoep. cbn [brd stm rep_abs].
    rewrite !map_updN. change (code_piece 0) with (@None piece). f_equal.
    destruct promo as [k|].
    - specialize (Hp ltac:(discriminate)).
      assert (r_side s = 0 \/ r_side s = 1) as [E|E] by lia; rewrite E; destruct k; try discriminate Hp; reflexivity.
    - rewrite bget_abs, Hown. reflexivity.
  Qed.

  Theorem normal_refines s from to kf capc (promo : option kind) :
    wf_scalars s -> castling_cons s -> from < 64 -> to < 64 -> from <> to -> kind_ok kf ->
    nthd (r_board s) from 0 = make_piece (r_side s) kf ->
    nthd (r_board s) to 0 = capc ->
    (capc = 0 \/ exists kt, kind_ok kt /\ capc = make_piece (1 - r_side s) kt) ->
    (promo <> None -> kf = PAWN /\ promo_ok promo = true) ->
    is_ep_flag s from to = false ->
    (kf = PAWN -> (Z.abs (rank_of to - rank_of from) = 2)%Z ->
       from / 8 = (if r_side s =? 0 then 1 else 6) /\ to / 8 = (if r_side s =? 0 then 3 else 4) /\ file_of from = file_of to) ->
    rep_abs (fst (do_move zt s (enc (Normal from to promo)))) = make_move (rep_abs s) (Normal from to promo).
  Proof.
    intros Hwf Hcons Hf Ht Hne Hkf Hown Htgt Hcap Hpromo Hnep Hshape.
    pose proof Hwf as [Hlen [Hside [Hhm [Hcr Hply]]]].
    assert (Hpc : promo_code promo < 8) by (destruct promo as [[]|]; cbn; lia).
    unfold enc. fold (promo_code promo).
    set (m := create_promotion from to (promo_code promo)).
    destruct (decode_promotion from to (promo_code promo) Hf Ht Hpc) as [Df [Dt [Dp Dc]]]. fold m in Df, Dt, Dp, Dc.
    assert (Hkm : pc_kind (make_piece (r_side s) kf) = kf) by (apply kind_make; assumption).
    assert (Hkc : pc_kind capc = 0 /\ capc = 0 \/ exists kt, kind_ok kt /\ pc_kind capc = kt /\ capc = make_piece (1 - r_side s) kt).
    { destruct Hcap as [->|[kt [Hk ->]]]; [left; split; reflexivity|right; exists kt; split; [exact Hk|split; [apply pc_kind_enemy; assumption|reflexivity]]]. }
    unfold is_ep_flag in Hnep. rewrite Hown, Hkm in Hnep.
    (* the rules side: no en-passant capture *)
    assert (Hspec_ep : is_ep_capture (rep_abs s) from to = false).
    { unfold is_ep_capture. cbn [brd stm ep rep_abs].
      change (if r_side s =? 0 then White else Black) with (col (r_side s)). change Pawn with (code_kind 1).
      rewrite (own_is_piece (r_board s) from (r_side s) kf 1) by (first [assumption | unfold kind_ok; lia]).
      change 1 with PAWN. destruct (kf =? PAWN); [|reflexivity]. cbn [andb] in *.
      destruct (r_ep s) as [e|]; [|reflexivity]. rewrite N.eqb_sym. rewrite Hnep. reflexivity. }
    unfold do_move. cbv beta zeta. rewrite Dc, Df, Dt, Dp. change (negb (0 =? 0)) with false. cbv iota.
    autorewrite with fields. rewrite Htgt, Hown, Hkm, Hnep. cbv beta iota zeta.
    unfold rep_abs at 1, make_move.
    destruct (promo_code promo =? 0) eqn:Ep; destruct (capc =? 0) eqn:Ec; cbn [negb]; cbv iota; cbn [fst]; autorewrite with fields; simp_nthd;
      rewrite ?Hown, ?Htgt, ?Hkm.
    all: f_equal.
    all: try match goal with
         | |- code_rights _ = _ => exact (rights_refines s from to kf capc promo Hwf Hcons Hf Ht Hkf Hown Htgt Hcap)
         | |- Z.of_N _ = _ => exact (clock_refines s from to kf capc promo Hwf Hkf Hown Htgt Hcap Hspec_ep)
         | |- (if _ then Some _ else None) = _ => exact (newep_refines s from to kf promo Hwf Hf Ht Hkf Hown Hshape)
         | |- (if _ =? 0 then White else Black) = _ => cbn [stm rep_abs]; destruct (side_cases s Hside) as [E|E]; rewrite E; reflexivity
         | |- (_ / 2 + 1)%Z = _ => cbn [stm fullmove rep_abs]; destruct (side_cases s Hside) as [E|E]; rewrite E; cbn [N.eqb Pos.eqb];
                                    [apply fullmove_white | apply fullmove_black]; assumption
         end.
    all: rewrite ?shadow by exact Hne.
    all: assert (Hpok : promo <> None -> promo_ok promo = true) by (intro Hn; apply Hpromo; exact Hn).
    - (* no promotion, quiet *)
      assert (promo = None) as -> by (destruct promo as [[]|]; [discriminate Ep..|reflexivity]).
      exact (board_refines s from to kf None Hside Hkf Hown Hspec_ep Hpok).
    - assert (promo = None) as -> by (destruct promo as [[]|]; [discriminate Ep..|reflexivity]).
      exact (board_refines s from to kf None Hside Hkf Hown Hspec_ep Hpok).
    - destruct promo as [k|]; [|discriminate Ep]. exact (board_refines s from to kf (Some k) Hside Hkf Hown Hspec_ep Hpok).
    - destruct promo as [k|]; [|discriminate Ep]. exact (board_refines s from to kf (Some k) Hside Hkf Hown Hspec_ep Hpok).
  Qed.

  (* en-passant capture *)
  Theorem ep_refines_move s from to :
    wf_scalars s -> from < 64 -> to < 64 -> from <> to ->
    nthd (r_board s) from 0 = make_piece (r_side s) PAWN -> r_ep s = Some to -> nthd (r_board s) to 0 = 0 ->
    capsq s to < 64 -> capsq s to <> from -> capsq s to <> to ->
    nthd (r_board s) (capsq s to) 0 = make_piece (1 - r_side s) PAWN ->
    sq_of (file_of to) (rank_of from) = capsq s to -> file_of from <> file_of to ->
    (Z.abs (rank_of to - rank_of from) = 1)%Z ->
    (from / 8 =? (if r_side s =? 0 then 1 else 6)) = false ->
    (forall c, In c [0; 7; 56; 63] -> from <> c /\ to <> c) ->
    rep_abs (fst (do_move zt s (enc (Normal from to None)))) = make_move (rep_abs s) (Normal from to None).
  Proof.
    intros Hwf Hf Ht Hne Hown Hep Hto Hc1 Hc2 Hc3 Hcap Hsq Hfile Hrank Hr2 Hcorner.
    pose proof Hwf as [Hlen [Hside [Hhm [Hcr Hply]]]].
    unfold enc. cbn [promo_code].
    set (m := create_promotion from to 0).
    destruct (decode_promotion from to 0 Hf Ht ltac:(lia)) as [Df [Dt [Dp Dc]]]. fold m in Df, Dt, Dp, Dc.
    assert (Hkp : kind_ok PAWN) by (unfold kind_ok, PAWN; lia).
    assert (Hkm : pc_kind (make_piece (r_side s) PAWN) = PAWN) by (apply kind_make; assumption).
    assert (Hpawn : is_piece (map code_piece (r_board s)) from (if r_side s =? 0 then White else Black) Pawn = true).
    { rewrite (own_pawn (r_board s) from (r_side s) PAWN Hside Hkp Hown). reflexivity. }
    assert (Hspec_ep : is_ep_capture (rep_abs s) from to = true).
    { unfold is_ep_capture. cbn [brd stm ep rep_abs]. rewrite Hpawn, Hep, N.eqb_refl. cbn [andb].
      destruct (file_of from =? file_of to)%Z eqn:E; [apply Z.eqb_eq in E; contradiction|reflexivity]. }
    unfold do_move. cbv beta zeta. rewrite Dc, Df, Dt, Dp. change (negb (0 =? 0)) with false. cbv iota.
    autorewrite with fields. rewrite Hto, Hown, Hkm, Hep. change (PAWN =? PAWN) with true. cbn [andb negb]. cbv beta iota zeta. rewrite !N.eqb_refl. cbv beta iota zeta.
    fold (capsq s to). change (pc_kind 0) with 0.
    unfold rep_abs at 1, make_move. cbn [fst]. autorewrite with fields. simp_nthd. rewrite ?Hown.
    f_equal.
    - (* board *)
      unfold move_board. rewrite Hspec_ep. cbn [brd stm rep_abs]. rewrite Hsq, bget_abs, Hown, !map_updN.
      change (code_piece 0) with (@None piece).
      rewrite (set_comm _ to (capsq s to)) by congruence.
      rewrite (set_comm _ from (capsq s to)) by congruence.
      reflexivity.
    - cbn [stm rep_abs]. destruct (side_cases s Hside) as [E|E]; rewrite E; reflexivity.
    - (* rights unchanged: a pawn moves between two non-corner squares *)
      unfold move_rights. cbn [rights stm brd rep_abs touches].
      change King with (code_kind 6). change (if r_side s =? 0 then White else Black) with (col (r_side s)).
      rewrite (own_is_piece (r_board s) from (r_side s) PAWN 6 Hside Hkp ltac:(unfold kind_ok; lia) Hown).
      change (PAWN =? 6) with false. cbn [andb orb].
      repeat match goal with |- context [sq_of ?f ?r] => let v := eval vm_compute in (sq_of f r) in change (sq_of f r) with v end.
      destruct (Hcorner 0 ltac:(cbn; tauto)) as [A0 B0]. destruct (Hcorner 7 ltac:(cbn; tauto)) as [A7 B7].
      destruct (Hcorner 56 ltac:(cbn; tauto)) as [A56 B56]. destruct (Hcorner 63 ltac:(cbn; tauto)) as [A63 B63].
      repeat match goal with |- context [?a =? ?b] => let E := fresh "E" in destruct (a =? b) eqn:E; [apply N.eqb_eq in E; congruence|] end.
      cbn [orb negb]. rewrite !Bool.andb_true_r. destruct (code_rights (r_castling s)); reflexivity.
    - (* no new en-passant square *)
      unfold move_ep. cbn [brd stm rep_abs]. rewrite Hpawn. cbn [andb]. rewrite Hr2. cbn [andb].
      rewrite Hrank. reflexivity.
    - (* clock *)
      unfold resets_clock. cbn [brd stm clock rep_abs]. rewrite Hpawn. reflexivity.
    - cbn [stm fullmove rep_abs]. destruct (side_cases s Hside) as [E|E]; rewrite E; cbn [N.eqb Pos.eqb];
        [apply fullmove_white | apply fullmove_black]; assumption.
  Qed.
End R.
