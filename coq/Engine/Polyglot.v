(* Polyglot book keys: the published definition (spec) and PolyglotBook::hash as coded. *)
From CV Require Export Engine.RepAbs Engine.Magic.
Local Open Scope N_scope.

(* ---- spec: http://hgm.nubati.net/book_format.html ---- *)
Definition pg_kind_index (k : kind) : N :=
  match k with Pawn => 0 | Knight => 1 | Bishop => 2 | Rook => 3 | Queen => 4 | King => 5 end.
(* kind_of_piece: bp=0 wp=1 bn=2 wn=3 ... bk=10 wk=11; offset = 64*kind_of_piece + 8*row + file *)
Definition pg_offset (pc : piece) (sq : N) : N :=
  64 * (2 * pg_kind_index (snd pc) + match fst pc with White => 1 | Black => 0 end)
  + 8 * Z.to_N (rank_of sq) + Z.to_N (file_of sq).

Section Spec.
  Variable R : N -> N.     (* Random64 *)

  Definition xor_list (l : list N) : N := fold_left N.lxor l 0.

  Definition spec_pieces (b : board) : N :=
    xor_list (map (fun sq => match bget b sq with Some pc => R (pg_offset pc sq) | None => 0 end) all_squares).

  Definition spec_castle (cr : castling) : N :=
    xor_list [if wk cr then R 768 else 0; if wq cr then R 769 else 0;
              if bk cr then R 770 else 0; if bq cr then R 771 else 0].

  (* en passant counts only if a pawn of the side to move stands next to the pawn that just advanced *)
  Definition spec_ep (p : position) : N :=
    match ep p with
    | None => 0
    | Some e =>
      let c := stm p in
      let r := (rank_of e - pawn_dir c)%Z in
      let has f := on_board f r && is_piece (brd p) (sq_of f r) c Pawn in
      if has (file_of e - 1)%Z || has (file_of e + 1)%Z then R (772 + Z.to_N (file_of e)) else 0
    end.

  Definition spec_turn (p : position) : N := match stm p with White => R 780 | Black => 0 end.

  Definition spec_hash (p : position) : N :=
    N.lxor (N.lxor (N.lxor (spec_pieces (brd p)) (spec_castle (rights p))) (spec_ep p)) (spec_turn p).
End Spec.

(* ---- PolyglotBook::hash as coded, over the engine representation ---- *)
Section Engine.
  Variable T : N -> N -> N.          (* POLYGLOT_PIECE[piece][square] *)
  Variable C : N -> N.               (* castling constants 0..3: WS WL BS BL *)
  Variable E : N -> N.               (* POLYGLOT_ENPASSANT[file] *)
  Variable TURN : N.

  Definition engine_pieces (s : rep) : N :=
    fold_left (fun key pc => fold_left (fun k sq => N.lxor k (T pc sq)) (nthd (r_lists s) pc []) key)
              [1; 2; 3; 4; 5; 6; 7; 8; 9; 10; 11; 12] 0.

  Definition engine_hash (s : rep) : N :=
    let k0 := engine_pieces s in
    let cr := r_castling s in
    let k1 := if N.testbit cr 0 then N.lxor k0 (C 0) else k0 in
    let k2 := if N.testbit cr 1 then N.lxor k1 (C 1) else k1 in
    let k3 := if N.testbit cr 2 then N.lxor k2 (C 2) else k2 in
    let k4 := if N.testbit cr 3 then N.lxor k3 (C 3) else k3 in
    let k5 := match r_ep s with
              | None => k4
              | Some e =>
                let attackers := pawn_attacks_alg (negb (r_side s =? 0)) (bit e) in
                let pawns := N.land (nthd (r_color_bb s) (r_side s) 0) (nthd (r_kind_bb s) PAWN 0) in
                if negb (N.land attackers pawns =? 0) then N.lxor k4 (E (e mod 8)) else k4
              end in
    if r_side s =? 0 then N.lxor k5 TURN else k5.
End Engine.

(* the engine's piece numbering -> published offset *)
Definition code_offset (pc sq : N) : N :=
  match code_piece pc with Some p => pg_offset p sq | None => 0 end.
