(* C15: the capture / quiet predicates as coded (Classify.move_is_capture_alg, move_is_quiet_alg) tell what playing the move
   does (Rules.is_capture, promotion), for every well-formed state and every pseudo-legal move of the rules.  The engine
   recognises an en-passant capture by "a pawn moves to the en-passant square"; that this coincides with the rules' notion
   (a DIAGONAL pawn move to that square) is part of the shape lemma of RepRefineLegal.v. *)
From CV Require Import Engine.PositionRep Engine.EncodingProofs Engine.RepProofs Engine.RepRoundTrip Engine.RepRoundTripNormal
     Engine.RepAbs Engine.RepRefine Engine.RepRefineLegal Engine.Classify.
From Coq Require Import Lia List Bool ZArith.
Import ListNotations.
Local Open Scope N_scope.

Lemma is_empty_abs (b : list N) i : is_empty (map code_piece b) i = (nthd b i 0 =? 0).
Proof. unfold is_empty. rewrite bget_abs. unfold code_piece. destruct (nthd b i 0 =? 0); reflexivity. Qed.

Theorem classify_capture_quiet s m : rep_ok s -> pseudo_legal (rep_abs s) m = true ->
  move_is_capture_alg s (enc m) = captures_spec (rep_abs s) m /\ move_is_quiet_alg s (enc m) = quiet_spec (rep_abs s) m.
Proof.
  intros Hok H. destruct m as [from to promo|ks].
  - destruct (pseudo_legal_shape s from to promo Hok H) as [Hf [Ht [Hne [kf [Hkf [Hown [Hcap [Hpromo Hcase]]]]]]]].
    destruct Hok as [Hwf [Hc [Hr He]]]. pose proof Hwf as [_ [Hside _]].
    assert (Hpc : promo_code promo < 8) by (destruct promo as [[]|]; cbn; lia).
    unfold enc. fold (promo_code promo).
    destruct (decode_promotion from to (promo_code promo) Hf Ht Hpc) as [Df [Dt [Dp Dc]]].
    unfold move_is_capture_alg, move_is_quiet_alg, captures_spec, quiet_spec, is_capture, piece_at, is_ep_target.
    rewrite Dc, Df, Dt, Dp. change (0 =? 0) with true. cbn [negb andb]. cbv iota.
    cbn [brd rep_abs]. rewrite is_empty_abs, Hown, (kind_make _ _ Hside Hkf).
    assert (Hspec : is_ep_capture (rep_abs s) from to = is_ep_flag s from to).
    { unfold is_ep_capture. cbn [brd stm ep rep_abs]. rewrite (own_pawn (r_board s) from (r_side s) kf Hside Hkf Hown).
      unfold is_ep_flag. rewrite Hown, (kind_make _ _ Hside Hkf).
      destruct Hcase as [[Hflag _]|[Hflag [-> [_ [Hep [_ [_ [_ [_ [_ [_ [Hfile _]]]]]]]]]]]].
      - unfold is_ep_flag in Hflag. rewrite Hown, (kind_make _ _ Hside Hkf) in Hflag.
        destruct (kf =? PAWN); [|reflexivity]. cbn [andb] in *.
        destruct (r_ep s) as [e|]; [|reflexivity]. rewrite (N.eqb_sym e to), Hflag. reflexivity.
      - rewrite Hep, !N.eqb_refl. change (PAWN =? PAWN) with true. cbn [andb].
        destruct (file_of from =? file_of to)%Z eqn:E; [apply Z.eqb_eq in E; contradiction|reflexivity]. }
    rewrite Hspec. unfold is_ep_flag. rewrite Hown, (kind_make _ _ Hside Hkf).
    assert (Hp0 : (promo_code promo =? 0) = match promo with Some _ => false | None => true end).
    { destruct promo as [k|]; [|reflexivity]. destruct (Hpromo ltac:(discriminate)) as [_ Hok]. destruct k; try discriminate Hok; reflexivity. }
    rewrite Hp0. split.
    + reflexivity.
    + destruct promo as [k|]; cbn [negb].
      * rewrite andb_false_r. reflexivity.
      * rewrite andb_true_r. rewrite (andb_comm (match r_ep s with Some e => to =? e | None => false end) (kf =? PAWN)).
        destruct ((kf =? PAWN) && match r_ep s with Some e => to =? e | None => false end); [rewrite orb_true_r; reflexivity|].
        rewrite orb_false_r, negb_involutive. reflexivity.
  - unfold enc, move_is_capture_alg, move_is_quiet_alg, captures_spec, quiet_spec, is_capture. destruct ks; split; reflexivity.
Qed.
