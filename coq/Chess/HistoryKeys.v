(* Repetition by KEYS versus repetition by POSITIONS.
   The engine answers "has this position occurred before / three times" by comparing 64-bit keys of the positions of
   the game; the rules compare positions (placement, side to move, castling rights, en-passant square).  For any key
   function K that is a function of those four components, the two answers agree on every history in which no two
   DIFFERENT positions share a key (the only way they can differ is a 64-bit collision). *)
From CV Require Import Chess.Rules Chess.History.
From Coq Require Import List NArith Bool Lia.
Import ListNotations.

Section Keys.
  Variable K : position -> N.
  Hypothesis K_sound : forall p q, same_position p q = true -> K p = K q.

  Definition no_collision (p : position) (earlier : list position) : Prop :=
    forall q, In q earlier -> K p = K q -> same_position p q = true.

  Lemma key_eq_same p q : (K p = K q -> same_position p q = true) -> N.eqb (K p) (K q) = same_position p q.
  Proof.
    intro H. destruct (same_position p q) eqn:E.
    - apply N.eqb_eq. apply K_sound. exact E.
    - apply N.eqb_neq. intro X. pose proof (H X) as Y. discriminate Y.
  Qed.

  Theorem repeated_by_keys p earlier : no_collision p earlier ->
    existsb (N.eqb (K p)) (map K earlier) = occurred_before (p :: earlier).
  Proof.
    intro H. cbn [occurred_before]. induction earlier as [|q r IH]; [reflexivity|].
    cbn [map existsb]. rewrite key_eq_same by (apply H; left; reflexivity).
    rewrite IH; [reflexivity|]. intros x Hx. apply H. right. exact Hx.
  Qed.

  Theorem count_by_keys p earlier : no_collision p earlier ->
    length (filter (N.eqb (K p)) (map K earlier)) = length (filter (same_position p) earlier).
  Proof.
    intro H. induction earlier as [|q r IH]; [reflexivity|].
    cbn [map filter]. rewrite key_eq_same by (apply H; left; reflexivity).
    assert (IH' : length (filter (N.eqb (K p)) (map K r)) = length (filter (same_position p) r)) by (apply IH; intros x Hx; apply H; right; exact Hx).
    destruct (same_position p q); cbn [length]; rewrite IH'; reflexivity.
  Qed.

  Theorem threefold_by_keys p earlier : no_collision p earlier ->
    (2 <=? length (filter (N.eqb (K p)) (map K earlier)))%nat = occurred_three_times (p :: earlier).
  Proof. intro H. cbn [occurred_three_times]. rewrite (count_by_keys p earlier H). reflexivity. Qed.
End Keys.
