(* SAN, part 1: every string san() can print for a normal move (piece letter, optional file / rank, optional x, target, optional promotion,
   optional + or #: 6 x 9 x 9 x 2 x 64 x 5 x 3 = 933,120 strings) is not a castling text and is decomposed by the regular expression of
   parse_san into exactly the fields it was built from.  Finite sweep by kernel computation (about two minutes). *)
From CV Require Import Chess.Rules Chess.RulesFacts Chess.Fen Chess.TextProofs Chess.San Base.Geom Base.FileRank Base.NIter.
From Coq Require Import List String Ascii ZArith Lia Bool.
Import ListNotations.
Local Open Scope string_scope.
Local Open Scope Z_scope.

(* ---- the shape of every string san() prints for a normal move ---- *)
Definition ostr (o : option ascii) : string := match o with Some c => String c "" | None => "" end.
Definition promo_str (o : option kind) : string := match o with Some kk => "=" ++ kind_letter kk | None => "" end.
Definition san_shape (k : kind) (fl rk : option Z) (cap : bool) (to : N) (promo : option kind) (suffix : string) : string :=
  kind_letter k ++ ostr (option_map file_char fl) ++ ostr (option_map rank_char rk) ++ (if cap then "x" else "") ++
  square_name to ++ promo_str promo ++ suffix.

Definition oascii_eqb (a b : option ascii) : bool :=
  match a, b with Some x, Some y => Ascii.eqb x y | None, None => true | _, _ => false end.
Definition letter_char (k : kind) : option ascii :=
  match k with Pawn => None | Knight => Some "N" | Bishop => Some "B" | Rook => Some "R" | Queen => Some "Q" | King => Some "K" end%char.

(* what parse_san must see in such a string: no castling text, and the regex recovers the fields *)
Definition front_ok (k : kind) (fl rk : option Z) (cap : bool) (to : N) (promo : option kind) (suffix : string) : bool :=
  let str := san_shape k fl rk cap to promo suffix in
  let core := strip_suffix str in
  negb (String.eqb core "0-0" || String.eqb core "O-O") && negb (String.eqb core "0-0-0" || String.eqb core "O-O-O") &&
  match regex_match str with
  | Some sm => oascii_eqb (sm_piece sm) (letter_char k) && oascii_eqb (sm_file sm) (option_map file_char fl) &&
               oascii_eqb (sm_rank sm) (option_map rank_char rk) &&
               Ascii.eqb (fst (sm_to sm)) (file_char (file_of to)) && Ascii.eqb (snd (sm_to sm)) (rank_char (rank_of to)) &&
               oascii_eqb (sm_promo sm) (match promo with Some kk => letter_char kk | None => None end)
  | None => false
  end.

Definition kinds6 : list kind := [Pawn; Knight; Bishop; Rook; Queen; King].
Definition ofiles : list (option Z) := None :: map Some [0;1;2;3;4;5;6;7].
Definition opromos : list (option kind) := [None; Some Knight; Some Bishop; Some Rook; Some Queen].
Definition suffixes : list string := [""; "+"; "#"].

Lemma front_sweep :
  forallb (fun k => forallb (fun fl => forallb (fun rk => forallb (fun cap => forallb (fun to => forallb (fun promo => forallb (fun suf =>
    front_ok k fl rk cap to promo suf) suffixes) opromos) all_squares) [true; false]) ofiles) ofiles) kinds6 = true.
Proof. vm_compute. reflexivity. Qed.
