(* SAN, part 2: parse_san (san m) = m for EVERY position and EVERY legal move, hence san is injective on the legal moves (unambiguous).
   The disambiguation argument: san() writes the file when several legal moves share piece kind, target and promotion, and the rank as
   well when several of those share the file; parse_san keeps the legal moves that fit the fields read - exactly one. *)
From CV Require Import Chess.Rules Chess.RulesFacts Chess.Fen Chess.TextProofs Chess.FenPlacement Chess.San Chess.SanSweep Base.Geom Base.FileRank Base.NIter.
From Coq Require Import List String Ascii ZArith Lia Bool.
Import ListNotations.
Local Open Scope string_scope.
Local Open Scope Z_scope.
Ltac Zify.zify_post_hook ::= Z.div_mod_to_equations.

Definition ofile_ok (o : option Z) : Prop := match o with Some z => 0 <= z < 8 | None => True end.
Definition opromo_ok (o : option kind) : Prop := match o with Some kk => promo_ok (Some kk) = true | None => True end.

Lemma in_ofiles o : ofile_ok o -> In o ofiles.
Proof.
  destruct o as [z|]; [|intros _; left; reflexivity]. intro H. right. apply in_map.
  assert (z = 0 \/ z = 1 \/ z = 2 \/ z = 3 \/ z = 4 \/ z = 5 \/ z = 6 \/ z = 7) as X by (cbn in H; lia).
  repeat (destruct X as [->|X]; [cbn; tauto|]). subst. cbn. tauto.
Qed.

Lemma front_ok_all k fl rk cap to promo suf : ofile_ok fl -> ofile_ok rk -> (to < 64)%N -> opromo_ok promo -> In suf suffixes ->
  front_ok k fl rk cap to promo suf = true.
Proof.
  intros Hfl Hrk Hto Hpr Hsuf. pose proof front_sweep as S.
  rewrite forallb_forall in S. specialize (S k ltac:(destruct k; cbn; tauto)).
  rewrite forallb_forall in S. specialize (S fl (in_ofiles fl Hfl)).
  rewrite forallb_forall in S. specialize (S rk (in_ofiles rk Hrk)).
  rewrite forallb_forall in S. specialize (S cap ltac:(destruct cap; cbn; tauto)).
  rewrite forallb_forall in S. specialize (S to (proj1 (in_all_squares to) Hto)).
  rewrite forallb_forall in S. specialize (S promo ltac:(destruct promo as [[]|]; cbn in Hpr; try discriminate Hpr; cbn; tauto)).
  rewrite forallb_forall in S. exact (S suf Hsuf).
Qed.

(* characters back to numbers *)
Lemma file_char_back z : 0 <= z < 8 -> Z.of_nat (nat_of_ascii (file_char z)) - 97 = z.
Proof. intro H. assert (z = 0 \/ z = 1 \/ z = 2 \/ z = 3 \/ z = 4 \/ z = 5 \/ z = 6 \/ z = 7) as X by lia.
       repeat (destruct X as [->|X]; [reflexivity|]). subst. reflexivity. Qed.
Lemma rank_char_back z : 0 <= z < 8 -> Z.of_nat (nat_of_ascii (rank_char z)) - 49 = z.
Proof. intro H. assert (z = 0 \/ z = 1 \/ z = 2 \/ z = 3 \/ z = 4 \/ z = 5 \/ z = 6 \/ z = 7) as X by lia.
       repeat (destruct X as [->|X]; [reflexivity|]). subst. reflexivity. Qed.

Lemma oascii_eqb_eq a b : oascii_eqb a b = true -> a = b.
Proof. destruct a, b; cbn; intro H; try discriminate H; [apply Ascii.eqb_eq in H; subst|]; reflexivity. Qed.

Lemma letter_kind_char k : letter_kind (letter_char k) = k.
Proof. destruct k; reflexivity. Qed.
Lemma letter_kind_promo kk : promo_ok (Some kk) = true -> letter_kind (letter_char kk) = kk /\ letter_char kk <> None.
Proof. destruct kk; cbn; intro H; try discriminate H; split; try reflexivity; discriminate. Qed.

Section Shape.
  Variable p : position.
  Variables from to : N.
  Variable promo : option kind.
  Variable kk : kind.

  Definition same_m (m' : move) : bool :=
    match m' with
    | Normal f' t' pr' => okind_eqb (moved_kind p f') (Some kk) && (t' =? to)%N && okind_eqb pr' promo
    | Castle _ => false
    end.
  Definition matching : list move := filter same_m (legal_moves p).
  Definition same_file_m (m' : move) : bool := match m' with Normal f' _ _ => (file_of f' =? file_of from)%Z | _ => false end.
  Definition multiple : bool := (1 <? List.length matching)%nat.
  Definition multiple_file : bool := (1 <? List.length (filter same_file_m matching))%nat.
  Definition is_pawn_k : bool := match kk with Pawn => true | _ => false end.
  Definition captures : bool :=
    is_color (brd p) to (opp (stm p)) || (is_pawn_k && match ep p with Some e => (e =? to)%N | None => false end).
  Definition san_fl : option Z := if multiple || (captures && is_pawn_k) then Some (file_of from) else None.
  Definition san_rk : option Z := if multiple && multiple_file then Some (rank_of from) else None.

  Lemma san_basic_shape : moved_kind p from = Some kk ->
    san_basic p (Normal from to promo) = san_shape kk san_fl san_rk captures to promo "".
  Proof.
    intro Hk. unfold san_basic. rewrite Hk. cbv zeta.
    change (filter (fun m' : move => match m' with | Normal f' t' pr' => okind_eqb (moved_kind p f') (Some kk) && (t' =? to)%N && okind_eqb pr' promo | Castle _ => false end) (legal_moves p)) with matching.
    change (filter (fun m' : move => match m' with | Normal f' _ _ => (file_of f' =? file_of from)%Z | Castle _ => false end) matching) with (filter same_file_m matching).
    change (1 <? Datatypes.length (filter same_file_m matching))%nat with multiple_file.
    change (1 <? Datatypes.length matching)%nat with multiple.
    change (match kk with Pawn => true | _ => false end) with is_pawn_k.
    change (is_color (brd p) to (opp (stm p)) || is_pawn_k && match ep p with Some e => (e =? to)%N | None => false end) with captures.
    unfold san_shape, san_fl, san_rk.
    destruct multiple, multiple_file, captures; cbn [orb andb option_map ostr]; unfold is_pawn_k; destruct kk; cbn -[file_char rank_char square_name file_of rank_of promo_str];
      unfold promo_str; cbn [append]; rewrite ?append_nil_r'; reflexivity.
  Qed.
End Shape.

Lemma filter_singleton {A} (f : A -> bool) (l : list A) x :
  NoDup l -> In x l -> f x = true -> (forall y, In y l -> f y = true -> y = x) -> filter f l = [x].
Proof.
  induction l as [|h t IH]; intros Hnd Hin Hx Hu; [destruct Hin|].
  inversion Hnd as [|? ? Hnot Hnd']; subst. cbn [filter].
  assert (Hnil : forall l', (forall y, In y l' -> f y = false) -> filter f l' = []).
  { induction l' as [|a l' IH']; intro H; [reflexivity|]. cbn. rewrite (H a (or_introl eq_refl)). apply IH'. intros y Hy. apply H. right. exact Hy. }
  destruct Hin as [->|Hin].
  - rewrite Hx. f_equal. apply Hnil. intros y Hy. destruct (f y) eqn:E; [|reflexivity]. exfalso. apply Hnot. rewrite <- (Hu y (or_intror Hy) E). exact Hy.
  - destruct (f h) eqn:E.
    + exfalso. apply Hnot. rewrite (Hu h (or_introl eq_refl) E). exact Hin.
    + apply IH; try assumption. intros y Hy. apply Hu. right. exact Hy.
Qed.

Lemma short_list_eq {A} (l : list A) x y : (1 <? List.length l)%nat = false -> In x l -> In y l -> x = y.
Proof.
  intro H. apply Nat.ltb_ge in H. destruct l as [|a [|b t]]; cbn in *; try lia; intros [<-|[]] [<-|[]]; reflexivity.
Qed.

Lemma okind_eqb_eq a b : okind_eqb a b = true <-> a = b.
Proof.
  destruct a as [a|], b as [b|]; cbn; split; intro H; try discriminate H; try reflexivity.
  - f_equal. destruct a, b; try discriminate H; reflexivity.
  - injection H as ->. destruct b; reflexivity.
Qed.

Lemma san_shape_suffix k fl rk cap to promo suf : san_shape k fl rk cap to promo "" ++ suf = san_shape k fl rk cap to promo suf.
Proof. unfold san_shape. rewrite !append_assoc'. cbn [append]. reflexivity. Qed.

(* facts about one legal normal move *)
Lemma legal_normal_facts (p : position) from to promo : legal p (Normal from to promo) = true ->
  (from < 64)%N /\ (to < 64)%N /\ exists kk, moved_kind p from = Some kk /\ bget (brd p) from = Some (stm p, kk) /\ opromo_ok promo /\
    (kk <> Pawn -> promo = None) /\
    (kk = Pawn -> (rank_of to =? match stm p with White => 7 | Black => 0 end) = false -> promo = None).
Proof.
  unfold legal. intro H. apply andb_prop in H as [H _]. cbn [pseudo_legal] in H.
  apply andb_prop in H as [Hb H]. apply andb_prop in Hb as [Hf Ht]. apply N.ltb_lt in Hf, Ht. split; [exact Hf|]. split; [exact Ht|].
  destruct (bget (brd p) from) as [[c k]|] eqn:E; [|discriminate H].
  apply andb_prop in H as [H Hk]. apply andb_prop in H as [Hc _]. assert (c = stm p) by (destruct c, (stm p); try reflexivity; discriminate Hc). subst c.
  exists k. unfold moved_kind. rewrite E. split; [reflexivity|]. split; [reflexivity|].
  destruct k.
  - unfold pawn_move_ok in Hk. cbv zeta in Hk. apply andb_prop in Hk as [Hpr _].
    split; [|split; [congruence|]].
    + destruct promo as [kk'|]; [|exact I]. cbn. destruct (rank_of to =? _); [exact Hpr|discriminate Hpr].
    + intros _ Hr. rewrite Hr in Hpr. destruct promo; [discriminate Hpr|reflexivity].
  - apply andb_prop in Hk as [Hpr _]. destruct promo; [discriminate Hpr|]. repeat split; congruence.
  - apply andb_prop in Hk as [Hpr _]. destruct promo; [discriminate Hpr|]. repeat split; congruence.
  - apply andb_prop in Hk as [Hpr _]. destruct promo; [discriminate Hpr|]. repeat split; congruence.
  - apply andb_prop in Hk as [Hpr _]. destruct promo; [discriminate Hpr|]. repeat split; congruence.
  - apply andb_prop in Hk as [Hpr _]. destruct promo; [discriminate Hpr|]. repeat split; congruence.
Qed.

(* a pawn that moves to [to] without promoting shows that [to] is not on the last rank *)
Lemma pawn_no_promo_rank (p : position) from to : legal p (Normal from to None) = true -> bget (brd p) from = Some (stm p, Pawn) ->
  (rank_of to =? match stm p with White => 7 | Black => 0 end) = false.
Proof.
  unfold legal. intros H E. apply andb_prop in H as [H _]. cbn [pseudo_legal] in H. apply andb_prop in H as [_ H]. rewrite E in H.
  apply andb_prop in H as [_ Hk]. unfold pawn_move_ok in Hk. cbv zeta in Hk. apply andb_prop in Hk as [Hpr _].
  destruct (rank_of to =? _); [discriminate Hpr|reflexivity].
Qed.

Section RoundTrip.
  Variable p : position.
  Variables from to : N.
  Variable promo : option kind.
  Variable kk : kind.
  Hypothesis Hlegal : legal p (Normal from to promo) = true.
  Hypothesis Hk : bget (brd p) from = Some (stm p, kk).

  Let fl := san_fl p from to promo kk.
  Let rk := san_rk p from to promo kk.

  (* what parse_san's filter tests, written with the fields san() chose *)
  Definition ok' (m' : move) : bool :=
    match m' with
    | Normal f t pr =>
      okind_eqb (moved_kind p f) (Some kk) &&
      (match fl with Some z => (file_of f =? z) | None => true end) &&
      (match rk with Some z => (rank_of f =? z) | None => true end) &&
      (t =? to)%N &&
      (match promo with Some pk => okind_eqb pr (Some pk) | None => true end)
    | Castle _ => false
    end.

  Lemma ok'_self : ok' (Normal from to promo) = true.
  Proof.
    cbn [ok']. unfold moved_kind. rewrite Hk. rewrite (proj2 (okind_eqb_eq (Some kk) (Some kk)) eq_refl). cbn [andb].
    unfold fl, rk, san_fl, san_rk.
    destruct (multiple p to promo kk || captures p to kk && is_pawn_k kk); [rewrite Z.eqb_refl|]; cbn [andb];
      (destruct (multiple p to promo kk && multiple_file p from to promo kk); [rewrite Z.eqb_refl|]); cbn [andb]; rewrite N.eqb_refl; cbn [andb];
      (destruct promo as [pk|]; [apply okind_eqb_eq; reflexivity|reflexivity]).
  Qed.

  Lemma ok'_unique m' : legal p m' = true -> ok' m' = true -> m' = Normal from to promo.
  Proof.
    intros Hl' Hok. destruct m' as [f t pr|ks]; [|discriminate Hok]. cbn [ok'] in Hok.
    repeat (apply andb_prop in Hok; destruct Hok as [Hok ?]).
    match goal with K : (t =? to)%N = true |- _ => apply N.eqb_eq in K; subst t end.
    apply okind_eqb_eq in Hok. rename Hok into Hkind.
    destruct (legal_normal_facts p f to pr Hl') as [Hf [_ [k' [Hmk' [Hg' [_ [Hnp' Hpawn']]]]]]].
    rewrite Hmk' in Hkind. injection Hkind as ->.
    (* the promotion piece agrees *)
    assert (Hpr : pr = promo).
    { destruct promo as [pk|] eqn:Epromo.
      - match goal with K : okind_eqb pr (Some pk) = true |- _ => apply okind_eqb_eq in K; exact K end.
      - destruct kk eqn:Ekk; try (apply Hnp'; discriminate).
        apply Hpawn'; [reflexivity|]. apply (pawn_no_promo_rank p from to Hlegal Hk). }
    subst pr.
    (* both moves are in san()'s list of candidates *)
    assert (Hin : forall g, legal p (Normal g to promo) = true -> moved_kind p g = Some kk -> In (Normal g to promo) (matching p to promo kk)).
    { intros g Hg Hmk. unfold matching. apply filter_In. split; [apply legal_moves_iff; exact Hg|]. cbn [same_m]. rewrite Hmk.
      rewrite (proj2 (okind_eqb_eq (Some kk) (Some kk)) eq_refl), N.eqb_refl, (proj2 (okind_eqb_eq promo promo) eq_refl). reflexivity. }
    assert (Hme : In (Normal from to promo) (matching p to promo kk)) by (apply Hin; [exact Hlegal|unfold moved_kind; rewrite Hk; reflexivity]).
    assert (Hother : In (Normal f to promo) (matching p to promo kk)) by (apply Hin; assumption).
    destruct (multiple p to promo kk) eqn:Emul.
    - (* several candidates: the file was written *)
      assert (Hfile : file_of f = file_of from).
      { unfold fl, san_fl in *. rewrite Emul in *. cbn [orb] in *. match goal with K : (file_of f =? file_of from) = true |- _ => apply Z.eqb_eq in K; exact K end. }
      assert (Hme2 : In (Normal from to promo) (filter (same_file_m from) (matching p to promo kk))) by (apply filter_In; split; [exact Hme|cbn; apply Z.eqb_refl]).
      assert (Hother2 : In (Normal f to promo) (filter (same_file_m from) (matching p to promo kk))) by (apply filter_In; split; [exact Hother|cbn; apply Z.eqb_eq; exact Hfile]).
      destruct (multiple_file p from to promo kk) eqn:Emf.
      + assert (Hrank : rank_of f = rank_of from).
        { unfold rk, san_rk in *. rewrite Emul, Emf in *. cbn [andb] in *. match goal with K : (rank_of f =? rank_of from) = true |- _ => apply Z.eqb_eq in K; exact K end. }
        f_equal. rewrite <- (sq_of_file_rank f), <- (sq_of_file_rank from), Hfile, Hrank. reflexivity.
      + exact (short_list_eq _ _ _ Emf Hother2 Hme2).
    - exact (short_list_eq _ _ _ Emul Hother Hme).
  Qed.
End RoundTrip.

Lemma suffix_in (p : position) (m : move) :
  In (let q := make_move p m in if checkmate q then "#" else if in_check (brd q) (stm q) then "+" else "") suffixes.
Proof. cbv zeta. destruct (checkmate _); [cbn; tauto|]. destruct (in_check _ _); cbn; tauto. Qed.

Lemma has_castle (p : position) ks : legal p (Castle ks) = true ->
  existsb (fun m' => match Castle ks, m' with Castle a, Castle b => Bool.eqb a b | _, _ => false end) (legal_moves p) = true.
Proof. intro H. apply existsb_exists. exists (Castle ks). split; [apply legal_moves_iff; exact H|destruct ks; reflexivity]. Qed.

Theorem san_roundtrip (p : position) (m : move) : legal p m = true -> san_parse p (san_print p m) = Some m.
Proof.
  intro Hlegal. unfold san_print. pose proof (suffix_in p m) as Hsuf. cbv zeta in Hsuf.
  set (suf := if checkmate (make_move p m) then "#" else if in_check (brd (make_move p m)) (stm (make_move p m)) then "+" else "") in *.
  destruct m as [from to promo|ks].
  - destruct (legal_normal_facts p from to promo Hlegal) as [Hf [Ht [kk [Hmk [Hg [Hpr _]]]]]].
    rewrite (san_basic_shape p from to promo kk Hmk). rewrite san_shape_suffix.
    set (fl := san_fl p from to promo kk). set (rk := san_rk p from to promo kk). set (cap := captures p to kk).
    assert (Hfl : ofile_ok fl).
    { unfold fl, san_fl. destruct (_ || _); [|exact I]. unfold ofile_ok. rewrite file_of_mod. lia. }
    assert (Hrk : ofile_ok rk).
    { unfold rk, san_rk. destruct (_ && _); [|exact I]. unfold ofile_ok. split; [apply rank_of_nonneg|apply rank_of_lt8; exact Hf]. }
    pose proof (front_ok_all kk fl rk cap to promo suf Hfl Hrk Ht Hpr Hsuf) as F.
    unfold front_ok in F. cbv zeta in F.
    set (str := san_shape kk fl rk cap to promo suf) in *.
    apply andb_prop in F as [F Hre]. apply andb_prop in F as [C1 C2]. apply negb_true_iff in C1, C2.
    unfold san_parse. cbv zeta. rewrite C1, C2.
    destruct (regex_match str) as [sm|]; [|discriminate Hre].
    repeat (apply andb_prop in Hre; destruct Hre as [Hre ?]).
    apply oascii_eqb_eq in Hre.
    repeat match goal with K : oascii_eqb _ _ = true |- _ => apply oascii_eqb_eq in K end.
    repeat match goal with K : Ascii.eqb _ _ = true |- _ => apply Ascii.eqb_eq in K end.
    match goal with K : sm_file sm = _ |- _ => rename K into Efile end.
    match goal with K : sm_rank sm = _ |- _ => rename K into Erank end.
    match goal with K : sm_promo sm = _ |- _ => rename K into Epromo end.
    match goal with K : fst (sm_to sm) = _ |- _ => rename K into Eto1 end.
    match goal with K : snd (sm_to sm) = _ |- _ => rename K into Eto2 end.
    rewrite Hre, Efile, Erank, Epromo, Eto1, Eto2. rewrite letter_kind_char.
    change (String (file_char (file_of to)) (String (rank_char (rank_of to)) "")) with (square_name to). rewrite (parse_square_name to Ht).
    (* the promotion piece read back *)
    assert (Epr : match (match promo with Some kk0 => letter_char kk0 | None => None end) with
                  | Some c => Some (letter_kind (Some c)) | None => None end = promo).
    { destruct promo as [pk|]; [|reflexivity]. destruct (letter_kind_promo pk Hpr) as [A B].
      destruct (letter_char pk) as [c|] eqn:E; [|congruence]. rewrite A. reflexivity. }
    rewrite Epr.
    assert (Hnotpk : match promo with Some Pawn | Some King => false | _ => true end = true).
    { destruct promo as [[]|]; try reflexivity; discriminate Hpr. }
    (* the filter is ok' *)
    assert (Hfilter : filter (fun m' => match m' with
              | Normal f t pr => okind_eqb (moved_kind p f) (Some kk) &&
                 match option_map file_char fl with Some c => file_of f =? Z.of_nat (nat_of_ascii c) - 97 | None => true end &&
                 match option_map rank_char rk with Some c => rank_of f =? Z.of_nat (nat_of_ascii c) - 49 | None => true end &&
                 match Some to with Some t' => (t =? t')%N | None => false end &&
                 match promo with Some pk => okind_eqb pr (Some pk) | None => true end
              | Castle _ => false end) (legal_moves p) = [Normal from to promo]).
    { rewrite (filter_ext _ (ok' p from to promo kk)).
      - apply filter_singleton; [apply legal_moves_nodup|apply legal_moves_iff; exact Hlegal|apply ok'_self; assumption|].
        intros y Hy Hoky. apply legal_moves_iff in Hy. apply (ok'_unique p from to promo kk Hlegal Hg y Hy Hoky).
      - intros [f t pr|]; [|reflexivity]. cbn [ok']. fold fl rk.
        destruct fl as [z|]; cbn [option_map]; [cbn in Hfl; rewrite (file_char_back z Hfl)|];
          (destruct rk as [z'|]; cbn [option_map]; [cbn in Hrk; rewrite (rank_char_back z' Hrk)|]); reflexivity. }
    destruct promo as [[]|]; try discriminate Hnotpk; rewrite Hfilter; reflexivity.
  - pose proof (has_castle p ks Hlegal) as Hhas. unfold san_parse. cbv zeta.
    destruct ks; cbn [san_basic].
    + assert (E : strip_suffix ("O-O" ++ suf) = "O-O") by (destruct Hsuf as [<-|[<-|[<-|[]]]]; reflexivity).
      rewrite E. cbn [String.eqb Ascii.eqb orb]. change (("O-O" =? "0-0")%string || ("O-O" =? "O-O")%string) with true. cbv iota. rewrite Hhas. reflexivity.
    + assert (E : strip_suffix ("O-O-O" ++ suf) = "O-O-O") by (destruct Hsuf as [<-|[<-|[<-|[]]]]; reflexivity).
      rewrite E. change (("O-O-O" =? "0-0")%string || ("O-O-O" =? "O-O")%string) with false.
      change (("O-O-O" =? "0-0-0")%string || ("O-O-O" =? "O-O-O")%string) with true. cbv iota. rewrite Hhas. reflexivity.
Qed.

(* unambiguous: two legal moves never print the same text *)
Corollary san_injective (p : position) (m1 m2 : move) : legal p m1 = true -> legal p m2 = true -> san_print p m1 = san_print p m2 -> m1 = m2.
Proof. intros H1 H2 E. pose proof (san_roundtrip p m1 H1) as R1. rewrite E, (san_roundtrip p m2 H2) in R1. congruence. Qed.
