(* Round-trip theorems for the move text (and, below, FEN). *)
From CV Require Import Chess.Rules Chess.Fen Chess.RulesFacts Base.FileRank.
From Coq Require Import Lia.
Local Open Scope string_scope.

Lemma parse_square_name_all :
  forallb (fun s => match parse_square (square_name s) with Some x => (x =? s)%N | None => false end)
          all_squares = true.
Proof. vm_compute. reflexivity. Qed.

Lemma parse_square_name (s : N) : (s < 64)%N -> parse_square (square_name s) = Some s.
Proof.
  intro H. pose proof parse_square_name_all as A. rewrite forallb_forall in A.
  specialize (A s (proj1 (in_all_squares s) H)).
  destruct (parse_square (square_name s)) as [x|]; [|discriminate].
  apply N.eqb_eq in A. congruence.
Qed.

Lemma legal_normal_inv (p : position) (from to : N) (promo : option kind) :
  legal p (Normal from to promo) = true ->
  (from < 64)%N /\ (to < 64)%N /\
  exists c k, bget (brd p) from = Some (c, k) /\
    match k with
    | Pawn => promo = None \/ promo_ok promo = true
    | _ => promo = None /\ piece_attacks (brd p) c k from to = true
    end.
Proof.
  intro H. unfold legal in H. apply andb_prop in H. destruct H as [H _].
  cbn [pseudo_legal] in H.
  apply andb_prop in H. destruct H as [H Hrest].
  apply andb_prop in H. destruct H as [Hf Ht].
  apply N.ltb_lt in Hf, Ht. split; [exact Hf|]. split; [exact Ht|].
  destruct (bget (brd p) from) as [[c k]|] eqn:Hg; [|discriminate].
  exists c, k. split; [reflexivity|].
  apply andb_prop in Hrest. destruct Hrest as [_ Hk].
  destruct k;
    try (apply andb_prop in Hk; destruct Hk as [Hpr Hatt]; split; [destruct promo; [discriminate|reflexivity]|exact Hatt]).
  unfold pawn_move_ok in Hk. apply andb_prop in Hk. destruct Hk as [Hpr _].
  destruct (Z.eqb (rank_of to) _) in Hpr.
  - right. exact Hpr.
  - left. destruct promo; [discriminate|reflexivity].
Qed.

Lemma king_never_moves_two :
  forall b c, piece_attacks b c King 4 6 = false /\ piece_attacks b c King 4 2 = false /\
              piece_attacks b c King 60 62 = false /\ piece_attacks b c King 60 58 = false.
Proof. intros b c. repeat split; vm_compute; reflexivity. Qed.

Lemma promo_roundtrip (promo : option kind) :
  promo = None \/ promo_ok promo = true ->
  match (match promo with Some k => promo_char k | None => "" end) with
  | EmptyString => Some None
  | String pc _ => match char_promo pc with Some k => Some (Some k) | None => None end
  end = Some promo.
Proof.
  intros [->|H]; [reflexivity|].
  destruct promo as [[]|]; try discriminate; reflexivity.
Qed.

Lemma uci_parse_normal (p : position) (from to : N) (promo : option kind) :
  (from < 64)%N -> (to < 64)%N ->
  promo = None \/ promo_ok promo = true ->
  uci_parse p (uci_print p (Normal from to promo)) =
    let king_from := match bget (brd p) from with Some (_, King) => true | _ => false end in
    if king_from && (from =? 4)%N && (to =? 6)%N then Some (Castle true)
    else if king_from && (from =? 4)%N && (to =? 2)%N then Some (Castle false)
    else if king_from && (from =? 60)%N && (to =? 62)%N then Some (Castle true)
    else if king_from && (from =? 60)%N && (to =? 58)%N then Some (Castle false)
    else Some (Normal from to promo).
Proof.
  intros Hf Ht Hp.
  unfold uci_print.
  pose proof (parse_square_name from Hf) as Pf. pose proof (parse_square_name to Ht) as Pt.
  unfold square_name in *.
  cbn [append].
  unfold uci_parse. rewrite Pf, Pt.
  rewrite (promo_roundtrip promo Hp). reflexivity.
Qed.

Definition kf (p : position) (s : N) : bool :=
  match bget (brd p) s with Some (_, King) => true | _ => false end.
Lemma uci_parse_castle_texts (p : position) :
  uci_parse p "e1g1" = (if kf p 4 then Some (Castle true) else Some (Normal 4 6 None)) /\
  uci_parse p "e1c1" = (if kf p 4 then Some (Castle false) else Some (Normal 4 2 None)) /\
  uci_parse p "e8g8" = (if kf p 60 then Some (Castle true) else Some (Normal 60 62 None)) /\
  uci_parse p "e8c8" = (if kf p 60 then Some (Castle false) else Some (Normal 60 58 None)).
Proof.
  unfold kf. repeat split; unfold uci_parse;
  repeat match goal with |- context [parse_square ?s] =>
    let v := eval vm_compute in (parse_square s) in change (parse_square s) with v end;
  cbv beta iota;
  match goal with |- context [bget (brd p) ?s] => destruct (bget (brd p) s) as [[c k]|]; [destruct k|] end;
  reflexivity.
Qed.

Theorem uci_roundtrip (p : position) (m : move) :
  legal p m = true -> uci_parse p (uci_print p m) = Some m.
Proof.
  intro H. destruct m as [from to promo|ks].
  - destruct (legal_normal_inv _ _ _ _ H) as [Hf [Ht [c [k [Hg Hk]]]]].
    rewrite uci_parse_normal; try assumption.
    2:{ destruct k; tauto. }
    cbv zeta. rewrite Hg.
    destruct (king_never_moves_two (brd p) c) as [K1 [K2 [K3 K4]]].
    destruct k; try reflexivity.
    destruct Hk as [_ Hatt].
    destruct ((from =? 4)%N) eqn:E4; [apply N.eqb_eq in E4; subst from|].
    + destruct ((to =? 6)%N) eqn:E6; [apply N.eqb_eq in E6; subst to; congruence|].
      destruct ((to =? 2)%N) eqn:E2; [apply N.eqb_eq in E2; subst to; congruence|].
      reflexivity.
    + destruct ((from =? 60)%N) eqn:E60; [apply N.eqb_eq in E60; subst from|reflexivity].
      destruct ((to =? 62)%N) eqn:E62; [apply N.eqb_eq in E62; subst to; congruence|].
      destruct ((to =? 58)%N) eqn:E58; [apply N.eqb_eq in E58; subst to; congruence|].
      reflexivity.
  - unfold legal in H. apply andb_prop in H. destruct H as [H _].
    cbn [pseudo_legal] in H. unfold castle_ok in H.
    repeat (apply andb_prop in H; let H2 := fresh "C" in destruct H as [H H2]).
    (* C4 : king on its home square *)
    match goal with K : is_piece (brd p) (sq_of 4 (home_rank (stm p))) (stm p) King = true |- _ => rename K into HK end.
    unfold is_piece in HK.
    destruct (stm p) eqn:Es; cbn [home_rank] in HK.
    + change (sq_of 4 0) with 4%N in HK.
      destruct (bget (brd p) 4) as [[c' k']|] eqn:Hg; [|discriminate].
      apply andb_prop in HK. destruct HK as [_ HK]. destruct k'; try discriminate.
      destruct (uci_parse_castle_texts p) as [T1 [T2 _]]. unfold kf in T1, T2. rewrite Hg in T1, T2.
      destruct ks; unfold uci_print; rewrite Es; assumption.
    + change (sq_of 4 7) with 60%N in HK.
      destruct (bget (brd p) 60) as [[c' k']|] eqn:Hg; [|discriminate].
      apply andb_prop in HK. destruct HK as [_ HK]. destruct k'; try discriminate.
      destruct (uci_parse_castle_texts p) as [_ [_ [T3 T4]]]. unfold kf in T3, T4. rewrite Hg in T3, T4.
      destruct ks; unfold uci_print; rewrite Es; assumption.
Qed.
