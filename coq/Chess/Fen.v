(* FEN printing and parsing, mirroring Position::fen() and Position::Position(std::string). *)
From CV Require Export Chess.Rules.
From Coq Require Export String Ascii.
From Coq Require Import DecimalString.
Local Open Scope string_scope.
Local Open Scope Z_scope.

Definition piece_char (pc : piece) : ascii :=
  match pc with
  | (White, Pawn) => "P" | (White, Knight) => "N" | (White, Bishop) => "B"
  | (White, Rook) => "R" | (White, Queen) => "Q" | (White, King) => "K"
  | (Black, Pawn) => "p" | (Black, Knight) => "n" | (Black, Bishop) => "b"
  | (Black, Rook) => "r" | (Black, Queen) => "q" | (Black, King) => "k"
  end%char.

Definition char_piece (c : ascii) : option piece :=
  match c with
  | "P" => Some (White, Pawn) | "N" => Some (White, Knight) | "B" => Some (White, Bishop)
  | "R" => Some (White, Rook) | "Q" => Some (White, Queen) | "K" => Some (White, King)
  | "p" => Some (Black, Pawn) | "n" => Some (Black, Knight) | "b" => Some (Black, Bishop)
  | "r" => Some (Black, Rook) | "q" => Some (Black, Queen) | "k" => Some (Black, King)
  | _ => None
  end%char.

Definition digit_char (n : nat) : ascii := ascii_of_nat (48 + n).
Definition char_digit (c : ascii) : option nat :=
  let n := nat_of_ascii c in
  if (48 <=? n)%nat && (n <=? 57)%nat then Some (n - 48)%nat else None.

(* one rank, files a..h: runs of empty squares become a digit *)
Fixpoint print_rank (l : list (option piece)) (run : nat) : string :=
  match l with
  | [] => match run with O => "" | _ => String (digit_char run) "" end
  | None :: t => print_rank t (S run)
  | Some pc :: t =>
    match run with
    | O => String (piece_char pc) (print_rank t 0)
    | _ => String (digit_char run) (String (piece_char pc) (print_rank t 0))
    end
  end.

Definition rank_squares (b : board) (r : nat) : list (option piece) :=
  firstn 8 (skipn (8 * r) b).

Definition print_placement (b : board) : string :=
  concat "/" (map (fun r => print_rank (rank_squares b r) 0) [7; 6; 5; 4; 3; 2; 1; 0]%nat).

Definition print_rights (cr : castling) : string :=
  if negb (wk cr || wq cr || bk cr || bq cr) then "-"
  else (if wk cr then "K" else "") ++ (if wq cr then "Q" else "") ++
       (if bk cr then "k" else "") ++ (if bq cr then "q" else "").

Definition file_char (f : Z) : ascii := ascii_of_nat (97 + Z.to_nat f).
Definition rank_char (r : Z) : ascii := ascii_of_nat (49 + Z.to_nat r).
Definition square_name (s : N) : string := String (file_char (file_of s)) (String (rank_char (rank_of s)) "").

Definition print_Z (z : Z) : string := NilZero.string_of_uint (N.to_uint (Z.to_N z)).

Definition fen_print (p : position) : string :=
  print_placement (brd p) ++ " " ++ (match stm p with White => "w" | Black => "b" end) ++ " " ++
  print_rights (rights p) ++ " " ++
  (match ep p with Some e => square_name e | None => "-" end) ++ " " ++
  print_Z (clock p) ++ " " ++ print_Z (fullmove p).

(* ---- parsing ---- *)
Fixpoint split_on (sep : ascii) (s : string) (cur : string) : list string :=
  match s with
  | EmptyString => [cur]
  | String c t => if Ascii.eqb c sep then cur :: split_on sep t "" else split_on sep t (cur ++ String c "")
  end.
Definition tokens (s : string) : list string :=
  filter (fun t => negb (String.eqb t "")) (split_on " " s "").

(* the constructor's placement loop: square starts at a8 (56); '/' subtracts 16; a digit d adds d;
   a piece letter is stored and the square incremented *)
Fixpoint parse_placement (s : string) (sq : Z) (b : board) : option board :=
  match s with
  | EmptyString => Some b
  | String c t =>
    if Ascii.eqb c "/" then parse_placement t (sq - 16) b
    else match char_digit c with
         | Some d => parse_placement t (sq + Z.of_nat d) b
         | None =>
           match char_piece c with
           | Some pc => if (0 <=? sq) && (sq <? 64) then parse_placement t (sq + 1) (set b (Z.to_N sq) (Some pc))
                        else None
           | None => None
           end
         end
  end.

Fixpoint parse_rights (s : string) (cr : castling) : castling :=
  match s with
  | EmptyString => cr
  | String c t =>
    parse_rights t
      (if Ascii.eqb c "K" then {| wk := true; wq := wq cr; bk := bk cr; bq := bq cr |}
       else if Ascii.eqb c "Q" then {| wk := wk cr; wq := true; bk := bk cr; bq := bq cr |}
       else if Ascii.eqb c "k" then {| wk := wk cr; wq := wq cr; bk := true; bq := bq cr |}
       else if Ascii.eqb c "q" then {| wk := wk cr; wq := wq cr; bk := bk cr; bq := true |}
       else cr)
  end.

Definition parse_square (s : string) : option N :=
  match s with
  | String fc (String rc EmptyString) =>
    let f := Z.of_nat (nat_of_ascii fc) - 97 in
    let r := Z.of_nat (nat_of_ascii rc) - 49 in
    if on_board f r then Some (sq_of f r) else None
  | _ => None
  end.

Definition parse_Z (s : string) : option Z :=
  match NilZero.uint_of_string s with
  | Some u => Some (Z.of_N (N.of_uint u))
  | None => None
  end.

Definition no_rights : castling := {| wk := false; wq := false; bk := false; bq := false |}.

Definition fen_parse (s : string) : option position :=
  match tokens s with
  | [pl; side; cr; e; hm; fm] =>
    match parse_placement pl 56 empty_board, parse_Z hm, parse_Z fm with
    | Some b, Some h, Some f =>
      let e' := if String.eqb e "-" then Some None
                else match parse_square e with Some x => Some (Some x) | None => None end in
      match e' with
      | Some e'' =>
        Some {| brd := b; stm := if String.eqb side "w" then White else Black;
                rights := parse_rights cr no_rights; ep := e''; clock := h; fullmove := f |}
      | None => None
      end
    | _, _, _ => None
    end
  | _ => None
  end.

(* ---- UCI long algebraic move text (Position::uci / parse_uci) ---- *)
Definition promo_char (k : kind) : string :=
  match k with Knight => "n" | Bishop => "b" | Rook => "r" | Queen => "q" | _ => "" end.

Definition uci_print (p : position) (m : move) : string :=
  match m with
  | Castle true => match stm p with White => "e1g1" | Black => "e8g8" end
  | Castle false => match stm p with White => "e1c1" | Black => "e8c8" end
  | Normal from to promo =>
    square_name from ++ square_name to ++ match promo with Some k => promo_char k | None => "" end
  end.

Definition char_promo (c : ascii) : option kind :=
  match c with
  | "n" | "N" => Some Knight | "b" | "B" => Some Bishop
  | "r" | "R" => Some Rook | "q" | "Q" => Some Queen
  | _ => None
  end%char.

Definition uci_parse (p : position) (s : string) : option move :=
  match s with
  | String a (String b (String c (String d rest))) =>
    match parse_square (String a (String b "")), parse_square (String c (String d "")) with
    | Some from, Some to =>
      let promo := match rest with
                   | EmptyString => Some None
                   | String pc _ => match char_promo pc with Some k => Some (Some k) | None => None end
                   end in
      match promo with
      | None => None
      | Some pr =>
        let king_from := match bget (brd p) from with Some (_, King) => true | _ => false end in
        if king_from && (from =? 4)%N && (to =? 6)%N then Some (Castle true)
        else if king_from && (from =? 4)%N && (to =? 2)%N then Some (Castle false)
        else if king_from && (from =? 60)%N && (to =? 62)%N then Some (Castle true)
        else if king_from && (from =? 60)%N && (to =? 58)%N then Some (Castle false)
        else Some (Normal from to pr)
      end
    | _, _ => None
    end
  | _ => None
  end.
