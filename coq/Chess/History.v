(* History-level draw and terminal predicates (FIDE 5.2, 9.2, 9.3, 9.6 as far as the property needs). *)
From CV Require Export Chess.Rules.
From Coq Require Import List.
Local Open Scope Z_scope.

Definition piece_eqb (a b : option piece) : bool :=
  match a, b with
  | None, None => true
  | Some (c1, k1), Some (c2, k2) => color_eqb c1 c2 && kind_eqb k1 k2
  | _, _ => false
  end.
Fixpoint board_eqb (a b : board) : bool :=
  match a, b with
  | [], [] => true
  | x :: a', y :: b' => piece_eqb x y && board_eqb a' b'
  | _, _ => false
  end.
Definition rights_eqb (a b : castling) : bool :=
  Bool.eqb (wk a) (wk b) && Bool.eqb (wq a) (wq b) && Bool.eqb (bk a) (bk b) && Bool.eqb (bq a) (bq b).
Definition ep_eqb (a b : option N) : bool :=
  match a, b with None, None => true | Some x, Some y => (x =? y)%N | _, _ => false end.

(* positions compared by placement, side to move, castling rights and en-passant square *)
Definition same_position (p q : position) : bool :=
  board_eqb (brd p) (brd q) && color_eqb (stm p) (stm q) && rights_eqb (rights p) (rights q)
  && ep_eqb (ep p) (ep q).

(* a game as the list of positions reached so far, most recent first *)
Definition occurred_before (h : list position) : bool :=
  match h with [] => false | p :: earlier => existsb (same_position p) earlier end.
Definition occurred_three_times (h : list position) : bool :=
  match h with
  | [] => false
  | p :: earlier => (2 <=? length (filter (same_position p) earlier))%nat
  end.
Definition fifty_moves (p : position) : bool := 100 <=? clock p.

Definition count_kind (b : board) (k : kind) : nat :=
  (count_piece b White k + count_piece b Black k)%nat.
(* insufficient material as the property defines it: bare kings or a single minor piece *)
Definition insufficient_material (b : board) : bool :=
  ((count_kind b Pawn + count_kind b Rook + count_kind b Queen =? 0)%nat) &&
  ((count_kind b Knight + count_kind b Bishop <=? 1)%nat).

Fixpoint play_history (h : list position) (ms : list move) : list position :=
  match ms, h with
  | m :: r, p :: _ => play_history (make_move p m :: h) r
  | _, _ => h
  end.
