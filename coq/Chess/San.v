(* Standard algebraic notation as the engine prints and parses it
   (Position::san / san_without_check / parse_san, with SAN_REGEX as an explicit backtracking matcher). *)
From CV Require Export Chess.Rules Chess.Fen.
Local Open Scope string_scope.

Definition kind_letter (k : kind) : string :=
  match k with Pawn => "" | Knight => "N" | Bishop => "B" | Rook => "R" | Queen => "Q" | King => "K" end.

Definition moved_kind (p : position) (from : N) : option kind :=
  match bget (brd p) from with Some (_, k) => Some k | None => None end.
Definition okind_eqb (a b : option kind) : bool :=
  match a, b with
  | None, None => true
  | Some x, Some y => kind_eqb x y
  | _, _ => false
  end.

Definition san_basic (p : position) (m : move) : string :=
  match m with
  | Castle true => "O-O"
  | Castle false => "O-O-O"
  | Normal from to promo =>
    let k := moved_kind p from in
    let same m' := match m' with
                   | Normal f' t' pr' => okind_eqb (moved_kind p f') k && (t' =? to)%N && okind_eqb pr' promo
                   | Castle _ => false
                   end in
    let matching := filter same (legal_moves p) in
    let s0 := match k with Some kk => kind_letter kk | None => "" end in
    let same_file m' := match m' with Normal f' _ _ => (file_of f' =? file_of from)%Z | _ => false end in
    let s1 := if (1 <? List.length matching)%nat
              then s0 ++ String (file_char (file_of from)) ""
                   ++ (if (1 <? List.length (filter same_file matching))%nat then String (rank_char (rank_of from)) "" else "")
              else s0 in
    let is_pawn := match k with Some Pawn => true | _ => false end in
    let captures := is_color (brd p) to (opp (stm p))
                    || (is_pawn && match ep p with Some e => (e =? to)%N | None => false end) in
    let s2 := if captures
              then (if is_pawn && String.eqb s1 "" then String (file_char (file_of from)) "" else s1) ++ "x"
              else s1 in
    s2 ++ square_name to ++ match promo with Some kk => "=" ++ kind_letter kk | None => "" end
  end.

Definition san_print (p : position) (m : move) : string :=
  let q := make_move p m in
  san_basic p m ++ (if checkmate q then "#" else if in_check (brd q) (stm q) then "+" else "").

(* ---- the regex ([NBRQK]?)([a-h]?)([1-8]?)x?([a-h][1-8])=?([nbrqkNBRQK]?)[\+#]? ---- *)
Definition in_chars (c : ascii) (cs : string) : bool :=
  existsb (Ascii.eqb c) (list_ascii_of_string cs).

Record san_match := { sm_piece : option ascii; sm_file : option ascii; sm_rank : option ascii;
                      sm_to : ascii * ascii; sm_promo : option ascii }.

(* optional greedy item: try to consume one char of the class first, then try without *)
Definition opt_class {A} (cls : string) (s : list ascii) (k : option ascii -> list ascii -> option A) : option A :=
  match s with
  | c :: t => if in_chars c cls
              then match k (Some c) t with Some r => Some r | None => k None s end
              else k None s
  | [] => k None s
  end.

Definition regex_match (str : string) : option san_match :=
  opt_class "NBRQK" (list_ascii_of_string str) (fun pc s1 =>
  opt_class "abcdefgh" s1 (fun fl s2 =>
  opt_class "12345678" s2 (fun rk s3 =>
  opt_class "x" s3 (fun _ s4 =>
  match s4 with
  | a :: b :: s5 =>
    if in_chars a "abcdefgh" && in_chars b "12345678" then
      opt_class "=" s5 (fun _ s6 =>
      opt_class "nbrqkNBRQK" s6 (fun pr s7 =>
      opt_class "+#" s7 (fun _ s8 =>
      match s8 with
      | [] => Some {| sm_piece := pc; sm_file := fl; sm_rank := rk; sm_to := (a, b); sm_promo := pr |}
      | _ => None
      end)))
    else None
  | _ => None
  end)))).

Definition letter_kind (o : option ascii) : kind :=
  match o with
  | Some c => if in_chars c "nN" then Knight else if in_chars c "bB" then Bishop
              else if in_chars c "rR" then Rook else if in_chars c "qQ" then Queen
              else if in_chars c "kK" then King else Pawn
  | None => Pawn
  end.

Definition strip_suffix (s : string) : string :=
  match rev (list_ascii_of_string s) with
  | c :: r => if in_chars c "+#" then string_of_list_ascii (rev r) else s
  | [] => s
  end.

(* parse_san: None = NO_MOVE *)
Definition san_parse (p : position) (str : string) : option move :=
  let legal_ms := legal_moves p in
  let has m := existsb (fun m' => match m, m' with
                                  | Castle a, Castle b => Bool.eqb a b
                                  | _, _ => false end) legal_ms in
  let core := strip_suffix str in
  if String.eqb core "0-0" || String.eqb core "O-O" then (if has (Castle true) then Some (Castle true) else None)
  else if String.eqb core "0-0-0" || String.eqb core "O-O-O" then (if has (Castle false) then Some (Castle false) else None)
  else
    match regex_match str with
    | None => None
    | Some sm =>
      let k := letter_kind (sm_piece sm) in
      let to := parse_square (String (fst (sm_to sm)) (String (snd (sm_to sm)) "")) in
      let promo := match sm_promo sm with Some c => Some (letter_kind (Some c)) | None => None end in
      match promo with
      | Some Pawn | Some King => None
      | _ =>
        let ok m' :=
            match m' with
            | Normal f t pr =>
              okind_eqb (moved_kind p f) (Some k) &&
              (match sm_file sm with Some c => (file_of f =? Z.of_nat (nat_of_ascii c) - 97)%Z | None => true end) &&
              (match sm_rank sm with Some c => (rank_of f =? Z.of_nat (nat_of_ascii c) - 49)%Z | None => true end) &&
              (match to with Some t' => (t =? t')%N | None => false end) &&
              (match promo with Some pk => okind_eqb pr (Some pk) | None => true end)
            | Castle _ => false
            end in
        match filter ok legal_ms with
        | [m'] => Some m'
        | _ => None
        end
      end
    end.
