(* C16: the placement field of a FEN: parse_placement (print_placement b) = b for every board of 64 squares
   (run-length digits, rank separators, the square counter of the constructor's loop). *)
From CV Require Import Chess.Rules Chess.Fen Chess.TextProofs Base.NIter.
From Coq Require Import List String Ascii ZArith Lia Bool.
Import ListNotations.
Local Open Scope string_scope.
Local Open Scope Z_scope.

(* ---- characters ---- *)
Lemma char_piece_char pc : char_piece (piece_char pc) = Some pc.
Proof. destruct pc as [[] []]; reflexivity. Qed.
Lemma piece_char_not_slash pc : Ascii.eqb (piece_char pc) "/" = false.
Proof. destruct pc as [[] []]; reflexivity. Qed.
Lemma piece_char_not_digit pc : char_digit (piece_char pc) = None.
Proof. destruct pc as [[] []]; reflexivity. Qed.
Lemma digit_char_digit n : (n <= 9)%nat -> char_digit (digit_char n) = Some n.
Proof. intro H. do 10 (destruct n as [|n]; [reflexivity|]). lia. Qed.
Lemma digit_char_not_slash n : (n <= 9)%nat -> Ascii.eqb (digit_char n) "/" = false.
Proof. intro H. do 10 (destruct n as [|n]; [reflexivity|]). lia. Qed.

(* ---- writing a rank into a board ---- *)
Fixpoint write (B : board) (k : Z) (l : list (option piece)) : board :=
  match l with
  | [] => B
  | None :: t => write B (k + 1) t
  | Some pc :: t => write (set B (Z.to_N k) (Some pc)) (k + 1) t
  end.

Definition starts_ok (rest : string) : Prop := rest = "" \/ exists t, rest = String "/" t.

Lemma parse_rank l : forall run sq B rest, starts_ok rest -> 0 <= sq -> (run <= 8)%nat ->
  sq + Z.of_nat run + Z.of_nat (List.length l) <= 64 -> (run + List.length l <= 8)%nat ->
  parse_placement (print_rank l run ++ rest) sq B =
  parse_placement rest (sq + Z.of_nat run + Z.of_nat (List.length l)) (write B (sq + Z.of_nat run) l).
Proof.
  induction l as [|x t IH]; intros run sq B rest Hr Hsq Hrun Hb Hlen; cbn [print_rank List.length write].
  - destruct run as [|run].
    + cbn [append]. f_equal. lia.
    + cbn [append parse_placement]. rewrite digit_char_not_slash, digit_char_digit by lia.
      replace (sq + Z.of_nat (S run) + Z.of_nat 0) with (sq + Z.of_nat (S run)) by lia. reflexivity.
  - destruct x as [pc|].
    + destruct run as [|run].
      * cbn [append parse_placement]. rewrite piece_char_not_slash, piece_char_not_digit, char_piece_char.
        assert (E : (0 <=? sq) && (sq <? 64) = true) by (apply andb_true_intro; split; [apply Z.leb_le; lia|apply Z.ltb_lt; cbn [List.length] in Hb; lia]).
        rewrite E. rewrite (IH 0%nat (sq + 1) _ rest Hr) by (cbn [List.length] in *; lia).
        change (Z.of_nat 0) with 0. rewrite !Z.add_0_r. cbn [List.length]. rewrite Nat2Z.inj_succ.
        replace (sq + 1 + Z.of_nat (List.length t)) with (sq + Z.succ (Z.of_nat (List.length t))) by lia. reflexivity.
      * cbn [append parse_placement]. rewrite digit_char_not_slash, digit_char_digit by lia.
        rewrite piece_char_not_slash, piece_char_not_digit, char_piece_char.
        assert (E : (0 <=? sq + Z.of_nat (S run)) && (sq + Z.of_nat (S run) <? 64) = true)
          by (apply andb_true_intro; split; [apply Z.leb_le; lia|apply Z.ltb_lt; cbn [List.length] in Hb; lia]).
        rewrite E. rewrite (IH 0%nat (sq + Z.of_nat (S run) + 1) _ rest Hr) by (cbn [List.length] in *; lia).
        change (Z.of_nat 0) with 0. rewrite !Z.add_0_r. cbn [List.length]. rewrite (Nat2Z.inj_succ (List.length t)).
        replace (sq + Z.of_nat (S run) + 1 + Z.of_nat (List.length t)) with (sq + Z.of_nat (S run) + Z.succ (Z.of_nat (List.length t))) by lia. reflexivity.
    + rewrite (IH (S run) sq B rest Hr Hsq) by (cbn [List.length] in *; lia).
      cbn [List.length]. rewrite (Nat2Z.inj_succ run), (Nat2Z.inj_succ (List.length t)).
      replace (sq + Z.succ (Z.of_nat run) + Z.of_nat (List.length t)) with (sq + Z.of_nat run + Z.succ (Z.of_nat (List.length t))) by lia.
      replace (sq + Z.succ (Z.of_nat run)) with (sq + Z.of_nat run + 1) by lia. reflexivity.
Qed.

(* ---- reading a written board ---- *)
Lemma set_nth_length {A} (l : list A) n x : List.length (set_nth l n x) = List.length l.
Proof. revert n. induction l as [|h t IH]; intros [|n]; cbn; auto. Qed.
Lemma nth_set_nth {A} (l : list A) n m x d : (n < List.length l)%nat -> nth m (set_nth l n x) d = if (m =? n)%nat then x else nth m l d.
Proof.
  revert n m. induction l as [|h t IH]; intros n m H; [cbn in H; lia|].
  destruct n as [|n], m as [|m]; cbn [set_nth nth Nat.eqb]; try reflexivity. apply IH. cbn in H. lia.
Qed.

Lemma write_length B k l : List.length (write B k l) = List.length B.
Proof. revert B k. induction l as [|[pc|] t IH]; intros B k; cbn [write]; [reflexivity| |apply IH]. rewrite IH. unfold set. apply set_nth_length. Qed.

Lemma to_nat_of_nat k : N.to_nat (Z.to_N (Z.of_nat k)) = k.
Proof. rewrite Z_N_nat. apply Nat2Z.id. Qed.

Lemma nth_write l : forall B (k n : nat), (k + List.length l <= List.length B)%nat ->
  nth n (write B (Z.of_nat k) l) None =
  if ((k <=? n) && (n <? k + List.length l))%nat
  then match nth (n - k) l None with Some pc => Some pc | None => nth n B None end
  else nth n B None.
Proof.
  induction l as [|x t IH]; intros B k n H; cbn [write List.length].
  - rewrite Nat.add_0_r. destruct (k <=? n)%nat eqn:E1; destruct (n <? k)%nat eqn:E2; cbn [andb]; try reflexivity.
    apply Nat.leb_le in E1. apply Nat.ltb_lt in E2. lia.
  - replace (Z.of_nat k + 1) with (Z.of_nat (S k)) by lia. cbn [List.length] in H.
    assert (Hcond : forall a b : nat, ((a <=? n) && (n <? b))%nat = true <-> (a <= n < b)%nat).
    { intros a b. rewrite andb_true_iff, Nat.leb_le, Nat.ltb_lt. tauto. }
    destruct x as [pc|].
    + rewrite IH by (unfold set; rewrite set_nth_length; lia).
      unfold set. rewrite to_nat_of_nat. rewrite nth_set_nth by lia.
      destruct ((S k <=? n) && (n <? S k + List.length t))%nat eqn:C1; destruct ((k <=? n) && (n <? k + S (List.length t)))%nat eqn:C2.
      * apply Hcond in C1. replace (n - k)%nat with (S (n - S k)) by lia. cbn [nth].
        destruct (nth (n - S k) t None); [reflexivity|]. destruct (n =? k)%nat eqn:E; [apply Nat.eqb_eq in E; lia|reflexivity].
      * apply Hcond in C1. assert (~ (k <= n < k + S (List.length t))%nat) by (intro X; apply Hcond in X; congruence). lia.
      * apply Hcond in C2. assert (N1 : ~ (S k <= n < S k + List.length t)%nat) by (intro X; apply Hcond in X; congruence).
        assert (n = k) by lia. subst n. rewrite Nat.eqb_refl, Nat.sub_diag. reflexivity.
      * assert (N2 : ~ (k <= n < k + S (List.length t))%nat) by (intro X; apply Hcond in X; congruence).
        destruct (n =? k)%nat eqn:E; [apply Nat.eqb_eq in E; lia|reflexivity].
    + rewrite IH by lia.
      destruct ((S k <=? n) && (n <? S k + List.length t))%nat eqn:C1; destruct ((k <=? n) && (n <? k + S (List.length t)))%nat eqn:C2.
      * apply Hcond in C1. replace (n - k)%nat with (S (n - S k)) by lia. reflexivity.
      * apply Hcond in C1. assert (~ (k <= n < k + S (List.length t))%nat) by (intro X; apply Hcond in X; congruence). lia.
      * apply Hcond in C2. assert (N1 : ~ (S k <= n < S k + List.length t)%nat) by (intro X; apply Hcond in X; congruence).
        assert (n = k) by lia. subst n. rewrite Nat.sub_diag. reflexivity.
      * reflexivity.
Qed.

(* ---- the eight ranks ---- *)
Lemma rank_squares_length (b : board) (r : nat) : List.length b = 64%nat -> (r < 8)%nat -> List.length (rank_squares b r) = 8%nat.
Proof. intros H Hr. unfold rank_squares. rewrite firstn_length, skipn_length. lia. Qed.

Lemma nth_firstn' {A} (l : list A) n j d : (j < n)%nat -> nth j (firstn n l) d = nth j l d.
Proof. revert n j. induction l as [|h t IH]; intros [|n] [|j] H; cbn; try reflexivity; try lia. apply IH. lia. Qed.
Lemma nth_skipn' {A} (l : list A) k j d : nth j (skipn k l) d = nth (k + j) l d.
Proof. revert l. induction k as [|k IH]; intro l; [reflexivity|]. destruct l as [|h t]; [destruct j; reflexivity|]. cbn. apply IH. Qed.
Lemma append_nil_r' (s : string) : s ++ "" = s.
Proof. induction s as [|c s IH]; [reflexivity|]. cbn. rewrite IH. reflexivity. Qed.

Lemma append_assoc' (a b c : string) : (a ++ b) ++ c = a ++ (b ++ c).
Proof. induction a as [|x a IH]; [reflexivity|]. cbn. rewrite IH. reflexivity. Qed.

Lemma nth_rank_squares (b : board) (r j : nat) : (j < 8)%nat -> nth j (rank_squares b r) None = nth (8 * r + j) b None.
Proof.
  intro Hj. unfold rank_squares. rewrite nth_firstn' by exact Hj. apply nth_skipn'.
Qed.

Lemma parse_one_rank (b : board) (r : nat) (B : board) (rest : string) : List.length b = 64%nat -> (r < 8)%nat ->
  parse_placement (print_rank (rank_squares b r) 0 ++ String "/" rest) (Z.of_nat (8 * r)) B =
  parse_placement rest (Z.of_nat (8 * r) - 8) (write B (Z.of_nat (8 * r)) (rank_squares b r)).
Proof.
  intros Hb Hr. pose proof (rank_squares_length b r Hb Hr) as Hl.
  rewrite (parse_rank (rank_squares b r) 0 (Z.of_nat (8 * r)) B (String "/" rest)); [|right; eexists; reflexivity|lia|lia|rewrite Hl; lia|rewrite Hl; lia].
  rewrite Hl. cbn [parse_placement]. change (Ascii.eqb "/" "/") with true. cbv iota.
  change (Z.of_nat 0) with 0. rewrite !Z.add_0_r. f_equal. lia.
Qed.

Lemma parse_last_rank (b : board) (B : board) : List.length b = 64%nat ->
  parse_placement (print_rank (rank_squares b 0) 0) 0 B = Some (write B 0 (rank_squares b 0)).
Proof.
  intro Hb. pose proof (rank_squares_length b 0 Hb ltac:(lia)) as Hl.
  rewrite <- (append_nil_r' (print_rank (rank_squares b 0) 0)) at 1.
  rewrite (parse_rank (rank_squares b 0) 0 0 B ""); [|left; reflexivity|lia|lia|rewrite Hl; lia|rewrite Hl; lia].
  reflexivity.
Qed.

Definition written (b : board) : board :=
  write (write (write (write (write (write (write (write empty_board 56 (rank_squares b 7)) 48 (rank_squares b 6)) 40 (rank_squares b 5))
        32 (rank_squares b 4)) 24 (rank_squares b 3)) 16 (rank_squares b 2)) 8 (rank_squares b 1)) 0 (rank_squares b 0).

Lemma parse_print_placement (b : board) : List.length b = 64%nat ->
  parse_placement (print_placement b) 56 empty_board = Some (written b).
Proof.
  intro Hb. unfold print_placement. cbn [map concat].
  rewrite ?append_assoc'. cbn [append].
  change 56 with (Z.of_nat (8 * 7)). rewrite (parse_one_rank b 7) by (first [exact Hb|lia]).
  change (Z.of_nat (8 * 7) - 8) with (Z.of_nat (8 * 6)). rewrite (parse_one_rank b 6) by (first [exact Hb|lia]).
  change (Z.of_nat (8 * 6) - 8) with (Z.of_nat (8 * 5)). rewrite (parse_one_rank b 5) by (first [exact Hb|lia]).
  change (Z.of_nat (8 * 5) - 8) with (Z.of_nat (8 * 4)). rewrite (parse_one_rank b 4) by (first [exact Hb|lia]).
  change (Z.of_nat (8 * 4) - 8) with (Z.of_nat (8 * 3)). rewrite (parse_one_rank b 3) by (first [exact Hb|lia]).
  change (Z.of_nat (8 * 3) - 8) with (Z.of_nat (8 * 2)). rewrite (parse_one_rank b 2) by (first [exact Hb|lia]).
  change (Z.of_nat (8 * 2) - 8) with (Z.of_nat (8 * 1)). rewrite (parse_one_rank b 1) by (first [exact Hb|lia]).
  change (Z.of_nat (8 * 1) - 8) with 0. rewrite (parse_last_rank b) by exact Hb. reflexivity.
Qed.

Lemma nth_repeat_none n m : nth n (repeat (@None piece) m) None = None.
Proof. revert n. induction m as [|m IH]; intros [|n]; cbn; auto. Qed.

Lemma written_nth (b : board) (n : nat) : List.length b = 64%nat -> (n < 64)%nat -> nth n (written b) None = nth n b None.
Proof.
  intros Hb Hn. unfold written.
  assert (L : forall r, (r < 8)%nat -> List.length (rank_squares b r) = 8%nat) by (intros; apply rank_squares_length; assumption).
  change 56 with (Z.of_nat 56). change 48 with (Z.of_nat 48). change 40 with (Z.of_nat 40). change 32 with (Z.of_nat 32).
  change 24 with (Z.of_nat 24). change 16 with (Z.of_nat 16). change 8 with (Z.of_nat 8) at 1. change 0 with (Z.of_nat 0).
  repeat (rewrite nth_write by (rewrite ?write_length, ?L by lia; cbn; lia)).
  rewrite !L by lia. unfold empty_board. rewrite nth_repeat_none.
  assert (R : forall r j, (j < 8)%nat -> nth j (rank_squares b r) None = nth (8 * r + j) b None) by (intros; apply nth_rank_squares; assumption).
  do 64 (destruct n as [|n];
         [ cbn [Nat.leb Nat.ltb Nat.add Nat.sub andb]; rewrite R by lia; cbn [Nat.mul Nat.add]; destruct (nth _ b None); reflexivity |]).
  lia.
Qed.

Theorem placement_roundtrip (b : board) : List.length b = 64%nat -> parse_placement (print_placement b) 56 empty_board = Some b.
Proof.
  intro Hb. rewrite (parse_print_placement b Hb). f_equal.
  apply (nth_ext _ _ None None).
  - unfold written. rewrite !write_length. unfold empty_board. rewrite repeat_length. symmetry. exact Hb.
  - intros n Hn. apply written_nth; [exact Hb|]. unfold written in Hn. rewrite !write_length in Hn. unfold empty_board in Hn. rewrite repeat_length in Hn. exact Hn.
Qed.

