(* The invariant every legal game keeps (Chess/ValidStep.v: game_inv): both kings exactly once, the side that has just moved is not in
   check, no pawn on a back rank, castling rights and en-passant square consistent with the board.  game_inv_step: every LEGAL move of the
   rules preserves it; legal_line_inv: so does every legal line.  With it the engine-level theorems need no per-state hypotheses. *)
From CV Require Import Chess.Rules Chess.RulesFacts Chess.ValidStep Chess.ValidStepEp Base.Geom Base.FileRank Base.Bits.
From Coq Require Import List ZArith Lia Bool.
Import ListNotations.
Local Open Scope Z_scope.
Local Strategy expand [count_piece king_sq attacked in_check valid_position].
Ltac Zify.zify_post_hook ::= Z.div_mod_to_equations.

(* ---- counting through a unique witness ---- *)
Lemma filter_nil' {A} (f : A -> bool) (l : list A) : (forall y, In y l -> f y = false) -> filter f l = [].
Proof. induction l as [|h t IH]; intro H; [reflexivity|]. cbn. rewrite (H h (or_introl eq_refl)). apply IH. intros y Hy. apply H. right. exact Hy. Qed.

Lemma filter_unique_length {A} (f : A -> bool) (l : list A) x :
  NoDup l -> In x l -> f x = true -> (forall y, In y l -> f y = true -> y = x) -> length (filter f l) = 1%nat.
Proof.
  induction l as [|h t IH]; intros Hnd Hin Hx Hu; [destruct Hin|].
  inversion Hnd as [|? ? Hnot Hnd']; subst. cbn [filter].
  destruct Hin as [->|Hin].
  - rewrite Hx. cbn [length]. f_equal. rewrite filter_nil'; [reflexivity|].
    intros y Hy. destruct (f y) eqn:E; [|reflexivity]. exfalso. apply Hnot. rewrite <- (Hu y (or_intror Hy) E). exact Hy.
  - destruct (f h) eqn:E.
    + exfalso. apply Hnot. rewrite (Hu h (or_introl eq_refl) E). exact Hin.
    + apply IH; try assumption. intros y Hy. apply Hu. right. exact Hy.
Qed.

Lemma count_one (b : board) c k k0 : (k0 < 64)%N -> is_piece b k0 c k = true ->
  (forall s, (s < 64)%N -> is_piece b s c k = true -> s = k0) -> count_piece b c k = 1%nat.
Proof.
  intros Hk H Hu. unfold count_piece.
  apply (filter_unique_length (fun s => is_piece b s c k) all_squares k0 NoDup_all_squares (proj1 (in_all_squares k0) Hk) H).
  intros y Hy Hf. apply Hu; [apply in_all_squares; exact Hy|exact Hf].
Qed.

Lemma king_exists (b : board) c : count_piece b c King = 1%nat -> exists k0, (k0 < 64)%N /\ is_piece b k0 c King = true.
Proof.
  unfold count_piece. intro H. destruct (filter (fun s => is_piece b s c King) all_squares) as [|k0 t] eqn:E; [discriminate H|].
  assert (Hin : In k0 (filter (fun s => is_piece b s c King) all_squares)) by (rewrite E; left; reflexivity).
  apply filter_In in Hin as [Hin Hf]. exists k0. split; [apply in_all_squares; exact Hin|exact Hf].
Qed.

(* ---- the board after a normal move, square by square ---- *)
Lemma bget_move_normal (p : position) from to pr s :
  length (brd p) = 64%nat -> (from < 64)%N -> (to < 64)%N -> (s < 64)%N ->
  bget (move_board p (Normal from to pr)) s =
    if (s =? to)%N then (match pr with Some k => Some (stm p, k) | None => bget (brd p) from end)
    else if (s =? from)%N then None
    else if is_ep_capture p from to && (s =? ep_victim p from to)%N then None else bget (brd p) s.
Proof.
  intros Hl Hf Ht Hs.
  destruct (s =? to)%N eqn:E1.
  { cbn [move_board]. rewrite bget_set, E1; [reflexivity|]. rewrite set_length. destruct (is_ep_capture p from to); rewrite ?set_length, Hl; lia. }
  destruct (s =? from)%N eqn:E2.
  { cbn [move_board]. rewrite bget_set, E1 by (rewrite set_length; destruct (is_ep_capture p from to); rewrite ?set_length, Hl; lia).
    rewrite bget_set, E2; [reflexivity|]. destruct (is_ep_capture p from to); rewrite ?set_length, Hl; lia. }
  destruct (is_ep_capture p from to && (s =? ep_victim p from to)%N) eqn:E3.
  - apply andb_prop in E3 as [Eep Ev]. apply N.eqb_eq in Ev. cbn [move_board]. rewrite Eep.
    rewrite bget_set, E1 by (rewrite !set_length, Hl; lia). rewrite bget_set, E2 by (rewrite set_length, Hl; lia).
    fold (ep_victim p from to). rewrite <- Ev. rewrite bget_set by (rewrite Hl; lia). rewrite N.eqb_refl. reflexivity.
  - apply (move_board_untouched p (Normal from to pr) s Hl (conj Hf Ht)). cbn [touched]. rewrite E2, E1, E3. reflexivity.
Qed.

(* the pawn taken en passant is the pawn that made the double step *)
Lemma ep_victim_pawn (p : position) from to pr : game_inv p -> pseudo_legal p (Normal from to pr) = true -> is_ep_capture p from to = true ->
  is_piece (brd p) (ep_victim p from to) (opp (stm p)) Pawn = true.
Proof.
  intros Hv Hpl Hep. destruct (Hv) as [Hl [_ [_ [_ [_ [_ Hepc]]]]]].
  destruct (pseudo_legal_bounds p from to pr Hpl) as [Hf Ht].
  unfold is_ep_capture in Hep. apply andb_prop in Hep as [Hep Hfile]. apply andb_prop in Hep as [Hpawn He].
  destruct (ep p) as [e|] eqn:Ee; [|discriminate He]. apply N.eqb_eq in He. subst e.
  apply negb_true_iff in Hfile. apply Z.eqb_neq in Hfile.
  (* the shape of the capture *)
  assert (Hdr : rank_of to - rank_of from = pawn_dir (stm p)).
  { cbn [pseudo_legal] in Hpl. apply andb_prop in Hpl as [_ Hpl]. unfold is_piece in Hpawn.
    destruct (bget (brd p) from) as [[c k]|]; [|discriminate Hpawn].
    apply andb_prop in Hpawn as [C1 C2]. apply color_eqb_true in C1. apply kind_eqb_true in C2. subst c k.
    apply andb_prop in Hpl as [_ Hpl]. unfold pawn_move_ok in Hpl. cbv zeta in Hpl. apply andb_prop in Hpl as [_ Halt].
    apply orb_prop in Halt as [Halt|Halt]; [apply orb_prop in Halt as [Halt|Halt]|].
    - exfalso. repeat (apply andb_prop in Halt; destruct Halt as [Halt ?]). apply Z.eqb_eq in Halt. lia.
    - exfalso. repeat (apply andb_prop in Halt; destruct Halt as [Halt ?]). apply Z.eqb_eq in Halt. lia.
    - apply andb_prop in Halt as [Halt _]. apply andb_prop in Halt as [_ Halt]. apply Z.eqb_eq in Halt. exact Halt. }
  unfold ep_consistent in Hepc. rewrite Ee in Hepc. cbv zeta in Hepc.
  repeat (apply andb_prop in Hepc; destruct Hepc as [Hepc ?]).
  match goal with K : is_piece (brd p) _ (opp (stm p)) Pawn = true |- _ => rename K into HP end.
  unfold ep_victim. replace (rank_of from) with (rank_of to + pawn_dir (opp (stm p))); [exact HP|].
  destruct (stm p); cbn [opp pawn_dir] in *; lia.
Qed.

Lemma opp_opp c : opp (opp c) = c. Proof. destruct c; reflexivity. Qed.
Lemma color_eqb_refl c : color_eqb c c = true. Proof. destruct c; reflexivity. Qed.
Lemma color_eqb_opp c : color_eqb (opp c) c = false. Proof. destruct c; reflexivity. Qed.
Lemma color_eqb_opp' c : color_eqb c (opp c) = false. Proof. destruct c; reflexivity. Qed.

Lemma is_piece_get (b : board) s c k : is_piece b s c k = true <-> bget b s = Some (c, k).
Proof.
  unfold is_piece. destruct (bget b s) as [[c' k']|]; split; intro H; try discriminate.
  - apply andb_prop in H as [A B]. apply color_eqb_true in A. apply kind_eqb_true in B. subst. reflexivity.
  - injection H as -> ->. rewrite color_eqb_refl. destruct k; reflexivity.
Qed.

(* what the moved piece is: never a king unless the king itself moves *)
Lemma moved_piece (p : position) from to pr k : pseudo_legal p (Normal from to pr) = true -> bget (brd p) from = Some (stm p, k) ->
  (match pr with Some k' => Some (stm p, k') | None => bget (brd p) from end) = Some (stm p, match pr with Some k' => k' | None => k end) /\
  (match pr with Some k' => k' | None => k end = King -> k = King /\ pr = None).
Proof.
  intros Hpl Hfrom. split; [destruct pr; [reflexivity|exact Hfrom]|].
  cbn [pseudo_legal] in Hpl. apply andb_prop in Hpl as [_ Hpl]. rewrite Hfrom in Hpl. apply andb_prop in Hpl as [_ Hk].
  destruct k.
  - unfold pawn_move_ok in Hk. cbv zeta in Hk. apply andb_prop in Hk as [Hpr _].
    destruct pr as [k'|]; [|discriminate]. intro E. subst k'. exfalso.
    destruct (rank_of to =? match stm p with White => 7 | Black => 0 end); discriminate Hpr.
  - apply andb_prop in Hk as [Hpr _]. destruct pr; [discriminate Hpr|]. intro; split; [assumption|reflexivity].
  - apply andb_prop in Hk as [Hpr _]. destruct pr; [discriminate Hpr|]. intro; split; [assumption|reflexivity].
  - apply andb_prop in Hk as [Hpr _]. destruct pr; [discriminate Hpr|]. intro; split; [assumption|reflexivity].
  - apply andb_prop in Hk as [Hpr _]. destruct pr; [discriminate Hpr|]. intro; split; [assumption|reflexivity].
  - apply andb_prop in Hk as [Hpr _]. destruct pr; [discriminate Hpr|]. intro; split; [assumption|reflexivity].
Qed.

(* ---- both kings are still there, once each, after a normal move ---- *)
Lemma kings_after_normal (p : position) from to pr c : game_inv p -> pseudo_legal p (Normal from to pr) = true ->
  count_piece (move_board p (Normal from to pr)) c King = 1%nat.
Proof.
  intros Hv Hpl. destruct (Hv) as [Hl [Hwk [Hbk _]]].
  destruct (pseudo_legal_bounds p from to pr Hpl) as [Hf Ht].
  destruct (pseudo_legal_mover p from to pr Hpl) as [k [Hfrom Hnotown]].
  destruct (moved_piece p from to pr k Hpl Hfrom) as [Hmoved HmK].
  set (k' := match pr with Some k' => k' | None => k end) in *.
  assert (Hcount : forall c0, count_piece (brd p) c0 King = 1%nat) by (intros []; assumption).
  assert (Hvict : is_ep_capture p from to = true -> bget (brd p) (ep_victim p from to) = Some (opp (stm p), Pawn)).
  { intro E. apply is_piece_get. apply (ep_victim_pawn p from to pr Hv Hpl E). }
  assert (Hchar : forall s, (s < 64)%N -> bget (move_board p (Normal from to pr)) s =
            if (s =? to)%N then Some (stm p, k') else if (s =? from)%N then None
            else if is_ep_capture p from to && (s =? ep_victim p from to)%N then None else bget (brd p) s).
  { intros s Hs. rewrite (bget_move_normal p from to pr s Hl Hf Ht Hs). destruct (s =? to)%N; [exact Hmoved|reflexivity]. }
  destruct (king_exists (brd p) c (Hcount c)) as [k0 [Hk0 HK0]]. apply is_piece_get in HK0.
  assert (Huniq : forall s, (s < 64)%N -> bget (brd p) s = Some (c, King) -> s = k0).
  { intros s Hs H. apply (king_unique (brd p) c s k0 (Hcount c) Hs Hk0); apply is_piece_get; assumption. }
  destruct (color_eqb c (stm p)) eqn:Ec.
  - apply color_eqb_true in Ec. subst c.
    destruct (kind_eqb k' King) eqn:EK.
    + (* the king itself moves: its new square is [to] *)
      apply kind_eqb_true in EK. destruct (HmK EK) as [-> ->].
      assert (k0 = from) by (symmetry; apply Huniq; assumption). subst k0.
      apply (count_one _ _ _ to Ht).
      * apply is_piece_get. rewrite (Hchar to Ht), N.eqb_refl. unfold k'. reflexivity.
      * intros s Hs H. apply is_piece_get in H. rewrite (Hchar s Hs) in H.
        destruct (s =? to)%N eqn:E1; [apply N.eqb_eq in E1; exact E1|].
        destruct (s =? from)%N eqn:E2; [discriminate H|].
        destruct (is_ep_capture p from to && (s =? ep_victim p from to)%N); [discriminate H|].
        apply Huniq in H; [|exact Hs]. subst s. rewrite N.eqb_refl in E2. discriminate E2.
    + (* another piece moves: the king stays where it is *)
      assert (N1 : (k0 =? from)%N = false).
      { destruct (k0 =? from)%N eqn:E; [|reflexivity]. apply N.eqb_eq in E. subst k0. rewrite Hfrom in HK0. injection HK0 as ->.
        assert (k' = King -> False) by (intro X; rewrite X in EK; discriminate EK). unfold k' in H. destruct pr as [kk|]; [|exfalso; apply H; reflexivity].
        exfalso. clear - Hpl Hfrom. cbn [pseudo_legal] in Hpl. apply andb_prop in Hpl as [_ Hpl]. rewrite Hfrom in Hpl.
        apply andb_prop in Hpl as [_ Hk]. apply andb_prop in Hk as [Hk _]. discriminate Hk. }
      assert (N2 : (k0 =? to)%N = false).
      { destruct (k0 =? to)%N eqn:E; [|reflexivity]. apply N.eqb_eq in E. subst k0. unfold is_color in Hnotown. rewrite HK0 in Hnotown.
        rewrite color_eqb_refl in Hnotown. discriminate Hnotown. }
      assert (N3 : is_ep_capture p from to && (k0 =? ep_victim p from to)%N = false).
      { destruct (is_ep_capture p from to) eqn:Eep; [|reflexivity]. cbn [andb].
        destruct (k0 =? ep_victim p from to)%N eqn:E; [|reflexivity]. apply N.eqb_eq in E. rewrite <- E in Hvict. rewrite (Hvict eq_refl) in HK0.
        exfalso. destruct (stm p); discriminate HK0. }
      apply (count_one _ _ _ k0 Hk0).
      * apply is_piece_get. rewrite (Hchar k0 Hk0), N2, N1, N3. exact HK0.
      * intros s Hs H. apply is_piece_get in H. rewrite (Hchar s Hs) in H.
        destruct (s =? to)%N eqn:E1.
        { exfalso. injection H as H. rewrite H in EK. discriminate EK. }
        destruct (s =? from)%N eqn:E2; [discriminate H|].
        destruct (is_ep_capture p from to && (s =? ep_victim p from to)%N); [discriminate H|].
        apply Huniq; assumption.
  - (* the side that does not move *)
    assert (Eco : c = opp (stm p)) by (clear - Ec; destruct c, (stm p); try reflexivity; discriminate Ec). subst c.
    assert (N1 : (k0 =? from)%N = false).
    { destruct (k0 =? from)%N eqn:E; [|reflexivity]. apply N.eqb_eq in E. subst k0. rewrite Hfrom in HK0. exfalso. destruct (stm p); discriminate HK0. }
    assert (N2 : (k0 =? to)%N = false).
    { destruct (k0 =? to)%N eqn:E; [|reflexivity]. apply N.eqb_eq in E. subst k0.
      pose proof (no_king_capture p from to pr Hv Hpl) as X. apply is_piece_get in HK0. congruence. }
    assert (N3 : is_ep_capture p from to && (k0 =? ep_victim p from to)%N = false).
    { destruct (is_ep_capture p from to) eqn:Eep; [|reflexivity]. cbn [andb].
      destruct (k0 =? ep_victim p from to)%N eqn:E; [|reflexivity]. apply N.eqb_eq in E. rewrite <- E in Hvict. rewrite (Hvict eq_refl) in HK0. discriminate HK0. }
    apply (count_one _ _ _ k0 Hk0).
    + apply is_piece_get. rewrite (Hchar k0 Hk0), N2, N1, N3. exact HK0.
    + intros s Hs H. apply is_piece_get in H. rewrite (Hchar s Hs) in H.
      destruct (s =? to)%N eqn:E1.
      { exfalso. injection H as H _. destruct (stm p); discriminate H. }
      destruct (s =? from)%N eqn:E2; [discriminate H|].
      destruct (is_ep_capture p from to && (s =? ep_victim p from to)%N); [discriminate H|].
      apply Huniq; assumption.
Qed.

(* ---- the board after castling, square by square ---- *)
Definition cK (p : position) : N := sq_of 4 (home_rank (stm p)).
Definition cR (p : position) (ks : bool) : N := sq_of (if ks then 7 else 0) (home_rank (stm p)).
Definition cK' (p : position) (ks : bool) : N := sq_of (if ks then 6 else 2) (home_rank (stm p)).
Definition cR' (p : position) (ks : bool) : N := sq_of (if ks then 5 else 3) (home_rank (stm p)).

Lemma bget_move_castle (p : position) ks s : length (brd p) = 64%nat ->
  bget (move_board p (Castle ks)) s =
    if (s =? cR' p ks)%N then Some (stm p, Rook) else if (s =? cR p ks)%N then None
    else if (s =? cK' p ks)%N then Some (stm p, King) else if (s =? cK p)%N then None else bget (brd p) s.
Proof.
  intro Hl. unfold cK, cR, cK', cR'. cbn [move_board].
  assert (Hsq : forall f, (f = 0 \/ f = 2 \/ f = 3 \/ f = 4 \/ f = 5 \/ f = 6 \/ f = 7) -> (N.to_nat (sq_of f (home_rank (stm p))) < 64)%nat).
  { intros f Hf. destruct (stm p); cbn [home_rank]; unfold sq_of; lia. }
  rewrite bget_set by (rewrite !set_length, Hl; apply Hsq; destruct ks; lia).
  destruct (s =? sq_of (if ks then 5 else 3) (home_rank (stm p)))%N; [reflexivity|].
  rewrite bget_set by (rewrite !set_length, Hl; apply Hsq; destruct ks; lia).
  destruct (s =? sq_of (if ks then 7 else 0) (home_rank (stm p)))%N; [reflexivity|].
  rewrite bget_set by (rewrite !set_length, Hl; apply Hsq; destruct ks; lia).
  destruct (s =? sq_of (if ks then 6 else 2) (home_rank (stm p)))%N; [reflexivity|].
  rewrite bget_set by (rewrite Hl; apply Hsq; lia). reflexivity.
Qed.

Lemma castle_squares (p : position) ks :
  (cK p < 64)%N /\ (cK' p ks < 64)%N /\ (cK' p ks =? cR' p ks)%N = false /\ (cK' p ks =? cR p ks)%N = false /\ rank_of (cK p) = home_rank (stm p) /\
  rank_of (cR p ks) = home_rank (stm p) /\ rank_of (cK' p ks) = home_rank (stm p) /\ rank_of (cR' p ks) = home_rank (stm p).
Proof. unfold cK, cK', cR, cR'. destruct (stm p), ks; cbn; repeat split; reflexivity. Qed.

Lemma castle_facts (p : position) ks : pseudo_legal p (Castle ks) = true ->
  bget (brd p) (cK p) = Some (stm p, King) /\ bget (brd p) (cR p ks) = Some (stm p, Rook) /\
  bget (brd p) (cK' p ks) = None /\ bget (brd p) (cR' p ks) = None.
Proof.
  cbn [pseudo_legal]. unfold castle_ok. cbv zeta. intro H. repeat (apply andb_prop in H; destruct H as [H ?]).
  match goal with K : is_piece _ _ _ King = true |- _ => apply is_piece_get in K; rename K into HK end.
  match goal with K : is_piece _ _ _ Rook = true |- _ => apply is_piece_get in K; rename K into HR end.
  assert (EE : forall b s, is_empty b s = true -> bget b s = None) by (intros b s; unfold is_empty; destruct (bget b s); [discriminate|reflexivity]).
  unfold cK, cR, cK', cR'. split; [exact HK|]. split; [exact HR|].
  destruct ks.
  - match goal with K : is_empty _ _ && is_empty _ _ = true |- _ => apply andb_prop in K as [E1 E2] end.
    split; apply EE; assumption.
  - match goal with K : is_empty _ _ && is_empty _ _ && is_empty _ _ = true |- _ => apply andb_prop in K as [E1 E3]; apply andb_prop in E1 as [E1 E2] end.
    split; apply EE; assumption.
Qed.

Lemma kings_after_castle (p : position) ks c : game_inv p -> pseudo_legal p (Castle ks) = true ->
  count_piece (move_board p (Castle ks)) c King = 1%nat.
Proof.
  intros Hv Hpl. destruct (Hv) as [Hl [Hwk [Hbk _]]].
  assert (Hcount : forall c0, count_piece (brd p) c0 King = 1%nat) by (intros []; assumption).
  destruct (castle_facts p ks Hpl) as [FK [FR [FK' FR']]].
  destruct (castle_squares p ks) as [BK [BK' [D1 [D2 _]]]].
  destruct (king_exists (brd p) c (Hcount c)) as [k0 [Hk0 HK0]]. apply is_piece_get in HK0.
  assert (Huniq : forall s, (s < 64)%N -> bget (brd p) s = Some (c, King) -> s = k0).
  { intros s Hs H. apply (king_unique (brd p) c s k0 (Hcount c) Hs Hk0); apply is_piece_get; assumption. }
  destruct (color_eqb c (stm p)) eqn:Ec.
  - apply color_eqb_true in Ec. subst c.
    assert (k0 = cK p) by (symmetry; apply Huniq; assumption). subst k0.
    apply (count_one _ _ _ (cK' p ks) BK').
    + apply is_piece_get. rewrite (bget_move_castle p ks _ Hl), D1, D2, N.eqb_refl. reflexivity.
    + intros s Hs H. apply is_piece_get in H. rewrite (bget_move_castle p ks s Hl) in H.
      destruct (s =? cR' p ks)%N; [discriminate H|]. destruct (s =? cR p ks)%N; [discriminate H|].
      destruct (s =? cK' p ks)%N eqn:E; [apply N.eqb_eq in E; exact E|].
      destruct (s =? cK p)%N eqn:E2; [discriminate H|].
      apply Huniq in H; [|exact Hs]. subst s. rewrite N.eqb_refl in E2. discriminate E2.
  - assert (Eco : c = opp (stm p)) by (clear - Ec; destruct c, (stm p); try reflexivity; discriminate Ec). subst c.
    assert (Hne : forall x v, bget (brd p) x = v -> (match v with Some (c', _) => c' = stm p | None => True end) -> (k0 =? x)%N = false).
    { intros x v Hx Hcol. destruct (k0 =? x)%N eqn:E; [|reflexivity]. apply N.eqb_eq in E. subst x. rewrite HK0 in Hx. subst v. exfalso. destruct (stm p); discriminate Hcol. }
    apply (count_one _ _ _ k0 Hk0).
    + apply is_piece_get. rewrite (bget_move_castle p ks _ Hl).
      rewrite (Hne _ _ FR' I), (Hne _ _ FR eq_refl), (Hne _ _ FK' I), (Hne _ _ FK eq_refl). exact HK0.
    + intros s Hs H. apply is_piece_get in H. rewrite (bget_move_castle p ks s Hl) in H.
      destruct (s =? cR' p ks)%N; [discriminate H|]. destruct (s =? cR p ks)%N; [discriminate H|].
      destruct (s =? cK' p ks)%N; [exfalso; injection H as H; destruct (stm p); discriminate H|].
      destruct (s =? cK p)%N; [discriminate H|]. apply Huniq; assumption.
Qed.

(* ---- no pawn ever stands on a back rank ---- *)
Lemma no_pawn_spec (b : board) : no_pawn_on_back_ranks b = true <->
  (forall s c, (s < 64)%N -> rank_of s = 0 \/ rank_of s = 7 -> bget b s <> Some (c, Pawn)).
Proof.
  unfold no_pawn_on_back_ranks. rewrite forallb_forall. split.
  - intros H s c Hs Hr Hg. specialize (H s (proj1 (in_all_squares s) Hs)).
    assert (E : (rank_of s =? 0) || (rank_of s =? 7) = true) by (destruct Hr as [-> | ->]; reflexivity). rewrite E in H. cbn [negb orb] in H.
    apply negb_true_iff in H. apply orb_false_iff in H as [A B].
    destruct c; [rewrite (proj2 (is_piece_get b s White Pawn) Hg) in A; discriminate A|rewrite (proj2 (is_piece_get b s Black Pawn) Hg) in B; discriminate B].
  - intros H s Hin. apply in_all_squares in Hin.
    destruct ((rank_of s =? 0) || (rank_of s =? 7)) eqn:E; [|reflexivity]. cbn [negb orb].
    assert (Hr : rank_of s = 0 \/ rank_of s = 7) by (apply orb_prop in E as [E|E]; apply Z.eqb_eq in E; [left|right]; exact E).
    apply negb_true_iff. apply orb_false_iff. split.
    + destruct (is_piece b s White Pawn) eqn:X; [|reflexivity]. apply is_piece_get in X. exfalso. exact (H s White Hin Hr X).
    + destruct (is_piece b s Black Pawn) eqn:X; [|reflexivity]. apply is_piece_get in X. exfalso. exact (H s Black Hin Hr X).
Qed.

(* a pawn that moves without promoting does not arrive on a back rank *)
Lemma pawn_arrival (p : position) from to : game_inv p -> pseudo_legal p (Normal from to None) = true ->
  bget (brd p) from = Some (stm p, Pawn) -> rank_of to <> 0 /\ rank_of to <> 7.
Proof.
  intros Hv Hpl Hfrom. destruct (Hv) as [_ [_ [_ [_ [Hnp _]]]]].
  destruct (pseudo_legal_bounds p from to None Hpl) as [Hf Ht].
  assert (Hrf : rank_of from <> 0 /\ rank_of from <> 7).
  { split; intro X; apply (proj1 (no_pawn_spec (brd p)) Hnp from (stm p) Hf); auto. }
  assert (R8 : 0 <= rank_of from < 8) by (split; [apply rank_of_nonneg|apply rank_of_lt8; exact Hf]).
  cbn [pseudo_legal] in Hpl. apply andb_prop in Hpl as [_ Hpl]. rewrite Hfrom in Hpl. apply andb_prop in Hpl as [_ Hk].
  unfold pawn_move_ok in Hk. cbv zeta in Hk. apply andb_prop in Hk as [Hpr Halt].
  assert (Hlast : rank_of to <> match stm p with White => 7 | Black => 0 end).
  { intro X. rewrite X, Z.eqb_refl in Hpr. discriminate Hpr. }
  assert (Hdr : rank_of to - rank_of from = pawn_dir (stm p) \/ rank_of to - rank_of from = 2 * pawn_dir (stm p)).
  { apply orb_prop in Halt as [Halt|Halt]; [apply orb_prop in Halt as [Halt|Halt]|].
    - repeat (apply andb_prop in Halt; destruct Halt as [Halt ?]). left. match goal with K : (_ - _ =? pawn_dir _) = true |- _ => apply Z.eqb_eq in K; exact K end.
    - repeat (apply andb_prop in Halt; destruct Halt as [Halt ?]). right. match goal with K : (_ - _ =? 2 * pawn_dir _) = true |- _ => apply Z.eqb_eq in K; exact K end.
    - apply andb_prop in Halt as [Halt _]. apply andb_prop in Halt as [_ Halt]. apply Z.eqb_eq in Halt. left. exact Halt. }
  destruct (stm p); cbn [pawn_dir] in *; lia.
Qed.

Lemma promo_not_pawn (p : position) from to k : pseudo_legal p (Normal from to (Some k)) = true -> k <> Pawn.
Proof.
  intros Hpl E. subst k. cbn [pseudo_legal] in Hpl. apply andb_prop in Hpl as [_ Hpl].
  destruct (bget (brd p) from) as [[c k]|]; [|discriminate Hpl]. apply andb_prop in Hpl as [_ Hk].
  destruct k; try (apply andb_prop in Hk as [Hk _]; discriminate Hk).
  unfold pawn_move_ok in Hk. cbv zeta in Hk. apply andb_prop in Hk as [Hpr _].
  destruct (rank_of to =? match c with White => 7 | Black => 0 end); discriminate Hpr.
Qed.

Lemma no_pawn_after (p : position) m : game_inv p -> pseudo_legal p m = true -> no_pawn_on_back_ranks (move_board p m) = true.
Proof.
  intros Hv Hpl. destruct (Hv) as [Hl [_ [_ [_ [Hnp _]]]]]. pose proof (proj1 (no_pawn_spec (brd p)) Hnp) as Hold.
  apply no_pawn_spec. intros s c Hs Hr Hg. destruct m as [from to pr|ks].
  - destruct (pseudo_legal_bounds p from to pr Hpl) as [Hf Ht].
    destruct (pseudo_legal_mover p from to pr Hpl) as [k [Hfrom _]].
    rewrite (bget_move_normal p from to pr s Hl Hf Ht Hs) in Hg.
    destruct (s =? to)%N eqn:E1.
    + apply N.eqb_eq in E1. subst s. destruct pr as [k'|].
      * injection Hg as _ Hk. exact (promo_not_pawn p from to k' Hpl Hk).
      * rewrite Hfrom in Hg. injection Hg as _ Hk. subst k. destruct (pawn_arrival p from to Hv Hpl Hfrom) as [A B]. destruct Hr; contradiction.
    + destruct (s =? from)%N; [discriminate Hg|]. destruct (is_ep_capture p from to && (s =? ep_victim p from to)%N); [discriminate Hg|].
      exact (Hold s c Hs Hr Hg).
  - rewrite (bget_move_castle p ks s Hl) in Hg.
    destruct (s =? cR' p ks)%N; [discriminate Hg|]. destruct (s =? cR p ks)%N; [discriminate Hg|].
    destruct (s =? cK' p ks)%N; [discriminate Hg|]. destruct (s =? cK p)%N; [discriminate Hg|]. exact (Hold s c Hs Hr Hg).
Qed.

Lemma move_board_length (p : position) m : length (move_board p m) = length (brd p).
Proof. destruct m as [from to pr|ks]; cbn [move_board]; [destruct (is_ep_capture p from to)|]; rewrite ?set_length; reflexivity. Qed.

(* ---- every legal move preserves the invariant ---- *)
Theorem game_inv_step (p : position) (m : move) : game_inv p -> legal p m = true -> game_inv (make_move p m).
Proof.
  intros Hv Hlegal. unfold legal in Hlegal. apply andb_prop in Hlegal as [Hpl Hsafe]. apply negb_true_iff in Hsafe.
  destruct (Hv) as [Hl _].
  assert (HK : forall c, count_piece (move_board p m) c King = 1%nat).
  { intro c. destruct m as [from to pr|ks]; [apply kings_after_normal|apply kings_after_castle]; assumption. }
  unfold game_inv. cbn [brd stm rights make_move].
  split; [rewrite move_board_length; exact Hl|]. split; [apply HK|]. split; [apply HK|].
  split; [rewrite opp_opp; exact Hsafe|]. split; [apply no_pawn_after; assumption|].
  split; [apply rights_consistent_step; assumption|]. apply ep_consistent_step; assumption.
Qed.

Fixpoint legal_line_inv (p : position) (ms : list move) : game_inv p -> legal_line p ms = true -> game_inv (play p ms).
Proof.
  destruct ms as [|m r]; intros Hv Hl; [exact Hv|]. cbn [legal_line] in Hl. apply andb_prop in Hl as [H1 H2]. cbn [play].
  apply legal_line_inv; [apply game_inv_step; assumption|exact H2].
Qed.
