From CV Require Import Chess.Rules Chess.RulesFacts Base.Geom Base.FileRank Base.Bits.
From Coq Require Import List ZArith Lia Bool.
Import ListNotations.
Local Open Scope Z_scope.
Ltac Zify.zify_post_hook ::= Z.div_mod_to_equations.

(* ---- boards: reading what set wrote ---- *)
Lemma set_nth_length' {A} (l : list A) n x : length (set_nth l n x) = length l.
Proof. revert n. induction l as [|h t IH]; intros [|n]; cbn; auto. Qed.
Lemma nth_set_nth' {A} (l : list A) n m x d : (n < length l)%nat -> nth m (set_nth l n x) d = if (m =? n)%nat then x else nth m l d.
Proof.
  revert n m. induction l as [|h t IH]; intros n m H; [cbn in H; lia|].
  destruct n as [|n], m as [|m]; cbn [set_nth nth Nat.eqb]; try reflexivity. apply IH. cbn in H. lia.
Qed.
Lemma set_length (b : board) s x : length (set b s x) = length b.
Proof. apply set_nth_length'. Qed.
Lemma bget_set (b : board) (s t : N) x : (N.to_nat s < length b)%nat -> bget (set b s x) t = if (t =? s)%N then x else bget b t.
Proof.
  intro H. unfold bget, set. rewrite nth_set_nth' by exact H.
  destruct (t =? s)%N eqn:E.
  - apply N.eqb_eq in E. subst. rewrite Nat.eqb_refl. reflexivity.
  - apply N.eqb_neq in E. destruct (N.to_nat t =? N.to_nat s)%nat eqn:E2; [apply Nat.eqb_eq in E2; apply N2Nat.inj in E2; contradiction|reflexivity].
Qed.

(* the squares a move touches *)
Definition ep_victim (p : position) (from to : N) : N := sq_of (file_of to) (rank_of from).
Definition touched (p : position) (m : move) (s : N) : bool :=
  match m with
  | Normal from to _ => (s =? from)%N || (s =? to)%N || (is_ep_capture p from to && (s =? ep_victim p from to)%N)
  | Castle ks =>
    let r := home_rank (stm p) in
    (s =? sq_of 4 r)%N || (s =? sq_of (if ks then 6 else 2) r)%N || (s =? sq_of (if ks then 7 else 0) r)%N || (s =? sq_of (if ks then 5 else 3) r)%N
  end.

Lemma move_board_untouched (p : position) (m : move) (s : N) :
  length (brd p) = 64%nat -> (match m with Normal from to _ => (from < 64)%N /\ (to < 64)%N | Castle _ => True end) ->
  touched p m s = false -> bget (move_board p m) s = bget (brd p) s.
Proof.
  intros Hl Hm Ht. destruct m as [from to promo|ks]; cbn [move_board touched] in *.
  - destruct Hm as [Hf Hto].
    apply orb_false_iff in Ht as [Ht H3]. apply orb_false_iff in Ht as [H1 H2].
    destruct (is_ep_capture p from to) eqn:Eep; cbv beta iota zeta.
    + cbn [andb] in H3.
      assert (Hv : (ep_victim p from to < 64)%N \/ (64 <= ep_victim p from to)%N) by lia.
      rewrite bget_set by (rewrite !set_length, Hl; lia). rewrite H2.
      rewrite bget_set by (rewrite set_length, Hl; lia). rewrite H1.
      unfold ep_victim in *. destruct Hv as [Hv|Hv].
      * rewrite bget_set by (rewrite Hl; lia). rewrite H3. reflexivity.
      * unfold set, bget.
        assert (E : set_nth (brd p) (N.to_nat (sq_of (file_of to) (rank_of from))) None = brd p).
        { generalize (brd p) (sq_of (file_of to) (rank_of from)) Hl Hv. clear. intros b v Hl Hv. generalize (N.to_nat v) (N2Nat.id v). intros n Hid.
          assert (Hn : (length b <= n)%nat) by lia. clear Hl Hv Hid. revert n Hn. induction b as [|h t IH]; intros [|n] Hn; cbn in *; try reflexivity; try lia. f_equal. apply IH. lia. }
        rewrite E. reflexivity.
    + rewrite bget_set by (rewrite set_length, Hl; lia). rewrite H2. rewrite bget_set by (rewrite Hl; lia). rewrite H1. reflexivity.
  - repeat (apply orb_false_iff in Ht; destruct Ht as [Ht ?]).
    assert (Hsq : forall f, (f = 0 \/ f = 2 \/ f = 3 \/ f = 4 \/ f = 5 \/ f = 6 \/ f = 7) -> (N.to_nat (sq_of f (home_rank (stm p))) < 64)%nat).
    { intros f Hf. destruct (stm p); cbn [home_rank]; unfold sq_of; lia. }
    rewrite bget_set by (rewrite !set_length, Hl; apply Hsq; destruct ks; lia).
    match goal with K : (s =? sq_of (if ks then 5 else 3) _)%N = false |- _ => rewrite K end.
    rewrite bget_set by (rewrite !set_length, Hl; apply Hsq; destruct ks; lia).
    match goal with K : (s =? sq_of (if ks then 7 else 0) _)%N = false |- _ => rewrite K end.
    rewrite bget_set by (rewrite !set_length, Hl; apply Hsq; destruct ks; lia).
    match goal with K : (s =? sq_of (if ks then 6 else 2) _)%N = false |- _ => rewrite K end.
    rewrite bget_set by (rewrite Hl; apply Hsq; lia).
    rewrite Ht. reflexivity.
Qed.

(* conversion must unfold these wrappers first, never filter / find / existsb over the 64 squares with a stuck predicate (exponential) *)
Local Strategy expand [count_piece king_sq attacked in_check valid_position].

(* ---- what validity says ---- *)
Lemma valid_parts (p : position) : valid_position p = true ->
  length (brd p) = 64%nat /\ count_piece (brd p) White King = 1%nat /\ count_piece (brd p) Black King = 1%nat /\
  in_check (brd p) (opp (stm p)) = false /\ no_pawn_on_back_ranks (brd p) = true /\
  rights_consistent (brd p) (rights p) = true /\ ep_consistent p = true /\ 0 <= clock p /\ 1 <= fullmove p.
Proof.
  unfold valid_position. cbv zeta. intro H. repeat (apply andb_prop in H; destruct H as [H ?]).
  repeat match goal with
         | K : (_ =? _)%nat = true |- _ => apply Nat.eqb_eq in K
         | K : negb _ = true |- _ => apply negb_true_iff in K
         | K : (_ <=? _) = true |- _ => apply Z.leb_le in K
         end.
  repeat split; assumption.
Qed.

(* the part of validity that every legal move preserves (valid_position adds: kings not adjacent - implied -, at most ten pieces of a kind,
   counters in range) *)
Definition game_inv (p : position) : Prop :=
  length (brd p) = 64%nat /\ count_piece (brd p) White King = 1%nat /\ count_piece (brd p) Black King = 1%nat /\
  in_check (brd p) (opp (stm p)) = false /\ no_pawn_on_back_ranks (brd p) = true /\
  rights_consistent (brd p) (rights p) = true /\ ep_consistent p = true.

Lemma valid_game_inv (p : position) : valid_position p = true -> game_inv p.
Proof. intro H. destruct (valid_parts p H) as [A [B [C [D [E [F [G _]]]]]]]. repeat split; assumption. Qed.

Lemma color_eqb_true a b : color_eqb a b = true <-> a = b.
Proof. destruct a, b; cbn; split; congruence. Qed.
Lemma kind_eqb_true a b : kind_eqb a b = true <-> a = b.
Proof. destruct a, b; cbn; split; congruence. Qed.

(* the king of a colour stands on one square only *)
Lemma filter_one_unique {A} (f : A -> bool) (l : list A) x y : NoDup l -> length (filter f l) = 1%nat ->
  In x l -> In y l -> f x = true -> f y = true -> x = y.
Proof.
  intros Hnd Hlen Hx Hy Fx Fy.
  assert (Ix : In x (filter f l)) by (apply filter_In; split; assumption).
  assert (Iy : In y (filter f l)) by (apply filter_In; split; assumption).
  destruct (filter f l) as [|a [|b r]]; cbn in Hlen; try discriminate.
  destruct Ix as [<-|[]]. destruct Iy as [<-|[]]. reflexivity.
Qed.

Lemma king_unique (b : board) (c : color) (s t : N) : count_piece b c King = 1%nat -> (s < 64)%N -> (t < 64)%N ->
  is_piece b s c King = true -> is_piece b t c King = true -> s = t.
Proof.
  intros Hc Hs Ht H1 H2. unfold count_piece in Hc.
  exact (filter_one_unique (fun q => is_piece b q c King) all_squares s t NoDup_all_squares Hc
           (proj1 (in_all_squares s) Hs) (proj1 (in_all_squares t) Ht) H1 H2).
Qed.

Lemma king_sq_is (b : board) (c : color) (s : N) : count_piece b c King = 1%nat -> (s < 64)%N -> is_piece b s c King = true -> king_sq b c = Some s.
Proof.
  intros Hc Hs H. unfold king_sq. destruct (find (fun q => is_piece b q c King) all_squares) as [k|] eqn:E.
  - apply find_some in E as [Hin Hk]. apply in_all_squares in Hin. f_equal. apply (king_unique b c k s Hc Hin Hs Hk H).
  - exfalso. pose proof (find_none _ _ E s (proj1 (in_all_squares s) Hs)) as X. cbv beta in X. congruence.
Qed.

(* a pseudo-legal move onto a square attacks that square (unless it is a straight pawn push) *)
Lemma pseudo_legal_attacks (p : position) (from to : N) (pr : option kind) :
  pseudo_legal p (Normal from to pr) = true -> is_empty (brd p) to = false -> attacked (brd p) (stm p) to = true.
Proof.
  intros H Hne. cbn [pseudo_legal] in H. apply andb_prop in H as [H Hk]. apply andb_prop in H as [Hf Ht]. apply N.ltb_lt in Hf.
  destruct (bget (brd p) from) as [[c k]|] eqn:Eb; [|discriminate Hk].
  apply andb_prop in Hk as [Hk Hkind]. apply andb_prop in Hk as [Hcol _]. apply color_eqb_true in Hcol. subst c.
  unfold attacked. apply existsb_exists. exists from. split; [apply in_all_squares; exact Hf|]. rewrite Eb.
  rewrite (proj2 (color_eqb_true (stm p) (stm p)) eq_refl). cbn [andb].
  destruct k; try (apply andb_prop in Hkind as [_ Hkind]; exact Hkind).
  (* pawn *)
  unfold pawn_move_ok in Hkind. cbv zeta in Hkind. apply andb_prop in Hkind as [_ Halt].
  cbn [piece_attacks].
  apply orb_prop in Halt as [Halt|Halt]; [apply orb_prop in Halt as [Halt|Halt]|].
  - repeat (apply andb_prop in Halt; destruct Halt as [Halt ?]). congruence.
  - repeat (apply andb_prop in Halt; destruct Halt as [Halt ?]). congruence.
  - apply andb_prop in Halt as [Halt _]. exact Halt.
Qed.

Lemma no_king_capture (p : position) (from to : N) (pr : option kind) :
  game_inv p -> pseudo_legal p (Normal from to pr) = true -> is_piece (brd p) to (opp (stm p)) King = false.
Proof.
  intros Hv H. destruct (is_piece (brd p) to (opp (stm p)) King) eqn:E; [exfalso|reflexivity].
  destruct (Hv) as [Hl [Hwk [Hbk [Hnc _]]]].
  assert (Ht : (to < 64)%N).
  { cbn [pseudo_legal] in H. apply andb_prop in H as [H _]. apply andb_prop in H as [_ Ht]. apply N.ltb_lt in Ht. exact Ht. }
  assert (Hcount : count_piece (brd p) (opp (stm p)) King = 1%nat) by (destruct (stm p); [exact Hbk|exact Hwk]).
  assert (Hne : is_empty (brd p) to = false).
  { unfold is_piece in E. unfold is_empty. destruct (bget (brd p) to); [reflexivity|discriminate E]. }
  pose proof (pseudo_legal_attacks p from to pr H Hne) as Ha.
  unfold in_check in Hnc. rewrite (king_sq_is _ _ to Hcount Ht E) in Hnc.
  replace (opp (opp (stm p))) with (stm p) in Hnc by (destruct (stm p); reflexivity). congruence.
Qed.

(* ---- rights stay consistent with the board ---- *)
Lemma is_piece_untouched (p : position) (m : move) (s : N) c k :
  length (brd p) = 64%nat -> (match m with Normal from to _ => (from < 64)%N /\ (to < 64)%N | Castle _ => True end) ->
  touched p m s = false -> is_piece (move_board p m) s c k = is_piece (brd p) s c k.
Proof. intros. unfold is_piece. rewrite move_board_untouched by assumption. reflexivity. Qed.

Lemma pseudo_legal_bounds (p : position) from to pr : pseudo_legal p (Normal from to pr) = true -> (from < 64)%N /\ (to < 64)%N.
Proof. cbn [pseudo_legal]. intro H. apply andb_prop in H as [H _]. apply andb_prop in H as [A B]. apply N.ltb_lt in A, B. split; assumption. Qed.

Lemma pseudo_legal_mover (p : position) from to pr : pseudo_legal p (Normal from to pr) = true ->
  exists k, bget (brd p) from = Some (stm p, k) /\ is_color (brd p) to (stm p) = false.
Proof.
  cbn [pseudo_legal]. intro H. apply andb_prop in H as [_ H].
  destruct (bget (brd p) from) as [[c k]|]; [|discriminate H].
  apply andb_prop in H as [H _]. apply andb_prop in H as [A B]. apply color_eqb_true in A. subst c.
  apply negb_true_iff in B. exists k. split; [reflexivity|exact B].
Qed.

(* the en-passant victim stands on the mover's rank, which is never a back rank *)
Lemma ep_victim_not_back (p : position) from to : game_inv p -> (from < 64)%N -> (to < 64)%N ->
  is_ep_capture p from to = true -> 1 <= rank_of (ep_victim p from to) <= 6 .
Proof.
  intros Hv Hf Ht H. destruct (Hv) as [_ [_ [_ [_ [Hnp _]]]]].
  unfold is_ep_capture in H. apply andb_prop in H as [H _]. apply andb_prop in H as [Hp _].
  unfold no_pawn_on_back_ranks in Hnp. rewrite forallb_forall in Hnp. specialize (Hnp from (proj1 (in_all_squares from) Hf)).
  assert (Hr : 0 <= rank_of from < 8) by (split; [apply rank_of_nonneg|apply rank_of_lt8; exact Hf]).
  assert (Hff : 0 <= file_of to < 8) by (rewrite file_of_mod; lia).
  assert (Hrf : rank_of from <> 0 /\ rank_of from <> 7).
  { destruct ((rank_of from =? 0) || (rank_of from =? 7)) eqn:E.
    - cbn [negb orb] in Hnp. apply negb_true_iff in Hnp. apply orb_false_iff in Hnp as [A B].
      destruct (stm p); congruence.
    - apply orb_false_iff in E as [A B]. apply Z.eqb_neq in A, B. split; assumption. }
  unfold ep_victim. destruct (file_rank_of_sq (file_of to) (rank_of from) Hff ltac:(lia)) as [_ R].
  rewrite R. lia.
Qed.

Lemma sq_rank (f r : Z) : 0 <= f < 8 -> 0 <= r -> rank_of (sq_of f r) = r.
Proof. intros. apply file_rank_of_sq; assumption. Qed.

(* one right: if it survives the move, its king and rook still stand on their home squares *)
Lemma right_survives (p : position) (m : move) (col : color) (ks : bool) :
  game_inv p -> pseudo_legal p m = true ->
  has_right (move_rights p m) col ks = true ->
  is_piece (move_board p m) (sq_of 4 (home_rank col)) col King = true /\
  is_piece (move_board p m) (sq_of (if ks then 7 else 0) (home_rank col)) col Rook = true.
Proof.
  intros Hv Hpl Hr. destruct (Hv) as [Hl [_ [_ [_ [_ [Hrc _]]]]]].
  set (K := sq_of 4 (home_rank col)). set (R := sq_of (if ks then 7 else 0) (home_rank col)).
  (* before the move the right was there and the pieces stood at home *)
  assert (Hold : has_right (rights p) col ks = true /\
                 ((match m with Castle _ => true | Normal from _ _ => is_piece (brd p) from (stm p) King end && color_eqb col (stm p)) || touches m R) = false).
  { unfold move_rights in Hr. destruct col, ks; cbn [has_right wk wq bk bq] in Hr; apply andb_prop in Hr as [A B]; apply negb_true_iff in B; split; assumption. }
  destruct Hold as [Hhad Hlose]. apply orb_false_iff in Hlose as [Hkm Htouch].
  assert (Hhome : is_piece (brd p) K col King = true /\ is_piece (brd p) R col Rook = true).
  { unfold rights_consistent in Hrc.
    apply andb_prop in Hrc as [Hrc H6]. apply andb_prop in Hrc as [Hrc H5]. apply andb_prop in Hrc as [Hrc H4].
    apply andb_prop in Hrc as [Hrc H3]. apply andb_prop in Hrc as [H1 H2].
    assert (EL : forall a b : bool, negb a || b = true -> a = true -> b = true) by (intros [] []; cbn; congruence).
    unfold K, R. destruct col, ks; cbn [has_right] in Hhad; cbn [home_rank];
      change (sq_of 4 0) with 4%N; change (sq_of 7 0) with 7%N; change (sq_of 0 0) with 0%N;
      change (sq_of 4 7) with 60%N; change (sq_of 7 7) with 63%N; change (sq_of 0 7) with 56%N; split.
    - apply (EL _ _ H1). rewrite Hhad. reflexivity.
    - apply (EL _ _ H3). exact Hhad.
    - apply (EL _ _ H1). rewrite Hhad. apply orb_true_r.
    - apply (EL _ _ H4). exact Hhad.
    - apply (EL _ _ H2). rewrite Hhad. reflexivity.
    - apply (EL _ _ H5). exact Hhad.
    - apply (EL _ _ H2). rewrite Hhad. apply orb_true_r.
    - apply (EL _ _ H6). exact Hhad. }
  destruct Hhome as [HK HR].
  assert (HKR : K <> R) by (unfold K, R; destruct col, ks; cbn; discriminate).
  (* neither home square is touched *)
  assert (Hbounds : match m with Normal from to _ => (from < 64)%N /\ (to < 64)%N | Castle _ => True end).
  { destruct m as [from to pr|]; [apply (pseudo_legal_bounds p from to pr Hpl)|exact I]. }
  assert (HtK : touched p m K = false /\ touched p m R = false).
  { destruct m as [from to pr|cks].
    - destruct Hbounds as [Hf Ht]. destruct (pseudo_legal_mover p from to pr Hpl) as [k [Hfrom Hnotown]].
      cbn [touches] in Htouch. apply orb_false_iff in Htouch as [T1 T2].
      assert (HfK : (K =? from)%N = false).
      { destruct (K =? from)%N eqn:E; [|reflexivity]. apply N.eqb_eq in E. subst from. exfalso.
        unfold is_piece in HK. rewrite Hfrom in HK. apply andb_prop in HK as [C1 C2]. apply color_eqb_true in C1. apply kind_eqb_true in C2. subst k.
        unfold is_piece in Hkm. rewrite Hfrom in Hkm. rewrite (proj2 (color_eqb_true (stm p) (stm p)) eq_refl) in Hkm. cbn [kind_eqb andb] in Hkm.
        rewrite C1 in Hkm. rewrite (proj2 (color_eqb_true (stm p) (stm p)) eq_refl) in Hkm. discriminate Hkm. }
      assert (HtKk : (K =? to)%N = false).
      { destruct (K =? to)%N eqn:E; [|reflexivity]. apply N.eqb_eq in E. subst to. exfalso.
        destruct (color_eqb col (stm p)) eqn:Ec.
        - apply color_eqb_true in Ec. subst col. unfold is_color in Hnotown. unfold is_piece in HK.
          destruct (bget (brd p) K) as [[c' k']|]; [|discriminate HK]. apply andb_prop in HK as [C1 _]. congruence.
        - pose proof (no_king_capture p from K pr Hv Hpl) as Hnk.
          assert (Eco : col = opp (stm p)) by (clear - Ec; destruct col, (stm p); try reflexivity; discriminate Ec).
          rewrite Eco in HK. rewrite Hnk in HK. discriminate HK. }
      assert (Hvict : is_ep_capture p from to = true -> (K =? ep_victim p from to)%N = false /\ (R =? ep_victim p from to)%N = false).
      { intro Hep. pose proof (ep_victim_not_back p from to Hv Hf Ht Hep) as Hrk.
        assert (RK : rank_of K = home_rank col) by (unfold K; apply sq_rank; [lia|destruct col; cbn; lia]).
        assert (RR : rank_of R = home_rank col) by (unfold R; apply sq_rank; [destruct ks; lia|destruct col; cbn; lia]).
        split; (destruct (_ =? ep_victim p from to)%N eqn:E; [apply N.eqb_eq in E; rewrite <- E in Hrk; destruct col; cbn [home_rank] in *; lia|reflexivity]). }
      unfold touched. rewrite HfK, HtKk. rewrite (N.eqb_sym R from), (N.eqb_sym R to), T1, T2. cbn [orb].
      destruct (is_ep_capture p from to) eqn:Eep; cbn [andb]; [destruct (Hvict eq_refl) as [V1 V2]; rewrite V1, V2|]; split; reflexivity.
    - (* castling: the mover loses both rights; the other colour's home rank is not touched *)
      cbn [andb] in Hkm. assert (Hc : col <> stm p) by (intro X; subst col; rewrite (proj2 (color_eqb_true (stm p) (stm p)) eq_refl) in Hkm; discriminate Hkm).
      unfold touched, K, R. destruct col, (stm p), ks, cks; try congruence; cbn; split; reflexivity. }
  destruct HtK as [T1 T2].
  rewrite (is_piece_untouched p m K col King Hl Hbounds T1), (is_piece_untouched p m R col Rook Hl Hbounds T2). split; assumption.
Qed.

Theorem rights_consistent_step (p : position) (m : move) :
  game_inv p -> pseudo_legal p m = true -> rights_consistent (move_board p m) (move_rights p m) = true.
Proof.
  intros Hv Hpl.
  assert (S : forall col ks, has_right (move_rights p m) col ks = true ->
            is_piece (move_board p m) (sq_of 4 (home_rank col)) col King = true /\
            is_piece (move_board p m) (sq_of (if ks then 7 else 0) (home_rank col)) col Rook = true)
    by (intros; apply right_survives; assumption).
  unfold rights_consistent.
  pose proof (S White true) as W1. pose proof (S White false) as W2. pose proof (S Black true) as B1. pose proof (S Black false) as B2.
  cbn [has_right home_rank] in W1, W2, B1, B2.
  change (sq_of 4 0) with 4%N in *. change (sq_of 7 0) with 7%N in *. change (sq_of 0 0) with 0%N in *.
  change (sq_of 4 7) with 60%N in *. change (sq_of 7 7) with 63%N in *. change (sq_of 0 7) with 56%N in *.
  destruct (wk (move_rights p m)); destruct (wq (move_rights p m)); destruct (bk (move_rights p m)); destruct (bq (move_rights p m));
    cbn [negb orb];
    repeat match goal with
           | H : true = true -> _ |- _ => specialize (H eq_refl); destruct H as [? ?]
           | H : false = true -> _ |- _ => clear H
           end;
    repeat match goal with H : is_piece _ _ _ _ = true |- _ => rewrite H; clear H end; reflexivity.
Qed.

(* end of file marker *)
Lemma validstep_compiled : True. Proof. exact I. Qed.
