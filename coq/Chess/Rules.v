(* The rules of chess (FIDE Laws, articles 3 and 5/9 as far as the properties need them),
   written as executable boolean definitions over a plain 64-square board.
   This file is the SPEC: it never mentions bitboards, magic tables or the engine's encodings. *)
From CV Require Export Base.Geom.
Local Open Scope Z_scope.

Inductive color := White | Black.
Inductive kind := Pawn | Knight | Bishop | Rook | Queen | King.
Definition piece := (color * kind)%type.

Definition color_eqb (a b : color) : bool :=
  match a, b with White, White | Black, Black => true | _, _ => false end.
Definition kind_eqb (a b : kind) : bool :=
  match a, b with
  | Pawn, Pawn | Knight, Knight | Bishop, Bishop | Rook, Rook | Queen, Queen | King, King => true
  | _, _ => false
  end.
Definition opp (c : color) : color := match c with White => Black | Black => White end.

(* squares are indices 0..63, a1 = 0, b1 = 1, ..., h8 = 63 *)
Definition board := list (option piece).
Definition bget (b : board) (s : N) : option piece := nth (N.to_nat s) b None.
Fixpoint set_nth {A} (l : list A) (n : nat) (x : A) : list A :=
  match l, n with
  | [], _ => []
  | _ :: t, O => x :: t
  | h :: t, S k => h :: set_nth t k x
  end.
Definition set (b : board) (s : N) (x : option piece) : board := set_nth b (N.to_nat s) x.

Record castling := { wk : bool; wq : bool; bk : bool; bq : bool }.
Record position := {
  brd : board;
  stm : color;
  rights : castling;
  ep : option N;        (* the square a pawn skipped on the last move, if that was a double step *)
  clock : Z;            (* half-moves since the last capture or pawn move *)
  fullmove : Z
}.

Inductive move :=
| Normal (from to : N) (promo : option kind)
| Castle (king_side : bool).

Definition is_piece (b : board) (s : N) (c : color) (k : kind) : bool :=
  match bget b s with Some (c', k') => color_eqb c c' && kind_eqb k k' | None => false end.
Definition is_color (b : board) (s : N) (c : color) : bool :=
  match bget b s with Some (c', _) => color_eqb c c' | None => false end.
Definition is_empty (b : board) (s : N) : bool :=
  match bget b s with None => true | Some _ => false end.

(* ---- how pieces attack (Art. 3.2 - 3.8) ---- *)

(* all squares strictly between a and b (which must be aligned) are empty *)
Fixpoint path_clear (b : board) (f r df dr : Z) (tf tr : Z) (fuel : nat) : bool :=
  match fuel with
  | O => false
  | S k =>
    let f' := f + df in
    let r' := r + dr in
    if (f' =? tf) && (r' =? tr) then true
    else if on_board f' r' then is_empty b (sq_of f' r') && path_clear b f' r' df dr tf tr k
    else false
  end.

Definition slides (b : board) (a s : N) (diag orth : bool) : bool :=
  let df := file_of s - file_of a in
  let dr := rank_of s - rank_of a in
  let is_diag := (Z.abs df =? Z.abs dr) && negb (df =? 0) in
  let is_orth := ((df =? 0) || (dr =? 0)) && negb ((df =? 0) && (dr =? 0)) in
  ((diag && is_diag) || (orth && is_orth)) &&
  path_clear b (file_of a) (rank_of a) (sgn df) (sgn dr) (file_of s) (rank_of s) 7.

Definition pawn_dir (c : color) : Z := match c with White => 1 | Black => -1 end.

(* does the piece (c,k) standing on a attack square s? *)
Definition piece_attacks (b : board) (c : color) (k : kind) (a s : N) : bool :=
  let df := file_of s - file_of a in
  let dr := rank_of s - rank_of a in
  match k with
  | Pawn => (Z.abs df =? 1) && (dr =? pawn_dir c)
  | Knight => ((Z.abs df =? 1) && (Z.abs dr =? 2)) || ((Z.abs df =? 2) && (Z.abs dr =? 1))
  | King => (Z.max (Z.abs df) (Z.abs dr) =? 1)
  | Bishop => slides b a s true false
  | Rook => slides b a s false true
  | Queen => slides b a s true true
  end.

(* square s is attacked by some piece of colour c *)
Definition attacked (b : board) (c : color) (s : N) : bool :=
  existsb (fun a => match bget b a with
                    | Some (c', k) => color_eqb c c' && piece_attacks b c k a s
                    | None => false
                    end) all_squares.

Definition king_sq (b : board) (c : color) : option N :=
  find (fun s => is_piece b s c King) all_squares.

Definition in_check (b : board) (c : color) : bool :=
  match king_sq b c with Some k => attacked b (opp c) k | None => false end.

(* ---- castling geometry ---- *)
Definition home_rank (c : color) : Z := match c with White => 0 | Black => 7 end.
Definition has_right (cr : castling) (c : color) (king_side : bool) : bool :=
  match c, king_side with
  | White, true => wk cr | White, false => wq cr | Black, true => bk cr | Black, false => bq cr
  end.

(* ---- pseudo-legal moves: geometry and occupancy, without king safety (Art. 3) ---- *)
Definition promo_ok (o : option kind) : bool :=
  match o with Some Knight | Some Bishop | Some Rook | Some Queen => true | _ => false end.

Definition pawn_move_ok (p : position) (c : color) (from to : N) (promo : option kind) : bool :=
  let b := brd p in
  let df := file_of to - file_of from in
  let dr := rank_of to - rank_of from in
  let d := pawn_dir c in
  let last := match c with White => 7 | Black => 0 end in
  let start := match c with White => 1 | Black => 6 end in
  (if rank_of to =? last then promo_ok promo else match promo with None => true | _ => false end) &&
  ( ((df =? 0) && (dr =? d) && is_empty b to)
    || ((df =? 0) && (dr =? 2 * d) && (rank_of from =? start)
        && is_empty b (sq_of (file_of from) (rank_of from + d)) && is_empty b to)
    || ((Z.abs df =? 1) && (dr =? d)
        && (is_color b to (opp c)
            || (match ep p with Some e => (e =? to)%N | None => false end))) ).

Definition castle_ok (p : position) (king_side : bool) : bool :=
  let b := brd p in
  let c := stm p in
  let r := home_rank c in
  has_right (rights p) c king_side &&
  is_piece b (sq_of 4 r) c King &&
  is_piece b (sq_of (if king_side then 7 else 0) r) c Rook &&
  (if king_side then is_empty b (sq_of 5 r) && is_empty b (sq_of 6 r)
   else is_empty b (sq_of 3 r) && is_empty b (sq_of 2 r) && is_empty b (sq_of 1 r)) &&
  negb (attacked b (opp c) (sq_of 4 r)) &&
  negb (attacked b (opp c) (sq_of (if king_side then 5 else 3) r)) &&
  negb (attacked b (opp c) (sq_of (if king_side then 6 else 2) r)).

Definition pseudo_legal (p : position) (m : move) : bool :=
  match m with
  | Castle ks => castle_ok p ks
  | Normal from to promo =>
    (from <? 64)%N && (to <? 64)%N &&
    match bget (brd p) from with
    | Some (c, k) =>
      color_eqb c (stm p) && negb (is_color (brd p) to c) &&
      match k with
      | Pawn => pawn_move_ok p c from to promo
      | _ => (match promo with None => true | _ => false end) && piece_attacks (brd p) c k from to
      end
    | None => false
    end
  end.

(* ---- making a move (Art. 3, 5; FEN bookkeeping) ---- *)
Definition is_ep_capture (p : position) (from to : N) : bool :=
  is_piece (brd p) from (stm p) Pawn &&
  match ep p with Some e => (e =? to)%N | None => false end &&
  negb (file_of from =? file_of to).

Definition is_capture (p : position) (m : move) : bool :=
  match m with
  | Castle _ => false
  | Normal from to _ => negb (is_empty (brd p) to) || is_ep_capture p from to
  end.

Definition move_board (p : position) (m : move) : board :=
  let b := brd p in
  let c := stm p in
  match m with
  | Castle ks =>
    let r := home_rank c in
    let b1 := set (set b (sq_of 4 r) None) (sq_of (if ks then 6 else 2) r) (Some (c, King)) in
    set (set b1 (sq_of (if ks then 7 else 0) r) None) (sq_of (if ks then 5 else 3) r) (Some (c, Rook))
  | Normal from to promo =>
    let moved := match promo with Some k => Some (c, k) | None => bget b from end in
    let b1 := if is_ep_capture p from to then set b (sq_of (file_of to) (rank_of from)) None else b in
    set (set b1 from None) to moved
  end.

Definition touches (m : move) (s : N) : bool :=
  match m with Normal from to _ => (from =? s)%N || (to =? s)%N | Castle _ => false end.

Definition move_rights (p : position) (m : move) : castling :=
  let cr := rights p in
  let c := stm p in
  let king_moves := match m with
                    | Castle _ => true
                    | Normal from _ _ => is_piece (brd p) from c King
                    end in
  let lose (col : color) (ks : bool) :=
      (king_moves && color_eqb col c) || touches m (sq_of (if ks then 7 else 0) (home_rank col)) in
  {| wk := wk cr && negb (lose White true); wq := wq cr && negb (lose White false);
     bk := bk cr && negb (lose Black true); bq := bq cr && negb (lose Black false) |}.

Definition move_ep (p : position) (m : move) : option N :=
  match m with
  | Castle _ => None
  | Normal from to _ =>
    if is_piece (brd p) from (stm p) Pawn && (Z.abs (rank_of to - rank_of from) =? 2)
    then Some (sq_of (file_of from) ((rank_of from + rank_of to) / 2)) else None
  end.

Definition resets_clock (p : position) (m : move) : bool :=
  match m with
  | Castle _ => false
  | Normal from _ _ => is_piece (brd p) from (stm p) Pawn || is_capture p m
  end.

Definition make_move (p : position) (m : move) : position :=
  {| brd := move_board p m;
     stm := opp (stm p);
     rights := move_rights p m;
     ep := move_ep p m;
     clock := if resets_clock p m then 0 else clock p + 1;
     fullmove := match stm p with White => fullmove p | Black => fullmove p + 1 end |}.

(* ---- legality (Art. 3.9: a move may not leave or place one's own king in check) ---- *)
Definition legal (p : position) (m : move) : bool :=
  pseudo_legal p m && negb (in_check (move_board p m) (stm p)).

(* ---- executable enumeration ---- *)
Definition promos : list (option kind) := [Some Queen; Some Rook; Some Bishop; Some Knight].
Definition candidates_from (p : position) (from : N) : list move :=
  match bget (brd p) from with
  | Some (c, k) =>
    if color_eqb c (stm p) then
      flat_map (fun to =>
        match k with
        | Pawn => if (rank_of to =? 7) || (rank_of to =? 0)
                  then map (fun pr => Normal from to pr) promos
                  else [Normal from to None]
        | _ => [Normal from to None]
        end) all_squares
    else []
  | None => []
  end.
Definition candidates (p : position) : list move :=
  flat_map (candidates_from p) all_squares ++ [Castle true; Castle false].
Definition legal_moves (p : position) : list move := filter (legal p) (candidates p).

Definition checkmate (p : position) : bool :=
  in_check (brd p) (stm p) && match legal_moves p with [] => true | _ => false end.
Definition stalemate (p : position) : bool :=
  negb (in_check (brd p) (stm p)) && match legal_moves p with [] => true | _ => false end.

(* ---- the quantifier of C01 as a boolean: one-ply retro-legal positions ---- *)
Definition count_piece (b : board) (c : color) (k : kind) : nat :=
  length (filter (fun s => is_piece b s c k) all_squares).

Definition rights_consistent (b : board) (cr : castling) : bool :=
  (negb (wk cr || wq cr) || is_piece b 4%N White King) &&
  (negb (bk cr || bq cr) || is_piece b 60%N Black King) &&
  (negb (wk cr) || is_piece b 7%N White Rook) && (negb (wq cr) || is_piece b 0%N White Rook) &&
  (negb (bk cr) || is_piece b 63%N Black Rook) && (negb (bq cr) || is_piece b 56%N Black Rook).

(* the en-passant square must come from a double push that was itself legal *)
Definition ep_consistent (p : position) : bool :=
  match ep p with
  | None => true
  | Some e =>
    let c := stm p in             (* side to move now; opp c pushed *)
    let d := pawn_dir (opp c) in  (* direction of the pushed pawn *)
    let f := file_of e in
    let r := rank_of e in
    (e <? 64)%N &&
    (r =? match c with White => 5 | Black => 2 end) &&
    is_empty (brd p) e &&
    is_empty (brd p) (sq_of f (r - d)) &&
    is_piece (brd p) (sq_of f (r + d)) (opp c) Pawn &&
    (* before the push the side now to move was not in check *)
    negb (in_check (set (set (brd p) (sq_of f (r + d)) None) (sq_of f (r - d)) (Some (opp c, Pawn))) c)
  end.

Definition kinds : list kind := [Pawn; Knight; Bishop; Rook; Queen; King].
Definition no_pawn_on_back_ranks (b : board) : bool :=
  forallb (fun s => negb ((rank_of s =? 0) || (rank_of s =? 7)) ||
                    negb (is_piece b s White Pawn || is_piece b s Black Pawn)) all_squares.

Definition valid_position (p : position) : bool :=
  let b := brd p in
  (length b =? 64)%nat &&
  (count_piece b White King =? 1)%nat && (count_piece b Black King =? 1)%nat &&
  match king_sq b White, king_sq b Black with
  | Some k1, Some k2 => 1 <? cheb k1 k2
  | _, _ => false
  end &&
  negb (in_check b (opp (stm p))) &&
  no_pawn_on_back_ranks b &&
  rights_consistent b (rights p) &&
  ep_consistent p &&
  forallb (fun c => forallb (fun k => (count_piece b c k <=? 10)%nat) kinds) [White; Black] &&
  (0 <=? clock p) && (1 <=? fullmove p).

(* ---- games ---- *)
Fixpoint play (p : position) (ms : list move) : position :=
  match ms with [] => p | m :: r => play (make_move p m) r end.
Fixpoint legal_line (p : position) (ms : list move) : bool :=
  match ms with [] => true | m :: r => legal p m && legal_line (make_move p m) r end.

Definition empty_board : board := repeat None 64.
Definition back_rank : list kind := [Rook; Knight; Bishop; Queen; King; Bishop; Knight; Rook].
Definition initial_board : board :=
  map (fun k => Some (White, k)) back_rank ++ repeat (Some (White, Pawn)) 8 ++ repeat None 32
  ++ repeat (Some (Black, Pawn)) 8 ++ map (fun k => Some (Black, k)) back_rank.
Definition initial_position : position :=
  {| brd := initial_board; stm := White;
     rights := {| wk := true; wq := true; bk := true; bq := true |};
     ep := None; clock := 0; fullmove := 1 |}.

(* forced mate: the side to move mates within n of its own moves, whatever the defence *)
Fixpoint forced_mate_within (n : nat) (p : position) : bool :=
  match n with
  | O => false
  | S k =>
    existsb (fun m =>
      let q := make_move p m in
      checkmate q ||
      (negb (match legal_moves q with [] => true | _ => false end) &&
       forallb (fun m' => forced_mate_within k (make_move q m')) (legal_moves q)))
      (legal_moves p)
  end.
(* the side to move cannot avoid being mated within n moves of the opponent *)
Definition forced_loss_within (n : nat) (p : position) : bool :=
  checkmate p ||
  (negb (match legal_moves p with [] => true | _ => false end) &&
   forallb (fun m => forced_mate_within n (make_move p m)) (legal_moves p)).
