(* the en-passant square after a move is consistent with the board (Rules.ep_consistent), for every pseudo-legal move of a valid position *)
From CV Require Import Chess.Rules Chess.RulesFacts Chess.ValidStep Base.Geom Base.FileRank Base.Bits.
From Coq Require Import List ZArith Lia Bool.
Import ListNotations.
Local Open Scope Z_scope.
Local Strategy expand [count_piece king_sq attacked in_check valid_position].

Lemma board_ext (a b : board) : length a = length b -> (forall s, (N.to_nat s < length a)%nat -> bget a s = bget b s) -> a = b.
Proof.
  intros Hl H. apply (nth_ext a b None None Hl). intros n Hn. specialize (H (N.of_nat n)). unfold bget in H. rewrite Nat2N.id in H. apply H. exact Hn.
Qed.

Lemma sq_file_rank_id (s : N) : sq_of (file_of s) (rank_of s) = s.
Proof. apply sq_of_file_rank. Qed.

(* the shape of a double pawn push *)
Lemma double_push_shape (p : position) from to pr :
  pseudo_legal p (Normal from to pr) = true -> is_piece (brd p) from (stm p) Pawn = true -> Z.abs (rank_of to - rank_of from) = 2 ->
  file_of to = file_of from /\ rank_of to = rank_of from + 2 * pawn_dir (stm p) /\
  rank_of from = match stm p with White => 1 | Black => 6 end /\
  is_empty (brd p) (sq_of (file_of from) (rank_of from + pawn_dir (stm p))) = true /\ is_empty (brd p) to = true /\ pr = None.
Proof.
  intros H Hp Habs. cbn [pseudo_legal] in H. apply andb_prop in H as [Hb H]. apply andb_prop in Hb as [Hf Ht]. apply N.ltb_lt in Hf, Ht.
  unfold is_piece in Hp. destruct (bget (brd p) from) as [[c k]|]; [|discriminate Hp].
  apply andb_prop in Hp as [C1 C2]. apply color_eqb_true in C1. apply kind_eqb_true in C2. subst c k.
  apply andb_prop in H as [_ H]. unfold pawn_move_ok in H. cbv zeta in H. apply andb_prop in H as [Hpromo Halt].
  assert (Hrt : 0 <= rank_of to < 8) by (split; [apply rank_of_nonneg|apply rank_of_lt8; exact Ht]).
  assert (Hrf : 0 <= rank_of from < 8) by (split; [apply rank_of_nonneg|apply rank_of_lt8; exact Hf]).
  apply orb_prop in Halt as [Halt|Halt]; [apply orb_prop in Halt as [Halt|Halt]|].
  - exfalso. repeat (apply andb_prop in Halt; destruct Halt as [Halt ?]).
    match goal with K : (rank_of to - rank_of from =? pawn_dir _) = true |- _ => apply Z.eqb_eq in K; destruct (stm p); cbn [pawn_dir] in K; lia end.
  - repeat (apply andb_prop in Halt; destruct Halt as [Halt ?]).
    repeat match goal with K : (_ =? _) = true |- _ => apply Z.eqb_eq in K end.
    assert (pr = None).
    { destruct (rank_of to =? match stm p with White => 7 | Black => 0 end) eqn:E.
      - apply Z.eqb_eq in E. destruct (stm p); cbn [pawn_dir] in *; lia.
      - destruct pr; [discriminate Hpromo|reflexivity]. }
    repeat split; try assumption; lia.
  - exfalso. apply andb_prop in Halt as [Halt _]. apply andb_prop in Halt as [_ Halt]. apply Z.eqb_eq in Halt. destruct (stm p); cbn [pawn_dir] in Halt; lia.
Qed.

Theorem ep_consistent_step (p : position) (m : move) :
  game_inv p -> pseudo_legal p m = true -> ep_consistent (make_move p m) = true.
Proof.
  intros Hv Hpl. destruct (Hv) as [Hl [_ [_ [Hnc _]]]].
  unfold ep_consistent. cbn [ep stm brd make_move].
  destruct m as [from to pr|ks]; cbn [move_ep]; [|reflexivity].
  destruct (is_piece (brd p) from (stm p) Pawn && (Z.abs (rank_of to - rank_of from) =? 2)) eqn:E; [|reflexivity].
  apply andb_prop in E as [Hpawn Habs]. apply Z.eqb_eq in Habs.
  destruct (pseudo_legal_bounds p from to pr Hpl) as [Hf Ht].
  destruct (double_push_shape p from to pr Hpl Hpawn Habs) as [Hfile [Hrank [Hstart [He1 [He2 Hpr]]]]]. subst pr.
  assert (Hff : 0 <= file_of from < 8) by (rewrite file_of_mod; lia).
  set (d := pawn_dir (stm p)) in *.
  assert (Hmid : (rank_of from + rank_of to) / 2 = rank_of from + d).
  { rewrite Hrank. replace (rank_of from + (rank_of from + 2 * d)) with ((rank_of from + d) * 2) by lia. apply Z.div_mul. lia. }
  rewrite Hmid.
  assert (Hd : d = 1 \/ d = -1) by (unfold d; destruct (stm p); cbn; lia).
  assert (Hmr : 0 <= rank_of from + d) by (destruct (stm p); cbn [pawn_dir] in *; unfold d in *; cbn in *; lia).
  set (e := sq_of (file_of from) (rank_of from + d)).
  assert (Hre : rank_of e = rank_of from + d) by (apply sq_rank; assumption).
  assert (Hfe : file_of e = file_of from) by (unfold e; apply file_rank_of_sq; assumption).
  assert (Hdo : pawn_dir (opp (opp (stm p))) = d) by (unfold d; destruct (stm p); reflexivity).
  cbv zeta. rewrite Hre, Hfe, Hdo.
  assert (Helt : (e <? 64)%N = true).
  { apply N.ltb_lt. unfold e, sq_of. destruct (stm p); cbn [pawn_dir] in *; unfold d in *; cbn in *; lia. }
  assert (Hrk : (rank_of from + d =? match opp (stm p) with White => 5 | Black => 2 end) = true).
  { apply Z.eqb_eq. destruct (stm p); cbn [opp pawn_dir] in *; unfold d in *; cbn in *; lia. }
  rewrite Helt, Hrk. cbn [andb].
  (* the three squares *)
  assert (Efrom : sq_of (file_of from) (rank_of from + d - d) = from) by (replace (rank_of from + d - d) with (rank_of from) by lia; apply sq_file_rank_id).
  assert (Eto : sq_of (file_of from) (rank_of from + d + d) = to).
  { replace (rank_of from + d + d) with (rank_of to) by lia. rewrite <- Hfile. apply sq_file_rank_id. }
  rewrite Efrom, Eto.
  assert (Hne1 : e <> from) by (intro X; rewrite X in Hre; lia).
  assert (Hne2 : e <> to) by (intro X; rewrite X in Hre; lia).
  assert (Hne3 : from <> to) by (intro X; rewrite <- X in Habs; lia).
  assert (Hnoep : is_ep_capture p from to = false).
  { unfold is_ep_capture. rewrite Hfile. rewrite Z.eqb_refl. cbn [negb]. apply andb_false_r. }
  assert (Hmoved : bget (brd p) from = Some (stm p, Pawn)).
  { unfold is_piece in Hpawn. destruct (bget (brd p) from) as [[c k]|]; [|discriminate Hpawn]. apply andb_prop in Hpawn as [C1 C2]. apply color_eqb_true in C1. apply kind_eqb_true in C2. subst. reflexivity. }
  cbn [move_board]. rewrite Hnoep. rewrite Hmoved.
  assert (Hlen1 : length (set (brd p) from None) = 64%nat) by (rewrite set_length; exact Hl).
  unfold is_empty, is_piece.
  rewrite !bget_set by (rewrite ?set_length, Hl; lia).
  rewrite (proj2 (N.eqb_neq e to) Hne2), (proj2 (N.eqb_neq e from) Hne1), (proj2 (N.eqb_neq from to) Hne3), !N.eqb_refl.
  unfold is_empty in He1. fold e in He1. destruct (bget (brd p) e); [discriminate He1|].
  replace (opp (opp (stm p))) with (stm p) by (destruct (stm p); reflexivity).
  rewrite (proj2 (color_eqb_true (stm p) (stm p)) eq_refl). cbn [kind_eqb andb].
  (* undoing the push gives the old board, where the side that has now the move was not in check *)
  assert (Eb : set (set (set (set (brd p) from None) to (Some (stm p, Pawn))) to None) from (Some (stm p, Pawn)) = brd p).
  { apply board_ext; [rewrite !set_length; reflexivity|]. intros s Hs. rewrite !set_length, Hl in Hs.
    rewrite !bget_set by (rewrite ?set_length, Hl; lia).
    destruct (s =? from)%N eqn:E1; [apply N.eqb_eq in E1; subst s; symmetry; exact Hmoved|].
    destruct (s =? to)%N eqn:E2; [apply N.eqb_eq in E2; subst s; unfold is_empty in He2; destruct (bget (brd p) to); [discriminate He2|reflexivity]|reflexivity]. }
  rewrite Eb. rewrite Hnc. reflexivity.
Qed.
