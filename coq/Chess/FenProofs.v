(* C16: fen_parse (fen_print p) = Some p for every position with a 64-square board, an on-board en-passant square and non-negative
   counters: tokenisation, the placement loop (FenPlacement.v), rights, en-passant square and the two decimal numbers. *)
From CV Require Import Chess.Rules Chess.Fen Chess.TextProofs Chess.FenPlacement Base.NIter.
From Coq Require Import List String Ascii ZArith Lia Bool.
Import ListNotations.
Local Open Scope string_scope.
Local Open Scope Z_scope.

(* ---- numbers ---- *)
From Coq Require Import DecimalString DecimalN DecimalPos Decimal.

Lemma to_uint_nonnil (n : N) : N.to_uint n <> Nil.
Proof. destruct n as [|p]; [discriminate|]. apply DecimalPos.Unsigned.to_uint_nonnil. Qed.

Lemma parse_print_Z (z : Z) : 0 <= z -> parse_Z (print_Z z) = Some z.
Proof.
  intro H. unfold parse_Z, print_Z. rewrite NilZero.usu by apply to_uint_nonnil.
  rewrite DecimalN.Unsigned.of_to. rewrite Z2N.id by exact H. reflexivity.
Qed.

(* ---- no spaces, not empty ---- *)
Fixpoint no_space (s : string) : bool :=
  match s with EmptyString => true | String c t => negb (Ascii.eqb c " ") && no_space t end.

Lemma no_space_app a b : no_space (a ++ b) = no_space a && no_space b.
Proof. induction a as [|c a IH]; [reflexivity|]. cbn. rewrite IH, andb_assoc. reflexivity. Qed.

Lemma no_space_uint d : no_space (NilEmpty.string_of_uint d) = true.
Proof. induction d; cbn; auto. Qed.
Lemma no_space_print_Z z : no_space (print_Z z) = true.
Proof. unfold print_Z, NilZero.string_of_uint. destruct (N.to_uint (Z.to_N z)); try reflexivity; apply (no_space_uint (_ u)) || cbn; auto using no_space_uint. Qed.

Lemma piece_char_not_space pc : Ascii.eqb (piece_char pc) " " = false.
Proof. destruct pc as [[] []]; reflexivity. Qed.
Lemma digit_char_not_space n : (n <= 9)%nat -> Ascii.eqb (digit_char n) " " = false.
Proof. intro H. do 10 (destruct n as [|n]; [reflexivity|]). lia. Qed.

Lemma no_space_print_rank l : forall run, (run + List.length l <= 9)%nat -> no_space (print_rank l run) = true.
Proof.
  induction l as [|x t IH]; intros run H; cbn [print_rank].
  - destruct run; [reflexivity|]. cbn [no_space]. rewrite digit_char_not_space by (cbn in H; lia). reflexivity.
  - destruct x as [pc|].
    + destruct run.
      * cbn [no_space]. rewrite piece_char_not_space. cbn [negb andb]. apply IH. cbn [List.length] in H. lia.
      * cbn [no_space]. rewrite digit_char_not_space by (cbn [List.length] in H; lia). rewrite piece_char_not_space. cbn [negb andb].
        apply IH. cbn [List.length] in H. lia.
    + apply IH. cbn [List.length] in H. lia.
Qed.

Lemma no_space_placement (b : board) : List.length b = 64%nat -> no_space (print_placement b) = true.
Proof.
  intro Hb. unfold print_placement. cbn [map concat].
  assert (R : forall r, (r < 8)%nat -> no_space (print_rank (rank_squares b r) 0) = true).
  { intros r Hr. apply no_space_print_rank. rewrite rank_squares_length by assumption. lia. }
  rewrite !no_space_app. rewrite !R by lia. reflexivity.
Qed.

Lemma split_on_nospace a : forall cur, no_space a = true -> split_on " " a cur = [cur ++ a].
Proof.
  induction a as [|c a IH]; intros cur H; cbn [split_on].
  { rewrite append_nil_r'. reflexivity. }
  cbn [no_space] in H. apply andb_prop in H as [H1 H2]. apply negb_true_iff in H1. rewrite H1.
  rewrite IH by exact H2. rewrite append_assoc'. reflexivity.
Qed.
Lemma split_on_app a : forall rest cur, no_space a = true ->
  split_on " " (a ++ String " " rest) cur = (cur ++ a) :: split_on " " rest "".
Proof.
  induction a as [|c a IH]; intros rest cur H; cbn [append split_on].
  - change (Ascii.eqb " " " ") with true. cbv iota. rewrite append_nil_r'. reflexivity.
  - cbn [no_space] in H. apply andb_prop in H as [H1 H2]. apply negb_true_iff in H1. rewrite H1.
    rewrite IH by exact H2. rewrite append_assoc'. reflexivity.
Qed.

Lemma nonempty_eqb s : s <> "" -> negb (String.eqb s "") = true.
Proof. destruct s; [congruence|reflexivity]. Qed.
Lemma app_cons_nonempty a c r : a ++ String c r <> "".
Proof. destruct a; discriminate. Qed.

Lemma print_Z_nonempty z : print_Z z <> "".
Proof.
  unfold print_Z, NilZero.string_of_uint. pose proof (to_uint_nonnil (Z.to_N z)) as H.
  destruct (N.to_uint (Z.to_N z)); discriminate.
Qed.

Lemma parse_print_rights cr : parse_rights (print_rights cr) no_rights = cr.
Proof. destruct cr as [[] [] [] []]; reflexivity. Qed.
Lemma rights_no_space cr : no_space (print_rights cr) = true.
Proof. destruct cr as [[] [] [] []]; reflexivity. Qed.
Lemma rights_nonempty cr : print_rights cr <> "".
Proof. destruct cr as [[] [] [] []]; discriminate. Qed.

Lemma square_name_facts (e : N) : (e < 64)%N -> no_space (square_name e) = true /\ String.eqb (square_name e) "-" = false.
Proof.
  intro H. assert (K : forallN 64 (fun e => no_space (square_name e) && negb (String.eqb (square_name e) "-")) = true) by (vm_compute; reflexivity).
  pose proof (forallN_spec _ _ K e H) as X. cbv beta in X. apply andb_prop in X as [X1 X2]. apply negb_true_iff in X2. split; assumption.
Qed.

(* ---- C16: loading the FEN that was printed gives back the position ---- *)
Theorem fen_roundtrip (p : position) :
  List.length (brd p) = 64%nat -> (forall e, ep p = Some e -> (e < 64)%N) -> 0 <= clock p -> 0 <= fullmove p ->
  fen_parse (fen_print p) = Some p.
Proof.
  intros Hb He Hc Hf. unfold fen_parse, fen_print.
  set (pl := print_placement (brd p)). set (sd := match stm p with White => "w" | Black => "b" end).
  set (cr := print_rights (rights p)). set (es := match ep p with Some e => square_name e | None => "-" end).
  set (hm := print_Z (clock p)). set (fm := print_Z (fullmove p)).
  assert (Npl : no_space pl = true) by (apply no_space_placement; exact Hb).
  assert (Nsd : no_space sd = true) by (unfold sd; destruct (stm p); reflexivity).
  assert (Ncr : no_space cr = true) by apply rights_no_space.
  assert (Nes : no_space es = true) by (unfold es; destruct (ep p) as [e|] eqn:E; [apply (square_name_facts e (He e eq_refl))|reflexivity]).
  assert (Nhm : no_space hm = true) by apply no_space_print_Z.
  assert (Nfm : no_space fm = true) by apply no_space_print_Z.
  assert (T : tokens (pl ++ " " ++ sd ++ " " ++ cr ++ " " ++ es ++ " " ++ hm ++ " " ++ fm) = [pl; sd; cr; es; hm; fm]).
  { unfold tokens. cbn [append].
    rewrite (split_on_app pl) by exact Npl. rewrite (split_on_app sd) by exact Nsd. rewrite (split_on_app cr) by exact Ncr.
    rewrite (split_on_app es) by exact Nes. rewrite (split_on_app hm) by exact Nhm. rewrite (split_on_nospace fm) by exact Nfm.
    cbn [append filter].
    rewrite (nonempty_eqb pl) by (unfold pl, print_placement; cbn [map concat]; rewrite ?append_assoc'; apply app_cons_nonempty).
    rewrite (nonempty_eqb sd) by (unfold sd; destruct (stm p); discriminate).
    rewrite (nonempty_eqb cr) by apply rights_nonempty.
    rewrite (nonempty_eqb es) by (unfold es; destruct (ep p); [unfold square_name|]; discriminate).
    rewrite (nonempty_eqb hm) by apply print_Z_nonempty. rewrite (nonempty_eqb fm) by apply print_Z_nonempty. reflexivity. }
  rewrite T. unfold pl. rewrite (placement_roundtrip (brd p) Hb). unfold hm, fm. rewrite (parse_print_Z _ Hc), (parse_print_Z _ Hf).
  assert (Eep : (if String.eqb es "-" then Some None else match parse_square es with Some x => Some (Some x) | None => None end) = Some (ep p)).
  { unfold es. destruct (ep p) as [e|] eqn:E; [|reflexivity].
    destruct (square_name_facts e (He e eq_refl)) as [_ X]. rewrite X. rewrite parse_square_name by (apply He; reflexivity). reflexivity. }
  rewrite Eep. unfold cr. rewrite parse_print_rights.
  assert (Es : (if String.eqb sd "w" then White else Black) = stm p) by (unfold sd; destruct (stm p); reflexivity).
  rewrite Es. destruct p; reflexivity.
Qed.

(* ... and the FEN printed after reloading is the same text *)
Corollary fen_print_parse_print (p : position) :
  List.length (brd p) = 64%nat -> (forall e, ep p = Some e -> (e < 64)%N) -> 0 <= clock p -> 0 <= fullmove p ->
  option_map fen_print (fen_parse (fen_print p)) = Some (fen_print p).
Proof. intros. rewrite fen_roundtrip by assumption. reflexivity. Qed.
