(* Facts about the rules spec: the enumeration is sound, complete and duplicate-free. *)
From CV Require Import Chess.Rules Base.FileRank.
From Coq Require Import Lia FinFun.
Local Open Scope Z_scope.

Lemma in_all_squares (s : N) : (s < 64)%N <-> In s all_squares.
Proof.
  unfold all_squares, range. rewrite in_map_iff. split.
  - intro H. exists (N.to_nat s). split; [apply N2Nat.id|]. apply in_seq. lia.
  - intros [n [<- Hn]]. apply in_seq in Hn. lia.
Qed.

Lemma NoDup_all_squares : NoDup all_squares.
Proof.
  unfold all_squares, range. apply Injective_map_NoDup.
  - intros a b H. apply Nat2N.inj. exact H.
  - apply seq_NoDup.
Qed.

Lemma NoDup_app_intro {B} (l1 l2 : list B) :
  NoDup l1 -> NoDup l2 -> (forall z, In z l1 -> In z l2 -> False) -> NoDup (l1 ++ l2).
Proof.
  induction l1 as [|b l1 IH1]; intros H1 H2 Hd; cbn; [exact H2|].
  inversion H1; subst. constructor.
  - intro Hin. apply in_app_or in Hin. destruct Hin as [Hin|Hin]; [contradiction|].
    apply (Hd b); [left; reflexivity|exact Hin].
  - apply IH1; [assumption|assumption|]. intros z Hz1 Hz2. apply (Hd z); [right; exact Hz1|exact Hz2].
Qed.

Lemma NoDup_flat_map {A B} (f : A -> list B) (l : list A) :
  NoDup l ->
  (forall x, In x l -> NoDup (f x)) ->
  (forall x y z, In x l -> In y l -> x <> y -> In z (f x) -> In z (f y) -> False) ->
  NoDup (flat_map f l).
Proof.
  induction l as [|a l IH]; intros Hnd Hf Hdisj; cbn [flat_map]; [constructor|].
  inversion Hnd as [|? ? Hnotin Hnd']; subst.
  apply NoDup_app_intro.
  - apply Hf. left. reflexivity.
  - apply IH; [exact Hnd'| |].
    + intros x Hx. apply Hf. right. exact Hx.
    + intros x y z Hx Hy. apply Hdisj; right; assumption.
  - intros z Hz1 Hz2. apply in_flat_map in Hz2. destruct Hz2 as [y [Hy Hzy]].
    apply (Hdisj a y z); [left; reflexivity|right; exact Hy| |exact Hz1|exact Hzy].
    intro E. subst y. contradiction.
Qed.

Definition wf_move (p : position) (m : move) : Prop := In m (candidates p).

Lemma rank_of_nonneg (s : N) : 0 <= rank_of s.
Proof. unfold rank_of. lia. Qed.

Lemma rank_of_lt8 (s : N) : (s < 64)%N -> rank_of s < 8.
Proof. intro H. rewrite rank_of_div. apply Z.div_lt_upper_bound; lia. Qed.

Lemma candidates_from_in (p : position) (from to : N) (promo : option kind) (c : color) (k : kind) :
  bget (brd p) from = Some (c, k) -> color_eqb c (stm p) = true -> (to < 64)%N ->
  (match k with
   | Pawn => if (rank_of to =? 7) || (rank_of to =? 0) then In promo promos else promo = None
   | _ => promo = None
   end) ->
  In (Normal from to promo) (candidates_from p from).
Proof.
  intros Hg Hc Ht Hp. unfold candidates_from. rewrite Hg, Hc.
  apply in_flat_map. exists to. split; [apply in_all_squares; exact Ht|].
  destruct k; try (subst promo; left; reflexivity).
  destruct ((rank_of to =? 7) || (rank_of to =? 0)).
  - apply in_map. exact Hp.
  - subst promo. left. reflexivity.
Qed.

Lemma promo_ok_in (o : option kind) : promo_ok o = true -> In o promos.
Proof.
  destruct o as [[]|]; cbn; intro H; try discriminate; auto.
Qed.

Lemma legal_wf (p : position) (m : move) : legal p m = true -> wf_move p m.
Proof.
  intros H. unfold wf_move, candidates. apply in_or_app.
  destruct m as [from to promo|ks].
  2:{ right. destruct ks; cbn; auto. }
  left. unfold legal in H. apply andb_prop in H. destruct H as [H _].
  cbn [pseudo_legal] in H.
  apply andb_prop in H. destruct H as [H Hrest].
  apply andb_prop in H. destruct H as [Hf Ht].
  apply N.ltb_lt in Hf, Ht.
  apply in_flat_map. exists from. split; [apply in_all_squares; exact Hf|].
  destruct (bget (brd p) from) as [[c k]|] eqn:Hg; [|discriminate].
  apply andb_prop in Hrest. destruct Hrest as [Hrest Hk].
  apply andb_prop in Hrest. destruct Hrest as [Hc _].
  eapply candidates_from_in; eauto.
  destruct k; try (apply andb_prop in Hk; destruct Hk as [Hk _]; destruct promo; [discriminate|reflexivity]).
  (* pawn *)
  unfold pawn_move_ok in Hk. apply andb_prop in Hk. destruct Hk as [Hpr Hgeo].
  pose proof (rank_of_nonneg from) as Hr0. pose proof (rank_of_lt8 from Hf) as Hr8.
  pose proof (rank_of_nonneg to) as Ht0. pose proof (rank_of_lt8 to Ht) as Ht8.
  assert (Hdr : rank_of to - rank_of from = pawn_dir c \/ rank_of to - rank_of from = 2 * pawn_dir c).
  { repeat (apply orb_prop in Hgeo; destruct Hgeo as [Hgeo|Hgeo]);
      repeat (apply andb_prop in Hgeo; let H2 := fresh in destruct Hgeo as [Hgeo H2]);
      repeat match goal with H : (_ =? _) = true |- _ => apply Z.eqb_eq in H end; auto. }
  destruct c; cbn [pawn_dir] in *.
  - (* white: last rank is 7; cannot reach rank 0 *)
    destruct (rank_of to =? 7) eqn:E7; cbn [orb].
    + apply promo_ok_in. exact Hpr.
    + destruct (rank_of to =? 0) eqn:E0; [apply Z.eqb_eq in E0; lia|].
      destruct promo; [discriminate|reflexivity].
  - destruct (rank_of to =? 0) eqn:E0.
    + rewrite orb_true_r. apply promo_ok_in. exact Hpr.
    + destruct (rank_of to =? 7) eqn:E7; [apply Z.eqb_eq in E7; lia|].
      cbn [orb]. destruct promo; [discriminate|reflexivity].
Qed.

Lemma legal_moves_spec (p : position) (m : move) :
  In m (legal_moves p) <-> (legal p m = true /\ wf_move p m).
Proof. unfold legal_moves, wf_move. rewrite filter_In. tauto. Qed.

Lemma NoDup_promos : NoDup promos.
Proof. repeat constructor; cbn; intuition discriminate. Qed.

Lemma NoDup_candidates_from (p : position) (from : N) : NoDup (candidates_from p from).
Proof.
  unfold candidates_from. destruct (bget (brd p) from) as [[c k]|]; [|constructor].
  destruct (color_eqb c (stm p)); [|constructor].
  apply NoDup_flat_map.
  - apply NoDup_all_squares.
  - intros to _. destruct k; try (constructor; [intros []|constructor]).
    destruct ((rank_of to =? 7) || (rank_of to =? 0)).
    + apply Injective_map_NoDup; [|apply NoDup_promos]. intros a b E. congruence.
    + constructor; [intros []|constructor].
  - intros x y z _ _ Hxy Hx Hy.
    assert (Hto : forall t, In z (match k with
        | Pawn => if (rank_of t =? 7) || (rank_of t =? 0) then map (fun pr => Normal from t pr) promos else [Normal from t None]
        | _ => [Normal from t None] end) -> exists pr, z = Normal from t pr).
    { intros t Hin. destruct k; try (destruct Hin as [<-|[]]; eauto).
      destruct ((rank_of t =? 7) || (rank_of t =? 0)).
      - apply in_map_iff in Hin. destruct Hin as [pr [<- _]]. eauto.
      - destruct Hin as [<-|[]]. eauto. }
    destruct (Hto x Hx) as [pr1 E1]. destruct (Hto y Hy) as [pr2 E2]. congruence.
Qed.

Lemma candidates_from_from (p : position) (from : N) (m : move) :
  In m (candidates_from p from) -> exists to pr, m = Normal from to pr.
Proof.
  unfold candidates_from. destruct (bget (brd p) from) as [[c k]|]; [|intros []].
  destruct (color_eqb c (stm p)); [|intros []].
  intro H. apply in_flat_map in H. destruct H as [to [_ H]].
  destruct k; try (destruct H as [<-|[]]; eauto).
  destruct ((rank_of to =? 7) || (rank_of to =? 0)).
  - apply in_map_iff in H. destruct H as [pr [<- _]]. eauto.
  - destruct H as [<-|[]]. eauto.
Qed.

Lemma NoDup_candidates (p : position) : NoDup (candidates p).
Proof.
  unfold candidates.
  assert (H1 : NoDup (flat_map (candidates_from p) all_squares)).
  { apply NoDup_flat_map.
    - apply NoDup_all_squares.
    - intros x _. apply NoDup_candidates_from.
    - intros x y z _ _ Hxy Hx Hy.
      apply candidates_from_from in Hx, Hy.
      destruct Hx as [t1 [p1 E1]]. destruct Hy as [t2 [p2 E2]]. congruence. }
  apply NoDup_app_intro.
  - exact H1.
  - repeat constructor; cbn; intuition discriminate.
  - intros z Hz1 Hz2. apply in_flat_map in Hz1. destruct Hz1 as [x [_ Hx]].
    apply candidates_from_from in Hx. destruct Hx as [t [pr E]]. subst z.
    destruct Hz2 as [E|[E|[]]]; discriminate.
Qed.

Lemma legal_moves_nodup (p : position) : NoDup (legal_moves p).
Proof. unfold legal_moves. apply NoDup_filter. apply NoDup_candidates. Qed.

Lemma legal_moves_iff (p : position) (m : move) : In m (legal_moves p) <-> legal p m = true.
Proof.
  rewrite legal_moves_spec. split; [tauto|]. intro H. split; [exact H|apply legal_wf; exact H].
Qed.
